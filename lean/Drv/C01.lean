import FqModel.Proto
import FqModel.Bits
import FqModel.Bitio
import FqModel.C01Readers
import FqModel.C01Spec
import FqModel.C01Bitiox
import FqModel.LargeObs
/-! driver for C01

  `r64 <hex buf> <firstBit> <nBits>`            TAB `<value>|panic`      bitio.Read64
  `w64 <v> <nBits> <hex buf> <firstBit>`        TAB `<hex buf'>|panic`   bitio.Write64
  `bw <nBits>:<hex> …`                          TAB `<hex written>`      bitio.IOBitWriter over a bytes.Buffer: WriteBits per chunk, then Flush
  `h <term> | <op> ; <op> ; …`                  TAB `<obs>;<obs>;…`      one history on one reader composition
  `bxr <term> | <off> <n> | <op> ; <op> ; …`    TAB `<ok|negn|outside|eof|off|oth|panic> <cursor|-> | <obs>;…`
                                                bitiox.Range(term, off, n): error class, SeekBits(0,current) of the ARGUMENT after the
                                                call, then the history on the RETURNED reader
  `bxc <term> | <w|b> <len(buf)|-1>`            TAB `<n> <hex> <error class>` | `panic`
                                                bitiox.CopyBitsBuffer / CopyBits (-1 = nil buffer) into a plain io.Writer (w) or a bytes.Buffer (b)

  term (prefix):  B <hex> <nBits|-1> | S <off> <n> T | M <k> T×k | Z <n> | L <n> T | I U | O (F <hex> | G <size> <seed>)
                  U: R <hex> | F <hex> | G <size> <seed> | A <minRead> U | P <precision> <total> U | C U | Y T | y T
  term W <k> <op,args>×k T : the reader T after k operations (commas instead of blanks), handed to the enclosing constructor in that state
  #k <op> : the operation on member k of the family {0 = original, 1, 2 … = its clones in creation order}; `#k cl` adds a clone of member k,
            an unprefixed `cl` adds a clone of the current member and continues on it; every member has its own cursor
  op:  ra n off | rd n | sk off s|c|e | cl | rf n | raf n off | ird n | isk off s|c|e | @i.j.k <op> (the same on the sub-reader at that child path: an aliased part)
  obs: `<n> <hex|-> <ok|eof|off|neg|ueof|oth>` | `panic` | `hang`
       (bit reads: hex of the n bits, last byte zero padded; seeks: n = position; rf/raf: n = returned value,
        hex = the bits read into p)

  `lg <kind> <seed> <nbytes> <off> <n> <pad> <args…>` TAB `<count> <error class> <fnv64 per 4096-byte block|-> <mm> [rc=<fnv64>]`
                                                LARGE DATA (> 64 KiB): D = splitmix64 bytes regenerated from the seed; the denoted bits are
                                                `pad` zero bits ++ bits [off, off+n) of D.  kinds rd (IOReader.Read in chunks), cp (bitiox.CopyBits*),
                                                bw (IOBitWriter in pieces + Flush), buf (bitio.Buffer write/read interleaving) — see harness/cmd/c01/large.go.
                                                Expected = the SPECIFICATION side of ioReader_bytes / copyBits_spec / ioBitWriter_flush / buffer_fifo
                                                (the zero padded packing of the denoted bits; FIFO counts), compared by length + block hashes.

  verdict: the property predicate (cursor over `den`) on the implementation's observations — independent of
  the operational model — then model observations = implementation observations.
-/
open FqModel FqModel.Proto FqModel.Bitio

/-! ### parsing -/

def genByte (seed i : Nat) : UInt8 := UInt8.ofNat ((i * 7 + i / 256 * 13 + seed) % 256)

def genData (size seed : Nat) : List UInt8 := (List.range size).map (genByte seed)

def parseInt (s : String) : Option Int := s.toInt?

inductive DOp
  | ra (n : Nat) (off : Int) | rd (n : Nat) | sk (off : Int) (w : Whence) | cl
  | rf (n : Nat) | raf (n : Nat) (off : Int) | ird (n : Nat) | isk (off : Int) (w : Whence)
  | at (path : List Nat) (op : DOp)   -- the same operation on the sub-reader at `path` (an aliased part)
  | on (k : Nat) (op : DOp)           -- the operation on member k of the family {original, clones…}
deriving Repr, Inhabited

def parseWhence : String → Option Whence
  | "s" => some .start | "c" => some .current | "e" => some .end_ | _ => none

def parseOp1 (ws : List String) : Option DOp :=
  match ws with
  | ["ra", n, off] => do pure (.ra (← n.toNat?) (← parseInt off))
  | ["rd", n] => do pure (.rd (← n.toNat?))
  | ["sk", off, w] => do pure (.sk (← parseInt off) (← parseWhence w))
  | ["cl"] => some .cl
  | ["rf", n] => do pure (.rf (← n.toNat?))
  | ["raf", n, off] => do pure (.raf (← n.toNat?) (← parseInt off))
  | ["ird", n] => do pure (.ird (← n.toNat?))
  | ["isk", off, w] => do pure (.isk (← parseInt off) (← parseWhence w))
  | _ => none

/-- `@i.j.k <op>` addresses the sub-reader at child path i.j.k (no clone there) -/
def parseOpWords (ws : List String) : Option DOp :=
  match ws with
  | w :: rest =>
    if w.startsWith "#" then do
      let k ← (w.drop 1).toString.toNat?
      match rest with
      | r1 :: _ => if r1.startsWith "#" then none else pure ()
      | [] => none
      let op ← (if (rest.head?.getD "").startsWith "@" then do
          let path ← (((rest.head?.getD "").drop 1).toString.splitOn ".").mapM (·.toNat?)
          match ← parseOp1 (rest.drop 1) with
          | .cl => none
          | op => pure (DOp.at path op)
        else parseOp1 rest)
      pure (.on k op)
    else if w.startsWith "@" then do
      let path ← ((w.drop 1).toString.splitOn ".").mapM (·.toNat?)
      match ← parseOp1 rest with
      | .cl => none
      | op => pure (.at path op)
    else parseOp1 ws
  | [] => none

def parseOp (s : String) : Option DOp := parseOpWords (words s)


def isBitOp : DOp → Bool
  | .ird _ | .isk _ _ => false
  | .at _ op => isBitOp op
  | .on _ op => isBitOp op
  | _ => true

def modelOp (s : Rd) (op : DOp) : Out :=
  match op with
  | .ra n off => step depthFuel s (.readAt n off)
  | .rd n => step depthFuel s (.read n)
  | .sk off w => step depthFuel s (.seek off w)
  | .cl => step depthFuel s .clone
  | .rf n => readFull depthFuel s n
  | .raf n off => readAtFull depthFuel s n off
  | .ird n => step depthFuel s (.readB n)
  | .isk off w => step depthFuel s (.seekB off w)
  | .at path op =>
    match op with
    | .ra n off => stepAt depthFuel path s (.readAt n off)
    | .rd n => stepAt depthFuel path s (.read n)
    | .sk off w => stepAt depthFuel path s (.seek off w)
    | .ird n => stepAt depthFuel path s (.readB n)
    | .isk off w => stepAt depthFuel path s (.seekB off w)
    | .rf n => readFullLoop (fun s n _ => stepAt depthFuel path s (.read n)) n 0 (n + 2) s
        (List.replicate (bitsByteCount n) 0) 0 0
    | .raf n off => readFullLoop (fun s n o => stepAt depthFuel path s (.readAt n o)) n off (n + 2) s
        (List.replicate (bitsByteCount n) 0) 0 0
    | _ => .unsupported "clone of a part"
  | .on _ _ => .unsupported "family op"


abbrev Marks := List (List Nat × Nat)

def under (i : Nat) (ms : Marks) : Marks := ms.map (fun (p, c) => (i :: p, c))

/-- term parser; `fuel` bounds the recursion (number of tokens).  Third component: for every `W` node (a reader
    that was used before being composed) its path and the cursor it had when it was handed to the constructor. -/
def parseTerm : Nat → List String → Option (Rd × List String × Marks)
  | 0, _ => none
  | fuel+1, ws =>
    match ws with
    | "B" :: hex :: nb :: rest => do
      let data ← bytesOfHex hex
      let nBits ← (if nb == "-1" then some none else nb.toNat?.map some)
      pure (newBitReader data nBits, rest, [])
    | "S" :: off :: n :: rest => do
      let off ← off.toNat?
      let n ← n.toNat?
      let (r, rest, ms) ← parseTerm fuel rest
      pure (newSect r off n, rest, under 0 ms)
    | "M" :: k :: rest => do
      let k ← k.toNat?
      let rec loop : Nat → Nat → List String → List Rd → Marks → Option (List Rd × List String × Marks)
        | 0, _, rest, acc, ms => some (acc.reverse, rest, ms)
        | k+1, i, rest, acc, ms => do
          let (r, rest, m1) ← parseTerm fuel rest
          loop k (i + 1) rest (r :: acc) (ms ++ under i m1)
      let (rs, rest, ms) ← loop k 0 rest [] []
      match newMulti rs with
      | .ok m => pure (m, rest, ms)
      | _ => none
    | "Z" :: n :: rest => do
      let n ← n.toNat?
      pure (.zero 0 n, rest, [])
    | "L" :: n :: rest => do
      let n ← n.toNat?
      let (r, rest, ms) ← parseTerm fuel rest
      pure (.limit r n, rest, under 0 ms)
    | "I" :: rest => do
      let (b, rest, ms) ← parseTerm fuel rest
      pure (newIOBits b, rest, under 0 ms)
    | "O" :: rest => do
      -- the reader stack of interp._open over a file, with the constants regenerated from pkg/interp/binary.go
      let (leaf, rest, _) ← parseTerm fuel rest
      match leaf with
      | .raw data _ _ => pure (openStackOn leaf data.length, rest, [])
      | _ => none
    | "W" :: k :: rest => do
      -- a reader on which k operations were performed BEFORE it is handed to the enclosing constructor
      let k ← k.toNat?
      let opsS := rest.take k
      let (r, rest, ms) ← parseTerm fuel (rest.drop k)
      let ops ← opsS.mapM (fun t => parseOpWords (t.splitOn ","))
      let r ← ops.foldlM (fun r op => match modelOp r op with | .ok (r', _) => some r' | _ => none) r
      pure (r, rest, ([], posOf r) :: ms)
    | "R" :: hex :: rest => do
      let data ← bytesOfHex hex
      pure (.raw data 0 false, rest, [])
    | "F" :: hex :: rest => do
      let data ← bytesOfHex hex
      pure (.raw data 0 true, rest, [])
    | "G" :: size :: seed :: rest => do
      let size ← size.toNat?
      let seed ← seed.toNat?
      pure (.raw (genData size seed) 0 true, rest, [])
    | "A" :: m :: rest => do
      let m ← m.toNat?
      let (b, rest, ms) ← parseTerm fuel rest
      pure (.ahead b m 0 [] 0, rest, under 0 ms)
    | "P" :: prec :: total :: rest => do
      let prec ← prec.toNat?
      let total ← total.toNat?
      if prec = 0 then none else
      let (b, rest, ms) ← parseTerm fuel rest
      pure (newProgress b prec total, rest, under 0 ms)
    | "C" :: rest => do
      let (b, rest, ms) ← parseTerm fuel rest
      pure (.ctx b, rest, under 0 ms)
    | "Y" :: rest => do
      let (r, rest, ms) ← parseTerm fuel rest
      pure (.ioBytes r true none {} 0, rest, under 0 ms)
    | "y" :: rest => do
      let (r, rest, ms) ← parseTerm fuel rest
      pure (.ioBytes r false none {} 0, rest, under 0 ms)
    | _ => none

/-! ### observations -/

inductive Obs
  | res (n : Int) (data : List UInt8) (err : String)
  | panic | hang
deriving Repr, BEq, Inhabited

def errStr : Option Err → String
  | none => "ok" | some .eof => "eof" | some .offset => "off" | some .negNBits => "neg"
  | some .unexpectedEOF => "ueof" | some .seek => "oth" | some .other => "oth"

def hexOrDash (bs : List UInt8) : String := if bs.isEmpty then "-" else hexOfBytes bs

def Obs.str : Obs → String
  | .res n d e => s!"{n} {hexOrDash d} {e}"
  | .panic => "panic" | .hang => "hang"

def parseObs (s : String) : Option Obs :=
  match words s with
  | ["panic"] => some .panic
  | ["hang"] => some .hang
  | [n, hex, e] => do
    let n ← parseInt n
    let d ← bytesOfHex hex
    if ["ok", "eof", "off", "neg", "ueof", "oth"].contains e then pure (.res n d e) else none
  | _ => none

/-! ### the model on a history -/

def resObs (op : DOp) (r : Res) : Obs :=
  match op with
  | .ird _ | .at _ (.ird _) => .res r.n r.bytes (errStr r.err)
  | .isk _ _ | .sk _ _ | .cl | .at _ (.isk _ _) | .at _ (.sk _ _) => .res r.n [] (errStr r.err)
  | .on _ op => match op with
    | .ird _ | .at _ (.ird _) => .res r.n r.bytes (errStr r.err)
    | .isk _ _ | .sk _ _ | .cl | .at _ (.isk _ _) | .at _ (.sk _ _) => .res r.n [] (errStr r.err)
    | _ => .res r.n (packR r.bits) (errStr r.err)
  | _ => .res r.n (packR r.bits) (errStr r.err)

/-- the member of the family an op addresses (`#k op`: member k; otherwise the current one) and the plain op -/
def target (cur : Nat) : DOp → Nat × DOp
  | .on k op => (k, op)
  | op => (cur, op)

/-- model observations, quirk flags accumulated up to and including each op, fault message.
    State: the family of cursors (original + clones, `adopt` propagates what an op did to the shared part) and the
    index of the current member (an unprefixed `cl` continues on the clone, as before). -/
def runModel : List Rd → Nat → List DOp → Nat → List (Obs × Nat × String) × Option String
  | _, _, [], _ => ([], none)
  | cs, cur, op0 :: ops, q =>
    let (k, op) := target cur op0
    match cs[k]? with
    | none => ([], some "no such cursor")
    | some s =>
      match modelOp s op with
      | .ok (s', r) =>
        let q := q ||| r.q
        let isCl := match op with | .cl => true | _ => false
        let cs' := if isCl then cs ++ [s'] else (cs.set k s').mapIdx (fun j c => if j = k then c else adopt s' c)
        let cur' := match op0 with | .cl => cs.length | _ => cur
        let (rest, bad) := runModel cs' cur' ops q
        ((resObs op r, q, "") :: rest, bad)
      | .fault why => ([(.panic, q, why)], none)
      | .hang => ([(.hang, q, "")], none)
      | .unsupported why => ([], some why)

/-! ### the property predicate: a cursor over the denoted bit string -/

/-- the denoted bit string as a length and a slice accessor (so that a 600 KiB file is never
    expanded into a list of 5 M bits); cross-checked against `den` on small compositions -/
structure DenF where
  len : Nat
  get : Nat → Nat → Bits     -- get off n = slice den off n (clamped at the end)

def bytesDenF (a : Array UInt8) : DenF :=
  ⟨8 * a.size, fun off n =>
    let first := off / 8
    let cnt := (off % 8 + n + 7) / 8
    slice (bytesToBits (a.extract first (first + cnt)).toList) (off % 8) n⟩

def DenF.sect (d : DenF) (base n : Nat) : DenF :=
  let len := min n (d.len - base)
  ⟨len, fun off k => if off ≥ len then [] else d.get (base + off) (min k (len - off))⟩

def DenF.append (a b : DenF) : DenF :=
  ⟨a.len + b.len, fun off k =>
    if off ≥ a.len then b.get (off - a.len) k
    else
      let x := a.get off k
      if x.length < k then x ++ b.get 0 (k - x.length) else x⟩

def DenF.empty : DenF := ⟨0, fun _ _ => []⟩

def DenF.zero (n : Nat) : DenF := ⟨n, fun off k => List.replicate (min k (n - off)) false⟩

mutual
def denF : Rd → DenF
  | .sect r base _ limit => (denF r).sect base (limit - base)
  | .multi rs _ _ => denFList rs
  | .zero _ n => DenF.zero n
  | .limit r n => (denF r).sect 0 n
  | .ioBits b _ _ => bytesDenF (denByF b)
  | .raw data _ _ => bytesDenF data.toArray
  | .ahead b _ _ _ _ => bytesDenF (denByF b)
  | .progress b _ => bytesDenF (denByF b)
  | .ctx b => bytesDenF (denByF b)
  | .ioBytes r _ _ _ _ => let d := denF r; bytesDenF (packR (d.get 0 d.len)).toArray
def denFList : List Rd → DenF
  | [] => DenF.empty
  | r :: rs => (denF r).append (denFList rs)
def denByF : Rd → Array UInt8
  | .raw data _ _ => data.toArray
  | .ahead b _ _ _ _ => denByF b
  | .progress b _ => denByF b
  | .ctx b => denByF b
  | .ioBytes r _ _ _ _ =>
    let d := denF r
    (packR (d.get 0 d.len)).toArray
  | _ => #[]
end

structure Cur where
  bit : Bool                 -- bit reader on top (else byte reader)
  d : DenF
  dB : Array UInt8
  pos : Int := 0
  rem : Option Nat := none   -- LimitReader budget
  small : Option Bits := none  -- `den` as a list, for the cross-check of `DenF`
  seekLimit : Nat := 0         -- seeks to 0..seekLimit must be accepted
  unalignedView : Bool := false  -- byte view (IOReadSeeker) of a bit string whose length is not a byte multiple
  endAt : Option Nat := none     -- top SectionReader: SeekBits(o, end) is relative to the NOMINAL end bitLimit-bitBase
                                 -- (sectiontreader.go:52), which for an overhanging section lies beyond the clamped data

def mkCur (s : Rd) : Cur :=
  match s with
  | .limit r n => { bit := true, d := denF r, dB := #[], rem := some n,
                    small := if (denF r).len ≤ 4096 then some (den r) else none }
  | .sect .. | .multi .. | .zero .. | .ioBits .. =>
    { bit := true, d := denF s, dB := #[], small := if (denF s).len ≤ 4096 then some (den s) else none,
      seekLimit := (denF s).len,
      endAt := match s with | .sect _ base _ limit => some (limit - base) | _ => none }
  | .ioBytes r .. =>
    -- a byte view of a bit string whose length is not a byte multiple: the padded last byte is not seekable
    let a := denByF s
    { bit := false, d := DenF.empty, dB := a, seekLimit := (denF r).len / 8, unalignedView := (denF r).len % 8 != 0 }
  | _ =>
    let a := denByF s
    { bit := false, d := DenF.empty, dB := a, seekLimit := a.size }

def firstDiff (a b : Bits) : Nat := ((a.zip b).takeWhile (fun (x, y) => x == y)).length

inductive PV | ok | fail (why : String) | bad (why : String)

/-- read of (up to) `n` bits at bit position `p`; `k` bits `bits` were returned with error class `e`;
    `full` = the call promises all n bits or an error (ReadFull) -/
def checkBitRead (c : Cur) (p : Int) (n : Nat) (k : Int) (data : List UInt8) (e : String) : PV :=
  if k < 0 then .fail s!"negative count {k}" else
  let k := k.toNat
  if k > n then .fail s!"{k} bits returned, {n} requested" else
  let all := bytesToBits data
  if all.length < k then .bad "observation has fewer bits than n" else
  let bits := all.take k
  let over : Bool := match c.rem with
    | some r => decide (k > r)
    | none => false
  if over then .fail s!"{k} bits returned beyond the limit {c.rem.getD 0}" else
    if p < 0 then (if k > 0 then .fail "bits returned at a negative offset" else .ok) else
    let p := p.toNat
    let expected := c.d.get p k
    let selfcheck := match c.small with
      | some l => expected == slice l p k
      | none => true
    if !selfcheck then .bad "DenF and den disagree" else
    if expected.length < k then .fail s!"{k} bits returned at {p}, logical end is {c.d.len}" else
    if bits != expected then .fail s!"bit {firstDiff bits expected} of the read at {p} differs from the data" else
    let atEnd := p + k ≥ c.d.len || c.rem == some k
    if e == "eof" && !atEnd then .fail s!"eof at {p}+{k}, logical end is {c.d.len}" else
    if e != "ok" && e != "eof" && k > 0 then .fail s!"error {e} together with data" else
    if e != "ok" && e != "eof" && p < c.d.len then .fail s!"error {e} inside the data" else
    if e == "ok" && k == 0 && n > 0 && p < c.d.len && c.rem != some 0 then .fail s!"no progress at {p}" else
    .ok

def checkByteRead (c : Cur) (p : Int) (n : Nat) (k : Int) (data : List UInt8) (e : String) : PV :=
  if k < 0 then .fail s!"negative count {k}" else
  let k := k.toNat
  if k > n then .fail s!"{k} bytes returned, {n} requested" else
  if data.length != k then .bad "observation length differs from n" else
  if p < 0 then (if k > 0 then .fail "bytes returned at a negative offset" else .ok) else
  let p := p.toNat
  let expected := (c.dB.extract p (p + k)).toList
  if expected.length < k then .fail s!"{k} bytes returned at {p}, logical end is {c.dB.size}" else
  if data != expected then .fail s!"byte {((data.zip expected).takeWhile (fun (x, y) => x == y)).length} of the read at {p} differs from the data" else
  if e == "eof" && p + k < c.dB.size then .fail s!"eof at {p}+{k}, logical end is {c.dB.size}" else
  if e != "ok" && e != "eof" && p < c.dB.size then .fail s!"error {e} inside the data" else
  if e == "ok" && k == 0 && n > 0 && p < c.dB.size then .fail s!"no progress at {p}" else
  .ok

def whenceBase (w : Whence) (pos : Int) (len : Nat) : Int :=
  match w with | .start => 0 | .current => pos | .end_ => len

/-- one step of the specification cursor; returns the verdict and the next cursor -/
def checkOp (c : Cur) (op : DOp) (o : Obs) : PV × Cur :=
  match o with
  | .panic => (.fail "panic", c)
  | .hang => (.fail "hang", c)
  | .res k data e =>
    if c.bit != isBitOp op then (.bad "op kind does not fit the reader kind", c) else
    match op with
    | .ra n off => (checkBitRead c off n k data e, c)
    | .rd n =>
      let pv := checkBitRead c c.pos n k data e
      (pv, { c with pos := c.pos + k, rem := c.rem.map (· - k.toNat) })
    | .raf n off =>
      let got : Int := if e == "ok" then k else n - k
      let pv := if e == "ok" && k != n then PV.fail s!"ReadAtFull returned {k} of {n} without error"
        else if e != "ok" && off ≥ 0 && off + n ≤ c.d.len then PV.fail s!"ReadAtFull error {e} although the data is there"
        else checkBitRead c off n got data (if e == "ok" then "ok" else e)
      (pv, c)
    | .rf n =>
      let got : Int := if e == "ok" then k else n - k
      let avail := c.pos ≥ 0 && c.pos + n ≤ c.d.len && (match c.rem with | some r => n ≤ r | none => true)
      let pv := if e == "ok" && k != n then PV.fail s!"ReadFull returned {k} of {n} without error"
        else if e != "ok" && avail then PV.fail s!"ReadFull error {e} although the data is there"
        else checkBitRead c c.pos n got data (if e == "ok" then "ok" else e)
      (pv, { c with pos := c.pos + got, rem := c.rem.map (· - got.toNat) })
    | .sk off w =>
      let target := whenceBase w c.pos (match w, c.endAt with | .end_, some e => e | _, _ => c.d.len) + off
      if e == "ok" then
        if k != target then (.fail s!"seek reported {k}, expected {target}", { c with pos := k })
        else if k < 0 then (.fail s!"seek to negative position {k} accepted", { c with pos := k })
        else (.ok, { c with pos := k })
      else if 0 ≤ target && target ≤ c.seekLimit then (.fail s!"valid seek to {target} rejected ({e})", c)
      else (.ok, c)
    | .cl => if e == "ok" then (.ok, { c with pos := 0 }) else (.fail "clone failed", c)
    | .at _ _ => (.bad "nested path", c)
    | .on _ _ => (.bad "nested family op", c)
    | .ird n =>
      let pv := checkByteRead c c.pos n k data e
      (pv, { c with pos := c.pos + k })
    | .isk off w =>
      let target := whenceBase w c.pos c.dB.size + off
      if e == "ok" then
        if k != target then (.fail s!"seek reported {k}, expected {target}", { c with pos := k })
        else if k < 0 then (.fail s!"seek to negative position {k} accepted", { c with pos := k })
        else (.ok, { c with pos := k })
      else if 0 ≤ target && target ≤ c.seekLimit then (.fail s!"valid seek to {target} rejected ({e})", c)
      else (.ok, c)

def knownKey (q : Nat) (_why : String) : Option String :=
  if q &&& qIoSeek ≠ 0 then some "ioreadseeker-unaligned-seek" else none

/-- the sub-reader at `path`, provided every reader above it only uses the part's ReadBitsAt (SectionReader,
    MultiReader): then the part's own cursor is moved by nothing but the operations addressed to it -/
partial def subAt : Rd → List Nat → Option Rd
  | s, [] => some s
  | .sect r _ _ _, 0 :: p => subAt r p
  | .multi rs _ _, i :: p => match rs[i]? with
    | some r => subAt r p
    | none => none
  | _, _ => none

def isBitKind : Rd → Bool
  | .sect .. | .multi .. | .zero .. | .ioBits .. => true
  | _ => false

def lookupCur (pcs : List (List Nat × Cur)) (path : List Nat) : Option Cur :=
  (pcs.find? (fun x => x.1 == path)).map (·.2)

/-- `sm`: the state the operational model starts from; `s`: the reader the specification cursor (`denF`) is taken from
    (the same reader, except for `bxr`, where `sm` is what the model of bitiox.Range returned and `s` is the
    section written down directly) -/
def histVerdictOn (sm s : Rd) (marks : Marks) (ops : List DOp) (impl : List Obs) : String := Id.run do
  let (model, bad) := runModel [sm] 0 ops 0
  if let some why := bad then return s!"BADOP model: {why}"
  -- correspondence
  let mobs := model.map (·.1)
  let mut div := ""
  if mobs != impl then
    let i := ((mobs.zip impl).takeWhile (fun (a, b) => a == b)).length
    let m := match mobs[i]? with | some o => o.str | none => "(no such op: the model stopped)"
    div := s!"op{i}:{m}"
  -- the predicate on the implementation's observations
  if impl.length > ops.length then return "BADOP more observations than ops"
  let mark (path : List Nat) : Int := match marks.find? (fun x => x.1 == path) with
    | some (_, p) => p
    | none => 0
  -- the top reader's cursor.  LimitReader and IOReader CONSUME their source through its ReadBits: they start where the
  -- source stood when it was handed over, and LimitReader's cursor IS the source's cursor (shared with `@0` ops)
  let src : Option Rd := match s with
    | .limit r _ => some r
    | .ioBytes r _ _ _ _ => some r
    | _ => none
  let isLimit := match s with | .limit .. => true | _ => false
  let isSeekView := match s with | .ioBytes _ true _ _ _ => true | _ => false
  let mut c := mkCur s
  let mut taintTop := false
  match s with
  | .limit _ _ => c := { c with pos := mark [0] }
  | .ioBytes r _ _ _ _ =>
    if mark [0] != 0 then
      if isSeekView then taintTop := true   -- IOReadSeeker.Seek addresses the source absolutely: no single byte view
      else
        let d := denF r
        let m := (mark [0]).toNat
        c := { c with dB := (packR (d.get m (d.len - m))).toArray }
  | _ => c := { c with pos := mark [] }
  let mut pcs : List (List Nat × Cur) := []
  let mut fail : Option (Nat × String) := none
  let mut idx := 0
  -- the family {original, clones}: every member has a cursor of its own over the same bits (a clone starts at 0;
  -- a LimitReader clone keeps the remaining budget); `c` is the cursor of the member the op addresses
  let mut fam : Array Cur := #[c]
  let mut curIdx := 0
  for (op0, o) in ops.zip impl do
    let (k, op) := target curIdx op0
    if h : k < fam.size then c := fam[k] else return "BADOP no such cursor"
    let famBefore := fam.size
    match op with
    | .at path inner =>
      -- an aliased part: its own cursor (where it stood when it was handed to the constructor, then moved only by
      -- the operations addressed to it) over its own bits
      let target : Option Rd := match src, path with
        | some r, 0 :: p => subAt r p
        | some _, _ => none
        | none, p => subAt s p
      match target with
      | some sub =>
        if isBitKind sub then
          if src.isSome && path == [0] then
            if isLimit then
              -- the source of a LimitReader: one cursor for both
              let (pv, cur') := checkOp { mkCur sub with pos := c.pos } inner o
              c := { c with pos := cur'.pos }
              match pv with
              | .bad why => return s!"BADOP {why}"
              | .fail why => if fail.isNone then fail := some (idx, s!"part @{path}: {why}")
              | .ok => pure ()
            else taintTop := true   -- reading the source of an IOReader directly: its bit buffer is ahead of the source
          else
            let cur := match lookupCur pcs path with
              | some cur => cur
              | none => { mkCur sub with pos := mark path }
            let (pv, cur') := checkOp cur inner o
            pcs := (path, cur') :: pcs.filter (fun x => x.1 != path)
            match pv with
            | .bad why => return s!"BADOP {why}"
            | .fail why => if fail.isNone then fail := some (idx, s!"part @{path}: {why}")
            | .ok => pure ()
      | none => pure ()   -- below a reader that consumes the part's ReadBits: compared with the model only
    | .cl =>
      -- the clone: a new member at position 0; the cloned member is untouched
      let ok := match o with | .res _ _ e => e == "ok" | _ => false
      if ok then
        fam := fam.push { c with pos := 0 }
        match op0 with
        | .cl => curIdx := famBefore
        | _ => pure ()
      else if fail.isNone then fail := some (idx, "clone failed")
    | _ =>
      if !taintTop then
        let (pv, c') := checkOp c op o
        c := c'
        match pv with
        | .bad why => return s!"BADOP {why}"
        | .fail why => if fail.isNone then fail := some (idx, why)
        | .ok => pure ()
    match op with
    | .cl => pure ()
    | _ => fam := fam.setIfInBounds k c
    idx := idx + 1
  let last := impl.getLast?
  if impl.length < ops.length && !(last == some .panic || last == some .hang) then
    return "BADOP fewer observations than ops"
  match fail with
  | some (i, why) =>
    -- a modelled, documented quirk class? only when the model reproduces the implementation exactly
    let (q, fw) := match model[i]? with | some (_, q, fw) => (q, fw) | none => (0, "")
    -- … or a seek from current/end on the byte view of a bit string of unaligned length (same finding:
    -- IOReadSeeker.Seek works on the bit position of the source, not on the padded byte view)
    let relSeek := match ops[i]? with
      | some (.isk _ .current) | some (.isk _ .end_) => c.unalignedView
      | _ => false
    let key := if !div.isEmpty then none
      else if relSeek then some "ioreadseeker-unaligned-seek" else knownKey q fw
    match key with
    | some k => return s!"KNOWN {k} op{i}: {why}"
    | none => return s!"PROPFAIL op{i}: {why}" ++ (if div.isEmpty then "" else s!" ;DIVERGE model={div}")
  | none => return (if div.isEmpty then "OK" else s!"DIVERGE model={div}")

def histVerdict (s : Rd) (marks : Marks) (ops : List DOp) (impl : List Obs) : String := histVerdictOn s s marks ops impl

/-! ### bitiox.Range / CopyBits cases -/

def splitTrim (s : String) (sep : String) : List String := (s.splitOn sep).map (fun x => x.trimAscii.toString)

def bxrVerdict (t sa so obs : String) : String :=
  let tws := (words t).drop 1
  match parseTerm (tws.length + 1) tws, (words sa).mapM parseInt, (splitTrim so ";").filter (· ≠ "") |>.mapM parseOp,
      splitTrim obs "|" with
  | some (arg, [], marks), some [off, n], some ops, [head, hobs] =>
    match words head, ((splitTrim hobs ";").filter (· ≠ "")).mapM parseObs with
    | [cls, cur], some impl =>
      if !(["ok", "negn", "outside", "eof", "off", "neg", "ueof", "oth", "panic"].contains cls) then "BADOP class" else
      -- the model of bitiox.Range on the same argument
      let (mhead, ms, mq) : String × Option Rd × Nat := match bxRange (step depthFuel) arg off n with
        | .ok (arg', res, q) =>
          let c := match res with
            | .ok _ | .okNegBase _ _ => "ok"
            | .lenErr e => errStr (some e)
            | .negativeNBits => "negn"
            | .outsideBuffer => "outside"
          let s := match res with | .ok s => some s | _ => none
          (s!"{c} {posOf arg'}", s, q)
        | .fault _ => ("panic -", none, 0)
        | .hang => ("hang -", none, 0)
        | .unsupported why => (s!"unsupported {why}", none, 0)
      if mhead.startsWith "unsupported" then s!"BADOP model: {mhead}" else
      let div := if mhead == s!"{cls} {cur}" then "" else s!" ;DIVERGE model={mhead}"
      -- the property, on the implementation's observation: the three exits by the length of the denoted bits, and
      -- the argument's cursor is where it was (off < 0 with off + n ≤ len: outside the quantifier, model only)
      let len : Int := (denF arg).len
      let cur0 : Int := match marks.find? (fun x => x.1 == []) with | some (_, p) => p | none => 0
      let expected : Option String :=
        if n < 0 then some "negn" else if off + n > len then some "outside" else if off ≥ 0 then some "ok" else none
      let bad : Option String :=
        match expected with
        | some e =>
          if e != cls then some s!"Range({off},{n}) on {len} bits: {cls}, expected {e}"
          else if cur != toString cur0 then some s!"the argument's cursor is {cur} after Range, it was {cur0}"
          else none
        | none => none
      match bad with
      | some why => if mq &&& qIoSeek ≠ 0 && div.isEmpty then s!"KNOWN ioreadseeker-unaligned-seek {why}" else s!"PROPFAIL {why}{div}"
      | none =>
        if !div.isEmpty then s!"DIVERGE model={mhead}" else
        if cls == "ok" && off ≥ 0 then
          match ms with
          | some s => histVerdictOn s (newSect arg off.toNat n.toNat) [] ops impl
          | none => "BADOP model returned no reader"
        else if impl.isEmpty then "OK" else "BADOP observations without a reader"
    | _, _ => "BADOP obs"
  | _, _, _, _ => "BADOP bxr syntax"

def bxcVerdict (t sm obs : String) : String :=
  let tws := (words t).drop 1
  match parseTerm (tws.length + 1) tws, words sm with
  | some (src, [], _), [mode, sk] =>
    match parseInt sk with
    | none => "BADOP buffer length"
    | some k =>
      if mode != "w" && mode != "b" then "BADOP mode" else
      let buf : Option Nat := if k < 0 then none else some k.toNat
      -- what is left of the source at its cursor (LimitReader: at most its budget)
      let (d, lim) : DenF × Option Nat := match src with
        | .limit r m => (denF r, some m)
        | s => (denF s, none)
      let p := posOf src
      let cnt := match lim with | some m => min m (d.len - p) | none => d.len - p
      let fuel := bitsByteCount cnt + 2
      let out := if mode == "w" then copyBitsBuffer depthFuel src buf fuel
        else copyBitsReadFrom depthFuel src buf (List.replicate fuel 512)
      let (model, q) := match out with
        | .ok (_, res) => (s!"{res.n} {hexOrDash res.bytes} {errStr res.err}", res.q)
        | .fault _ => ("panic", 0)
        | .hang => ("hang", 0)
        | .unsupported why => (s!"unsupported {why}", 0)
      if model.startsWith "unsupported" then s!"BADOP model: {model}" else
      let obs := obs.trimAscii.toString
      let div := if model == obs then "" else s!" ;DIVERGE model={model}"
      -- the property: the bytes are the zero padded packing of the bits, count = their number, no error
      -- (a non-nil empty buffer is outside its hypothesis: io.CopyBuffer panics)
      let expB := packR (d.get p cnt)
      let expected := s!"{expB.length} {hexOrDash expB} ok"
      if k != 0 && obs != expected then
        if q &&& qIoSeek ≠ 0 && div.isEmpty then s!"KNOWN ioreadseeker-unaligned-seek copy = {obs}"
        else s!"PROPFAIL copy = {obs}, the packed bits are {expected}{div}"
      else if div.isEmpty then "OK" else s!"DIVERGE model={model}"
  | _, _ => "BADOP bxc syntax"

/-! ### Read64 / Write64 / IOBitWriter cases -/

def r64Verdict (hex sfb snb obs : String) : String :=
  match bytesOfHex hex, sfb.toNat?, snb.toNat? with
  | some buf, some fb, some nb =>
    let model := match read64 buf fb nb with
      | .ok v => toString v | .fault _ => "panic" | .hang => "hang" | .unsupported _ => "unsupported"
    let bits := bytesToBits buf
    let inRange := fb + nb ≤ bits.length ∧ nb ≤ 64
    let expected := toString (ofBitsBE (slice bits fb nb))
    let div := if model == obs then "" else s!" ;DIVERGE model={model}"
    if inRange ∧ obs != expected then s!"PROPFAIL Read64 = {obs}, the bits are {expected}{div}"
    else if div.isEmpty then "OK" else s!"DIVERGE model={model}"
  | _, _, _ => "BADOP parse"

def w64Verdict (sv snb hex sfb obs : String) : String :=
  match sv.toNat?, snb.toNat?, bytesOfHex hex, sfb.toNat? with
  | some v, some nb, some buf, some fb =>
    let model := match write64 v nb buf fb with
      | .ok b => hexOrDash b | .fault _ => "panic" | .hang => "hang" | .unsupported _ => "unsupported"
    let bits := bytesToBits buf
    let inRange := fb + nb ≤ bits.length ∧ nb ≤ 64 ∧ v < 2 ^ nb
    let div := if model == obs then "" else s!" ;DIVERGE model={model}"
    let good := match bytesOfHex obs with
      | some b' => bytesToBits b' == bits.take fb ++ toBitsBE nb v ++ bits.drop (fb + nb)
      | none => false
    if inRange ∧ !good then s!"PROPFAIL Write64 result {obs}{div}"
    else if div.isEmpty then "OK" else s!"DIVERGE model={model}"
  | _, _, _, _ => "BADOP parse"

def parseChunk (s : String) : Option (Nat × List UInt8) :=
  match s.splitOn ":" with
  | [n, hex] => do pure (← n.toNat?, ← bytesOfHex hex)
  | _ => none

def bwVerdict (chunks : List String) (obs : String) : String :=
  match chunks.mapM parseChunk with
  | none => "BADOP parse"
  | some cs =>
    if cs.any (fun (n, b) => n > 8 * b.length) then "BADOP chunk shorter than nBits" else
    let model : Outcome BitWriter := do
      let w ← cs.foldlM (fun w (n, b) => w.writeBits b n) ({} : BitWriter)
      w.flush
    let ms := match model with
      | .ok w => hexOrDash w.out | .fault _ => "panic" | .hang => "hang" | .unsupported _ => "unsupported"
    let all : Bits := cs.flatMap (fun (n, b) => (bytesToBits b).take n)
    let expected := hexOrDash (bitsToBytesPadR all)
    let div := if ms == obs then "" else s!" ;DIVERGE model={ms}"
    if obs != expected then s!"PROPFAIL written {obs}, expected {expected}{div}"
    else if div.isEmpty then "OK" else s!"DIVERGE model={ms}"

/-! ### large data: the byte view / the writers beyond 64 KiB (specification side of the theorems, block hashes) -/

def fnvStr (h : UInt64) (s : String) : UInt64 := s.toUTF8.foldl (fun h b => (h ^^^ b.toUInt64) * 0x100000001b3) h

/-- the hash of the sequence of counts a FIFO returns for the write/read schedule of kind `buf` (large.go) -/
def bufCountsHash (n : Nat) (ps : Array Nat) : UInt64 := Id.run do
  let mut h : UInt64 := 0xcbf29ce484222325
  let mut done := 0
  let mut avail := 0
  let mut i := 0
  for _ in [0:n + 1] do
    if done ≥ n then break
    let k := min (ps[(2 * i) % ps.size]!) (n - done)
    done := done + k
    avail := avail + k
    let c := min (ps[(2 * i + 1) % ps.size]!) avail
    avail := avail - c
    h := fnvStr h s!"{c},"
    i := i + 1
  for _ in [0:n + 2] do
    let c := min (max 1 (ps[(2 * i + 1) % ps.size]!)) avail
    avail := avail - c
    h := fnvStr h s!"{c},"
    i := i + 1
    if c == 0 then break
  return h

def parsePieces (s : String) : Option (Array Nat) := do
  let l ← (s.splitOn ",").mapM (·.toNat?)
  if l.isEmpty || l.any (· == 0) then none else pure l.toArray

def lgVerdict (ws : List String) (obs : String) : String :=
  match ws with
  | kind :: seed :: nbytes :: off :: n :: pad :: args =>
    match seed.toNat?, nbytes.toNat?, off.toNat?, n.toNat?, pad.toNat? with
    | some seed, some nbytes, some off, some n, some pad =>
      if off + n > 8 * nbytes || pad ≥ 8 || nbytes > 3000000 then "BADOP lg range" else
      let srcOk (s : String) := ["s", "i", "m", "l"].contains s && pad == 0 || s == "t" && pad > 0
      -- expected error class, whether `count` is in bits, expected rc
      let spec : Option (String × Bool × Option String) := match kind, args with
        | "rd", [s, c] => match c.toNat? with
          | some c => if srcOk s && c > 0 then some ("eof", false, none) else none
          | none => none
        | "cp", [s, m, k] => match k.toInt? with
          | some k => if srcOk s && (m == "w" || m == "b") && (k == -1 || k > 0) then some ("ok", false, none) else none
          | none => none
        | "bw", [ps] => if pad == 0 then (parsePieces ps).map (fun _ => ("ok", false, none)) else none
        | "buf", [ps] => match parsePieces ps with
          | some a => if pad == 0 && a.size % 2 == 0 then some ("eof", true, some s!"rc={LargeObs.hex64 (bufCountsHash n a)}") else none
          | none => none
        | _, _ => none
      match spec with
      | none => "BADOP lg args"
      | some (expErr, inBits, expRc) =>
        let d := LargeObs.genBytes seed nbytes
        let exp := LargeObs.packBits d off n pad
        if !LargeObs.selfCheck d off n pad exp then "BADOP packBits disagrees with bitsToBytesPadR" else
        match words obs with
        | ["panic"] => "PROPFAIL panic"
        | cnt :: ec :: hs :: mm :: rest =>
          match cnt.toInt? with
          | none => "BADOP lg count"
          | some cnt =>
            let expCount : Int := if inBits then n else exp.size
            let nb : Nat := if inBits then (cnt.toNat + 7) / 8 else cnt.toNat
            let mmS := if mm == "-" then "" else s!" (harness reference differs at block:bytes {mm.take 80}…)"
            if rest != expRc.toList then s!"PROPFAIL the counts returned by Buffer.ReadBits are not those of a FIFO ({rest})" else
            match LargeObs.compare exp nb hs with
            | some why => s!"PROPFAIL {why}{mmS}"
            | none =>
              if cnt != expCount then s!"PROPFAIL count {cnt}, expected {expCount}"
              else if ec != expErr then s!"PROPFAIL error class {ec}, expected {expErr}"
              else if mm != "-" then "BADOP the harness reference differs although the hashes agree"
              else "OK"
        | _ => "BADOP lg obs"
    | _, _, _, _, _ => "BADOP lg numbers"
  | _ => "BADOP lg syntax"

def stepC01 (op obs : String) : String :=
  match words op with
  | "lg" :: ws => lgVerdict ws obs.trimAscii.toString
  | ["r64", hex, fb, nb] => r64Verdict hex fb nb obs.trimAscii.toString
  | ["w64", v, nb, hex, fb] => w64Verdict v nb hex fb obs.trimAscii.toString
  | "bw" :: chunks => bwVerdict chunks obs.trimAscii.toString
  | "bxr" :: _ =>
    match op.splitOn "|" with
    | [t, a, o] => bxrVerdict t a o obs
    | _ => "BADOP bxr syntax"
  | "bxc" :: _ =>
    match op.splitOn "|" with
    | [t, m] => bxcVerdict t m obs
    | _ => "BADOP bxc syntax"
  | "h" :: _ =>
    match op.splitOn "|" with
    | [t, o] =>
      let tws := (words t).drop 1
      match parseTerm (tws.length + 1) tws with
      | some (s, [], marks) =>
        let opsS := (o.splitOn ";").map (fun x => x.trimAscii.toString) |>.filter (· ≠ "")
        match opsS.mapM parseOp with
        | none => "BADOP op"
        | some ops =>
          let obsS := (obs.splitOn ";").map (fun x => x.trimAscii.toString) |>.filter (· ≠ "")
          match obsS.mapM parseObs with
          | none => "BADOP obs"
          | some impl => histVerdict s marks ops impl
      | _ => "BADOP term"
    | _ => "BADOP history syntax"
  | _ => "BADOP op"

def main : IO Unit := run stepC01
