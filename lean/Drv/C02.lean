import FqModel.Proto
import FqModel.Bits
import FqModel.Scalar
import FqModel.C02Call
/-! driver for C02

  `rd [<shape>] <L> <hex> <pos> <be|le> <Method> <args…>` TAB `<outcome> <pos'> [c<start>:<len>|c-] nx:<k>:<v>`
     (format: see harness/cmd/c02/main.go).  <shape> = how the input bits were delivered to the decoder
     (MultiReader parts, SectionReader of a MultiReader, short-reading reader): the expected result does
     not depend on it — justified by C01 `readFull_exact` / `readFull_eof` (any well-formed reader
     composition reads its denotation) — so the model and the predicate ignore it; it is only checked
     for well-formedness.  nx = a following TryUintBits(k) at the position the call left: it must
     return the k bits at that position.

  verdict = the property predicate evaluated on the implementation's observation (`propVerdict`,
  written against the mathematical definitions — `ofBitsBE` of the slice, two's complement,
  Σ byte·256^i, `val16/32/64/80` + one rounding, Σ payload·128^i … — not against the model's
  transliterations), then model = implementation (`obsEq`).
-/
open FqModel FqModel.Scalar FqModel.C02 FqModel.Proto

/-! ### printing / parsing observations -/

def hexNat (digits n : Nat) : String :=
  String.ofList ((List.range digits).reverse.map fun i => hexDigit (n / 16 ^ i % 16))

def hexOfNats (bs : List Nat) : String :=
  if bs.isEmpty then "-" else String.ofList (bs.flatMap fun b => [hexDigit (b / 16 % 16), hexDigit (b % 16)])

def natOfHex (s : String) : Option Nat :=
  s.toList.foldlM (fun a c => (hexVal c).map (16 * a + ·)) 0

def showVal : Val → String
  | .u n => s!"u:{n}"
  | .s i => s!"s:{i}"
  | .big i => s!"big:{i}"
  | .f b => s!"f:{hexNat 16 b}"
  | .b v => if v then "b:1" else "b:0"
  | .t bs => s!"t:{hexOfNats bs}"
  | .bits n bs => s!"bits:{n}:{hexOfNats bs}"

def showErrK : ErrK → String
  | .eof => "eof"
  | .other => "other"

def showPanic (w : String) : String := if w == "nilderef" || w == "makeslice" then w else "other"

def showRes : Res Val → String
  | .ok v p => s!"{showVal v} {p}"
  | .err e p => s!"err:{showErrK e} {p}"
  | .ioerr e p => s!"ioerr:{showErrK e} {p}"
  | .panic w p => s!"panic:{showPanic w} {p}"

def showObs (o : Obs) : String :=
  showRes o.res ++ (match o.field with
    | none => ""
    | some none => " c-"
    | some (some (a, l)) => s!" c{a}:{l}")

def parseErrK (s : String) : Option ErrK :=
  if s == "eof" then some .eof else if s == "other" then some .other else none

def parseVal (s : String) : Option Val :=
  match s.splitOn ":" with
  | ["u", v] => v.toNat?.map .u
  | ["s", v] => v.toInt?.map .s
  | ["big", v] => v.toInt?.map .big
  | ["f", v] => if v.length == 16 then (natOfHex v).map .f else none
  | ["b", "0"] => some (.b false)
  | ["b", "1"] => some (.b true)
  | ["t", v] => (bytesOfHex v).map fun bs => .t (bs.map (·.toNat))
  | ["bits", n, v] => do
    let n ← n.toNat?
    let bs ← bytesOfHex v
    pure (.bits n (bs.map (·.toNat)))
  | _ => none

def parseRes (outcome : String) (pos : Nat) : Option (Res Val) :=
  match outcome.splitOn ":" with
  | ["err", k] => (parseErrK k).map (.err · pos)
  | ["ioerr", k] => (parseErrK k).map (.ioerr · pos)
  | ["panic", w] => some (.panic w pos)
  | _ => (parseVal outcome).map (.ok · pos)

def parseField (s : String) : Option (Option (Nat × Nat)) :=
  if s == "c-" then some none
  else if s.startsWith "c" then
    match (s.drop 1).toString.splitOn ":" with
    | [a, l] => do
      let a ← a.toNat?
      let l ← l.toNat?
      pure (some (a, l))
    | _ => none
  else none

/-- the trailing `nx:<k>:<v>` / `nx:e` token: (k, v) of the following read; `none` = it failed -/
def parseNx (s : String) : Option (Option (Nat × Nat)) :=
  match s.splitOn ":" with
  | ["nx", "e"] => some none
  | ["nx", k, v] => do
    let k ← k.toNat?
    let v ← v.toNat?
    pure (some (k, v))
  | _ => none

def splitNx (obs : String) : String × Option String :=
  let ws := words obs
  match ws.getLast? with
  | some l => if l.startsWith "nx:" then (" ".intercalate ws.dropLast, some l) else (obs, none)
  | none => (obs, none)

def parseObs (obs : String) : Option Obs :=
  match words obs with
  | [o, p] => do
    let p ← p.toNat?
    let r ← parseRes o p
    pure ⟨r, none⟩
  | [o, p, c] => do
    let p ← p.toNat?
    let r ← parseRes o p
    let f ← parseField c
    pure ⟨r, some f⟩
  | _ => none

def valEq : Val → Val → Bool
  | .f a, .f b => a == b || (isNaN64 a && isNaN64 b)   -- NaN payloads are not compared
  | a, b => a == b

def resEq : Res Val → Res Val → Bool
  | .ok a p, .ok b q => valEq a b && p == q
  | .err a p, .err b q => a == b && p == q
  | .ioerr a p, .ioerr b q => a == b && p == q
  | .panic a p, .panic b q => showPanic a == showPanic b && p == q
  | _, _ => false

def obsEq (m i : Obs) : Bool := resEq m.res i.res && m.field == i.field

def parseArg (s : String) : Option ArgVal :=
  if s == "be" then some (.endian .be)
  else if s == "le" then some (.endian .le)
  else if s == "utf8" then some (.enc .utf8bom)
  else if s == "utf16" then some (.enc .utf16bom)
  else if s == "utf16le" then some (.enc .utf16le)
  else if s == "utf16be" then some (.enc .utf16be)
  else s.toInt?.map .int

/-! ### the property predicate -/

/-- what the property says about one call: is the read satisfiable, how many bits does it consume,
    and (where the property defines it) the value.  `none` value: no claim beyond the model's. -/
structure Expect where
  sat : Bool
  consumed : Nat := 0
  value : Option Val := none
  /-- a second acceptable value, tagged with the known-finding key it stands for -/
  knownAlt : Option (Val × String) := none

/-- exact value comparison of two binary64 patterns / of a pattern with an exact value -/
def f64Is (bits : Nat) (v : IEEEVal) : Bool :=
  match v with
  | .nan => isNaN64 bits
  | v => (val64 bits).same v

/-- LEB128 by the definition: payload bytes up to the first byte without continuation bit -/
def lebPayloads (bs : Bits) : Nat → Nat → Option (List Nat)
  | 0, _ => none
  | fuel+1, pos =>
    if pos + 8 ≤ bs.length then
      let b := ofBitsBE (slice bs pos 8)
      if b ≥ 128 then (lebPayloads bs fuel (pos + 8)).map ((b - 128) :: ·) else some [b]
    else none

def lebValue (ps : List Nat) : Nat := ps.foldr (fun p acc => p + 128 * acc) 0

/-- index k of the first all-zero unit of `rest` cut into whole units (the definition of a
    null-terminated string; written here independently of the model's search) -/
def firstZeroUnit (unit : Nat) : Nat → Bits → Nat → Option Nat
  | 0, _, _ => none
  | fuel+1, rest, k =>
    let u := rest.take unit
    if u.length < unit then none
    else if u.all (· == false) then some k
    else firstZeroUnit unit fuel (rest.drop unit) (k + 1)

def expectOf (bs : Bits) (pos : Nat) (fn : CoreFn) (av : List ArgVal) : Option Expect :=
  let L := bs.length
  let fits (n : Nat) : Bool := n == 0 || pos + n ≤ L
  match fn, av with
  | .tryUEndian, [.int n, .endian e] =>
    if n < 0 ∨ n > 64 then some { sat := false } else
    let n := n.toNat
    if !fits n then some { sat := false } else
    let sl := slice bs pos n
    let v : Option Val := if e == .be || n ≤ 8 then some (.u (ofBitsBE sl))
      else if n % 8 == 0 then some (.u (leValue sl)) else none
    some { sat := true, consumed := n, value := v }
  | .trySEndian, [.int n, .endian e] =>
    if n < 1 ∨ n > 64 then some { sat := false } else
    let n := n.toNat
    if !fits n then some { sat := false } else
    let sl := slice bs pos n
    let v : Option Val := if e == .be || n ≤ 8 then some (.s (signedOf n (ofBitsBE sl)))
      else if n % 8 == 0 then some (.s (signedOf n (leValue sl))) else none
    some { sat := true, consumed := n, value := v }
  | .tryBigIntEndianSign, [.int n, .endian e, .int sg] =>
    if n < 0 then some { sat := false } else
    let n := n.toNat
    if !fits n then some { sat := false } else
    let sl := slice bs pos n
    let u : Option Nat := if e == .be || n ≤ 8 then some (ofBitsBE sl) else if n % 8 == 0 then some (leValue sl) else none
    some { sat := true, consumed := n, value := u.map fun u => .big (if sg ≠ 0 then signedOf n u else u) }
  | .tryFEndian, [.int n, .endian e] =>
    if n ≠ 16 ∧ n ≠ 32 ∧ n ≠ 64 ∧ n ≠ 80 then some { sat := false } else
    let n := n.toNat
    if !fits n then some { sat := false } else
    let sl := slice bs pos n
    let b := if e == .le then reverseByteOrder sl else sl
    let x := ofBitsBE b
    if n = 80 then
      let se := ofBitsBE (b.take 16)
      let m := ofBitsBE (b.drop 16)
      some { sat := true, consumed := n, value := some (.f (f80to64Spec se m)) }
    else
      let v := if n = 16 then val16 x else if n = 32 then val32 x else val64 x
      some { sat := true, consumed := n, value := some (.f (encode64 v)) }
  | .tryFPEndian, [.int n, .int f, .endian e] =>
    if n < 0 ∨ n > 64 ∨ f < 0 then some { sat := false } else
    let n := n.toNat
    if !fits n then some { sat := false } else
    let sl := slice bs pos n
    let u : Option Nat := if e == .be || n ≤ 8 then some (ofBitsBE sl) else if n % 8 == 0 then some (leValue sl) else none
    some { sat := true, consumed := n,
           value := if f < 64 then u.map fun u => .f (roundF64 false u (-f)) else none }
  | .tryBool, [] =>
    if !fits 1 then some { sat := false } else some { sat := true, consumed := 1, value := some (.b (bs.getD pos false)) }
  | .tryUnary, [.int ov] =>
    match unaryRun ov.toNat (bs.drop pos) with
    | none => some { sat := false }
    | some k => some { sat := true, consumed := k + 1, value := some (.u k) }
  | .tryULEB128, [] =>
    match lebPayloads bs 10 pos with
    | none => some { sat := false }
    | some ps =>
      let v := lebValue ps
      -- the reader's range is 63 bits (read.go:265); documented in lib/props/C02.json
      if v < 2 ^ 63 then some { sat := true, consumed := 8 * ps.length, value := some (.u v) } else some { sat := false }
  | .trySLEB128, [] =>
    match lebPayloads bs 10 pos with
    | none => some { sat := false }
    | some ps =>
      let v := signedOf (7 * ps.length) (lebValue ps)
      if -(2 ^ 63 : Int) ≤ v ∧ v < (2 ^ 63 : Int) then some { sat := true, consumed := 8 * ps.length, value := some (.s v) }
      else some { sat := false }
  -- text: the frame by its definition (not the model's framing functions), decoded by `decodeText`
  | .tryText, [.int n, .enc e] =>
    if n < 0 ∨ pos > L ∨ pos + 8 * n.toNat > L then some { sat := false } else
    some { sat := true, consumed := 8 * n.toNat, value := some (.t (decodeText e (byteVals (slice bs pos (8 * n.toNat))))) }
  | .tryTextNullLen, [.int n, .enc e] =>
    if n < 0 ∨ pos > L ∨ pos + 8 * n.toNat > L then some { sat := false } else
    some { sat := true, consumed := 8 * n.toNat,
           value := some (.t (decodeText e ((byteVals (slice bs pos (8 * n.toNat))).takeWhile (· ≠ 0)))) }
  | .tryTextNull, [.int cb, .enc e] =>
    -- the string ends at the FIRST all-zero unit on the grid pos + k·(8·cb); value = the bytes before it
    if cb < 1 then some { sat := false } else
    let unit := 8 * cb.toNat
    match firstZeroUnit unit (L / unit + 1) (bs.drop pos) 0 with
    | none => some { sat := false }
    | some k => some { sat := true, consumed := (k + 1) * unit,
                       value := some (.t (decodeText e (byteVals (slice bs pos (k * unit))))) }
  | .tryTextLenPrefixed, [.int 1, .int fx, .enc e] =>
    if pos + 8 > L then some { sat := false } else
    let len := ofBitsBE (slice bs pos 8)
    if fx = -1 then
      if pos + 8 + 8 * len > L then some { sat := false } else
      some { sat := true, consumed := 8 + 8 * len, value := some (.t (decodeText e (byteVals (slice bs (pos + 8) (8 * len))))) }
    else if fx < 1 ∨ pos + 8 * fx.toNat > L then some { sat := false }
    else
      let field := fx.toNat - 1
      some { sat := true, consumed := 8 * fx.toNat,
             value := some (.t (decodeText e ((byteVals (slice bs (pos + 8) (8 * field))).take (min len field)))) }
  | _, _ => none

inductive PV | holds | fail (why : String) | known (key why : String)

def propVerdict (bs : Bits) (pos : Nat) (layer : Layer) (fn : CoreFn) (av : List ArgVal) (impl : Obs) : PV :=
  let isField := layer != .try_ && layer != .plain
  match impl.res with
  | .panic w _ =>
    -- a Go run-time fault is never an acceptable way to fail
    .fail s!"run-time panic {w}"
  | .ok v p =>
    match expectOf bs pos fn av with
    | none =>
      -- text readers: whole bytes inside the input
      if p < pos ∨ p > bs.length ∨ (p - pos) % 8 ≠ 0 then .fail s!"text reader consumed [{pos},{p})"
      else if isField && impl.field != some (some (pos, p - pos)) then .fail "field range is not the bits consumed"
      else .holds
    | some ex =>
      if !ex.sat then .fail "a value was returned for a read that cannot be satisfied"
      else if p ≠ pos + ex.consumed then .fail s!"position advanced by {(p : Int) - pos}, bits consumed {ex.consumed}"
      else if isField && impl.field != some (some (pos, ex.consumed)) then .fail "field range is not the bits consumed"
      else match ex.value with
        | none => .holds
        | some want =>
          if valEq want v then .holds
          else match ex.knownAlt with
            | some (alt, key) => if valEq alt v then .known key s!"got {showVal v} want {showVal want}" else .fail s!"value {showVal v}, mathematical value {showVal want}"
            | none => .fail s!"value {showVal v}, mathematical value {showVal want}"
  | _ =>
    -- err / ioerr
    if isField && impl.field != some none then .fail "a field was added by a failed read"
    else match expectOf bs pos fn av with
      | some ex => if ex.sat then .fail "error on a read that can be satisfied" else .holds
      | none => .holds

/-! ### one line -/

def namesOf (s : String) : List Nat := s.toList.map Char.toNat

/-- the <hex> field: `.`-joined segments, each `<hexbytes>` or `<n>x<hexbytes>` (repeated n times) -/
def appendN (acc : Array UInt8) (b : List UInt8) : Nat → Array UInt8
  | 0 => acc
  | n+1 => appendN (acc ++ b.toArray) b n

def expandSeg (acc : Array UInt8) (seg : String) : Option (Array UInt8) :=
  match seg.splitOn "x" with
  | [h] => (bytesOfHex h).map fun (b : List UInt8) => acc ++ b.toArray
  | [n, h] =>
    match n.toNat?, bytesOfHex h with
    | some n, some b => if n > 16777216 then none else some (appendN acc b n)
    | _, _ => none
  | _ => none

def expandHex (s : String) : Option (List UInt8) :=
  if s == "-" then some [] else
  match (s.splitOn ".").foldlM expandSeg (#[] : Array UInt8) with
  | some a => some a.toList
  | none => none

def shapeOk (sh : String) (L : Nat) : Bool :=
  let ints (t : String) : Option (List Nat) := if t.isEmpty then some [] else (t.splitOn ",").mapM (·.toNat?)
  let sortedIn (bs : List Nat) : Bool := bs.all (· ≤ L) && (bs.zip (bs.drop 1)).all fun (a, b) => a ≤ b
  match sh.splitOn ":" with
  | ["m", bs] => match ints bs with
    | some bs => sortedIn bs
    | none => false
  | ["s", off, bs] => match off.toNat?, ints bs with
    | some _, some bs => sortedIn bs
    | _, _ => false
  | ["k", k] => match k.toNat? with
    | some k => k ≥ 1
    | none => false
  -- a regular file through the interpreter's reader stack: window offset, file size, priming reads
  | ["f", w, n, ps] => match w.toNat?, n.toNat?, ints ps with
    | some w, some n, some ps => decide (8 * w + L ≤ 8 * n) && ps.all (· < n)
    | _, _, _ => false
  | _ => false

/-- the read after the call: k = min(16, bits left) bits at the position the call left -/
def nxVerdict (bs : Bits) (p : Nat) (nx : Option String) : Option String :=
  match nx with
  | none => none
  | some t =>
    match parseNx t with
    | none => some "BADOP nx"
    | some none => some "PROPFAIL the read following the call failed"
    | some (some (k, v)) =>
      let want := min 16 (bs.length - p)
      if k ≠ want then some s!"PROPFAIL following read of {k} bits, {want} expected at position {p}"
      else if v ≠ ofBitsBE (slice bs p k) then some s!"PROPFAIL following read at position {p} returned {v}, the bits there are {ofBitsBE (slice bs p k)}"
      else none

/-! ### `fn …`: the bit functions called directly (tie by correspondence + specification) -/

/-- the k low base-256 digits of u reversed (the specification of ReverseBytes64 on u < 2^(8k)) -/
def revDigitsD : Nat → Nat → Nat
  | 0, _ => 0
  | k+1, u => (u % 256) * 256 ^ k + revDigitsD k (u / 256)

def stepFn (ws : List String) (obs : String) : String :=
  match ws, words obs with
  | ["rev64", sn, sv], [o] =>
    match sn.toNat?, natOfHex sv with
    | some nb, some v =>
      let model := match reverseBytes64 nb (BitVec.ofNat 64 v) with
        | some r => s!"u:{r.toNat}"
        | none => "panic"
      let k := (nb + 7) / 8
      if nb ≤ 64 ∧ v < 2 ^ (8 * k) ∧ o != s!"u:{revDigitsD k v}" then
        s!"PROPFAIL ReverseBytes64({nb}, {v}) = {o}, the {k} bytes reversed are u:{revDigitsD k v}" ++
          (if o == model then "" else s!" ;DIVERGE model={model}")
      else if o == model then "OK" else s!"DIVERGE model={model}"
    | _, _ => "BADOP fn"
  | ["twos", sn, sv], [o] =>
    match sn.toNat?, natOfHex sv with
    | some nb, some v =>
      let model := s!"s:{twosComplement nb (BitVec.ofNat 64 v)}"
      if 1 ≤ nb ∧ nb ≤ 64 ∧ v < 2 ^ nb ∧ o != s!"s:{signedOf nb v}" then
        s!"PROPFAIL two's complement of {v} at {nb} bits = {o}, it is s:{signedOf nb v}" ++
          (if o == model then "" else s!" ;DIVERGE model={model}")
      else if o == model then "OK" else s!"DIVERGE model={model}"
    | _, _ => "BADOP fn"
  | ["f16", sh], [o] =>
    match natOfHex sh with
    | some h =>
      let model := s!"u:{expandF16ToF32 h}"
      match (o.splitOn ":") with
      | ["u", sb] =>
        match sb.toNat? with
        | some b =>
          if h < 65536 ∧ !(val32 b).same (val16 h) then
            s!"PROPFAIL float16 {h} expanded to binary32 {b}: not the same number" ++
              (if o == model then "" else s!" ;DIVERGE model={model}")
          else if o == model then "OK" else s!"DIVERGE model={model}"
        | none => "BADOP fn obs"
      | _ => "BADOP fn obs"
    | none => "BADOP fn"
  | ["f80", sse, sm], [o] =>
    match natOfHex sse, natOfHex sm with
    | some se, some m =>
      match parseVal o with
      | some (.f b) =>
        let spec := f80to64Spec se m
        let model := f80to64 se m
        let div := if valEq (.f model) (.f b) then "" else s!" ;DIVERGE model=f:{hexNat 16 model}"
        if !valEq (.f spec) (.f b) then s!"PROPFAIL float80 {sse} {sm} read as f:{hexNat 16 b}, correctly rounded is f:{hexNat 16 spec}{div}"
        else if div.isEmpty then "OK" else s!"DIVERGE model=f:{hexNat 16 model}"
      | _ => "BADOP fn obs"
    | _, _ => "BADOP fn"
  | _, _ => "BADOP fn"

/-! ### `hist …`: read histories on one decoder

  `hist [<shape>] <L> <hex> <step>;<step>;…` TAB `<obs>;<obs>;…`   (steps: harness/cmd/c02/hist.go)
  Every step is (1) held to the property predicate on its own — the value is the mathematical value of
  the bits at ITS position, whatever was read before (`stepProp`, independent of the model) — and
  (2) compared with the model's threaded machine `runHistory` (= `stepObs` per step by
  Props.C02 `read_history_stateless`). -/

def parseReader : List String → Option Reader
  | e :: m :: args =>
    match parseArg e, args.mapM parseArg with
    | some (.endian cur), some av => some ⟨cur, namesOf m, av⟩
    | _, _ => none
  | _ => none

def parseChildKind (s : String) : Option ChildKind :=
  match s.splitOn ":" with
  | ["st"] => some .struct
  | ["ar"] => some .array
  | ["fr", n] => n.toNat?.map .framed
  | ["li", n] => n.toNat?.map .limited
  | ["ra", n] => n.toNat?.map .range
  | ["sk", q] => q.toNat?.map .seekFn
  | _ => none

def parseStep (s : String) : Option Step :=
  match words s with
  | "r" :: p :: rest => do
    let p ← p.toNat?
    let rd ← parseReader rest
    pure (.read p rd)
  | "sr" :: p :: n :: rest => do
    let p ← p.toNat?
    let n ← n.toNat?
    let rd ← parseReader rest
    pure (.relRead p n rd)
  | ["pk", p, n] => do
    let p ← p.toNat?
    let n ← n.toInt?
    pure (.peek p n)
  | ["pf", p, e, nb, ml, t] => do
    let p ← p.toNat?
    let nb ← nb.toNat?
    let ml ← ml.toInt?
    let t ← t.toNat?
    match parseArg e with
    | some (.endian cur) => if nb ≥ 1 ∧ nb ≤ 64 then some (.peekFind p cur nb ml t) else none
    | _ => none
  | ["bl", p] => p.toNat?.map .bitsLeft
  | ["ps", p] => p.toNat?.map .getPos
  | "ch" :: k :: p :: rest => do
    let k ← parseChildKind k
    let p ← p.toNat?
    let rd ← parseReader rest
    pure (.child k p rd)
  | _ => none

def showSObs : SObs → String
  | .seekErr => "seekerr"
  | .rangeErr => "rangeerr"
  | .rd none => "notmodelled"
  | .rd (some o) => showObs o
  | .peek r => showRes (r.map .u)
  | .find (.ok none p) => s!"pf:none {p}"
  | .find (.ok (some (c, v)) p) => s!"pf:{c}:{v} {p}"
  | .find r => showRes (r.map fun _ => Val.u 0)
  | .num v p => s!"n:{v} {p}"
  | .child none _ => "notmodelled"
  | .child (some o) pp => s!"{showObs o} pp:{pp}"

/-- `<reader obs> pp:<parent position>` -/
def splitPP (obs : String) : Option (String × Nat) :=
  let ws := words obs
  match ws.getLast? with
  | some l =>
    match l.splitOn ":" with
    | ["pp", q] => q.toNat?.map fun q => (" ".intercalate ws.dropLast, q)
    | _ => none
  | none => none

def sobsEq (m : SObs) (impl : String) : Bool :=
  match m with
  | .rd (some o) =>
    match parseObs impl with
    | some i => obsEq o i
    | none => false
  | .child (some o) pp =>
    match splitPP impl with
    | some (body, q) => q == pp && (match parseObs body with
      | some i => obsEq o i
      | none => false)
    | none => false
  | m => showSObs m == impl

/-- the property on ONE read, from the bits at its position (not from the model) -/
def readProp (bs : Bits) (p : Nat) (rd : Reader) (impl : Obs) : Option String :=
  let L := bs.length
  match rd.args with
  | [.int n] =>
    if rd.method = kTryUintBits ∨ rd.method = kTryBits then
      let isU := rd.method = kTryUintBits
      if 0 ≤ n ∧ (n ≤ 64 ∨ !isU) ∧ (n = 0 ∨ p + n.toNat ≤ L) then
        let sl := slice bs p n.toNat
        let want : Res Val := .ok (if isU then .u (ofBitsBE sl) else .bits n.toNat (byteVals sl)) (p + n.toNat)
        if resEq want impl.res then none else some s!"got {showRes impl.res}, the bits at {p} are {showRes want}"
      else match impl.res with
        | .ok _ _ => some "a value was returned for a read that cannot be satisfied"
        | .panic w _ => some s!"run-time panic {w}"
        | _ => none
    else readNamed
  | _ => readNamed
where
  readNamed : Option String :=
    match parseName rd.method with
    | none => none
    | some (layer, fn, argExprs) =>
      match argExprs.mapM (resolveArg rd.cur rd.args) with
      | none => none
      | some rav =>
        match propVerdict bs p layer fn rav impl with
        | .fail why => some why
        | .known _ why => some why
        | .holds => none

def stepProp (bs : Bits) (st : Step) (impl : String) : Option String :=
  let L := bs.length
  if impl == "seekerr" || impl == "rangeerr" then none else
  match st with
  | .read p rd | .relRead p _ rd =>
    match parseObs impl with
    | some o => readProp bs p rd o
    | none => some "unparsable observation"
  | .peek p n =>
    if 0 ≤ n ∧ n ≤ 64 ∧ (n = 0 ∨ p + n.toNat ≤ L) then
      let want := s!"u:{ofBitsBE (slice bs p n.toNat)} {p}"
      if impl == want then none else some s!"peek observed {impl}, the bits at {p} (position unchanged) are {want}"
    else if impl.startsWith "u:" then some "a value was peeked where the read cannot be satisfied" else none
  | .peekFind p _ _ _ target =>
    match words impl with
    | [o, q] =>
      if q.toNat? != some p then some s!"position after TryPeekFind is {q}, was {p}"
      else match o.splitOn ":" with
        | ["pf", _, v] => if v.toNat? == some target then none else some s!"TryPeekFind returned {v}, searched for {target}"
        | _ => none
    | _ => some "unparsable observation"
  | .bitsLeft p =>
    if p ≤ L ∧ impl != s!"n:{L - p} {p}" then some s!"BitsLeft/Pos observed {impl} at position {p} of {L}" else none
  | .getPos p =>
    if p ≤ L ∧ impl != s!"n:{p} {p}" then some s!"Pos observed {impl} after a seek to {p}" else none
  | .child k p rd =>
    match splitPP impl with
    | none => some "unparsable observation"
    | some (body, _) =>
      match parseObs body with
      | none => some "unparsable observation"
      | some o =>
        let den := match k with
          | .framed n | .limited n | .range n => bs.take (p + n)
          | _ => bs
        readProp den p rd o

def zipIdx {α β} : Nat → List α → List β → List (Nat × α × β)
  | i, a :: as, b :: bs => (i, a, b) :: zipIdx (i + 1) as bs
  | _, _, _ => []

def stepHist (bs : Bits) (stepTexts obsTexts : List String) : String :=
  match stepTexts.mapM parseStep with
  | none => "BADOP step"
  | some steps =>
    if steps.length ≠ obsTexts.length then "BADOP step/observation count" else
    let model := runHistory bs 0 steps
    if model.any (fun m => showSObs m == "notmodelled") then "BADOP not-modelled" else
    let div := if (model.zip obsTexts).all (fun (m, i) => sobsEq m i) then ""
      else " ;DIVERGE model=" ++ ";".intercalate (model.map showSObs)
    let fails := (zipIdx 0 steps obsTexts).filterMap fun (i, st, impl) =>
      (stepProp bs st impl).map fun why => s!"step {i} ({stepTexts.getD i ""}): {why}"
    match fails with
    | why :: _ => s!"PROPFAIL {why}{div}"
    | [] => if div.isEmpty then "OK" else (div.drop 2).toString

def stepC02 (op0 obs0 : String) : String :=
  if (words op0).head? == some "fn" then stepFn ((words op0).drop 1) obs0 else
  if (words op0).head? == some "hist" then
    -- hist [<shape>] <L> <hex> <steps>
    let ws := (words op0).drop 1
    let (shape, ws) : Option String × List String := match ws with
      | w :: rest => if w.toNat?.isSome then (none, ws) else (some w, rest)
      | [] => (none, [])
    match ws with
    | sL :: hex :: rest =>
      match sL.toNat?, expandHex hex with
      | some L, some bytes =>
        let all := bytesToBits bytes
        if L > all.length then "BADOP L-beyond-hex" else
        if (match shape with | some sh => !shapeOk sh L | none => false) then "BADOP shape" else
        stepHist (all.take L) ((" ".intercalate rest).splitOn ";") (obs0.splitOn ";")
      | _, _ => "BADOP parse"
    | _ => "BADOP op"
  else
  -- optional shape word after `rd`
  let (op, shape) : String × Option String := match words op0 with
    | "rd" :: w :: rest => if w.toNat?.isSome then (op0, none) else (" ".intercalate ("rd" :: rest), some w)
    | _ => (op0, none)
  let (obs, nx) := splitNx obs0
  match words op with
  | "rd" :: sL :: hex :: spos :: sEnd :: method :: args =>
    match sL.toNat?, expandHex hex, spos.toNat?, parseArg sEnd, args.mapM parseArg with
    | some L, some bytes, some pos, some (.endian cur), some av =>
      let all := bytesToBits bytes
      if L > all.length then "BADOP L-beyond-hex" else
      if (match shape with | some sh => !shapeOk sh L | none => false) then "BADOP shape" else
      let bs := all.take L
      match parseObs obs with
      | none => s!"BADOP obs {obs}"
      | some impl =>
        match nxVerdict bs (posOfRes impl.res) nx with
        | some v => v
        | none =>
        match rawCall bs pos (namesOf method) av with
        | some m => if obsEq m impl then "OK" else s!"DIVERGE model={showObs m}"
        | none =>
          match parseName (namesOf method) with
          | none => "BADOP unknown-method"
          | some (layer, fn, argExprs) =>
            match argExprs.mapM (resolveArg cur av) with
            | none => "BADOP args"
            | some rav =>
              match call bs pos cur (namesOf method) av with
              | none => "BADOP not-modelled"
              | some m =>
                let div := if obsEq m impl then "" else s!" ;DIVERGE model={showObs m}"
                match propVerdict bs pos layer fn rav impl with
                | .fail why => s!"PROPFAIL {why}{div}"
                | .known key why => s!"KNOWN {key} {why}{div}"
                | .holds => if div.isEmpty then "OK" else s!"DIVERGE model={showObs m}"
    | _, _, _, _, _ => "BADOP parse"
  | _ => "BADOP op"

def main : IO Unit := run stepC02
