import FqModel.Proto
import FqModel.Tree
/-!
  driver for C03

  prog line:   `prog <force> <gaps> <off> <len> <arr> <nbits> <hex> [ items ]`  TAB  `T <tree>` | `N` | `P <de|io>`
               the model (`run`) is compared with the implementation's tree, and `WF` is evaluated on the
               IMPLEMENTATION's tree (independent of the model).
  monitor line `mon <top|nested|inL> <partial01> <format> <file> <variant> <force> <tls|->`  TAB  `T <tree>`
               only `WF` (per buffer-root / per sub-tree line) is evaluated.

  tree  ::= ( name kind start len index R|- buflen err val link tree* )
  kind  ::= s a u r y g o        err ::= - de io         name ::= f<n> | gap<n>
-/
open FqModel FqModel.Tree FqModel.Proto

namespace C03

def parseName (s : String) : Option FName :=
  if s.startsWith "gap" then (s.drop 3).toString.toNat?.map FName.gap
  else if s.startsWith "f" then (s.drop 1).toString.toNat?.map FName.f
  else none

def showName : FName → String
  | .f n => s!"f{n}"
  | .gap n => s!"gap{n}"

def parseKind : String → Option Kind
  | "s" => some .struct | "a" => some .array | "u" => some .uint | "r" => some .raw
  | "y" => some .synth | "g" => some .gap | "o" => some .other | _ => none

def showKind : Kind → String
  | .struct => "s" | .array => "a" | .uint => "u" | .raw => "r" | .synth => "y" | .gap => "g" | .other => "o"

def parseErr : String → Option ErrK
  | "-" => some .none | "de" => some .de | "io" => some .io | _ => none

def showErr : ErrK → String
  | .none => "-" | .de => "de" | .io => "io"

def parseBool : String → Option Bool
  | "0" => some false | "1" => some true | _ => none

/-! ### trees -/

partial def dumpT (t : T) (acc : Array String) : Array String :=
  match t with
  | .mk i kids =>
    let acc := acc.push "(" |>.push (showName i.name) |>.push (showKind i.kind) |>.push (toString i.start)
      |>.push (toString i.len) |>.push (toString i.index) |>.push (if i.isRoot then "R" else "-")
      |>.push (toString i.bufLen) |>.push (showErr i.err) |>.push (toString i.val) |>.push (if i.link then "1" else "0")
    let acc := kids.foldl (fun a k => dumpT k a) acc
    acc.push ")"

def showT (t : T) : String := " ".intercalate (dumpT t #[]).toList

/-- parse one tree at the head of the token list -/
partial def parseT : List String → Option (T × List String)
  | "(" :: n :: k :: s :: l :: ix :: r :: bl :: e :: v :: lk :: rest => do
    let name ← parseName n
    let kind ← parseKind k
    let start ← s.toInt?
    let len ← l.toInt?
    let index ← ix.toInt?
    let isRoot ← (match r with | "R" => some true | "-" => some false | _ => none)
    let bufLen ← bl.toInt?
    let err ← parseErr e
    let val ← v.toNat?
    let link ← parseBool lk
    let rec kidsLoop (ts : List String) (acc : Array T) : Option (List T × List String) :=
      match ts with
      | ")" :: rest => some (acc.toList, rest)
      | _ => do
        let (k, rest) ← parseT ts
        kidsLoop rest (acc.push k)
    let (kids, rest) ← kidsLoop rest #[]
    pure (.mk { name, kind, start, len, index, isRoot, bufLen, err, val, link } kids, rest)
  | _ => none

/-! ### programs -/

mutual
partial def parseItems (ts : List String) (acc : Array Prog) : Option (List Prog × List String) :=
  match ts with
  | "]" :: rest => some (acc.toList, rest)
  | _ => do
    let (p, rest) ← parseItem ts
    parseItems rest (acc.push p)

partial def parseBody : List String → Option (List Prog × List String)
  | "[" :: rest => parseItems rest #[]
  | _ => none

partial def parseItem : List String → Option (Prog × List String)
  | "u" :: n :: w :: rest => do pure (.u (← parseName n) (← w.toNat?), rest)
  | "raw" :: n :: w :: rest => do pure (.raw (← parseName n) (← w.toInt?), rest)
  | "syn" :: n :: rest => do pure (.syn (← parseName n), rest)
  | "st" :: n :: rest => do
    let name ← parseName n
    let (b, rest) ← parseBody rest
    pure (.comp false name b, rest)
  | "ar" :: n :: rest => do
    let name ← parseName n
    let (b, rest) ← parseBody rest
    pure (.comp true name b, rest)
  | "fr" :: n :: rest => do
    let n ← n.toInt?
    let (b, rest) ← parseBody rest
    pure (.sub .framed n b, rest)
  | "li" :: n :: rest => do
    let n ← n.toInt?
    let (b, rest) ← parseBody rest
    pure (.sub .limited n b, rest)
  | "rg" :: o :: n :: rest => do
    let o ← o.toInt?
    let n ← n.toInt?
    let (b, rest) ← parseBody rest
    pure (.sub (.range o) n b, rest)
  | "sa" :: x :: "-" :: rest => do pure (.seek true (← x.toInt?) false [], rest)
  | "sa" :: x :: rest => do
    let x ← x.toInt?
    let (b, rest) ← parseBody rest
    pure (.seek true x true b, rest)
  | "sr" :: x :: "-" :: rest => do pure (.seek false (← x.toInt?) false [], rest)
  | "sr" :: x :: rest => do
    let x ← x.toInt?
    let (b, rest) ← parseBody rest
    pure (.seek false x true b, rest)
  | "ff" :: o :: n :: a :: rest => do
    let o ← parseBool o
    let name ← parseName n
    let a ← parseBool a
    let (b, rest) ← parseBody rest
    pure (.fmt (.rest o) name a b, rest)
  | "fl" :: w :: o :: n :: a :: rest => do
    let w ← w.toInt?
    let o ← parseBool o
    let name ← parseName n
    let a ← parseBool a
    let (b, rest) ← parseBody rest
    pure (.fmt (.len w o) name a b, rest)
  | "fg" :: off :: w :: n :: a :: rest => do
    let off ← off.toNat?
    let w ← w.toInt?
    let name ← parseName n
    let a ← parseBool a
    let (b, rest) ← parseBody rest
    pure (.fmt (.range off w) name a b, rest)
  | "in" :: a :: rest => do
    let a ← parseBool a
    let (b, rest) ← parseBody rest
    pure (.inl a b, rest)
  | "fb" :: n :: w :: a :: rest => do
    let name ← parseName n
    let w ← w.toNat?
    let a ← parseBool a
    let (b, rest) ← parseBody rest
    pure (.fmtBuf name w a b, rest)
  | "sb" :: n :: w :: rest => do
    let name ← parseName n
    let w ← w.toNat?
    let (b, rest) ← parseBody rest
    pure (.rootFn false name w b, rest)
  | "ab" :: n :: w :: rest => do
    let name ← parseName n
    let w ← w.toNat?
    let (b, rest) ← parseBody rest
    pure (.rootFn true name w b, rest)
  | "rb" :: n :: w :: rest => do pure (.rootBuf (← parseName n) (← w.toNat?), rest)
  | "fail" :: rest => some (.fail true, rest)
  | "errf" :: rest => some (.fail false, rest)
  | "lp" :: w :: m :: rest => do
    let w ← w.toNat?
    let m ← m.toNat?
    let (b, rest) ← parseBody rest
    pure (.loop w m b, rest)
  | _ => none
end

def showOutcome : Outcome → String
  | .tree t => "T " ++ showT t
  | .noValue => "N"
  | .panic e => "P " ++ showErr e

def parseWhere (s : String) : Option Where :=
  if s == "top" then some .top
  else if s == "nested" then some .nested
  else if s.startsWith "in" then (s.drop 2).toString.toInt?.map Where.inBuf
  else none

def dedup (l : List String) : List String :=
  l.foldl (fun acc s => if acc.contains s then acc else acc ++ [s]) []

def rawClass : List String := ["N:index@raw", "N:hull@raw", "N:order@raw", "N:index@rawparent", "N:hull@rawparent", "N:order@rawparent"]

/-- verdict of the property predicate on the implementation's tree.
    `tls`: the tree contains a value of format/tls.  The documented defect class (known_findings.json) is
    recognised by its exact signature; anything else that is not WF is a PROPFAIL. -/
def propVerdict (w : Where) (tls : Bool) (t : T) : String :=
  if wfAt w t then "OK"
  else
    let rs := dedup (whys (match w with | .nested => true | _ => false) false w t)
    if rs.isEmpty then "PROPFAIL not-wf (no diagnosis)"
    else
      let why := ",".intercalate rs
      if tls && rs.all (rawClass.contains ·) && rs.any (·.endsWith "@raw") then
        -- a sub-tree inside a nested buffer root that postProcess never visited, in a tree with a format/tls value
        s!"KNOWN tls-late-fields {why}"
      else s!"PROPFAIL {why}"

def bitsOfInput (nbits : Nat) (hex : String) : Option Bits := do
  let bs ← bytesOfHex hex
  let bits := bytesToBits bs
  if bits.length < nbits then none else pure (bits.take nbits)

def step (op obs : String) : String :=
  match words op with
  | "prog" :: f :: g :: off :: len :: arr :: nbits :: hex :: rest =>
    match parseBool f, parseBool g, off.toNat?, len.toNat?, parseBool arr, nbits.toNat?, parseBody rest with
    | some force, some fillGaps, some off, some len, some arr, some nbits, some (body, []) =>
      match bitsOfInput nbits hex with
      | none => "BADOP input"
      | some input =>
        let res := FqModel.Tree.run { force, fillGaps, off, len, arr, body } input
        let m := showOutcome res.out
        let o := " ".intercalate (words obs)
        let div := if m == o then "" else s!"DIVERGE model={m}"
        match words obs with
        | "T" :: ts =>
          match parseT ts with
          | some (t, []) =>
            let pv := propVerdict .top false t
            if pv == "OK" then (if div.isEmpty then "OK" else div)
            else if div.isEmpty then pv else pv ++ " ;" ++ div
          | _ => "BADOP tree"
        | ["N"] => if div.isEmpty then "OK" else div
        | ["P", _] => if div.isEmpty then "OK" else div
        | _ => "BADOP obs"
    | _, _, _, _, _, _, _ => "BADOP prog"
  | ["mon", w, p, _format, _file, _variant, _force, tls] =>
    match parseWhere w, parseBool p, (if tls == "tls" then some true else if tls == "-" then some false else none), words obs with
    | some w, some _p, some tls, "T" :: ts =>
      match parseT ts with
      | some (t, []) => propVerdict w tls t
      | _ => "BADOP tree"
    | _, _, _, _ => "BADOP mon"
  | _ => "BADOP op"

end C03

def main : IO Unit := FqModel.Proto.run C03.step
