import FqModel.Proto
import FqModel.Gaps
/-! driver for C04:  `gaps <total> <r>*` TAB `<g>*|-`  -/
open FqModel FqModel.Gaps FqModel.Proto

def parseRanges (ws : List String) : Option (List Range) :=
  if ws == ["-"] then some [] else ws.mapM parseRange

def stepC04 (op obs : String) : String :=
  match words op with
  | "gaps" :: t :: rs =>
    match parseRange t, parseRanges rs, parseRanges (words obs) with
    | some total, some rs, some implGaps =>
      let model := gaps total rs
      let bits := (List.range total.len.toNat).map (fun (i : Nat) => total.start + Int.ofNat i)
      let verdicts := bits.map (fun b => (b, bitVerdict rs implGaps b))
      let bad := verdicts.filter (fun (_, v) => v == .lost || v == .overlap)
      let known := verdicts.filter (fun (_, v) => v == .knownHole)
      let outside := implGaps.filter (fun g => g.len < 0 || (g.len > 0 && (g.start < total.start || g.stop > total.stop)))
      let div := if model == implGaps then "" else s!" ;DIVERGE model={showRanges model}"
      if !bad.isEmpty then
        let (b, v) := bad.head!
        s!"PROPFAIL bit={b} verdict={repr v}{div}"
      else if !outside.isEmpty then
        s!"PROPFAIL gap-outside-total {showRange outside.head!}{div}"
      else if !known.isEmpty then
        s!"KNOWN one-bit-hole bit={known.head!.1}{div}"
      else if div.isEmpty then "OK" else s!"DIVERGE model={showRanges model}"
    | _, _, _ => "BADOP parse"
  | _ => "BADOP op"

def main : IO Unit := run stepC04
