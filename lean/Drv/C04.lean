import Std.Data.HashSet
import FqModel.Proto
import FqModel.Bits
import FqModel.Gaps
import FqModel.GapsTree
import Drv.C04Tree
/-! driver for C04

  `gaps <total> [@note]* <r>*` TAB `<g>*|-`
      run "gaps": <r>* is what the harness feeds to the real ranges.Gaps, <g>* what it returned;
      run "tree": <r>* are the leaf ranges D.FillGaps collected below one gap-filled value of a
                  real decode tree (relative to that value's buffer), <g>* the ranges of the gap
                  fields D.FillGaps added to it.
      verdict: the coverage predicate evaluated on <r>*,<g>* (independent of the model), then
               model `gaps total rs` = <g>* .
  `coverall <total> [@note]* <all non-gap leaves of the buffer>*` TAB `<all gap fields of the buffer>*|-`
      run "tree", once per gap-filled buffer root: no bit of the buffer is lost (see coverAllVerdict).
  `bufleaves [@note]* <leaves the synthetic decoder decoded from one buffer>*` TAB `<leaves fq's tree accounts to it>*|-`
      run "tree", synthetic decodes only: equality as multisets (see bufLeavesVerdict).
  `cover <total> [@note]* <r>*` TAB `<g>*|-`
      the coverage predicate only (run "tree", buffers whose root value was replaced by a single
      scalar leaf — json, xml, … — where the gap fields FillGaps computes cannot be attached).
  `gapbits [@note]* <hex window> <bit offset in window> <nbits> <gap len>` TAB `<reader len> <hex of the bits read>`
      the content of a gap field (bits read from its own reader) against the input bits of its range.

  `prog <force> <gaps> <off> <len> <arr> <nbits> <hex> [ items ]` TAB `T <tree>` | `N` | `P <de|io>`
      run "prog" (cases of harness c03): a random decoder program over the public decode.D API, run by the real
      decode.Decode; the observation is the dump of the real tree.  The tree-level theorems of Props/C04.lean are
      about `FqModel.Tree.run`; here (a) their STATEMENTS are evaluated on the IMPLEMENTATION's tree with the very
      definitions the theorems use (`gapFields`, `fieldLeaves`, `localLeaves`, `decodeRange`): the root's gap fields
      must be `ranges.Gaps` of the leaves, every bit of the decode range in a leaf / a gap field / a one-bit hole, no
      gap bit in a leaf, gaps inside the range; without FillGaps no gap field at the root; an escaped IOError panic
      contradicts `fillgaps_panic_only_duplicate_name`; (b) the model's tree is compared with the implementation's
      as far as the theorems look at it: leaves and gap fields of the root's buffer as multisets, outcome class.

  Words that start with `@` are annotations (which decode produced the case) and are ignored.
-/
open FqModel FqModel.Gaps FqModel.Proto FqModel.GapsTree

def parseRanges (ws : List String) : Option (List Range) :=
  if ws == ["-"] then some [] else ws.mapM parseRange

def stripNotes (ws : List String) : List String := ws.filter (fun w => !w.startsWith "@")

/-! ### the predicate, bit by bit (the definition; used for buffers of up to `smallLimit` bits) -/

def smallLimit : Nat := 4096

/-- first lost/overlapping bit, first known-hole bit -/
def perBit (total : Range) (rs gs : List Range) : Option (Int × BitVerdict) × Option Int :=
  let bits := (List.range total.len.toNat).map (fun (i : Nat) => total.start + Int.ofNat i)
  let verdicts := bits.map (fun b => (b, bitVerdict rs gs b))
  let bad := verdicts.find? (fun (_, v) => v == .lost || v == .overlap)
  let known := verdicts.find? (fun (_, v) => v == .knownHole)
  (bad, known.map (·.1))

/-! ### the same predicate by a sweep over the range boundaries (for large buffers)
    Between two consecutive boundaries (starts/stops of fields and gaps, including empty
    ranges, and the buffer ends) `covered rs` and `covered gs` are constant; a lost segment
    of two or more bits cannot be a one-bit hole (a start at `b+1` would be a boundary). -/

structure Ev where
  pos : Int
  df : Int
  dg : Int
deriving Inhabited

def addEvents (a : Array Ev) (rs : List Range) (field : Bool) : Array Ev :=
  rs.foldl (fun a r =>
    if r.len > 0 then
      if field then (a.push ⟨r.start, 1, 0⟩).push ⟨r.stop, -1, 0⟩
      else (a.push ⟨r.start, 0, 1⟩).push ⟨r.stop, 0, -1⟩
    else (a.push ⟨r.start, 0, 0⟩).push ⟨r.stop, 0, 0⟩) a

def sweep (total : Range) (rs gs : List Range) (holeRs : List Range := rs) (ignoreOverlap : Bool := false) :
    Option (Int × BitVerdict) × Option Int := Id.run do
  let ev := ((addEvents (addEvents #[] rs true) gs false).push ⟨total.start, 0, 0⟩).push ⟨total.stop, 0, 0⟩
  -- merge sort: no quadratic behaviour on many events at one position (long lists of empty/duplicate ranges)
  let ev := (ev.toList.mergeSort (fun x y => decide (x.pos ≤ y.pos))).toArray
  -- `oneBitHole holeRs lo` for an uncovered bit `lo` = some range stops at lo and some range starts at lo+1; looked
  -- up in hash sets (a list scan per hole is quadratic on 10^5 ranges); cross-checked against the definition by the
  -- per-bit evaluation on every buffer of <= smallLimit bits (gapsVerdict)
  let stops : Std.HashSet Int := holeRs.foldl (fun s r => s.insert r.stop) {}
  let starts : Std.HashSet Int := holeRs.foldl (fun s r => s.insert r.start) {}
  let mut cf : Int := 0
  let mut cg : Int := 0
  let mut bad : Option (Int × BitVerdict) := none
  let mut known : Option Int := none
  for i in [0:ev.size] do
    let e := ev[i]!
    cf := cf + e.df
    cg := cg + e.dg
    if i + 1 < ev.size then
      let q := ev[i+1]!.pos
      let lo := if e.pos < total.start then total.start else e.pos
      let hi := if q > total.stop then total.stop else q
      if lo < hi then
        if cf > 0 && cg > 0 then
          if bad.isNone && !ignoreOverlap then bad := some (lo, .overlap)
        else if cf ≤ 0 && cg ≤ 0 then
          if hi - lo == 1 && stops.contains lo && starts.contains (lo + 1) then
            if known.isNone then known := some lo
          else if bad.isNone then bad := some (lo, .lost)
  return (bad, known)

def gapsVerdict (compare : Bool) (total : Range) (rs implGaps : List Range) : String :=
  let model := if compare then gapsPresorted total rs else implGaps
  let small := total.len.toNat ≤ smallLimit
  let sw := sweep total rs implGaps
  let (bad, known) := if small then perBit total rs implGaps else sw
  let outside := implGaps.filter (fun g => g.len < 0 || (g.len > 0 && (g.start < total.start || g.stop > total.stop)))
  let div := if model == implGaps then "" else s!" ;DIVERGE model={showRanges model}"
  -- self-check of the driver: on small buffers both evaluations of the predicate must agree
  if small && (sw.1 != bad || sw.2 != known) then "BADOP sweep-and-per-bit-predicate-disagree"
  else match bad with
  | some (b, v) => s!"PROPFAIL bit={b} verdict={repr v}{div}"
  | none =>
    if !outside.isEmpty then
      s!"PROPFAIL gap-outside-total {showRange outside.head!}{div}"
    else match known with
    | some b => s!"KNOWN one-bit-hole bit={b}{div}"
    | none => if div.isEmpty then "OK" else s!"DIVERGE model={showRanges model}"

/-- `coverall`: the property on a whole gap-filled buffer, independent of how fq groups leaves:
    no bit of the buffer is outside all non-gap leaves and all gap fields reachable in it.
    A one-bit hole counts as the known class when the ranges D.FillGaps saw (leaves and the gap
    fields of nested sub-decodes alike) have a stop at the bit and a start one bit later.
    Overlap of a gap with a leaf is NOT judged here: it is judged per FillGaps call (`gaps`),
    which is what FillGaps guarantees — the gap fields of a length-delimited sub-decode may lie
    over leaves that are outside that sub-decode (overlapping FieldFormatRange/Len regions). -/
def coverAllVerdict (total : Range) (rs gs : List Range) : String :=
  let (bad, known) := sweep total rs gs (rs ++ gs) true
  let outside := gs.filter (fun g => g.len < 0 || (g.len > 0 && (g.start < total.start || g.stop > total.stop)))
  match bad with
  | some (b, .lost) => s!"PROPFAIL bit={b} is in no leaf and in no gap field of the buffer"
  | _ =>
    if !outside.isEmpty then s!"PROPFAIL gap-outside-total {showRange outside.head!}"
    else match known with
    | some b => s!"KNOWN one-bit-hole bit={b}"
    | none => "OK"

/-- `bufleaves`: the (non-gap) leaves fq's tree accounts to a buffer are exactly the leaves the
    synthetic decoder decoded from that buffer (its own log) — a leaf of another buffer that is
    counted as covering bits of this one covers nothing of it. -/
def bufLeavesVerdict (expected observed : List Range) : String :=
  let key (r : Range) : Int × Int := (r.start, r.len)
  let srt (l : List Range) := (l.map key).toArray.qsort (fun a b => a.1 < b.1 || (a.1 == b.1 && a.2 < b.2)) |>.toList
  let e := srt expected
  let o := srt observed
  if e == o then "OK"
  else
    let extra := o.filter (fun x => !e.contains x)
    let missing := e.filter (fun x => !o.contains x)
    match extra, missing with
    | x :: _, _ => s!"PROPFAIL leaf {x.1}:{x.2} is accounted to this buffer but was not decoded from it"
    | [], x :: _ => s!"PROPFAIL leaf {x.1}:{x.2} was decoded from this buffer but is not accounted to it"
    | [], [] => "PROPFAIL leaves accounted to this buffer differ in multiplicity from the leaves decoded from it"

def gapbitsVerdict (hexw soff snb sgl : String) (obs : List String) : String :=
  match bytesOfHex hexw, soff.toNat?, snb.toNat?, sgl.toNat? with
  | some window, some off, some nb, some gapLen =>
    let expected := slice (bytesToBits window) off nb
    if expected.length != nb then "BADOP window-shorter-than-range"
    else match obs with
    | [srl, hexo] =>
      match srl.toNat?, bytesOfHex hexo with
      | some readerLen, some got =>
        if readerLen != gapLen then s!"PROPFAIL gap-reader-length {readerLen} range-length {gapLen}"
        else
          let gotBits := (bytesToBits got).take nb
          if gotBits == expected then "OK"
          else
            let idx := ((gotBits.zip expected).takeWhile (fun (a, b) => a == b)).length
            s!"PROPFAIL gap-content differs from the input at bit {idx} of the checked window"
      | _, _ => "BADOP obs"
    | [e] => if e.startsWith "err:" then s!"PROPFAIL gap-unreadable {e}" else "BADOP obs"
    | _ => "BADOP obs"
  | _, _, _, _ => "BADOP parse"

def sortRanges (l : List Range) : List (Int × Int) :=
  (l.map (fun r => (r.start, r.len))).mergeSort (fun a b => decide (a.1 < b.1) || (a.1 == b.1 && decide (a.2 ≤ b.2)))

def withDiv (v div : String) : String :=
  if div.isEmpty then v
  else if v == "OK" then "DIVERGE " ++ div
  else if (v.splitOn " ;DIVERGE").length > 1 || v.startsWith "DIVERGE" then v
  else v ++ " ;DIVERGE " ++ div

/-- `prog`: see the header -/
def progVerdict (cfg : Tree.Cfg) (input : Bits) (obs : List String) : String :=
  let m := (Tree.run cfg input).out
  let (s, l) := decodeRange cfg input
  match obs with
  | "T" :: ts =>
    match C04Tree.parseT ts with
    | some (t, []) =>
      let div := match m with
        | .tree tm =>
          if sortRanges (fieldLeaves tm) != sortRanges (fieldLeaves t) then
            s!"model=leaves {showRanges (fieldLeaves tm)}"
          else if sortRanges (gapFields tm) != sortRanges (gapFields t) then
            s!"model=gapfields {showRanges (gapFields tm)}"
          else ""
        | .noValue => "model=N"
        | .panic _ => "model=P"
      if cfg.fillGaps then
        -- the flat case this tree induces: total 0:l, the leaves relative to the decode range, fq's gap fields
        -- (in the order of the tree: ascending for a sorted struct root and for appended gap fields alike)
        withDiv (gapsVerdict true ⟨0, l⟩ (localLeaves s t) ((gapFields t).map (shift (-s)))) div
      else if !(gapFields t).isEmpty then
        withDiv s!"PROPFAIL gap field {showRange (gapFields t).head!} at the root of a decode without FillGaps" div
      else withDiv "OK" div
    | _ => "BADOP tree"
  | ["N"] => (match m with | .noValue => "OK" | _ => "DIVERGE model=not-N")
  | ["P", e] =>
    let div := match m with | .panic me => (if C04Tree.parseErr e == some me then "" else "model=P-other") | _ => "model=not-P"
    if e == "io" then withDiv "PROPFAIL an IOError panic escaped decode(): FillGaps could not read a gap (gap outside the section)" div
    else if e == "de" then withDiv "OK" div
    else "BADOP obs"
  | _ => "BADOP obs"

def stepC04 (op obs : String) : String :=
  match stripNotes (words op) with
  | "prog" :: rest =>
    match C04Tree.parseProg rest with
    | some (cfg, input) => progVerdict cfg input (words obs)
    | none => "BADOP prog"
  | "gaps" :: t :: rs =>
    match parseRange t, parseRanges rs, parseRanges (words obs) with
    | some total, some rs, some implGaps => gapsVerdict true total rs implGaps
    | _, _, _ => "BADOP parse"
  | "cover" :: t :: rs =>
    match parseRange t, parseRanges rs, parseRanges (words obs) with
    | some total, some rs, some implGaps => gapsVerdict false total rs implGaps
    | _, _, _ => "BADOP parse"
  | "bufleaves" :: rs =>
    match parseRanges (if rs.isEmpty then ["-"] else rs), parseRanges (words obs) with
    | some e, some o => bufLeavesVerdict e o
    | _, _ => "BADOP parse"
  | "coverall" :: t :: rs =>
    match parseRange t, parseRanges rs, parseRanges (words obs) with
    | some total, some rs, some gs => coverAllVerdict total rs gs
    | _, _, _ => "BADOP parse"
  | ["gapbits", hexw, soff, snb, sgl] => gapbitsVerdict hexw soff snb sgl (words obs)
  | _ => "BADOP op"

def main : IO Unit := run stepC04
