import FqModel.Proto
import FqModel.Tree
/-!
  C04 driver, part: parser for the `prog` lines of harness c03 (run `prog` of lib/props/C04.json).  The line format
  belongs to harness/cmd/c03 + Drv/C03.lean (C03's files); the parser below is a copy of Drv/C03.lean's (that file
  defines `main`, so it cannot be imported) — a change of the format there shows up here as BADOP, never as a default.

  prog line:   `prog <force> <gaps> <off> <len> <arr> <nbits> <hex> [ items ]`  TAB  `T <tree>` | `N` | `P <de|io>`
  tree  ::= ( name kind start len index R|- buflen err val link tree* )
  kind  ::= s a u r y g o        err ::= - de io         name ::= f<n> | gap<n>
-/
open FqModel FqModel.Tree FqModel.Proto

namespace C04Tree

def parseName (s : String) : Option FName :=
  if s.startsWith "gap" then (s.drop 3).toString.toNat?.map FName.gap
  else if s.startsWith "f" then (s.drop 1).toString.toNat?.map FName.f
  else none

def parseKind : String → Option Kind
  | "s" => some .struct | "a" => some .array | "u" => some .uint | "r" => some .raw
  | "y" => some .synth | "g" => some .gap | "o" => some .other | _ => none

def parseErr : String → Option ErrK
  | "-" => some .none | "de" => some .de | "io" => some .io | _ => none

def parseBool : String → Option Bool
  | "0" => some false | "1" => some true | _ => none

/-! ### trees -/

/-- parse one tree at the head of the token list -/
partial def parseT : List String → Option (T × List String)
  | "(" :: n :: k :: s :: l :: ix :: r :: bl :: e :: v :: lk :: rest => do
    let name ← parseName n
    let kind ← parseKind k
    let start ← s.toInt?
    let len ← l.toInt?
    let index ← ix.toInt?
    let isRoot ← (match r with | "R" => some true | "-" => some false | _ => none)
    let bufLen ← bl.toInt?
    let err ← parseErr e
    let val ← v.toNat?
    let link ← parseBool lk
    let rec kidsLoop (ts : List String) (acc : Array T) : Option (List T × List String) :=
      match ts with
      | ")" :: rest => some (acc.toList, rest)
      | _ => do
        let (k, rest) ← parseT ts
        kidsLoop rest (acc.push k)
    let (kids, rest) ← kidsLoop rest #[]
    pure (.mk { name, kind, start, len, index, isRoot, bufLen, err, val, link } kids, rest)
  | _ => none

/-! ### programs -/

mutual
partial def parseItems (ts : List String) (acc : Array Prog) : Option (List Prog × List String) :=
  match ts with
  | "]" :: rest => some (acc.toList, rest)
  | _ => do
    let (p, rest) ← parseItem ts
    parseItems rest (acc.push p)

partial def parseBody : List String → Option (List Prog × List String)
  | "[" :: rest => parseItems rest #[]
  | _ => none

partial def parseItem : List String → Option (Prog × List String)
  | "u" :: n :: w :: rest => do pure (.u (← parseName n) (← w.toNat?), rest)
  | "raw" :: n :: w :: rest => do pure (.raw (← parseName n) (← w.toInt?), rest)
  | "syn" :: n :: rest => do pure (.syn (← parseName n), rest)
  | "st" :: n :: rest => do
    let name ← parseName n
    let (b, rest) ← parseBody rest
    pure (.comp false name b, rest)
  | "ar" :: n :: rest => do
    let name ← parseName n
    let (b, rest) ← parseBody rest
    pure (.comp true name b, rest)
  | "fr" :: n :: rest => do
    let n ← n.toInt?
    let (b, rest) ← parseBody rest
    pure (.sub .framed n b, rest)
  | "li" :: n :: rest => do
    let n ← n.toInt?
    let (b, rest) ← parseBody rest
    pure (.sub .limited n b, rest)
  | "rg" :: o :: n :: rest => do
    let o ← o.toInt?
    let n ← n.toInt?
    let (b, rest) ← parseBody rest
    pure (.sub (.range o) n b, rest)
  | "sa" :: x :: "-" :: rest => do pure (.seek true (← x.toInt?) false [], rest)
  | "sa" :: x :: rest => do
    let x ← x.toInt?
    let (b, rest) ← parseBody rest
    pure (.seek true x true b, rest)
  | "sr" :: x :: "-" :: rest => do pure (.seek false (← x.toInt?) false [], rest)
  | "sr" :: x :: rest => do
    let x ← x.toInt?
    let (b, rest) ← parseBody rest
    pure (.seek false x true b, rest)
  | "ff" :: o :: n :: a :: rest => do
    let o ← parseBool o
    let name ← parseName n
    let a ← parseBool a
    let (b, rest) ← parseBody rest
    pure (.fmt (.rest o) name a b, rest)
  | "fl" :: w :: o :: n :: a :: rest => do
    let w ← w.toInt?
    let o ← parseBool o
    let name ← parseName n
    let a ← parseBool a
    let (b, rest) ← parseBody rest
    pure (.fmt (.len w o) name a b, rest)
  | "fg" :: off :: w :: n :: a :: rest => do
    let off ← off.toNat?
    let w ← w.toInt?
    let name ← parseName n
    let a ← parseBool a
    let (b, rest) ← parseBody rest
    pure (.fmt (.range off w) name a b, rest)
  | "in" :: a :: rest => do
    let a ← parseBool a
    let (b, rest) ← parseBody rest
    pure (.inl a b, rest)
  | "fb" :: n :: w :: a :: rest => do
    let name ← parseName n
    let w ← w.toNat?
    let a ← parseBool a
    let (b, rest) ← parseBody rest
    pure (.fmtBuf name w a b, rest)
  | "sb" :: n :: w :: rest => do
    let name ← parseName n
    let w ← w.toNat?
    let (b, rest) ← parseBody rest
    pure (.rootFn false name w b, rest)
  | "ab" :: n :: w :: rest => do
    let name ← parseName n
    let w ← w.toNat?
    let (b, rest) ← parseBody rest
    pure (.rootFn true name w b, rest)
  | "rb" :: n :: w :: rest => do pure (.rootBuf (← parseName n) (← w.toNat?), rest)
  | "fail" :: rest => some (.fail true, rest)
  | "errf" :: rest => some (.fail false, rest)
  | "lp" :: w :: m :: rest => do
    let w ← w.toNat?
    let m ← m.toNat?
    let (b, rest) ← parseBody rest
    pure (.loop w m b, rest)
  | _ => none
end


def bitsOfInput (nbits : Nat) (hex : String) : Option Bits := do
  let bs ← bytesOfHex hex
  let bits := bytesToBits bs
  if bits.length < nbits then none else pure (bits.take nbits)

/-- a parsed `prog` op: the configuration and the input bits -/
def parseProg (ws : List String) : Option (Cfg × Bits) :=
  match ws with
  | f :: g :: off :: len :: arr :: nbits :: hex :: rest =>
    match parseBool f, parseBool g, off.toNat?, len.toNat?, parseBool arr, nbits.toNat?, parseBody rest with
    | some force, some fillGaps, some off, some len, some arr, some nbits, some (body, []) =>
      (bitsOfInput nbits hex).map (fun input => ({ force, fillGaps, off, len, arr, body }, input))
    | _, _, _, _, _, _, _ => none
  | _ => none

end C04Tree
