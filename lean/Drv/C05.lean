import FqModel.Proto
import FqModel.ToBits
import FqModel.LargeObs
/-!
  driver for C05.  One case line per decode value (all operations on it = one history):

    v src=<S> path=<P> L=<buffer bits> r=<start>:<len> fl=<flags> w=<byte off>:<hex window> ops=<op,…>  TAB  <obs;…>

  flags: R dv.IsRoot, T top-level value (the decoded input itself), S synthetic, W raw bits value,
         N value of a nested buffer, F root whose Range is in its own buffer's coordinates
         (Field{Struct,Array}RootBitBufFn; Range.Start of the other roots is a position in the PARENT).
  ops:   tobits | tobytes | tobits:P | tobytes:P | fmt:F:SB | rfmt8:F:SB | rfmt1:F:SB | stdout | stdoutr
  obs:   b:<unit>:<nbits>:<hex>  (a Binary: bits, right zero padded to bytes) | s:<hex> (a string)
         | a:<hex> (an array of ints 0..255) | o:<hex> (raw stdout) | err:<kind>

  For every operation the driver
    (1) computes the MODEL's observation (FqModel.ToBits, the transliterated code path) and compares;
    (2) evaluates the PROPERTY on the implementation's observation: the bits it encodes are
        `valueBits buffer start len` (for a root value: start 0; for the top value: the whole
        input) — padding only where the property allows it, and zero.  (2) does not go through
        `innerRange`/`toBinary`/`toReader`; it uses the specification `valueBits`, the decoders
        of the textual formats, and `packR` for the byte boundary.
  The window is a byte-aligned part of the buffer that contains the expected range; the model is
  run on the window with the range shifted (Proofs.C05: `slice_window`).
-/
open FqModel FqModel.ToBits FqModel.Proto

namespace DrvC05

structure Case where
  L : Nat
  start : Nat
  len : Nat
  isRoot : Bool
  top : Bool
  synth : Bool
  raw : Bool
  ownCoord : Bool
  woff : Nat
  wbytes : List UInt8
  ops : List String

def kv (ws : List String) (k : String) : Option String :=
  ws.findSome? fun w => if w.startsWith (k ++ "=") then some ((w.drop (k.length + 1)).toString) else none

def parseCase (op : String) : Option Case := do
  let ws := words op
  guard (ws.head? == some "v")
  let L ← (← kv ws "L").toNat?
  let r ← kv ws "r"
  let (start, len) ← match r.splitOn ":" with
    | [a, b] => do pure (← a.toNat?, ← b.toNat?)
    | _ => none
  let fl ← kv ws "fl"
  let w ← kv ws "w"
  let (woff, wb) ← match w.splitOn ":" with
    | [a, b] => do pure (← a.toNat?, ← bytesOfHex b)
    | _ => none
  let ops := ((← kv ws "ops").splitOn ",").filter (· ≠ "")
  pure { L, start, len, isRoot := fl.contains 'R', top := fl.contains 'T', synth := fl.contains 'S',
         raw := fl.contains 'W', ownCoord := fl.contains 'F', woff, wbytes := wb, ops }

/-- the part of the buffer that the window shows -/
def Case.wbits (c : Case) : Bits := (bytesToBits c.wbytes).take (c.L - 8 * c.woff)

/-- the value as the model sees it, in window coordinates -/
def Case.dv (c : Case) : Option DV :=
  if c.isRoot then
    if c.woff = 0 then some { root := c.wbits, start := c.start, len := c.len, isRoot := true, synthetic := c.synth }
    else none
  else if 8 * c.woff ≤ c.start then
    some { root := c.wbits, start := c.start - 8 * c.woff, len := c.len, isRoot := false, synthetic := c.synth }
  else none

def hexOrDash (bs : List UInt8) : String := if bs.isEmpty then "-" else hexOfBytes bs

def asciiBytes (cs : List Char) : List UInt8 := cs.map fun c => UInt8.ofNat c.toNat

def showBinary (b : Binary) : String :=
  match b.content with
  | .ok bits => s!"b:{b.unit}:{bits.length}:{hexOrDash (packR bits)}"
  | .err e => s!"err:{e}"
  | .panic w => s!"panic:{w}"

def showRes {α} (f : α → String) : Res α → String
  | .ok a => f a
  | .err e => s!"err:{e}"
  | .panic w => s!"panic:{w}"

def showRendered : Rendered → String
  | .bytes b => s!"s:{hexOrDash b}"
  | .text t => s!"s:{hexOrDash (asciiBytes t)}"
  | .ints a => s!"a:{hexOrDash (a.map UInt8.ofNat)}"

/-- the model's observation for one operation -/
def modelObs (v : DV) (op : String) : Option String :=
  match op.splitOn ":" with
  | ["tobits"] => some (showRes showBinary (toBitsOp 1 0 false v))
  | ["tobytes"] => some (showRes showBinary (toBitsOp 8 0 false v))
  | ["tobits", p] => p.toNat?.map fun p => showRes showBinary (toBitsOp 1 p false v)
  | ["tobytes", p] => p.toNat?.map fun p => showRes showBinary (toBitsOp 8 p false v)
  | ["fmt", f, sb] => sb.toNat?.map fun sb => showRes showRendered (toValueRaw f sb v)
  | ["ufmt", f, sb] => sb.toNat?.map fun sb => showRes showRendered (toValueRaw f sb v)
  | ["rfmt8", f, sb] => sb.toNat?.map fun sb => showRes showRendered (toValueRange 8 f sb v)
  | ["rfmt1", f, sb] => sb.toNat?.map fun sb => showRes showRendered (toValueRange 1 f sb v)
  | ["stdout"] => some (showRes (fun b => s!"o:{hexOrDash b}") (rawStdoutToBytes v))
  | ["stdoutr"] => some (showRes (fun b => s!"o:{hexOrDash b}") (rawStdoutRange v))
  | _ => none

/-! ### the property predicate -/

def allFalse (bs : Bits) : Bool := bs.all (· == false)

/-- `bytes` are exactly `bits` zero-padded on the right to a byte boundary -/
def rightPaddedEq (bytes : List UInt8) (bits : Bits) : Bool :=
  let bb := bytesToBits bytes
  bytes.length == (bits.length + 7) / 8 && bb.take bits.length == bits && allFalse (bb.drop bits.length)

/-- `got` is `want` with `< unit` zero bits in front, total length a multiple of `unit` -/
def leftPaddedEq (unit : Nat) (got want : Bits) : Bool :=
  let pad := got.length - want.length
  got.length ≥ want.length && pad < unit && got.length % unit == 0
    && allFalse (got.take pad) && got.drop pad == want

def parseBinaryObs (obs : String) : Option (Nat × Bits) :=
  match obs.splitOn ":" with
  | ["b", u, n, h] => do
    let u ← u.toNat?
    let n ← n.toNat?
    let bytes ← bytesOfHex h
    let bb := bytesToBits bytes
    guard (bytes.length == (n + 7) / 8 && allFalse (bb.drop n))
    pure (u, bb.take n)
  | _ => none

def parseTagged (tag : String) (obs : String) : Option (List UInt8) :=
  match obs.splitOn ":" with
  | [t, h] => if t == tag then bytesOfHex h else none
  | _ => none

def charsOfBytes (bs : List UInt8) : List Char := bs.map fun b => Char.ofNat b.toNat

/-- does the rendering `obs` (format `f`) encode exactly the reader bits `bits`? -/
def checkRender (f : String) (sb : Nat) (bits : Bits) (obs : String) : Except String Unit :=
  let str := parseTagged "s" obs
  match f with
  | "string" =>
    match str with
    | some b => if rightPaddedEq b bits then .ok () else .error "string: bytes are not the value's bits"
    | none => .error "string: not a string"
  | "hex" =>
    match str with
    | some b =>
      let cs := charsOfBytes b
      match bytesOfHexChars cs with
      | some d => if rightPaddedEq d bits && hexChars d == cs then .ok () else .error "hex: decodes to other bits"
      | none => .error "hex: not hex"
    | none => .error "hex: not a string"
  | "base64" =>
    match str with
    | some b =>
      match b64decode (charsOfBytes b) with
      | some d => if rightPaddedEq d bits then .ok () else .error "base64: decodes to other bits"
      | none => .error "base64: not canonical base64"
    | none => .error "base64: not a string"
  | "byte_array" =>
    match parseTagged "a" obs with
    | some d => if rightPaddedEq d bits then .ok () else .error "byte_array: other bits"
    | none => .error "byte_array: not an array of bytes"
  | "md5" =>
    match str with
    | some b => if charsOfBytes b == hexChars (C05Md5.digest (packR bits)) then .ok () else .error "md5: not the digest of the value's bytes"
    | none => .error "md5: not a string"
  | "truncate" =>
    match str with
    | some b => if rightPaddedEq b (bits.take (truncateBytes * 8)) then .ok () else .error "truncate: not the first 1024 bytes"
    | none => .error "truncate: not a string"
  | "snippet" =>
    match str with
    | some b =>
      let cs := charsOfBytes b
      match cs with
      | '<' :: rest =>
        let size := rest.takeWhile (· ≠ '>')
        let payload := (rest.dropWhile (· ≠ '>')).drop 1
        if size != stringByteBits sb bits.length then .error "snippet: wrong size" else
        match b64decode payload with
        | some d => if rightPaddedEq d (bits.take (snippetBytes * 8)) then .ok () else .error "snippet: payload is not the first 256 bytes"
        | none => .error "snippet: payload not base64"
      | _ => .error "snippet: no '<'"
    | none => .error "snippet: not a string"
  | _ => .error "unknown format"

/-- the property on one observation; `vb` = the specification's bits of the value -/
def checkProp (vb : Bits) (op obs : String) : Except String Unit :=
  let unitOf (u p : Nat) : Nat := if u * p = 0 then u else u * p
  let bin (u p : Nat) : Except String Unit :=
    match parseBinaryObs obs with
    | some (u', bits) =>
      if u' != u then .error s!"unit {u'}"
      else if leftPaddedEq (unitOf u p) bits vb then .ok ()
      else .error "bits are not the value's range (allowing zero padding in front)"
    | none => .error "not a binary"
  match op.splitOn ":" with
  | ["tobits"] =>
    match parseBinaryObs obs with
    | some (u, bits) => if u == 1 && bits == vb then .ok () else .error "tobits is not the slice of the buffer"
    | none => .error "not a binary"
  | ["tobytes"] => bin 8 0
  | ["tobits", p] => match p.toNat? with | some p => bin 1 p | none => .error "bad p"
  | ["tobytes", p] => match p.toNat? with | some p => bin 8 p | none => .error "bad p"
  | ["fmt", f, sb] => match sb.toNat? with | some sb => checkRender f sb vb obs | none => .error "bad sb"
  | ["ufmt", f, sb] => match sb.toNat? with | some sb => checkRender f sb vb obs | none => .error "bad sb"
  | ["rfmt8", f, sb] =>
    match sb.toNat? with
    | some sb => checkRender f sb (List.replicate ((8 - vb.length % 8) % 8) false ++ vb) obs
    | none => .error "bad sb"
  | ["rfmt1", f, sb] => match sb.toNat? with | some sb => checkRender f sb vb obs | none => .error "bad sb"
  | ["stdout"] | ["stdoutr"] =>
    match parseTagged "o" obs with
    | some b => if leftPaddedEq 8 (bytesToBits b) vb then .ok () else .error "raw stdout is not the value's bytes"
    | none => .error "no stdout"
  | _ => .error "unknown op"

def step (op obs : String) : String :=
  match parseCase op with
  | none => "BADOP parse"
  | some c =>
    let obss := obs.splitOn ";"
    if obss.length != c.ops.length then s!"BADOP {c.ops.length} ops, {obss.length} observations" else
    match c.dv with
    | none => "BADOP window does not start at or before the range"
    | some v =>
      -- the specification's range: the reported range; a root value starts at bit 0 of its buffer
      -- unless its Range is already expressed in its own buffer (flag F)
      let es := if c.isRoot && !c.ownCoord then 0 else v.start
      let inRange := es + c.len ≤ v.root.length
      let vb := valueBits v.root es c.len
      let topBad := c.top && !(c.isRoot && c.len == c.L && c.woff == 0 && c.wbits.length == c.L)
      let rs := (c.ops.zip obss).map fun (o, ob) =>
        let m := modelObs v o
        -- md5 is a one-way rendering: its predicate IS "equals the RFC-1321 digest of the value's
        -- bytes", which is what the model computes from the same bits (Props.C05.render_of_tobits,
        -- md5_of_string) — computed once, not twice, because inputs can be > 1 MiB
        let isMd5 := match o.splitOn ":" with
          | [k, "md5", _] => k == "fmt" || k == "ufmt" || k == "rfmt8" || k == "rfmt1"
          | _ => false
        let p : Except String Unit :=
          if topBad then .error "the top value is not the whole input"
          else if c.synth then (if ob.startsWith "err:" then .ok () else .error "synthetic value has bits")
          else if !inRange then (if ob.startsWith "err:" then .ok () else .error "range outside buffer but no error")
          else if isMd5 && !c.ownCoord then
            (if m == some ob then .ok () else .error "md5: not the digest of the value's bytes")
          else checkProp vb o ob
        (o, ob, m, p)
      let bad := rs.find? fun (_, _, m, _) => m.isNone
      let pf := rs.find? fun (_, _, _, p) => match p with | .error _ => true | .ok _ => false
      let dv := rs.find? fun (_, ob, m, _) => m != some ob
      match bad with
      | some (o, _, _, _) => s!"BADOP op {o}"
      | none =>
        let divS := match dv with
          | some (o, _, m, _) => s!"op={o} model={(m.getD "").take 200}"
          | none => ""
        match pf with
        | some (o, _, _, .error why) =>
          s!"PROPFAIL op={o} {why}" ++ (if divS.isEmpty then "" else s!" ;DIVERGE {divS}")
        | _ => if divS.isEmpty then "OK" else s!"DIVERGE {divS}"

/-! ### aggregate cases:  a src=… path=… op=<agg:F:SB|aggd:F|aggv:F|twice:F:SB> n=<raw leaves> lf=<leaf>…  TAB obs;…
    leaf = <relative path>,<L>,<start>:<len>,<flags>,<byte off>:<hex window>.
    ONE conversion (`tovalue` with one options value) rendered all these raw leaves; the model
    renders the tree (`renderTree`, = every leaf on its own by Props.C05.render_tree_pointwise)
    and the property is evaluated on every leaf's observation with that leaf's own bits. -/

def parseLeaf (tok : String) : Option Case := do
  let fs := tok.splitOn ","
  guard (fs.length ≥ 5)
  match fs.reverse with
  | w :: fl :: r :: l :: _ =>
    let L ← l.toNat?
    let (start, len) ← match r.splitOn ":" with
      | [a, b] => do pure (← a.toNat?, ← b.toNat?)
      | _ => none
    let (woff, wb) ← match w.splitOn ":" with
      | [a, b] => do pure (← a.toNat?, ← bytesOfHex b)
      | _ => none
    pure { L, start, len, isRoot := fl.contains 'R', top := false, synth := fl.contains 'S',
           raw := fl.contains 'W', ownCoord := fl.contains 'F', woff, wbytes := wb, ops := [] }
  | _ => none

def parseAggOp (t : String) : Option (String × Nat) :=
  match t.splitOn ":" with
  | ["agg", f, sb] => sb.toNat?.map fun sb => (f, sb)
  | ["twice", f, sb] => sb.toNat?.map fun sb => (f, sb)
  | ["aggd", f] => some (f, 10)
  | ["aggv", f] => some (f, 10)
  | _ => none

def stepAgg (op obs : String) : String :=
  let ws := words op
  match kv ws "op" >>= parseAggOp with
  | none => "BADOP aggregate op"
  | some (f, sb) =>
    let toks := ws.filterMap fun w => if w.startsWith "lf=" then some ((w.drop 3).toString) else none
    match toks.mapM parseLeaf with
    | none => "BADOP leaf"
    | some cs =>
      match cs.mapM Case.dv with
      | none => "BADOP leaf window"
      | some dvs =>
        let obss := if obs == "none" then [] else obs.splitOn ";"
        let model := ((renderTree f sb (VTree.ofLeaves dvs)).leaves).map (showRes showRendered)
        if obss.length != cs.length then
          s!"DIVERGE model={cs.length} rendered leaves, implementation: {(obs.take 60)}"
        else
          let rs : List (Nat × String × String × Except String Unit) :=
            (cs.zip (dvs.zip (obss.zip model))).mapIdx fun i (c, v, ob, m) =>
            let es := if c.isRoot && !c.ownCoord then 0 else v.start
            let inRange := es + c.len ≤ v.root.length
            let p : Except String Unit :=
              if c.synth || !inRange then (if ob.startsWith "err:" then .ok () else .error "no bits but a rendering")
              else checkRender f sb (valueBits v.root es c.len) ob
            (i, ob, m, p)
          let pf := rs.find? fun (_, _, _, p) => match p with | .error _ => true | .ok _ => false
          let dv := rs.find? fun (_, ob, m, _) => m != ob
          let divS := match dv with
            | some (i, _, m, _) => s!"leaf={i} model={(m.take 200)}"
            | none => ""
          match pf with
          | some (i, _, _, .error why) =>
            s!"PROPFAIL leaf={i} of {cs.length} rendered by one conversion: {why}" ++ (if divS.isEmpty then "" else s!" ;DIVERGE {divS}")
          | _ => if divS.isEmpty then "OK" else s!"DIVERGE {divS}"

/-! ### large values:  lv <format> <seed> <nbytes> <hdr|-> <path> <start> <len> <op>  TAB  <bytes> <ok|…> <hashes> <mm> | md5 <hex>
    (harness/cmd/c05/large.go).  The input file is regenerated from the seed; the expected bytes are the
    specification `bitsToBytesPadR (pad zero bits ++ slice file start len)` (pad = the < 8 zero bits `tobytes`
    puts in front; 0 for `rhex`), computed on a ByteArray and cross-checked against the list definition
    (`LargeObs.selfCheck`); compared by length and FNV-1a-64 per 4096-byte block. -/

def stepLarge (op obs : String) : String :=
  match words op with
  | [_, _fmt, seed, nbytes, hdr, _path, start, len, o] =>
    match seed.toNat?, nbytes.toNat?, start.toNat?, len.toNat?, (if hdr == "-" then some [] else bytesOfHex hdr) with
    | some seed, some nbytes, some start, some len, some hdr =>
      if start + len > 8 * nbytes || nbytes > 3000000 || hdr.length > nbytes then "BADOP lv range" else
      let d0 := LargeObs.genBytes seed nbytes
      let d := (ByteArray.mk hdr.toArray) ++ d0.extract hdr.length d0.size
      let pad := (8 - len % 8) % 8
      let left := LargeObs.packBits d start len pad
      if !LargeObs.selfCheck d start len pad left then "BADOP packBits disagrees with bitsToBytesPadR" else
      let exp : Option ByteArray := match o.splitOn ":" with
        | ["stdout"] | ["hex"] | ["base64"] | ["string"] | ["byte_array"] | ["tobits"] | ["md5"] => some left
        | ["slice", a, b] => match a.toNat?, b.toInt? with
          | some a, some b => some (left.extract a (if b < 0 then left.size else b.toNat))
          | _, _ => none
        | ["rhex"] =>
          let r := LargeObs.packBits d start len 0
          if LargeObs.selfCheck d start len 0 r then some r else none
        | _ => none
      match exp with
      | none => "BADOP lv op"
      | some exp =>
        match words obs with
        | ["md5", h] =>
          if o != "md5" then "BADOP md5 observation" else
          if h.toList == hexChars (C05Md5.digest exp.toList) then "OK"
          else "PROPFAIL md5: not the digest of the value's bytes"
        | [n, ec, hs, mm] =>
          match n.toNat? with
          | none => "BADOP lv count"
          | some n =>
            if o == "md5" then "BADOP md5 op without digest" else
            let mmS := if mm == "-" then "" else s!" (harness reference differs at block:bytes {mm.take 80}…)"
            match LargeObs.compare exp n hs with
            | some why => s!"PROPFAIL op={o} {why}{mmS}"
            | none =>
              if ec != "ok" then s!"PROPFAIL op={o} {ec}"
              else if mm != "-" then "BADOP the harness reference differs although the hashes agree"
              else "OK"
        | _ => "BADOP lv obs"
    | _, _, _, _, _ => "BADOP lv numbers"
  | _ => "BADOP lv syntax"

def stepAll (op obs : String) : String :=
  if op.startsWith "lv " then stepLarge op obs.trimAscii.toString else
  if op.startsWith "a " then stepAgg op obs else step op obs

end DrvC05

def main : IO Unit := run DrvC05.stepAll
