import FqModel.Proto
import FqModel.Recover
import FqModel.Recover2
import FqModel.ReadChunks
/-! driver for C06

  `batch <path> <format> <f|n> <seed> <mod> <lo> <hi>` TAB `cases=<n> <obs>@<kind>*<count> …`
  `allfmt <path> <mut> <f|n>` / `fields …` / `types <path> <format> <f|n> <seed> <mod> <dir>` TAB the same histogram
  `d <path> <mut> <format> <f|n>`  TAB `<obs>`          one decode.Decode (every panic / resource case, replays)
  `i <path> <mut> <format> <f|n>`  TAB `tree|error|panic:…|resource:…`   the interpreter path
  `core <prim> <arg> <buf bytes> <pos bits> <f|n>` TAB `ok|err:io|err:decoder|panic:…|resource:…`
  `dprog <format> <f|n> <hex>` TAB `<class> <leaves>`    DProg correspondence (harness/cmd/c06/dprog.go): the model is
                                                        `runDProg` of the transliterated decoder; class AND leaf list must agree
  `chunk <carrier> <format> <f|n> <seed> <mod> <level> <k>` TAB the same histogram (chunk-boundary family, chunks.go)
  `rd <nal|unsync|bitflip> <stale hex> <input hex> <plen/c,…>` TAB `<n>:<hex>,…[,panic:<key>]`
                                                        the adapter's Read driven call by call (destination size plen,
                                                        inner reader delivering min c plen remaining): compared call by
                                                        call with `nalRead` / `unsyncRead` / `bitflipRead` of FqModel/ReadChunks.lean
  `rdall <nal|unsync> <fill hex> <len> <off.hex,…|->` TAB `<plen/n,…> <outlen>:<fnv1a64>`
                                                        the adapter between bitio.IOReader and bytes.Buffer.ReadFrom (what
                                                        d.NewBitBufFromReader builds) on a generated payload; the observed
                                                        call schedule must cover the payload and satisfy the contract, the
                                                        output must be the model's on that schedule AND (nal) `unescape`
                                                        of the whole payload
  `skip …` TAB `resource:…`                             a job given up for time/memory (counted, not a violation)

  <obs> of a decode = `tree|partial|error / n / k / i / v`: n formats in the group, k collected format
  errors, i index of the tree's format (or -), v = the tree carries `.Err`.

  verdicts
    * property predicate (independent of the model): the observation is not `panic:…`.
      A panic is answered `PROPFAIL <fmt>:<function>:<kind> …` (`KNOWN …` only for the keys of `knownKeys`,
      the defect classes with status "known" in known_findings.json).
    * correspondence: `decodeGroup` run on the outcome vector the observation claims (k recoverable
      failures, then a success or nothing) must give exactly that observation (class, k, i, v);
      `corePrim` must predict the class of a core case. Otherwise DIVERGE.
-/
open FqModel FqModel.Recover FqModel.Proto

def failDec : Decoder := fun _ => .panic .ioError
def okDec : Decoder := fun _ => .ok ()

def renderResult : Result → String
  | .tree i errs => s!"tree/{errs.length}/{i}/0"
  | .treeWithErr i _ => s!"partial/1/{i}/1"
  | .formatsErr errs => s!"error/{errs.length}/-/0"
  | .panic _ => "panic"

/-- the model's answer for a group of `n` formats of which the first `k` fail recoverably and,
    if `hasTree`, the next one succeeds -/
def modelShape (n k : Nat) (hasTree : Bool) : String :=
  let g : List Decoder :=
    if hasTree then List.replicate k failDec ++ List.replicate (n - k) okDec
    else List.replicate n failDec
  renderResult (decodeGroup g { bytes := [], force := false })

/-- check one decode observation `cls/n/k/i/v` against the model; "" = agrees -/
def checkObs (obs : String) : String :=
  match obs.splitOn "/" with
  | [cls, sn, sk, si, sv] =>
    match sn.toNat?, sk.toNat?, sv.toNat? with
    | some n, some k, some v =>
      let hasTree := si != "-"
      if hasTree && si.toNat?.isNone then "unparsable index"
      else
        let claimed := s!"{cls}/{k}/{si}/{v}"
        let m := modelShape n (if hasTree && v == 1 then 1 else k) hasTree
        if hasTree && k ≥ n && !(n == 1 && v == 1) then s!"a tree after all {n} formats failed"
        else if m == claimed then "" else s!"{m}"
    | _, _, _ => "unparsable numbers"
  | _ => "not a decode observation"

def isPanic (obs : String) : Bool := obs.startsWith "panic:"
def isResource (obs : String) : Bool := obs.startsWith "resource:"

/-- keys of defect classes that are recorded as status "known" in known_findings.json. Every other panic —
    also the return of one of the 13 that were fixed in /repo — is a falsified property: PROPFAIL.
    Remove a key here when its entry is flipped to "fixed". -/
def knownKeys : List String := []

def knownVerdict (obs : String) : String :=
  let key := (obs.drop 6).toString
  if key.isEmpty || key.contains ' ' then "BADOP panic-key"
  else if knownKeys.contains key then s!"KNOWN {key} unhandled runtime fault (model: tree|error)"
  else s!"PROPFAIL {key} unhandled runtime fault (model: tree|error)"

def decodeVerdict (obs : String) : String :=
  if isPanic obs then knownVerdict obs
  else if isResource obs then "OK resource"
  else if obs.startsWith "badcase" || obs.startsWith "bad:" then s!"BADOP {obs}"
  else match checkObs obs with
    | "" => "OK"
    | why => s!"DIVERGE model={why}"

def batchVerdict (obs : String) : String :=
  match words obs with
  | c :: toks =>
    if !c.startsWith "cases=" then "BADOP cases" else
    match (c.drop 6).toString.toNat? with
    | none => "BADOP cases"
    | some total =>
      let step (acc : Nat × String) (tok : String) : Nat × String :=
        match tok.splitOn "*" with
        | [ok, cs] =>
          match cs.toNat? with
          | none => (acc.1, "BADOP count")
          | some cnt =>
            let o := (ok.splitOn "@").headD ""
            let v := decodeVerdict o
            (acc.1 + cnt, if acc.2 == "" && v != "OK" && v != "OK resource" then v else acc.2)
        | _ => (acc.1, "BADOP token")
      let (sum, bad) := toks.foldl step (0, "")
      if bad != "" then bad
      else if sum != total then "BADOP histogram-does-not-add-up"
      else "OK"
  | [] => "BADOP empty"

def parsePrim : String → Option Prim
  | "ok" => some .okP | "bits" => some .bits | "ubits" => some .ubits | "u" => some .u | "fieldu" => some .u
  | "rawlen" => some .rawlen | "tryrawlen" => some .rawlen | "seekabs" => some .seekabs | "seekrel" => some .seekrel
  | "framed" => some .framed | "limited" => some .limited | "rangefn" => some .rangefn
  | "byteslen" => some .byteslen | "bytesrange" => some .bytesrange | "peekbytes" => some .peekbytes
  | "utf8" => some .utf8 | "bitbufrange" => some .bitbufrange | "alignbits" => some .alignbits
  | "structn" => some .structn | "errorf" => some .errorf | "fatalf" => some .fatalf | "iopanic" => some .iopanic
  | "leastbytes" => some .leastbytes | "leastbits" => some .leastbits | "iszero" => some .iszero
  | _ => none

def coreVerdict (sp sa sb spos sf obs : String) : String :=
  match parsePrim sp, sa.toInt?, sb.toNat?, spos.toNat? with
  | some p, some a, some nb, some pos =>
    if sf != "f" && sf != "n" then "BADOP force" else
    let s : St := { len := Int.ofNat nb * 8, pos := Int.ofNat pos, force := sf == "f" }
    -- the harness decoder is the only format of its group: the class of decodeGroup is the class of the primitive
    let m := (corePrim p s a).cls
    let kindOf (o : String) : String := "panic:" ++ (o.splitOn ":").getLastD ""
    let agrees := if isPanic obs then kindOf obs == m else obs == m
    let div := if agrees then "" else s!" ;DIVERGE model={m}"
    if isPanic obs then knownVerdict obs ++ div
    else if isResource obs then s!"DIVERGE model={m}"   -- no primitive allocates beyond the buffer any more
    else if agrees then "OK" else s!"DIVERGE model={m}"
  | _, _, _, _ => "BADOP parse"

/-! ### DProg correspondence -/

def hexDigit (c : Char) : Option Nat :=
  if '0' ≤ c ∧ c ≤ '9' then some (c.toNat - '0'.toNat)
  else if 'a' ≤ c ∧ c ≤ 'f' then some (c.toNat - 'a'.toNat + 10)
  else none

def parseHexBytes (s : String) : Option (Array Nat) :=
  if s == "-" then some #[] else
  let rec go : List Char → Array Nat → Option (Array Nat)
    | [], acc => some acc
    | [_], _ => none
    | a :: b :: rest, acc =>
      match hexDigit a, hexDigit b with
      | some x, some y => go rest (acc.push (x * 16 + y))
      | _, _ => none
  go s.toList #[]

/-- the transliterated decoders and their Format.RootArray -/
def dprogOf : String → Option (DProg × Bool)
  | "mp3_frame_vbri" => some (vbriProg, false)
  | "vp9_cfm" => some (vp9Prog, true)
  | "prores_frame" => some (proresProg, false)
  | _ => none

def leafLe (a b : Leaf) : Bool :=
  if a.start != b.start then a.start < b.start
  else if a.len != b.len then a.len < b.len
  else decide (a.path ≤ b.path)

def renderLeaves (ls : List Leaf) : String :=
  if ls.isEmpty then "-" else
  ",".intercalate ((ls.mergeSort leafLe).map fun l => s!"{l.path}:{l.start}:{l.len}")

def dprogModel (p : DProg) (rootArray : Bool) (inp : Array Nat) (force : Bool) : String :=
  let r := runDProg p (rootCtx inp rootArray) (rootSt inp.size force)
  let cls := match r.2 with
    | .ok _ => "ok"
    | .panic v => (Outcome.panic v : Outcome Unit).cls
  cls ++ " " ++ renderLeaves r.1

def dprogVerdict (fmt sf hex obs : String) : String :=
  match dprogOf fmt, parseHexBytes hex with
  | some (p, ra), some inp =>
    if sf != "f" && sf != "n" then "BADOP force" else
    if obs.startsWith "badcase" then s!"BADOP {obs}" else
    let m := dprogModel p ra inp (sf == "f")
    let short := if m.length > 400 then (m.take 400).toString ++ "…" else m
    if isPanic obs then knownVerdict ((obs.splitOn " ").headD "") ++ s!" ;DIVERGE model={short}"
    else if m == obs then "OK" else s!"DIVERGE model={short}"
  | _, _ => "BADOP dprog-parse"

/-! ### read-chunk correspondence (FqModel/ReadChunks.lean) -/

open FqModel.ReadChunks in
def hexOfBytes (bs : List Nat) : String :=
  if bs.isEmpty then "-" else
  let d (n : Nat) : Char := if n < 10 then Char.ofNat (48 + n) else Char.ofNat (87 + n)
  String.ofList (bs.flatMap fun b => [d (b / 16 % 16), d (b % 16)])

def fnv64 (bs : List Nat) : UInt64 :=
  bs.foldl (fun h b => (h ^^^ b.toUInt64) * 0x100000001b3) 0xcbf29ce484222325

/-- `a/b,a/b,…` -/
def parsePairs (s : String) : Option (List (Nat × Nat)) :=
  if s == "-" then some [] else
  (s.splitOn ",").mapM fun t =>
    match t.splitOn "/" with
    | [a, b] => match a.toNat?, b.toNat? with
      | some x, some y => some (x, y)
      | _, _ => none
    | _ => none

open FqModel.ReadChunks in
/-- the model's observation of a sequence of Reads on ONE reader value: `n:hex` per call, `panic` where it faults -/
def rdModel (kind : String) (calls : List ReadCall) : Option String :=
  let rec goNal : NalSt → List ReadCall → List String → List String
    | _, [], acc => acc.reverse
    | st, c :: rest, acc =>
      match nalRead .none c st with
      | .ok (n, st', out) => goNal st' rest (s!"{n}:{hexOfBytes out}" :: acc)
      | .panic _ => ("panic" :: acc).reverse
  let rec goUnsync : Bool → List ReadCall → List String → List String
    | _, [], acc => acc.reverse
    | ff, c :: rest, acc =>
      match unsyncRead c ff with
      | .ok (n, ff', out) => goUnsync (if unsyncCarriesState then ff' else ff) rest (s!"{n}:{hexOfBytes out}" :: acc)
      | .panic _ => ("panic" :: acc).reverse
  let goFlip (calls : List ReadCall) : List String :=
    calls.map fun c => match bitflipRead c with
      | .ok (n, out) => s!"{n}:{hexOfBytes out}"
      | .panic _ => "panic"
  match kind with
  | "nal" => some (",".intercalate (goNal ⟨false, false⟩ calls []))
  | "unsync" => some (",".intercalate (goUnsync false calls []))
  | "bitflip" => some (",".intercalate (goFlip calls))
  | _ => none

/-- strip the key of a trailing `panic:<key>` element; returns (observation with bare `panic`, key) -/
def splitPanic (obs : String) : String × Option String :=
  match (obs.splitOn ",").reverse with
  | last :: before =>
    if last.startsWith "panic:" then (",".intercalate (before.reverse ++ ["panic"]), some last) else (obs, none)
  | [] => (obs, none)

open FqModel.ReadChunks in
def rdVerdict (kind sstale shex ssched obs : String) : String :=
  match parseHexBytes sstale, parseHexBytes shex, parsePairs ssched with
  | some st, some inp, some sched =>
    if st.size != 1 then "BADOP stale" else
    if obs.startsWith "badcase" then s!"BADOP {obs}" else
    match rdModel kind (schedule st[0]! inp.toList sched) with
    | none => "BADOP reader-kind"
    | some m =>
      let (bare, key) := splitPanic obs
      let div := if bare == m then "" else s!" ;DIVERGE model={m}"
      match key with
      | some k => knownVerdict k ++ div
      | none => if bare == m then "OK" else s!"DIVERGE model={m}"
  | _, _, _ => "BADOP rd-parse"

/-- the generated payload of an `rdall` case / a `cb:` mutation: `len` bytes `fill`, patterns written over it -/
def genPayload (fill len : Nat) (places : List (Nat × List Nat)) : Option (List Nat) :=
  let base := Array.replicate len fill
  let r := places.foldl (fun (acc : Option (Array Nat)) (pl : Nat × List Nat) =>
    match acc with
    | none => none
    | some a =>
      if pl.1 + pl.2.length > len then none
      else some (pl.2.zipIdx.foldl (fun (a : Array Nat) (bi : Nat × Nat) => a.set! (pl.1 + bi.2) bi.1) a)) (some base)
  r.map (·.toList)

def parsePlaces (s : String) : Option (List (Nat × List Nat)) :=
  if s == "-" then some [] else
  (s.splitOn ",").mapM fun t =>
    match t.splitOn "." with
    | [a, h] => match a.toNat?, parseHexBytes h with
      | some x, some bs => some (x, bs.toList)
      | _, _ => none
    | _ => none

open FqModel.ReadChunks in
def rdallVerdict (kind sfill slen splaces obs : String) : String :=
  match parseHexBytes sfill, slen.toNat?, parsePlaces splaces with
  | some fl, some len, some places =>
    if fl.size != 1 then "BADOP fill" else
    match genPayload fl[0]! len places with
    | none => "BADOP placement-outside-payload"
    | some pl =>
      if obs.startsWith "badcase" then s!"BADOP {obs}" else
      if isPanic obs then knownVerdict ((obs.splitOn " ").headD "") ++ " ;DIVERGE model=no-fault" else
      match obs.splitOn " " with
      | [ssched, sres] =>
        match parsePairs ssched with
        | none => "BADOP schedule"
        | some sched =>
          let calls := schedule 0 pl sched
          -- the observed schedule must be a chunking of exactly this payload within the io.Reader contract
          if sched.any (fun pc => pc.2 > pc.1) then "PROPFAIL inner reader delivered more than len(p)"
          else if (sched.map (·.2)).sum != len then s!"DIVERGE model=schedule-covers-{(sched.map (·.2)).sum}-of-{len}"
          else
            let render (out : List Nat) : String := s!"{out.length}:{(fnv64 out).toNat}"
            match kind with
            | "nal" =>
              match nalReads .none ⟨false, false⟩ calls with
              | .ok (_, out) =>
                let whole := unescape pl
                if render out != sres then s!"DIVERGE model={render out}"
                else if whole != out then s!"DIVERGE model=chunked-model-differs-from-rewrite"
                else "OK"
              | .panic _ => "DIVERGE model=panic"
            | "unsync" =>
              match unsyncReads unsyncCarriesState false calls with
              | .ok out => if render out != sres then s!"DIVERGE model={render out}" else "OK"
              | .panic _ => "DIVERGE model=panic"
            | _ => "BADOP reader-kind"
      | _ => "BADOP rdall-observation"
  | _, _, _ => "BADOP rdall-parse"

def stepC06 (op obs : String) : String :=
  match words op with
  | "batch" :: _ => batchVerdict obs
  | "allfmt" :: _ => batchVerdict obs
  | "fields" :: _ => batchVerdict obs
  | "types" :: _ => batchVerdict obs
  | "runs" :: _ => batchVerdict obs
  | "near" :: _ => batchVerdict obs
  | "chunk" :: _ => batchVerdict obs
  | ["rd", kind, st, hex, sched] => rdVerdict kind st hex sched obs
  | ["rdall", kind, fill, len, places] => rdallVerdict kind fill len places obs
  | ["d", _, _, _, _] => decodeVerdict obs
  | ["i", _, _, _, _] =>
    if isPanic obs then knownVerdict obs
    else if isResource obs || obs == "tree" || obs == "error" then "OK"
    else s!"BADOP {obs}"
  | ["core", p, a, b, pos, f] => coreVerdict p a b pos f obs
  | ["dprog", fmt, f, hex] => dprogVerdict fmt f hex obs
  | "skip" :: _ => if isResource obs then "OK resource" else "BADOP skip"
  | _ => "BADOP op"

def main : IO Unit := run stepC06
