import FqModel.Proto
import FqModel.JqEnv
import FqModel.Gen.Overrides
import FqModel.JsonStr
import FqModel.TryWrap
/-!
  Driver for C07, run `facts` (harness c07 -facts): the harness derives the override table a second time —
  embedded file systems of the running binary in their real load order, the gojq PARSER, "is a builtin" decided
  by compiling a call with the reference engine — and every line is compared here with the regenerated
  Lean table FqModel/Gen/Overrides.lean (written by the text scanner /verif/extract/c07overrides):

    ov <name>/<arity> <file> TAB other | guarded <helper>
        DIVERGE  the table has no such entry, or another shape (scanner and parser disagree)
        PROPFAIL the harness's own observation violates the property predicate: the definition shadows a builtin,
                 is not guarded and is not on the justified list JqEnv.reimplemented (evaluated on the
                 observation alone, independent of the table)
    count TAB n                          n = number of `ov` lines = length of the table
    helper <name> TAB ok | …             shape of the guard helpers
    dynamic TAB f1,f2,…                  the dynamic includes
    gofn TAB [..]                        Go-registered fq functions that collide with a builtin (none)
    esc fq|gojq TAB <ranges>;bad:<k>     what each encoder writes for EVERY one-code-point string (run-length
                                         encoded: raw | u4 = \\uXXXX | s<c> = short escape) and for invalid bytes:
                                         DIVERGE if the model table read off that encoder's AST (Gen.Encoder) predicts
                                         something else, PROPFAIL if fq's line differs from gojq's
    escpairs TAB ok n | …                all ordered pairs of ~150 units: same text in both encoders, compositional
    wrap <skeleton of PROG> <PROG> TAB <skeleton of the re-parsed rewrite>;inner=same|changed;catch=ok|other
                                         fq's own `_eval_query_rewrite({catch_query: …})` applied to PROG, its output text
                                         parsed again by the reference parser (skeletons: A, P(x), T(x), T(x,y)).
                                         DIVERGE if the model (TryWrap: print (wrap PROG H), parsed, parentheses erased)
                                         gives another skeleton; PROPFAIL if the re-parsed text is not
                                         `try PROG catch H` up to parentheses (the user's program was changed)

  The differential cases of the other run are decided by the harness itself (`!OK` / `!PROPFAIL` lines).
-/
open FqModel FqModel.Proto FqModel.JqEnv
open FqModel.Gen.Overrides

/-- registry files are known to the running binary by base name only -/
def normFile (f : String) : String :=
  if f.startsWith "format/" then
    match (f.splitOn "/").getLast? with
    | some b => "format/*/" ++ b
    | none => f
  else f

def shapeText : Shape → String
  | .guarded h => "guarded " ++ h
  | .other => "other"

def parseFn (s : String) : Option (String × Nat) :=
  match s.splitOn "/" with
  | [n, a] => a.toNat?.map (fun k => (n, k))
  | _ => none

/-- the model's run-length summary over all code points (surrogates excluded), as the harness writes it -/
def modelKinds (t : FqModel.Gen.Encoder.Esc) : String := Id.run do
  let mut out := ""
  let mut start := 0
  let mut cur := ""
  let mut prev := 0
  let mut have_ := false
  let flush := fun (out : String) (start prev : Nat) (cur : String) =>
    let seg := if start == prev then s!"{String.ofList (Nat.toDigits 16 start)}:{cur}"
               else s!"{String.ofList (Nat.toDigits 16 start)}-{String.ofList (Nat.toDigits 16 prev)}:{cur}"
    if out == "" then seg else out ++ "," ++ seg
  for c in [0:0x110000] do
    if 0xd800 ≤ c && c ≤ 0xdfff then continue
    let k := FqModel.JsonStr.kindOf t c
    if !have_ then
      start := c; cur := k; have_ := true
    else if k != cur || c != prev + 1 then
      out := flush out start prev cur
      start := c; cur := k
    prev := c
  out := flush out start prev cur
  let bad := if t.nonAscii == [("c == utf8.RuneError && size == 1", "\\ufffd")] then "ufffd" else "other"
  return out ++ ";bad:" ++ bad

structure St where
  seen : Nat := 0
  escFq : String := ""

def stepE (st : St) (op obs : String) : St × String :=
  match words op with
  | ["esc", "fq"] =>
    ({ st with escFq := obs }, verdict (modelKinds FqModel.Gen.Encoder.fq) obs)
  | ["esc", "gojq"] =>
    let corr := verdict (modelKinds FqModel.Gen.Encoder.gojq) obs
    if st.escFq != obs then
      (st, s!"PROPFAIL fq's JSON encoder escapes strings differently from the reference: fq {st.escFq} reference {obs}"
        ++ (if corr == "OK" then "" else " ;" ++ corr))
    else (st, corr)
  | ["escpairs"] =>
    if obs.startsWith "ok " then (st, "OK") else (st, s!"PROPFAIL {obs}")
  | "wrap" :: sk :: _ =>
    match FqModel.TryWrap.readSkeleton sk, obs.splitOn ";" with
    | some orig, [implSk, inner, catch_] =>
      match FqModel.TryWrap.readSkeleton implSk with
      | none => (st, "BADOP skeleton of the rewrite")
      | some impl =>
        open FqModel.TryWrap in
        let h : Tm := .atom 1
        let model := match parseAll (print (wrap orig h)) with
          | some m => show_ (erase m)
          | none => "unparsable"
        let implE := show_ (erase impl)
        let want := show_ (erase (Tm.tryc orig h))
        let corr := if model == implE then "" else s!"DIVERGE model={model}"
        if inner != "inner=same" || catch_ != "catch=ok" || implE != want then
          (st, s!"PROPFAIL the CLI wrap changes the user's program: re-parsed rewrite is {implE} ({inner}, {catch_}), wanted {want}"
            ++ (if corr == "" then "" else " ;" ++ corr))
        else (st, if corr == "" then "OK" else corr)
    | none, _ => (st, "BADOP skeleton")
    | _, _ => (st, s!"PROPFAIL the rewritten program cannot be read back: {obs}")
  | _ => (st, "")

def step (seen : Nat) (op obs : String) : Nat × String :=
  match words op with
  | ["ov", fn, file] =>
    match parseFn fn with
    | none => (seen, "BADOP name/arity")
    | some (n, k) =>
      if obs != "other" && !(obs.startsWith "guarded ") then (seen, "BADOP shape") else
      -- the property predicate on the observation alone
      let guardedObs := obs == "guarded _binary_or_orig" || obs == "guarded _bytes_or_orig"
      let prop := guardedObs || reimplemented.contains (n, k)
      let m := overrides.filter (fun o => o.name == n && o.arity == k && normFile o.file == file)
      let corr :=
        match m with
        | [o] => if shapeText o.shape == obs then "" else s!"DIVERGE model={shapeText o.shape}"
        | [] => "DIVERGE model=absent-from-Gen.overrides"
        | _ => "DIVERGE model=duplicate-in-Gen.overrides"
      if !prop then
        (seen + 1, s!"PROPFAIL {fn} in {file} shadows a gojq builtin, is not guarded ({obs}) and is not a listed re-implementation"
          ++ (if corr == "" then "" else " ;" ++ corr))
      else (seen + 1, if corr == "" then "OK" else corr)
  | ["count"] =>
    match obs.toNat? with
    | none => (seen, "BADOP count")
    | some n =>
      if n == overrides.length && n == seen then (seen, "OK")
      else (seen, s!"DIVERGE model={overrides.length} entries in Gen.overrides, {seen} ov lines seen")
  | ["helper", h] =>
    let m := if h == "_binary_or_orig" then some binaryOrOrigOk else if h == "_bytes_or_orig" then some bytesOrOrigOk else none
    match m with
    | none => (seen, "BADOP helper")
    | some ok =>
      if obs != "ok" then
        (seen, s!"PROPFAIL guard helper {h} does not have the guard shape: {obs}" ++ (if ok then " ;DIVERGE model=ok" else ""))
      else if ok then (seen, "OK") else (seen, "DIVERGE model=not-ok")
  | ["dynamic"] =>
    let want := ",".intercalate (dynamicIncludes.toArray.qsort (· < ·)).toList
    (seen, verdict want obs)
  | ["gofn"] =>
    if obs == "[]" then (seen, "OK")
    else (seen, s!"DIVERGE model=[] (a Go-registered function has the name/arity of a builtin: {obs})")
  | _ => (seen, "BADOP unknown op")

def stepAll (st : St) (op obs : String) : St × String :=
  let (st', r) := stepE st op obs
  if r != "" then (st', r)
  else
    let (n, r') := step st.seen op obs
    ({ st with seen := n }, r')

def main : IO Unit := runSt ({} : St) stepAll
