import FqModel.Proto
import FqModel.JqEnv
import FqModel.Gen.Overrides
/-!
  Driver for C07, run `facts` (harness c07 -facts): the harness derives the override table a second time —
  embedded file systems of the running binary in their real load order, the gojq PARSER, "is a builtin" decided
  by compiling a call with the reference engine — and every line is compared here with the regenerated
  Lean table FqModel/Gen/Overrides.lean (written by the text scanner /verif/extract/c07overrides):

    ov <name>/<arity> <file> TAB other | guarded <helper>
        DIVERGE  the table has no such entry, or another shape (scanner and parser disagree)
        PROPFAIL the harness's own observation violates the property predicate: the definition shadows a builtin,
                 is not guarded and is not on the justified list JqEnv.reimplemented (evaluated on the
                 observation alone, independent of the table)
    count TAB n                          n = number of `ov` lines = length of the table
    helper <name> TAB ok | …             shape of the guard helpers
    dynamic TAB f1,f2,…                  the dynamic includes
    gofn TAB [..]                        Go-registered fq functions that collide with a builtin (none)

  The differential cases of the other run are decided by the harness itself (`!OK` / `!PROPFAIL` lines).
-/
open FqModel FqModel.Proto FqModel.JqEnv
open FqModel.Gen.Overrides

/-- registry files are known to the running binary by base name only -/
def normFile (f : String) : String :=
  if f.startsWith "format/" then
    match (f.splitOn "/").getLast? with
    | some b => "format/*/" ++ b
    | none => f
  else f

def shapeText : Shape → String
  | .guarded h => "guarded " ++ h
  | .other => "other"

def parseFn (s : String) : Option (String × Nat) :=
  match s.splitOn "/" with
  | [n, a] => a.toNat?.map (fun k => (n, k))
  | _ => none

def step (seen : Nat) (op obs : String) : Nat × String :=
  match words op with
  | ["ov", fn, file] =>
    match parseFn fn with
    | none => (seen, "BADOP name/arity")
    | some (n, k) =>
      if obs != "other" && !(obs.startsWith "guarded ") then (seen, "BADOP shape") else
      -- the property predicate on the observation alone
      let guardedObs := obs == "guarded _binary_or_orig" || obs == "guarded _bytes_or_orig"
      let prop := guardedObs || reimplemented.contains (n, k)
      let m := overrides.filter (fun o => o.name == n && o.arity == k && normFile o.file == file)
      let corr :=
        match m with
        | [o] => if shapeText o.shape == obs then "" else s!"DIVERGE model={shapeText o.shape}"
        | [] => "DIVERGE model=absent-from-Gen.overrides"
        | _ => "DIVERGE model=duplicate-in-Gen.overrides"
      if !prop then
        (seen + 1, s!"PROPFAIL {fn} in {file} shadows a gojq builtin, is not guarded ({obs}) and is not a listed re-implementation"
          ++ (if corr == "" then "" else " ;" ++ corr))
      else (seen + 1, if corr == "" then "OK" else corr)
  | ["count"] =>
    match obs.toNat? with
    | none => (seen, "BADOP count")
    | some n =>
      if n == overrides.length && n == seen then (seen, "OK")
      else (seen, s!"DIVERGE model={overrides.length} entries in Gen.overrides, {seen} ov lines seen")
  | ["helper", h] =>
    let m := if h == "_binary_or_orig" then some binaryOrOrigOk else if h == "_bytes_or_orig" then some bytesOrOrigOk else none
    match m with
    | none => (seen, "BADOP helper")
    | some ok =>
      if obs != "ok" then
        (seen, s!"PROPFAIL guard helper {h} does not have the guard shape: {obs}" ++ (if ok then " ;DIVERGE model=ok" else ""))
      else if ok then (seen, "OK") else (seen, "DIVERGE model=not-ok")
  | ["dynamic"] =>
    let want := ",".intercalate (dynamicIncludes.toArray.qsort (· < ·)).toList
    (seen, verdict want obs)
  | ["gofn"] =>
    if obs == "[]" then (seen, "OK")
    else (seen, s!"DIVERGE model=[] (a Go-registered function has the name/arity of a builtin: {obs})")
  | _ => (seen, "BADOP unknown op")

def main : IO Unit := runSt 0 step
