import FqModel.Proto
import FqModel.JqEnv
import FqModel.Gen.Overrides
import FqModel.JsonStr
import FqModel.TryWrap
import FqModel.C07Enc
/-!
  Driver for C07, run `facts` (harness c07 -facts): the harness derives the override table a second time —
  embedded file systems of the running binary in their real load order, the gojq PARSER, "is a builtin" decided
  by compiling a call with the reference engine — and every line is compared here with the regenerated
  Lean table FqModel/Gen/Overrides.lean (written by the text scanner /verif/extract/c07overrides):

    ov <name>/<arity> <file> TAB other | guarded <helper>
        DIVERGE  the table has no such entry, or another shape (scanner and parser disagree)
        PROPFAIL the harness's own observation violates the property predicate: the definition shadows a builtin,
                 is not guarded and is not on the justified list JqEnv.reimplemented (evaluated on the
                 observation alone, independent of the table)
    count TAB n                          n = number of `ov` lines = length of the table
    helper <name> TAB ok | …             shape of the guard helpers
    dynamic TAB f1,f2,…                  the dynamic includes
    gofn TAB [..]                        Go-registered fq functions that collide with a builtin (none)
    esc fq|gojq TAB <ranges>;bad:<k>     what each encoder writes for EVERY one-code-point string (run-length
                                         encoded: raw | u4 = \\uXXXX | s<c> = short escape) and for invalid bytes:
                                         DIVERGE if the model table read off that encoder's AST (Gen.Encoder) predicts
                                         something else, PROPFAIL if fq's line differs from gojq's
    escpairs TAB ok n | …                all ordered pairs of ~150 units: same text in both encoders, compositional
    wrap <skeleton of PROG> <PROG> TAB <skeleton of the re-parsed rewrite>;inner=same|changed;catch=ok|other
                                         fq's own `_eval_query_rewrite({catch_query: …})` applied to PROG, its output text
                                         parsed again by the reference parser (skeletons: A, P(x), T(x), T(x,y)).
                                         DIVERGE if the model (TryWrap: print (wrap PROG H), parsed, parentheses erased)
                                         gives another skeleton; PROPFAIL if the re-parsed text is not
                                         `try PROG catch H` up to parentheses (the user's program was changed)

  Run `enc` (harness c07 -enc, FqModel/C07Enc.lean): the JSON text layer, REAL fq against REAL reference, both
  predicted by the transliterations:
    enc c <wire> TAB <fq> <gojq>              colorjson Indent 0 / gojq.Marshal
    enc i <t|s><n> <wire> TAB <fq> <cli> <gojq>   colorjson Tab/Indent n / the reference command's encoder / gojq.Marshal
        PROPFAIL fq's text differs from the reference's (compact: the library encoder; indented: the command's
                 encoder, and with the white space outside strings removed it must be the library's text)
        DIVERGE  a model predicts another text than its implementation wrote
    num <token> TAB <fq> <gojq> <ovf>         a JSON number token through both `fromjson`s: PROPFAIL if they differ,
                                              DIVERGE if `Num.normalizeNumber` (or the token grammar) says otherwise
    nr <tok>,… TAB rej | …                    strings that are not number tokens: both reject (PROPFAIL if they
                                              differ), the model grammar rejects each (DIVERGE)
    frame <text> TAB <fq> <gojq> <decodes>;tok=<b>   one value then only white space: PROPFAIL if fq and the reference
                                              conclude differently, DIVERGE if `Num.fqFromJSON` / `gojqFromJSON` applied
                                              to the observed Decode results do, or the shared hypothesis
                                              (Token() = EOF iff the next Decode = EOF) fails

  The differential cases of the other run are decided by the harness itself (`!OK` / `!PROPFAIL` lines).
-/
open FqModel FqModel.Proto FqModel.JqEnv
open FqModel.Gen.Overrides

/-- registry files are known to the running binary by base name only -/
def normFile (f : String) : String :=
  if f.startsWith "format/" then
    match (f.splitOn "/").getLast? with
    | some b => "format/*/" ++ b
    | none => f
  else f

def shapeText : Shape → String
  | .guarded h => "guarded " ++ h
  | .other => "other"

def parseFn (s : String) : Option (String × Nat) :=
  match s.splitOn "/" with
  | [n, a] => a.toNat?.map (fun k => (n, k))
  | _ => none

/-- the model's run-length summary over all code points (surrogates excluded), as the harness writes it -/
def modelKinds (t : FqModel.Gen.Encoder.Esc) : String := Id.run do
  let mut out := ""
  let mut start := 0
  let mut cur := ""
  let mut prev := 0
  let mut have_ := false
  let flush := fun (out : String) (start prev : Nat) (cur : String) =>
    let seg := if start == prev then s!"{String.ofList (Nat.toDigits 16 start)}:{cur}"
               else s!"{String.ofList (Nat.toDigits 16 start)}-{String.ofList (Nat.toDigits 16 prev)}:{cur}"
    if out == "" then seg else out ++ "," ++ seg
  for c in [0:0x110000] do
    if 0xd800 ≤ c && c ≤ 0xdfff then continue
    let k := FqModel.JsonStr.kindOf t c
    if !have_ then
      start := c; cur := k; have_ := true
    else if k != cur || c != prev + 1 then
      out := flush out start prev cur
      start := c; cur := k
    prev := c
  out := flush out start prev cur
  let bad := if t.nonAscii == [("c == utf8.RuneError && size == 1", "\\ufffd")] then "ufffd" else "other"
  return out ++ ";bad:" ++ bad

/-! ### run `enc` -/
namespace EncDrv
open FqModel.C07Enc

def hexv (c : Char) : Option Nat :=
  if '0' ≤ c && c ≤ '9' then some (c.toNat - 48)
  else if 'a' ≤ c && c ≤ 'f' then some (c.toNat - 87) else none

def unhexL : List Char → Option (List Nat)
  | [] => some []
  | [_] => none
  | a :: b :: r =>
    match hexv a, hexv b, unhexL r with
    | some x, some y, some rest => some ((x * 16 + y) :: rest)
    | _, _, _ => none

/-- `-` is the empty byte string -/
def unhex (s : String) : Option (List Nat) := if s == "-" then some [] else unhexL s.toList

def hexd (n : Nat) : Char := if n < 10 then Char.ofNat (48 + n) else Char.ofNat (87 + n)
def hex (bs : List Nat) : String :=
  if bs.isEmpty then "-" else String.ofList (bs.flatMap (fun b => [hexd (b / 16), hexd (b % 16)]))

def hexNat (cs : List Char) : Option Nat := cs.foldl (fun a c => match a, hexv c with | some n, some d => some (n * 16 + d) | _, _ => none) (some 0)

def splitAt (c : Char) : List Char → Option (List Char × List Char)
  | [] => none
  | x :: r => if x == c then some ([], r) else (splitAt c r).map (fun (a, b) => (x :: a, b))

def decInt (cs : List Char) : Option Int :=
  match cs with
  | '-' :: r => (String.ofList r).toNat?.map (fun n => -(n : Int))
  | _ => (String.ofList cs).toNat?.map (fun n => (n : Int))

/-- (clamped bits, AppendFloat 'f', AppendFloat 'e') per float leaf: the shared strconv parameter -/
abbrev AfTab := List (Nat × List Nat × List Nat)

mutual
def pValue : Nat → List Char → Option (JV × AfTab × List Char)
  | 0, _ => none
  | f + 1, cs =>
    match cs with
    | 'n' :: r => some (.null, [], r)
    | 't' :: r => some (.bool true, [], r)
    | 'f' :: r => some (.bool false, [], r)
    | 'i' :: r => (splitAt ';' r).bind fun (d, r') => (decInt d).map fun i => (.int i, [], r')
    | 'b' :: r => (splitAt ';' r).bind fun (d, r') => (decInt d).map fun i => (.big i, [], r')
    | 's' :: r => (splitAt ';' r).bind fun (d, r') => (unhexL d).map fun b => (.str b, [], r')
    | 'd' :: r =>
      (splitAt ';' r).bind fun (d, r') =>
        match (String.ofList d).splitOn ":" with
        | [b, c, tf, te] =>
          match hexNat b.toList, hexNat c.toList, unhexL tf.toList, unhexL te.toList with
          | some bits, some cb, some ft, some et => some (.float bits, [(cb, ft, et)], r')
          | _, _, _, _ => none
        | _ => none
    | '[' :: r => (pElems f r).map fun (xs, t, r') => (.arr xs, t, r')
    | '{' :: r => (pMembers f r).map fun (kvs, t, r') => (.obj kvs, t, r')
    | _ => none
def pElems : Nat → List Char → Option (List JV × AfTab × List Char)
  | 0, _ => none
  | f + 1, cs =>
    match cs with
    | ']' :: r => some ([], [], r)
    | _ =>
      (pValue f cs).bind fun (v, t, r) => (pElems f r).map fun (xs, t', r') => (v :: xs, t ++ t', r')
def pMembers : Nat → List Char → Option (List (List Nat × JV) × AfTab × List Char)
  | 0, _ => none
  | f + 1, cs =>
    match cs with
    | '}' :: r => some ([], [], r)
    | _ =>
      (splitAt ';' cs).bind fun (k, r) => (unhexL k).bind fun kb =>
        (pValue f r).bind fun (v, t, r') => (pMembers f r').map fun (kvs, t', r'') => ((kb, v) :: kvs, t ++ t', r'')
end

def readWire (s : String) : Option (JV × AfTab) :=
  let cs := s.toList
  match pValue (cs.length + 1) cs with
  | some (v, t, []) => some (v, t)
  | _ => none

def afOf (t : AfTab) (bits : Nat) (e : Bool) : List Nat :=
  match t.find? (·.1 == bits) with
  | some (_, ft, et) => if e then et else ft
  | none => [63]   -- `?`: the harness clamped to another value than the model

def readCfg (s : String) : Option (Bool × Nat) :=
  match s.toList with
  | 't' :: r => (String.ofList r).toNat?.map (fun n => (true, n))
  | 's' :: r => (String.ofList r).toNat?.map (fun n => (false, n))
  | _ => none

def both (prop corr : String) : String :=
  if prop != "" then (if corr == "" then prop else prop ++ " ;" ++ corr) else if corr == "" then "OK" else corr

def normText (n : Num.Norm) : String :=
  match n with
  | .int i => s!"int:{i}"
  | .big i => s!"big:{i}"
  | .float => "float"
  | .posInf => "float:7ff0000000000000"
  | .negInf => "float:fff0000000000000"

/-- a finite float observation stands for the model's `float` -/
def normClass (obs : String) : String :=
  if obs.startsWith "float:" && obs != "float:7ff0000000000000" && obs != "float:fff0000000000000" then "float" else obs

def asciiBytes (s : String) : List Nat := s.toList.map Char.toNat

def step (op obs : String) : String :=
  match words op with
  | ["enc", "c", w] =>
    match readWire w, words obs with
    | some (v, t), [fq, gj] =>
      let af := afOf t
      let mfq := hex (Fq.marshal FqModel.Gen.Encoder.fq af false 0 v)
      let mgj := hex (Gojq.marshal FqModel.Gen.Encoder.gojq af v)
      let prop := if fq == gj then "" else s!"PROPFAIL fq's compact JSON text differs from the reference encoder's: fq {fq} reference {gj}"
      let corr := if mfq == fq && mgj == gj then "" else s!"DIVERGE model={mfq} {mgj}"
      both prop corr
    | none, _ => "BADOP wire"
    | _, _ => "BADOP observation"
  | ["enc", "i", c, w] =>
    match readCfg c, readWire w, words obs with
    | some (tab, n), some (v, t), [fq, cli, gj] =>
      let af := afOf t
      let mfq := hex (Fq.marshal FqModel.Gen.Encoder.fq af tab n v)
      let mcli := hex (GojqCli.marshal FqModel.Gen.Encoder.gojq af tab n v)
      let prop :=
        if fq != cli then s!"PROPFAIL fq's indented JSON text ({c}) differs from the reference command's: fq {fq} reference {cli}"
        else match unhex fq with
          | none => "PROPFAIL fq's encoder failed"
          | some b =>
            if hex (stripWs b) == gj then ""
            else s!"PROPFAIL fq's indented text ({c}) without insignificant white space is not the reference's compact text {gj}"
      let corr := if mfq == fq && mcli == cli then "" else s!"DIVERGE model={mfq} {mcli}"
      both prop corr
    | none, _, _ => "BADOP config"
    | _, none, _ => "BADOP wire"
    | _, _, _ => "BADOP observation"
  | ["num", tok] =>
    match words obs with
    | [fq, gj, ovf] =>
      let prop := if fq == gj then "" else s!"PROPFAIL fromjson of the number token {tok}: fq {fq}, reference {gj}"
      let model := match Num.parse (asciiBytes tok) with
        | none => "reject"
        | some t => normText (Num.normalizeNumber (fun _ => ovf == "1") t)
      let corr := if model == normClass gj && model == normClass fq then "" else s!"DIVERGE model={model}"
      both prop corr
    | _ => "BADOP observation"
  | ["nr", toks] =>
    let bad := (toks.splitOn ",").filter (fun t => (Num.parse (asciiBytes t)).isSome)
    let corr := match bad with | [] => "" | t :: _ => s!"DIVERGE model=accepts {t}"
    if obs == "rej" then both "" corr
    else if obs.endsWith "fq=1,gojq=1" then both "" (if corr == "" then "DIVERGE model=rejects-all" else corr)
    else both s!"PROPFAIL fromjson accepts a non-number on one side only: {obs}" corr
  | ["frame", _] =>
    match words obs with
    | [fq, gj, d] =>
      match d.splitOn ";tok=" with
      | [ds, tk] =>
        let dl := (ds.splitOn ",").zipIdx.map (fun (x, i) => if x == "v" then Num.Dec.value i else if x == "eof" then .eof else .err)
        let tokEOF := tk == "1"
        let mfq := Num.fqFromJSON dl
        let mgj := match dl with | first :: _ => Num.gojqFromJSON first tokEOF | [] => .fail
        let okOf := fun (r : Num.Res) => match r with | .ok _ => true | .fail => false
        let hyp := match dl with
          | .value _ :: rest => tokEOF == (rest.head? == some Num.Dec.eof)
          | _ => !tokEOF
        let prop := if fq == gj then "" else s!"PROPFAIL fromjson framing: fq {fq}, reference {gj}"
        let corr :=
          if !hyp then "DIVERGE model=shared hypothesis (Token() = EOF iff next Decode = EOF) does not hold"
          else if okOf mfq == fq.startsWith "ok:" && okOf mgj == gj.startsWith "ok:" then ""
          else s!"DIVERGE model={if okOf mfq then "ok" else "fail"} {if okOf mgj then "ok" else "fail"}"
        both prop corr
      | _ => "BADOP decodes"
    | _ => "BADOP observation"
  | _ => ""
end EncDrv

structure St where
  seen : Nat := 0
  escFq : String := ""

def stepE (st : St) (op obs : String) : St × String :=
  match words op with
  | ["esc", "fq"] =>
    ({ st with escFq := obs }, verdict (modelKinds FqModel.Gen.Encoder.fq) obs)
  | ["esc", "gojq"] =>
    let corr := verdict (modelKinds FqModel.Gen.Encoder.gojq) obs
    if st.escFq != obs then
      (st, s!"PROPFAIL fq's JSON encoder escapes strings differently from the reference: fq {st.escFq} reference {obs}"
        ++ (if corr == "OK" then "" else " ;" ++ corr))
    else (st, corr)
  | ["escpairs"] =>
    if obs.startsWith "ok " then (st, "OK") else (st, s!"PROPFAIL {obs}")
  | "wrap" :: sk :: _ =>
    match FqModel.TryWrap.readSkeleton sk, obs.splitOn ";" with
    | some orig, [implSk, inner, catch_] =>
      match FqModel.TryWrap.readSkeleton implSk with
      | none => (st, "BADOP skeleton of the rewrite")
      | some impl =>
        open FqModel.TryWrap in
        let h : Tm := .atom 1
        let model := match parseAll (print (wrap orig h)) with
          | some m => show_ (erase m)
          | none => "unparsable"
        let implE := show_ (erase impl)
        let want := show_ (erase (Tm.tryc orig h))
        let corr := if model == implE then "" else s!"DIVERGE model={model}"
        if inner != "inner=same" || catch_ != "catch=ok" || implE != want then
          (st, s!"PROPFAIL the CLI wrap changes the user's program: re-parsed rewrite is {implE} ({inner}, {catch_}), wanted {want}"
            ++ (if corr == "" then "" else " ;" ++ corr))
        else (st, if corr == "" then "OK" else corr)
    | none, _ => (st, "BADOP skeleton")
    | _, _ => (st, s!"PROPFAIL the rewritten program cannot be read back: {obs}")
  | _ => (st, "")

def step (seen : Nat) (op obs : String) : Nat × String :=
  match words op with
  | ["ov", fn, file] =>
    match parseFn fn with
    | none => (seen, "BADOP name/arity")
    | some (n, k) =>
      if obs != "other" && !(obs.startsWith "guarded ") then (seen, "BADOP shape") else
      -- the property predicate on the observation alone
      let guardedObs := obs == "guarded _binary_or_orig" || obs == "guarded _bytes_or_orig"
      let prop := guardedObs || reimplemented.contains (n, k)
      let m := overrides.filter (fun o => o.name == n && o.arity == k && normFile o.file == file)
      let corr :=
        match m with
        | [o] => if shapeText o.shape == obs then "" else s!"DIVERGE model={shapeText o.shape}"
        | [] => "DIVERGE model=absent-from-Gen.overrides"
        | _ => "DIVERGE model=duplicate-in-Gen.overrides"
      if !prop then
        (seen + 1, s!"PROPFAIL {fn} in {file} shadows a gojq builtin, is not guarded ({obs}) and is not a listed re-implementation"
          ++ (if corr == "" then "" else " ;" ++ corr))
      else (seen + 1, if corr == "" then "OK" else corr)
  | ["count"] =>
    match obs.toNat? with
    | none => (seen, "BADOP count")
    | some n =>
      if n == overrides.length && n == seen then (seen, "OK")
      else (seen, s!"DIVERGE model={overrides.length} entries in Gen.overrides, {seen} ov lines seen")
  | ["helper", h] =>
    let m := if h == "_binary_or_orig" then some binaryOrOrigOk else if h == "_bytes_or_orig" then some bytesOrOrigOk else none
    match m with
    | none => (seen, "BADOP helper")
    | some ok =>
      if obs != "ok" then
        (seen, s!"PROPFAIL guard helper {h} does not have the guard shape: {obs}" ++ (if ok then " ;DIVERGE model=ok" else ""))
      else if ok then (seen, "OK") else (seen, "DIVERGE model=not-ok")
  | ["dynamic"] =>
    let want := ",".intercalate (dynamicIncludes.toArray.qsort (· < ·)).toList
    (seen, verdict want obs)
  | ["gofn"] =>
    if obs == "[]" then (seen, "OK")
    else (seen, s!"DIVERGE model=[] (a Go-registered function has the name/arity of a builtin: {obs})")
  | _ => (seen, "BADOP unknown op")

def stepAll (st : St) (op obs : String) : St × String :=
  let re := EncDrv.step op obs
  if re != "" then (st, re) else
  let (st', r) := stepE st op obs
  if r != "" then (st', r)
  else
    let (n, r') := step st.seen op obs
    ({ st with seen := n }, r')

def main : IO Unit := runSt ({} : St) stepAll
