import FqModel.Proto
import FqModel.Bits
import FqModel.JQValue
import FqModel.JQValueBuild
/-! driver for C08

  Token formats (harness/cmd/c08/ser.go):
    JV  := N | T | F | I<dec> | D<16 hex> | S<hex|-> | A<n> JV*n | O<n> (<hex|-> JV)*n
    Val := the same with Val inside containers | @ JV (a decode value, shown by its tovalue) | X
    DV  := s<n> (<hex|-> DV)*n | a<n> DV*n | (u<dec>|i<dec>|b<dec>|f<16hex>|t<hex>|B0|B1|j JV|r<hex>/<nbits>) (-|= JV) (.|y)

  `M [@note]* ft<n> (<16hex> <hex text>)*n <DV> | op ; op …`  TAB  `obs ; obs …`
      the real JQValue* methods called directly on the value; per op:
        DIVERGE   the model's method (FqModel.JQValue, impl mode) gives another result
        PROPFAIL  the result differs from what the specification (plain value of `tovalue` + the
                  documented exceptions D1-D4) gives for the builtin that dispatches to the method
        KNOWN k   … and the difference is exactly the recorded deviation k
  `Q [@note]* ft… <DV> | <Q>`  TAB  `<obs of v|q> || <obs of v|tovalue|q>`   obs = Val* (. | err)
        DIVERGE   model eval (impl mode) on `wrap v` ≠ first obs, or model eval on `toValue v` ≠ second
        PROPFAIL  first obs ≠ specification eval on `wrap v`; or the two observations differ (as JSON,
                  invalid UTF-8 replaced) although the specification says they agree
-/
open FqModel FqModel.JQValue FqModel.Proto

abbrev P (α : Type) := List String → Option (α × List String)

def hex64 (s : String) : Option UInt64 :=
  match bytesOfHex s with
  | some bs => if bs.length == 8 then some (bs.foldl (fun (a : UInt64) b => a * 256 + b.toNat.toUInt64) 0) else none
  | none => none

def hex16 (b : UInt64) : String :=
  hexOfBytes ((List.range 8).map (fun i => (b >>> (8 * (7 - i)).toUInt64).toUInt8))

def tailStr (t : String) : String := String.ofList (t.toList.drop 1)
def headCh (t : String) : Char := t.toList.headD ' '

partial def pJV : P JV
  | [] => none
  | t :: r =>
    match headCh t with
    | 'N' => if t == "N" then some (.null, r) else none
    | 'T' => if t == "T" then some (.bool true, r) else none
    | 'F' => if t == "F" then some (.bool false, r) else none
    | 'I' => (tailStr t).toInt?.map (fun i => (.int i, r))
    | 'D' => (hex64 (tailStr t)).map (fun b => (.float b, r))
    | 'S' => (bytesOfHex (tailStr t)).map (fun b => (.str b, r))
    | 'A' =>
      match (tailStr t).toNat? with
      | none => none
      | some n =>
        let rec go (n : Nat) (acc : List JV) (r : List String) : Option (List JV × List String) :=
          if n == 0 then some (acc.reverse, r) else
            match pJV r with
            | some (x, r') => go (n - 1) (x :: acc) r'
            | none => none
        (go n [] r).map (fun (xs, r') => (.arr xs, r'))
    | 'O' =>
      match (tailStr t).toNat? with
      | none => none
      | some n =>
        let rec goO (n : Nat) (acc : List (Bytes × JV)) (r : List String) : Option (List (Bytes × JV) × List String) :=
          if n == 0 then some (acc.reverse, r) else
            match r with
            | k :: r1 =>
              match bytesOfHex k, pJV r1 with
              | some kb, some (x, r') => goO (n - 1) ((kb, x) :: acc) r'
              | _, _ => none
            | [] => none
        (goO n [] r).map (fun (kvs, r') => (.obj (objOfList kvs), r'))
    | _ => none

def pSymFlags (k : SKind) (r : List String) : Option (DV × List String) :=
  let fin (sym : Option JV) (r : List String) : Option (DV × List String) :=
    match r with
    | "." :: r' => some (.scalar k sym false, r')
    | "y" :: r' => some (.scalar k sym true, r')
    | _ => none
  match r with
  | "-" :: r' => fin none r'
  | "=" :: r' => match pJV r' with
    | some (j, r'') => fin (some j) r''
    | none => none
  | _ => none

partial def pDV : P DV
  | [] => none
  | t :: r =>
    let rest := tailStr t
    match headCh t with
    | 's' =>
      match rest.toNat? with
      | none => none
      | some n =>
        let rec go (n : Nat) (acc : List (Bytes × DV)) (r : List String) : Option (List (Bytes × DV) × List String) :=
          if n == 0 then some (acc.reverse, r) else
            match r with
            | k :: r1 =>
              match bytesOfHex k, pDV r1 with
              | some kb, some (x, r') => go (n - 1) ((kb, x) :: acc) r'
              | _, _ => none
            | [] => none
        (go n [] r).map (fun (fs, r') => (.struct fs, r'))
    | 'a' =>
      match rest.toNat? with
      | none => none
      | some n =>
        let rec goA (n : Nat) (acc : List DV) (r : List String) : Option (List DV × List String) :=
          if n == 0 then some (acc.reverse, r) else
            match pDV r with
            | some (x, r') => goA (n - 1) (x :: acc) r'
            | none => none
        (goA n [] r).map (fun (es, r') => (.array es, r'))
    | 'u' => match rest.toNat? with
      | some n => pSymFlags (.uint n) r
      | none => none
    | 'i' => match rest.toInt? with
      | some n => pSymFlags (.sint n) r
      | none => none
    | 'b' => match rest.toInt? with
      | some n => pSymFlags (.big n) r
      | none => none
    | 'f' => match hex64 rest with
      | some b => pSymFlags (.flt b) r
      | none => none
    | 't' => match bytesOfHex rest with
      | some b => pSymFlags (.str b) r
      | none => none
    | 'B' => if t == "B1" then pSymFlags (.bool true) r else if t == "B0" then pSymFlags (.bool false) r else none
    | 'j' => if t != "j" then none else match pJV r with
      | some (j, r') => pSymFlags (.any j) r'
      | none => none
    | 'r' =>
      match rest.splitOn "/" with
      | [h, _] => match bytesOfHex h with
        | some b => pSymFlags (.raw b) r
        | none => none
      | _ => none
    | _ => none

def pOptInt (s : String) : Option (Option Int) :=
  if s == "_" then some none else s.toInt?.map some

partial def pQ : P Q
  | [] => none
  | t :: r =>
    let un (c : Q → Q) (r : List String) : Option (Q × List String) :=
      (pQ r).map (fun (a, r') => (c a, r'))
    let bin (c : Q → Q → Q) (r : List String) : Option (Q × List String) :=
      match pQ r with
      | some (a, r1) => (pQ r1).map (fun (b, r2) => (c a b, r2))
      | none => none
    match t with
    | "id" => some (.id, r)
    | "it" => some (.iter, r)
    | "rec" => some (.recurse, r)
    | "keys" => some (.keys, r)
    | "length" => some (.length, r)
    | "type" => some (.type, r)
    | "paths" => some (.paths, r)
    | "toent" => some (.toEntries, r)
    | "tojson" => some (.tojson, r)
    | "tostring" => some (.tostring, r)
    | "tonumber" => some (.tonumber, r)
    | "sort" => some (.sort, r)
    | "pipe" => bin .pipe r
    | "comma" => bin .comma r
    | "obj" => bin .objC r
    | "eq" => bin (.bin .eq) r
    | "lt" => bin (.bin .lt) r
    | "add" => bin (.bin .add) r
    | "sub" => bin (.bin .sub) r
    | "alt" => bin .alt r
    | "arr" => un .arrC r
    | "try" => un .try r
    | "if" =>
      match pQ r with
      | some (c, r1) => match pQ r1 with
        | some (a, r2) => (pQ r2).map (fun (b, r3) => (.ite c a b, r3))
        | none => none
      | none => none
    | "lit" => (pJV r).map (fun (j, r') => (.lit j, r'))
    | "has" => (pJV r).map (fun (j, r') => (.has j, r'))
    | "sl" =>
      match r with
      | a :: b :: r' => match pOptInt a, pOptInt b with
        | some x, some y => some (.slice x y, r')
        | _, _ => none
      | _ => none
    | _ =>
      match headCh t with
      | 'f' => (bytesOfHex (tailStr t)).map (fun k => (.field k, r))
      | 'i' => (tailStr t).toInt?.map (fun i => (.index i, r))
      | _ => none

/-! ### serialisation -/

def floatTok (b : UInt64) : String :=
  if (Float.ofBits b).isNaN then "D7ff8000000000001" else "D" ++ hex16 b

def hx (b : Bytes) : String := if b.isEmpty then "-" else hexOfBytes b

partial def sJV : JV → String
  | .null => "N"
  | .bool true => "T"
  | .bool false => "F"
  | .int i => s!"I{i}"
  | .float b => floatTok b
  | .str s => "S" ++ hx s
  | .arr xs => s!"A{xs.length}" ++ String.join (xs.map (fun x => " " ++ sJV x))
  | .obj kvs =>
    let kvs := objOfList kvs
    s!"O{kvs.length}" ++ String.join (kvs.map (fun kv => " " ++ hx kv.1 ++ " " ++ sJV kv.2))

partial def sVal : Val → String
  | .null => "N"
  | .bool true => "T"
  | .bool false => "F"
  | .int i => s!"I{i}"
  | .float b => floatTok b
  | .str s => "S" ++ hx s
  | .arr xs => s!"A{xs.length}" ++ String.join (xs.map (fun x => " " ++ sVal x))
  | .obj kvs =>
    let kvs := objOfList kvs
    s!"O{kvs.length}" ++ String.join (kvs.map (fun kv => " " ++ hx kv.1 ++ " " ++ sVal kv.2))
  | .dv d => "@ " ++ sJV d.toValue
  | .ext _ => "X"
  | .garr xs => sJV (.arr xs)

def errClass : Err → String
  | .expectedArray => "err:expected-array"
  | .expectedObject => "err:expected-object"
  | .iterator => "err:iterator"
  | .funcType n => "err:func:" ++ n
  | .hasKeyType => "err:has-key"
  | .invalidNumber => "err:invalid-number"
  | .objectKey => "err:object-key"
  | .binop n => "err:binop:" ++ n
  | .unmodelled w => "unmodelled:" ++ w

def sOutcome : Outcome Val → String
  | .ok v => "ok " ++ sVal v
  | .err e => errClass e
  | .panic _ => "panic"

def sEach : Outcome (List (Val × Val)) → String
  | .ok ps => s!"ok P{ps.length}" ++ String.join (ps.map (fun p => " " ++ sVal p.1 ++ " " ++ sVal p.2))
  | .err e => errClass e
  | .panic _ => "panic"

/-- observation of a query: outputs, then `.` or `err` (a Go panic is `panic`) -/
def sRes (r : Res) : String :=
  let outs := String.join (r.outs.map (fun v => sVal v ++ " "))
  match r.err with
  | none => outs ++ "."
  | some (.err (.unmodelled w)) => "unmodelled:" ++ w
  | some (.err _) => outs ++ "err"
  | some (.panic _) => "panic"
  | some (.ok _) => outs ++ "."

/-! ### normal form for "equal as JSON": no decode-value marks, invalid UTF-8 replaced (D4) -/

def normTok (w : String) : Option String :=
  if w == "@" then none
  else if headCh w == 'S' && w != "S-" then
    match bytesOfHex (tailStr w) with
    | some b => some ("S" ++ hx (sanitize b))
    | none => some w
  else some w

def normObs (s : String) : String := " ".intercalate ((words s).filterMap normTok)

def isUnmodelled (s : String) : Bool := (s.splitOn "unmodelled:").length > 1

/-! ### float text table -/

def pFloatTable : P (List (UInt64 × Bytes))
  | [] => none
  | t :: r =>
    if !t.startsWith "ft" then none else
    match (String.ofList (t.toList.drop 2)).toNat? with
    | none => none
    | some n =>
      let rec go : Nat → List (UInt64 × Bytes) → List String → Option (List (UInt64 × Bytes) × List String)
        | 0, acc, r => some (acc, r)
        | n + 1, acc, b :: x :: r => match hex64 b, bytesOfHex x with
          | some bits, some txt => go n ((bits, txt) :: acc) r
          | _, _ => none
        | _, _, _ => none
      go n [] r

def mkFF (tbl : List (UInt64 × Bytes)) (b : UInt64) : Option Bytes :=
  (tbl.find? (fun p => p.1 == b)).map (·.2)

/-! ### known deviations (known_findings.json) -/

def knownModes : List (String × Mode) := [
  ("string-index-out-of-range", { impl := false, kStrIdx := true }),
  ("object-key-jqvalue", { impl := false, kObjKey := true }),
  ("gojq-minint-length", { impl := false, kMinInt := true }),
  ("several", { impl := false, kStrIdx := true, kObjKey := true, kMinInt := true })]

/-! ### M lines -/

def splitOps (s : String) : List String := (s.splitOn " ; ").map (fun x => " ".intercalate (words x))

/-- the model's JQValue* method (impl), and the builtin through which the specification sees it -/
def methodObs (ff : UInt64 → Option Bytes) (d : DV) (op : List String) : Option (String × (Mode → Option String)) :=
  let v := Val.dv d
  match op with
  | ["length"] => some (sOutcome d.mLength, fun m => some (sOutcome (funcLength m v)))
  | ["slicelen"] => some (sOutcome d.mSliceLen, fun _ => none)
  | ["type"] => some ("ok S" ++ hx (ofAscii d.mType), fun m => some ("ok S" ++ hx (funcType m v)))
  | ["tonumber"] => some (sOutcome d.mToNumber, fun m => some (sOutcome (funcToNumber m v)))
  | ["tostring"] =>
    -- JQValueToString is used for object keys only (execute.go:64)
    some (sOutcome (d.mToString ff), fun m => some (match objectKey m ff v with
      | .ok s => "ok S" ++ hx s
      | .err e => errClass e
      | .panic _ => "err:func:tostring"))
  | ["togojq"] => some ("ok " ++ sVal d.mToGoJQ, fun m => some ("ok " ++ sJV (v.deepM m)))
  | ["keys"] => some (sOutcome d.mKeys, fun m => some (sOutcome (funcKeys m v)))
  | ["each"] => some (sEach d.mEach, fun m => some (sEach (opEach m v)))
  | ["index", i] =>
    match i.toInt? with
    | none => none
    | some i =>
      some (sOutcome (d.mIndex i), fun m =>
        -- the markers -2 / -1 stand for an index before / after the value
        match d.mSliceLen with
        | .ok (.int l) => some (sOutcome (indexInt m v (if i == -2 then -(l + 1) else if i == -1 then l else i)))
        | _ => some (sOutcome (indexInt m v i)))
  | ["slice", a, b] =>
    match a.toInt?, b.toInt? with
    | some a, some b => some (sOutcome (d.mSlice a b), fun m => some (sOutcome (funcSlice m v (some a) (some b))))
    | _, _ => none
  | ["key", k] =>
    match bytesOfHex k with
    | some k => some (sOutcome (d.mKey k), fun m => some (sOutcome (indexKey m v k)))
    | none => none
  | "has" :: ks =>
    match pJV ks with
    | some (j, []) => some (sOutcome (d.mHas (Val.ofJV j)), fun m => some (sOutcome (funcHas m v (Val.ofJV j))))
    | _ => none
  | _ => none

def isErr (s : String) : Bool := s.startsWith "err:"

/-- equal as results: identical; or both errors; or `ok X` (extra key value) against any value -/
def sameResult (a b : String) : Bool :=
  a == b || (isErr a && isErr b) || (a == "ok X" && b.startsWith "ok ") || (b == "ok X" && a.startsWith "ok ")

def stepM (ff : UInt64 → Option Bytes) (d : DV) (ops obs : List String) : String := Id.run do
  if ops.length != obs.length then return "BADOP ops-and-observations-differ-in-number"
  let mut diverge : Option String := none
  let mut fail : Option String := none
  let mut known : Option String := none
  -- hypothesis NamesDistinct, validated on every serialised value (D.AddChild refuses duplicates)
  match d with
  | .struct fs =>
    if !namesDistinctB (fs.map (·.1)) then
      fail := some s!"the struct lists a member name twice in Children: length {fs.length} but its tovalue has {(objOfList fs).length} members"
  | _ => pure ()
  for (op, ob) in ops.zip obs do
    match methodObs ff d (words op) with
    | none => return s!"BADOP op {op}"
    | some (model, specOf) =>
      if isUnmodelled model then continue
      -- correspondence: model method vs real method (exact, including the error class)
      if !(model == ob || (model == "ok X" && ob.startsWith "ok ")) then
        if diverge.isNone then diverge := some s!"{op} => {model}"
      -- property: the real method's result vs the specification
      match specOf Mode.spec with
      | none => pure ()
      | some sp =>
        if isUnmodelled sp then continue
        if !(sameResult (normObs ob) (normObs sp)) then
          -- a recorded deviation?
          let k := knownModes.find? (fun km => match specOf km.2 with
            | some s => sameResult (normObs ob) (normObs s)
            | none => false)
          match k with
          | some (key, _) => if known.isNone then known := some s!"{key} {op} => {ob} spec {sp}"
          | none => if fail.isNone then fail := some s!"{op} => {ob} but the plain value gives {sp}"
  let div := match diverge with
    | some dtxt => s!" ;DIVERGE model={dtxt}"
    | none => ""
  match fail, known with
  | some f, _ => return s!"PROPFAIL {f}{div}"
  | none, some k => return s!"KNOWN {k}{div}"
  | none, none => return (if div.isEmpty then "OK" else s!"DIVERGE model={(diverge.getD "")}")

/-! ### the hypotheses of theorem `Props.C08.indistinguishable`, executable -/

partial def docOKb : Q → Bool
  | .field k => !isExtKey k
  | .has (.str k) => !isExtKey k
  | .pipe a b => docOKb a && docOKb b
  | .comma a b => docOKb a && docOKb b
  | .arrC q => docOKb q
  | .objC k v => docOKb k && docOKb v
  | .bin _ a b => docOKb a && docOKb b
  | .ite c a b => docOKb c && docOKb a && docOKb b
  | .alt a b => docOKb a && docOKb b
  | .try q => docOKb q
  | _ => true

def keysSortedB : List Bytes → Bool
  | a :: b :: rest => bytesLt a b && keysSortedB (b :: rest)
  | _ => true

partial def goodDVb : DV → Bool
  | .struct fs => keysSortedB (fs.map (·.1)) && fs.all (fun f => goodDVb f.2)
  | .array es => es.all goodDVb
  | .scalar k sym y =>
    match scalarValue k sym with
    | .raw bs => y || validUTF8 bs
    | .j (.int i) => i != minInt
    | _ => true

def modeStrict : Mode := { impl := false, dNullKey := false }
def modeKnown : Mode := { impl := false, kStrIdx := true, kObjKey := true, kMinInt := true }

/-- drop the decode-value marks only (no sanitising, no reordering): the `plainify` of the theorem -/
def stripMarks (s : String) : String := " ".intercalate ((words s).filter (· != "@"))

partial def hasObjC : Q → Bool
  | .objC _ _ => true
  | .pipe a b => hasObjC a || hasObjC b
  | .comma a b => hasObjC a || hasObjC b
  | .arrC q => hasObjC q
  | .bin _ a b => hasObjC a || hasObjC b
  | .ite c a b => hasObjC c || hasObjC a || hasObjC b
  | .alt a b => hasObjC a || hasObjC b
  | .try q => hasObjC q
  | _ => false

/-! ### Q lines -/

def stepQ (ff : UInt64 → Option Bytes) (d : DV) (q : Q) (obs : String) : String :=
  match obs.splitOn " || " with
  | [direct, plain] =>
    let direct := " ".intercalate (words direct)
    let plain := " ".intercalate (words plain)
    if direct.startsWith "batch-failed:panic" then
      -- the interpreter crashed on `v | q`
      let mImpl := sRes (q.eval Mode.real ff (wrap d))
      -- where the model declines (text of a float that arithmetic produced, number text), whether an
      -- object key of the recorded kind is reached is decided with SOME float text: the text of a
      -- float can change strings, not which values reach a key position as decode values
      let ffTotal : UInt64 → Option Bytes := fun b => some ((ff b).getD (ofAscii "0.5"))
      let mTot := if isUnmodelled mImpl then sRes (q.eval Mode.real ffTotal (wrap d)) else mImpl
      let div := if mTot == "panic" || isUnmodelled mImpl then "" else s!" ;DIVERGE model={mImpl}"
      -- the recorded crash: TypeOf panics on the error value that JQValueToString returned for a
      -- non-string JQValue object key (error.go:59). It is the model's only source of a panic inside
      -- `eval` (objectKey on a decode value / gojqx.Array key). If the model still declines (number
      -- text), the kind of the panic — observed by the harness — plus an object construction in the
      -- query decide.
      if direct == "batch-failed:panic:invalid-type-FuncTypeNameError" &&
          (mTot == "panic" || (isUnmodelled mTot && hasObjC q)) then s!"KNOWN object-key-jqvalue interpreter panic"
      else s!"PROPFAIL interpreter panic on v|q ({direct}){div}"
    else if direct.startsWith "batch-failed" || plain.startsWith "batch-failed" then
      s!"BADOP harness could not evaluate: {direct} || {plain}"
    else
    let mImpl := sRes (q.eval Mode.real ff (wrap d))
    let mPlain := sRes (q.eval Mode.real ff (Val.ofJV d.toValue))
    let mSpec := sRes (q.eval Mode.spec ff (wrap d))
    let d1 := if isUnmodelled mImpl || mImpl == direct then none else some s!"v|q: {mImpl}"
    let d2 := if isUnmodelled mPlain || mPlain == plain then none else some s!"v|tovalue|q: {mPlain}"
    let div := match d1, d2 with
      | some a, _ => s!" ;DIVERGE model={a}"
      | none, some b => s!" ;DIVERGE model={b}"
      | none, none => ""
    -- property (1): the observation of `v | q` is what the specification predicts
    let p1 : Option String :=
      if isUnmodelled mSpec || mSpec == direct then none else some s!"v|q gives {direct} but the specification (plain value + documented exceptions) gives {mSpec}"
    -- property (2): as JSON the two runs agree, or the specification itself says they differ
    -- (then the difference is one of D1-D4 by construction of the specification)
    let p2 : Option String :=
      if normObs direct == normObs plain then none
      -- the hypothesis NamesDistinct of the method theorems, validated on every serialised tree: a
      -- struct that lists a member name twice is outside the documented exceptions (its `specView`
      -- is not a Go map), so no difference is excused (Props.C08.struct_indistinguishable_iff_nodup)
      else if !d.namesDistinctDeepB then
        some s!"v|q = {direct} and v|tovalue|q = {plain} differ, and the value has a struct that lists a member name twice in Children (no documented exception)"
      else if isUnmodelled mSpec || isUnmodelled mPlain then none
      else if normObs mSpec != normObs mPlain then none
      else some s!"v|q = {direct} and v|tovalue|q = {plain} differ outside the documented exceptions"
    -- theorem `indistinguishable`: where its hypotheses hold (evaluated here on the model), its
    -- conclusion must hold of the IMPLEMENTATION's observations: same outputs after tovalue, same
    -- order, same ending — no sanitising, no order normalisation
    let thmApplies := docOKb q && goodDVb d &&
      sRes (q.eval modeKnown ff (wrap d)) == mSpec && mSpec == sRes (q.eval modeStrict ff (wrap d)) &&
      !isUnmodelled mSpec
    let p3 : Option String :=
      if thmApplies && stripMarks direct != plain then
        some s!"theorem indistinguishable: hypotheses hold but v|q = {direct} and v|tovalue|q = {plain}"
      else none
    match p1, p2 with
    | none, none =>
      (match p3 with
       | some f => s!"PROPFAIL {f}{div}"
       | none =>
        if div.isEmpty then (if isUnmodelled mImpl || isUnmodelled mPlain || isUnmodelled mSpec then "OK model-declined-float-or-number-text" else (if thmApplies then "OK thm" else "OK")) else s!"DIVERGE model={(d1.getD (d2.getD ""))}")
    | some f, _ =>
      let ks := knownModes.map (fun km => (km.1, sRes (q.eval km.2 ff (wrap d))))
      (match ks.find? (fun kr => kr.2 == direct) with
       | some (key, _) => s!"KNOWN {key} {f}{div}"
       | none =>
         -- a recorded deviation is involved whose consequence the model declines to compute
         if ks.any (fun kr => isUnmodelled kr.2) then s!"OK model-declined-float-or-number-text{div}"
         else s!"PROPFAIL {f}{div}")
    | none, some f => s!"PROPFAIL {f}{div}"
  | _ => "BADOP obs"

/-! ### B lines: AddChild / Remove histories on one struct (FqModel.JQValue `Cmp`) -/

def parseBOp (i : Nat) (s : String) : Option CmpOp :=
  match words s with
  | ["add", k] => (bytesOfHex k).map (fun b => CmpOp.add b (.scalar (.uint (i + 1)) none true))
  | ["rm", k] => (bytesOfHex k).map CmpOp.rm
  | _ => none

def opName : CmpOp → Bytes
  | .add k _ => k
  | .rm k => k

def insertName (k : Bytes) : List Bytes → List Bytes
  | [] => [k]
  | x :: xs => if bytesLt k x then k :: x :: xs else if bytesEq k x then x :: xs else x :: insertName k xs

def cmpSnapshot (c : Cmp) (names : List Bytes) : String :=
  let ks := c.children.map (fun f => hx f.1)
  let k := if ks.isEmpty then "-" else ",".intercalate ks
  let h := String.join (names.map (fun n => match c.mHas (.str n) with
    | .ok (.bool true) => "1"
    | _ => "0"))
  let v := ",".intercalate (names.map (fun n => match c.mKey n with
    | .ok (.dv (.scalar (.uint u) _ _)) => toString u
    | .ok (.dv _) => "?"
    | _ => "-"))
  s!"K{k} H{h} V{v}"

/-- the model's snapshots, step by step, until the decoder stops -/
def cmpSnapshots (names : List Bytes) : List CmpOp → Cmp → List String
  | [], _ => []
  | op :: ops, c => match op.apply Cmp.remove c with
    | some c' => cmpSnapshot c' names :: cmpSnapshots names ops c'
    | none => ["fatal " ++ cmpSnapshot c names]   -- the refused call leaves the struct as it was

/-- the property on an observed snapshot: the ByName answers (has, .k) agree with the children (keys),
    and keys lists no name twice -/
def snapshotConsistent (names : List Bytes) (snap : String) : Bool :=
  match (words snap).filter (· != "fatal") with
  | [k, h, v] =>
    let keys := if k == "K-" then [] else (tailStr k).splitOn ","
    let hs := (tailStr h).toList
    let vs := (tailStr v).splitOn ","
    hs.length == names.length && vs.length == names.length && keys.eraseDups.length == keys.length &&
      ((names.zip (hs.zip vs)).all (fun (n, hb, vv) =>
        let present := keys.contains (hx n)
        (hb == '1') == present && (vv != "-") == present))
  | _ => false

def stepB (opsText obs : String) : String :=
  let parts := splitOps opsText
  let ops := (List.range parts.length).zip parts |>.map (fun (i, p) => parseBOp i p)
  if ops.any Option.isNone then "BADOP builder-op" else
  let ops := ops.filterMap id
  let names := ops.foldl (fun u o => insertName (opName o) u) []
  let model := " ; ".intercalate (cmpSnapshots names ops Cmp.empty)
  let impl := " ; ".intercalate (splitOps obs)
  let bad := (splitOps obs).find? (fun s => !snapshotConsistent names s)
  let div := if model == impl then "" else s!" ;DIVERGE model={model}"
  match bad with
  | some sn => s!"PROPFAIL after this AddChild/Remove history `.k`/has (ByName) disagree with keys/tovalue (Children): {sn}{div}"
  | none => if div.isEmpty then "OK" else s!"DIVERGE model={model}"

/-! ### F lines: a decoder driven by its input, forced and unforced (FqModel.JQValueBuild)

  `F [@note]* force=<0|1> <op tokens>`  TAB  `<done|stop> <CT>`
      op tokens: u8 <hexname> <v> | val <hexname> <v> | st <hexname> ( … ) | ar <hexname> ( … ) | in ( … ) | errorf | fatalf |
                 as <hexname> <v> <expect> | rm <hexname> | eof
      CT := S<n> (<hexname> CT)*n B<m> (<hexkey> <index of the value ByName[key] points to among Children>)*m
          | A<n> CT*n | u<dec>(.|y)
      DIVERGE   `runDecoder .fatalf force` builds another tree / stops elsewhere
      PROPFAIL  the OBSERVED tree has a struct whose Children repeat a name, or whose ByName does not
                look up exactly its Children (then length / keys / `.[]` / `.k` / has tell the decode
                value from its tovalue: Props.C08.struct_indistinguishable_iff_nodup) -/

partial def pBOps : List String → Option (List BOp × List String)
  | [] => some ([], [])
  | ")" :: r => some ([], ")" :: r)
  | "errorf" :: r => (pBOps r).map (fun (ops, r') => (BOp.errorf :: ops, r'))
  | "fatalf" :: r => (pBOps r).map (fun (ops, r') => (BOp.fatalf :: ops, r'))
  | "eof" :: r => (pBOps r).map (fun (ops, r') => (BOp.eof :: ops, r'))
  | "u8" :: n :: v :: r =>
    match bytesOfHex n, v.toNat?, pBOps r with
    | some nb, some vn, some (ops, r') => some (BOp.u8 nb vn :: ops, r')
    | _, _, _ => none
  | "val" :: n :: v :: r =>
    match bytesOfHex n, v.toNat?, pBOps r with
    | some nb, some vn, some (ops, r') => some (BOp.val nb vn :: ops, r')
    | _, _, _ => none
  | "as" :: n :: v :: e :: r =>
    match bytesOfHex n, v.toNat?, e.toNat?, pBOps r with
    | some nb, some vn, some en, some (ops, r') => some (BOp.assertU8 nb vn en :: ops, r')
    | _, _, _, _ => none
  | "rm" :: n :: r =>
    match bytesOfHex n, pBOps r with
    | some nb, some (ops, r') => some (BOp.remove nb :: ops, r')
    | _, _ => none
  | "st" :: n :: "(" :: r =>
    match bytesOfHex n, pBOps r with
    | some nb, some (body, ")" :: r1) => (pBOps r1).map (fun (ops, r') => (BOp.struct nb body :: ops, r'))
    | _, _ => none
  | "in" :: "(" :: r =>
    match pBOps r with
    | some (body, ")" :: r1) => (pBOps r1).map (fun (ops, r') => (BOp.inline body :: ops, r'))
    | _ => none
  | "ar" :: n :: "(" :: r =>
    match bytesOfHex n, pBOps r with
    | some nb, some (body, ")" :: r1) => (pBOps r1).map (fun (ops, r') => (BOp.array nb body :: ops, r'))
    | _, _ => none
  | _ => none

def indexOfName (k : Bytes) : List (Bytes × CT) → Nat → Int
  | [], _ => -1
  | (k', _) :: rest, i => if bytesEq k k' then i else indexOfName k rest (i + 1)

partial def ctText : CT → String
  | .struct cs bn =>
    s!"S{cs.length}" ++ String.join (cs.map (fun f => " " ++ hx f.1 ++ " " ++ ctText f.2)) ++
    s!" B{bn.length}" ++ String.join (bn.map (fun e => " " ++ hx e.1 ++ s!" {indexOfName e.1 cs 0}"))
  | .array es => s!"A{es.length}" ++ String.join (es.map (fun e => " " ++ ctText e))
  | .scalar (.uint v) none y => s!"u{v}" ++ (if y then "y" else ".")
  | .scalar _ _ _ => "?"

/-- the observed tree: both indexes of every struct as the harness read them off decode.Compound -/
inductive OT where
  | struct (cs : List (Bytes × OT)) (bn : List (Bytes × Int))
  | array (es : List OT)
  | leaf
deriving Inhabited

partial def pOT : List String → Option (OT × List String)
  | [] => none
  | t :: r =>
    let rest := tailStr t
    match headCh t with
    | 'S' =>
      match rest.toNat? with
      | none => none
      | some n =>
        let rec go (n : Nat) (acc : List (Bytes × OT)) (r : List String) : Option (List (Bytes × OT) × List String) :=
          if n == 0 then some (acc.reverse, r) else
            match r with
            | k :: r1 =>
              match bytesOfHex k, pOT r1 with
              | some kb, some (x, r') => go (n - 1) ((kb, x) :: acc) r'
              | _, _ => none
            | [] => none
        match go n [] r with
        | none => none
        | some (cs, b :: r1) =>
          if headCh b != 'B' then none else
          match (tailStr b).toNat? with
          | none => none
          | some m =>
            let rec goB (m : Nat) (acc : List (Bytes × Int)) (r : List String) : Option (List (Bytes × Int) × List String) :=
              if m == 0 then some (acc.reverse, r) else
                match r with
                | k :: i :: r' =>
                  match bytesOfHex k, i.toInt? with
                  | some kb, some iv => goB (m - 1) ((kb, iv) :: acc) r'
                  | _, _ => none
                | _ => none
            (goB m [] r1).map (fun (bn, r') => (OT.struct cs bn, r'))
        | some (_, []) => none
    | 'A' =>
      match rest.toNat? with
      | none => none
      | some n =>
        let rec goA (n : Nat) (acc : List OT) (r : List String) : Option (List OT × List String) :=
          if n == 0 then some (acc.reverse, r) else
            match pOT r with
            | some (x, r') => goA (n - 1) (x :: acc) r'
            | none => none
        (goA n [] r).map (fun (es, r') => (OT.array es, r'))
    | 'u' => some (.leaf, r)
    | _ => none

/-- the invariant, on the observation: names of Children pairwise distinct; every ByName entry points
    to the child of that name; every child is in ByName. `none` = fine, `some why` = broken -/
partial def otBroken : OT → Option String
  | .leaf => none
  | .array es => es.findSome? otBroken
  | .struct cs bn =>
    let names := cs.map (·.1)
    if !namesDistinctB names then
      some s!"a struct lists a member name twice in Children ({",".intercalate (names.map hx)}): length/keys/.[] count {names.length} members, its tovalue (a map) fewer"
    else
      let badEntry := bn.find? (fun e =>
        !(decide ((0 : Int) ≤ e.2) && (match names[e.2.toNat]? with
          | some n => bytesEq n e.1
          | none => false)))
      match badEntry with
      | some e => some s!"ByName[{hx e.1}] is not the child of that name (index {e.2}): `.k`/has read ByName, keys/tovalue read Children"
      | none =>
        match names.find? (fun n => !(bn.any (fun e => bytesEq e.1 n))) with
        | some n => some s!"the child {hx n} is not in ByName: has/.k miss a member that keys/tovalue list"
        | none => cs.findSome? (fun f => otBroken f.2)

def stepF (opsText obs : String) : String :=
  match stripNotesF (words opsText) with
  | f :: toks =>
    let force? : Option Bool := if f == "force=1" then some true else if f == "force=0" then some false else none
    match force?, pBOps toks with
    | some force, some (prog, []) =>
      let r := runDecoder .fatalf force prog
      let model := (if r.2 then "done " else "stop ") ++ ctText r.1
      let impl := " ".intercalate (words obs)
      let div := if model == impl then "" else s!" ;DIVERGE model={model}"
      match words obs with
      | st :: treeToks =>
        if st != "done" && st != "stop" then
          (if st == "panic" then s!"PROPFAIL decode.Decode panicked{div}" else s!"BADOP harness: {obs}")
        else
        match pOT treeToks with
        | some (ot, []) =>
          (match otBroken ot with
           | some why => s!"PROPFAIL {why}{div}"
           | none => if div.isEmpty then "OK" else s!"DIVERGE model={model}")
        | _ => "BADOP observed-tree"
      | [] => "BADOP empty-observation"
    | _, _ => "BADOP decoder-program"
  | [] => "BADOP empty"
where
  stripNotesF (ws : List String) : List String := ws.filter (fun w => !w.startsWith "@")

def stripNotes (ws : List String) : List String := ws.filter (fun w => !w.startsWith "@")

def stepC08 (op obs : String) : String :=
  if op.startsWith "B " then stepB (String.ofList (op.toList.drop 2)) obs else
  if op.startsWith "F " then stepF (String.ofList (op.toList.drop 2)) obs else
  match op.splitOn " | " with
  | [head, rest] =>
    match stripNotes (words head) with
    | kind :: ws =>
      match pFloatTable ws with
      | none => "BADOP float-table"
      | some (tbl, ws1) =>
        match pDV ws1 with
        | some (d, []) =>
          let ff := mkFF tbl
          if kind == "M" then stepM ff d (splitOps rest) (splitOps obs)
          else if kind == "Q" then
            match pQ (words rest) with
            | some (q, []) => stepQ ff d q obs
            | _ => "BADOP query"
          else "BADOP kind"
        | _ => "BADOP value"
    | [] => "BADOP empty"
  | _ => "BADOP no-separator"

def main : IO Unit := run stepC08
