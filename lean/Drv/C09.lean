import FqModel.Proto
import FqModel.Binary
/-!
  driver for C09.  Case lines (observations of one line are joined by " ; "):

    ev <E>                 obs(E)
    split <k> <B>          obs(B) ; obs([B[:k],B[k:]]|tobits) ; obs(B|tobits)
    slsl <a> <b> <c> <d> <B>   obs(B) ; obs(B[a:b]) ; obs(B[a:b][c:d])          (a..d: integer or _)
    pad <u> <n> <B>        obs(B|tobits) ; obs(B|to<u>(n)) ; obs(B|tonumber) ; obs(B|to<u>(n)|tonumber) ; obs(B|tobytes|tobits)
    idx <i> <B>            obs(B) ; obs(B[i]) ; obs(B[i:][:1]|tonumber)
    keys <B>               obs(B) ; .size ; .start ; .stop ; length ; .unit ; obs(B.bits) ; obs(B.bytes)
    expl <B>               obs(B) ; obs(B|explode)
    num <n>                obs(n|tobits) ; obs(n|tobits|tonumber) ; obs([n]|tobytes) ; obs(n|tobytes)
    (dvs HEX FORMAT PATH)  leaf: a SYNTHETIC decode value (no input bits; found by `._bits == null`): never convertible
    bad <V>                obs(V|tobits) ; obs(V|tobytes) ; obs([V]|tobytes) ; obs(V|to_hex) ; obs(V|tobytesrange)
    memb <N>               obs(N) ; obs([N]|tobytes) ; obs([1,"a",N]|tobytes) ; obs([N,("a"|tobits)]|tobytes) ; obs([[N]]|tobits)
                           N a number expression whose Go type may be *big.Int (results of .[i], .size, tonumber, `- k`)
    cat <A>                A an array expression: obs(A|tobits) ; obs(A|tobytes) ; then, in depth-first order, the standalone
                           observation of every member that is not a literal: obs(m|tobits) for a decode value, obs(m) otherwise.
                           Statement checked on these alone: A converts to the concatenation of its members' bits, a number
                           member being ONE BYTE (8 bits, also 0 and floats truncating to 0), at every nesting depth
    fcat <seed> <len> <pre> <a1> <b1> <a2> <b2>    file-backed binary $b of <len> pseudo-random bytes (splitmix64 of <seed>)
                           opened through fq's `open`; pre=1: `$b|tostring` first, pre=2: `$b[a2:b2]|tostring` first;
                           obs = size ; h:<bytes>:<fnv1a64> of `[$b[a1:b1], $b[a2:b2]] | tobytes | tostring`
    fsl <seed> <len> <pre> <a> <b> <c> <d>         the same for `$b[a:b][c:d] | tostring`

  E is an s-expression (see `toE`).  The verdict is PROPFAIL when the implementation's own observations
  falsify the law (evaluated on the observations with plain list arithmetic, not with the model),
  DIVERGE when they differ from the model's prediction.
-/
open FqModel FqModel.Binary FqModel.Proto

inductive SX
  | atom (s : String)
  | list (xs : List SX)
deriving Inhabited

def tokenize (s : String) : List String :=
  let (toks, cur) := s.toList.foldl (init := (([] : List String), "")) fun (acc, cur) c =>
    if c == '(' || c == ')' then
      ((if cur.isEmpty then acc else cur :: acc) |> (String.singleton c :: ·), "")
    else if c == ' ' then ((if cur.isEmpty then acc else cur :: acc), "")
    else (acc, cur.push c)
  (if cur.isEmpty then toks else cur :: toks).reverse

mutual
partial def parseSX : List String → Option (SX × List String)
  | [] => none
  | "(" :: rest => do
    let (xs, rest) ← parseSXs rest
    pure (.list xs, rest)
  | ")" :: _ => none
  | a :: rest => some (.atom a, rest)
partial def parseSXs : List String → Option (List SX × List String)
  | [] => none
  | ")" :: rest => some ([], rest)
  | toks => do
    let (x, rest) ← parseSX toks
    let (xs, rest) ← parseSXs rest
    pure (x :: xs, rest)
end

def optInt (s : String) : Option (Option Int) :=
  if s == "_" then some none else s.toInt?.map some

partial def toE : SX → Option E
  | .list [.atom "s", .atom h] => (bytesOfHex h).map E.str
  | .list [.atom "i", .atom n] => n.toInt?.map E.int
  | .list [.atom "z"] => some .null
  | .list [.atom "t"] => some (.bool true)
  | .list [.atom "f"] => some (.bool false)
  | .list [.atom "o"] => some .obj
  | .list (.atom "a" :: xs) => (xs.mapM toE).map E.arr
  | .list [.atom "dv", .atom h, .atom st, .atom ln, .atom _fmt, .atom _path] => do
    let bytes ← bytesOfHex h
    let st ← st.toNat?
    let ln ← ln.toNat?
    pure (.dv (bytesToBits bytes) st ln)
  | .list [.atom "dvs", .atom h, .atom _fmt, .atom _path] => (bytesOfHex h).map fun _ => E.dvSyn
  | .list [.atom "tobits", x] => (toE x).map (E.toBits 1 false 0)
  | .list [.atom "tobytes", x] => (toE x).map (E.toBits 8 false 0)
  | .list [.atom "tobitsr", x] => (toE x).map (E.toBits 1 true 0)
  | .list [.atom "tobytesr", x] => (toE x).map (E.toBits 8 true 0)
  | .list [.atom "tobitsn", .atom n, x] => do let n ← n.toInt?; (toE x).map (E.toBits 1 false n)
  | .list [.atom "tobytesn", .atom n, x] => do let n ← n.toInt?; (toE x).map (E.toBits 8 false n)
  | .list [.atom "idx", .atom i, x] => do let i ← i.toInt?; (toE x).map (E.index i)
  | .list [.atom "sl", .atom a, .atom b, x] => do
    let a ← optInt a
    let b ← optInt b
    (toE x).map (E.slice a b)
  | .list [.atom "bits", x] => (toE x).map (E.key .bits)
  | .list [.atom "bytes", x] => (toE x).map (E.key .bytes)
  | .list [.atom "size", x] => (toE x).map (E.key .size)
  | .list [.atom "start", x] => (toE x).map (E.key .start)
  | .list [.atom "stop", x] => (toE x).map (E.key .stop)
  | .list [.atom "unit", x] => (toE x).map (E.key .unit)
  | .list [.atom "len", x] => (toE x).map E.length
  | .list [.atom "num", x] => (toE x).map E.toNumber
  | .list [.atom "str", x] => (toE x).map E.toString
  | .list [.atom "expl", x] => (toE x).map E.explode
  | .list [.atom "hex", x] => (toE x).map E.toHex
  | .list [.atom "fh", .atom k] => k.toInt?.map E.half
  | .list [.atom "sub", .atom k, x] => do let k ← k.toInt?; (toE x).map (E.sub k)
  | _ => none

def parseE (toks : List String) : Option E :=
  match parseSX toks with
  | some (sx, []) => toE sx
  | _ => none

/-! observations of the implementation, parsed back -/

structure BObs where
  unit : Nat
  start : Nat
  len : Nat
  bits : Bits

def parseB (s : String) : Option BObs :=
  match s.splitOn ":" with
  | ["b", u, st, ln, h] => do
    let u ← u.toNat?
    let st ← st.toNat?
    let ln ← ln.toNat?
    let bytes ← bytesOfHex h
    let all := bytesToBits bytes
    -- the hex is the range read through an IOReader: ceil(len/8) bytes, zero padded
    if all.length != (ln + 7) / 8 * 8 then none
    else if (all.drop ln).any id then none
    else pure { unit := u, start := st, len := ln, bits := all.take ln }
  | _ => none

def parseN (s : String) : Option Int :=
  match s.splitOn ":" with
  | ["n", n] => n.toInt?
  | _ => none

/-- `a:[n:1,z,n:3]` → list of element observations (flat arrays only) -/
def parseA (s : String) : Option (List String) :=
  if s.startsWith "a:[" && s.endsWith "]" then
    let inner := ((s.drop 3).dropEnd 1).toString
    if inner.isEmpty then some [] else some (inner.splitOn ",")
  else none

def isErr (s : String) : Bool := s.startsWith "err:"

def sep := " ; "

def modelObs (es : List E) : String := sep.intercalate (es.map fun e => showOutcome (eval e))

/-- Model and implementation agree when every component is equal, or is an error on BOTH sides: the property demands
    that a value is rejected with an error, not which one — error classes (recognised by the harness from message text,
    `err:other` when it cannot) are advisory and never part of the contract. -/
def obsAgree (m o : String) : Bool :=
  let ms := m.splitOn sep
  let os := o.splitOn sep
  ms.length == os.length && (ms.zip os).all fun (a, b) => a == b || (isErr a && isErr b)

def finish (lawFail : Option String) (es : List E) (obs : String) : String :=
  let m := modelObs es
  if (m.splitOn "UNSUP").length > 1 then s!"BADOP model-unsupported {m}"
  else
    let div := if obsAgree m obs then "" else s!"DIVERGE model={m}"
    match lawFail with
    | some why => "PROPFAIL " ++ why ++ (if div.isEmpty then "" else " ;" ++ div)
    | none => if !div.isEmpty then div else if m == obs then "OK" else s!"OK error-class-differs model={m}"

/-- value of a bit string, reference semantics -/
def refNum (bs : Bits) : Int := ofBitsBE bs

def chunks (u : Nat) (bs : Bits) : Nat → List Bits
  | 0 => []
  | k+1 => bs.take u :: chunks u (bs.drop u) k

def refClamp (i : Int) (lo hi : Int) : Int :=
  let i := if i < 0 then i + hi else i
  if i < lo then lo else if i < hi then i else hi

def refSlice (b : BObs) (s e : Option Int) : BObs :=
  let l : Int := b.len / b.unit
  let st := match s with | some i => refClamp i 0 l | none => 0
  let en := match e with | some i => refClamp i st l | none => l
  { unit := b.unit, start := b.start + st.toNat * b.unit, len := (en - st).toNat * b.unit,
    bits := (b.bits.drop (st.toNat * b.unit)).take ((en - st).toNat * b.unit) }

def sameB (x y : BObs) : Bool := x.unit == y.unit && x.start == y.start && x.len == y.len && x.bits == y.bits

def first? (cs : List (Bool × String)) : Option String :=
  match cs.find? (fun c => !c.1) with
  | some c => some c.2
  | none => none

/-! file-backed binaries: the file is regenerated here from (seed, length) exactly as hlib.Rand.Bytes does -/

def splitmix (s : UInt64) : UInt64 × UInt64 :=
  let s := s + 0x9e3779b97f4a7c15
  let z := (s ^^^ (s >>> 30)) * 0xbf58476d1ce4e5b9
  let z := (z ^^^ (z >>> 27)) * 0x94d049bb133111eb
  (s, z ^^^ (z >>> 31))

def fileBytes (seed : UInt64) (n : Nat) : ByteArray := Id.run do
  let mut s := seed
  let mut out := ByteArray.emptyWithCapacity n
  for _ in [0:n] do
    let (s', v) := splitmix s
    s := s'
    out := out.push v.toUInt8
  return out

/-- FNV-1a 64 continued over bytes [off, off+len) of `ba` -/
def fnvRange (h : UInt64) (ba : ByteArray) (off len : Nat) : UInt64 := Id.run do
  let mut h := h
  for i in [off:off + len] do
    h := (h ^^^ (ba.get! i).toUInt64) * 0x100000001b3
  return h

def fnvInit : UInt64 := 0xcbf29ce484222325

def hex16 (v : UInt64) : String :=
  String.ofList ((List.range 16).map fun i => hexDigit ((v >>> (UInt64.ofNat (60 - 4 * i))).toNat % 16))

/-- plain reference: byte range [lo, hi) selected by `.[a:b]` on `l` bytes -/
def refRange (l : Nat) (a b : Option Int) : Nat × Nat :=
  let st := match a with | some i => refClamp i 0 l | none => 0
  let en := match b with | some i => refClamp i st l | none => l
  (st.toNat, en.toNat)

def hashObs (ba : ByteArray) (rs : List (Nat × Nat)) : String :=
  let total := rs.foldl (fun acc (_, n) => acc + n) 0
  let h := rs.foldl (fun h (off, n) => fnvRange h ba off n) fnvInit
  s!"n:{total} ; h:{total}:{hex16 h}"

abbrev FileCache := Option (UInt64 × Nat × ByteArray)

def getFile (c : FileCache) (seed : UInt64) (n : Nat) : FileCache × ByteArray :=
  match c with
  | some (s, m, ba) => if s == seed && m == n then (c, ba) else let ba := fileBytes seed n; (some (seed, n, ba), ba)
  | none => let ba := fileBytes seed n; (some (seed, n, ba), ba)

/-- byte range of a model binary over the file (unit 8, byte aligned by construction) -/
def binRange (b : Bin) : Nat × Nat := (b.start / 8, b.len / 8)

def stepFile (c : FileCache) (toks : List String) (obs : String) : FileCache × String :=
  match toks with
  | [kind, seed, len, _pre, a, b, c', d] =>
    match seed.toNat?, len.toNat?, optInt a, optInt b, optInt c', optInt d with
    | some seed, some len, some a, some b, some c', some d =>
      if len > 64000000 then (c, "BADOP file-too-large") else
      let (c, ba) := getFile c (UInt64.ofNat seed) len
      let root : Bin := { src := [], start := 0, len := 8 * len, unit := 8, pad := 0 }
      if kind == "fcat" then
        let m := hashObs ba [binRange (root.slice a b), binRange (root.slice c' d)]
        let (l1, h1) := refRange len a b
        let (l2, h2) := refRange len c' d
        let r := hashObs ba [(l1, h1 - l1), (l2, h2 - l2)]
        (c, if obs != r then s!"PROPFAIL file-slice-concat want={r}" ++ (if m == obs then "" else s!" ;DIVERGE model={m}")
            else if m == obs then "OK" else s!"DIVERGE model={m}")
      else if kind == "fsl" then
        let m := hashObs ba [binRange ((root.slice a b).slice c' d)]
        let (l1, h1) := refRange len a b
        let (l2, h2) := refRange (h1 - l1) c' d
        let r := hashObs ba [(l1 + l2, h2 - l2)]
        (c, if obs != r then s!"PROPFAIL file-slice-slice want={r}" ++ (if m == obs then "" else s!" ;DIVERGE model={m}")
            else if m == obs then "OK" else s!"DIVERGE model={m}")
      else (c, "BADOP op")
    | _, _, _, _, _, _ => (c, "BADOP parse")
  | _ => (c, "BADOP parse")

/-! concatenation through nested arrays, evaluated on observations only -/

inductive Item
  | bits (bs : Bits)
  | convErr (cls : String)
  | evalErr (cls : String)
  | bad

def byteItem (n : Int) : Item :=
  if n < 0 || n > 255 then .convErr "err:byterange" else .bits (toBitsBE 8 n.toNat)

/-- what a member contributes, from its standalone observation -/
def itemsOfObs (o : String) : List Item :=
  if isErr o then [.evalErr o]
  else if o == "z" || o == "t" || o == "f" || o == "o" then [.convErr "err:notbinary"]
  else if o.startsWith "b:" then
    match parseB o with
    | some pb => [.bits pb.bits]
    | none => [.bad]
  else if o.startsWith "n:" then
    match parseN o with
    | some n => [byteItem n]
    | none => [.bad]
  else if o.startsWith "s:" then
    match bytesOfHex ((o.drop 2).toString) with
    | some bs => [.bits (bytesToBits bs)]
    | none => [.bad]
  else match parseA o with
    | some els => els.map fun e =>
        if e == "z" then .convErr "err:notbinary"
        else match parseN e with
          | some n => byteItem n
          | none => .bad
    | none => [.bad]

/-- depth-first walk of the array expression: literals speak for themselves, every other member takes the next observation;
    returns the items, the member expressions whose observation is consumed (for the model) and the unconsumed observations -/
partial def walkMembers : List E → List String → List Item × List E × List String
  | [], os => ([], [], os)
  | e :: es, os =>
    let (it, ms, os) : List Item × List E × List String :=
      match e with
      | .int n => ([byteItem n], [], os)
      | .half k => ([byteItem (Int.tdiv k 2)], [], os)
      | .str bs => ([.bits (bytesToBits bs)], [], os)
      | .null => ([.convErr "err:notbinary"], [], os)
      | .bool _ => ([.convErr "err:notbinary"], [], os)
      | .obj => ([.convErr "err:notbinary"], [], os)
      | .dvSyn => ([.convErr "err:synthetic"], [], os)         -- flagged synthetic by the harness (._bits == null)
      | .arr xs => walkMembers xs os
      | .dv .. =>
        match os with
        | o :: os => (itemsOfObs o, [.toBits 1 false 0 e], os)
        | [] => ([.bad], [.toBits 1 false 0 e], [])
      | _ =>
        match os with
        | o :: os => (itemsOfObs o, [e], os)
        | [] => ([.bad], [e], [])
    let (its, mss, os) := walkMembers es os
    (it ++ its, ms ++ mss, os)

def catLaw (items : List Item) (rest : List String) (obits obytes : String) : Option String :=
  if !rest.isEmpty || items.any (fun i => match i with | .bad => true | _ => false) then some "unparsable-observation"
  else
    let evalErr := items.findSome? fun i => match i with | .evalErr c => some c | _ => none
    let convErr := items.findSome? fun i => match i with | .convErr c => some c | _ => none
    match evalErr, convErr with
    | some _, _ => if isErr obits && isErr obytes then none else some "member-error-not-propagated"
    | none, some _ => if isErr obits && isErr obytes then none else some "member-not-rejected"
    | none, none =>
      let bits := items.foldl (fun acc i => match i with | .bits b => acc ++ b | _ => acc) []
      match parseB obits, parseB obytes with
      | some pb, some py =>
        let k := (8 - bits.length % 8) % 8
        first? [(pb.len == bits.length, "array-concat-size"), (pb.bits == bits, "array-concat-content"),
                (pb.unit == 1 && pb.start == 0, "array-concat-shape"),
                (py.unit == 8 && py.start == 0 && py.len == bits.length + k && py.bits == List.replicate k false ++ bits,
                  "array-concat-bytes")]
      | _, _ => some "array-concat-rejected"

def stepC09 (op obs : String) : String :=
  let toks := tokenize op
  let os := obs.splitOn sep
  match toks with
  | "ev" :: rest =>
    match parseE rest with
    | some e => finish none [e] obs
    | none => "BADOP parse"
  | "split" :: k :: rest =>
    match k.toInt?, parseE rest with
    | some k, some b =>
      let es := [b, .toBits 1 false 0 (.arr [.slice none (some k) b, .slice (some k) none b]), .toBits 1 false 0 b]
      let law : Option String :=
        match os with
        | [ob, oc, ot] =>
          if isErr ob then (if isErr oc && isErr ot then none else some "error-not-propagated")
          else match parseB ob, parseB oc, parseB ot with
          | some pb, some pc, some pt =>
            let reach := pb.len / pb.unit * pb.unit      -- bits reachable by index/slice
            first? [(pt.bits == pb.bits, "tobits-changes-bits"),
                    (pc.bits == pb.bits.take reach, "split-concat-differs"),
                    (pc.unit == 1 && pc.start == 0 && pc.len == reach, "split-concat-shape")]
          | _, _, _ => some "unparsable-observation"
        | _ => some "arity"
      finish law es obs
    | _, _ => "BADOP parse"
  | "slsl" :: a :: b :: c :: d :: rest =>
    match optInt a, optInt b, optInt c, optInt d, parseE rest with
    | some a, some b, some c, some d, some x =>
      let es := [x, .slice a b x, .slice c d (.slice a b x)]
      let law : Option String :=
        match os with
        | [ox, o1, o2] =>
          if isErr ox then (if isErr o1 && isErr o2 then none else some "error-not-propagated")
          else match parseB ox, parseB o1, parseB o2 with
          | some px, some p1, some p2 =>
            let r1 := refSlice px a b
            let r2 := refSlice r1 c d
            first? [(sameB p1 r1, "slice-differs-from-reference"), (sameB p2 r2, "slice-of-slice-differs-from-reference"),
                    (p2.start ≥ p1.start && p2.start + p2.len ≤ p1.start + p1.len, "slice-escapes-parent")]
          | _, _, _ => some "unparsable-observation"
        | _ => some "arity"
      finish law es obs
    | _, _, _, _, _ => "BADOP parse"
  | "pad" :: u :: n :: rest =>
    match u.toNat?, n.toInt?, parseE rest with
    | some u, some n, some x =>
      let es := [.toBits 1 false 0 x, .toBits u false n x, .toNumber x, .toNumber (.toBits u false n x),
                 .toBits 1 false 0 (.toBits 8 false 0 x)]
      let law : Option String :=
        match os with
        | [ob, op, on, opn, obb] =>
          if isErr ob then (if isErr op && isErr on && isErr opn && isErr obb then none else some "error-not-propagated")
          else if n < 0 then none     -- negative padding: model correspondence only
          else match parseB ob, parseB op, parseN on, parseN opn, parseB obb with
          | some pb, some pp, some vn, some vpn, some pbb =>
            let m := if u * n.toNat = 0 then u else u * n.toNat
            let k := (m - pb.len % m) % m
            first? [(pp.unit == u && pp.start == 0, "pad-shape"),
                    (pp.len == pb.len + k && pp.len % m == 0, "pad-length"),
                    (pp.bits == List.replicate k false ++ pb.bits, "pad-not-leading-zeros"),
                    (vn == refNum pb.bits, "tonumber-differs-from-reference"),
                    (vpn == vn, "padding-changes-number"),
                    (pbb.len == (pb.len + 7) / 8 * 8 && pbb.bits.drop (pbb.len - pb.len) == pb.bits, "tobytes-tobits-length")]
          | _, _, _, _, _ => some "unparsable-observation"
        | _ => some "arity"
      finish law es obs
    | _, _, _ => "BADOP parse"
  | "idx" :: i :: rest =>
    match i.toInt?, parseE rest with
    | some i, some x =>
      let es := [x, .index i x, .toNumber (.slice none (some 1) (.slice (some i) none x))]
      let law : Option String :=
        match os with
        | [ox, oi, osn] =>
          if isErr ox then (if isErr oi && isErr osn then none else some "error-not-propagated")
          else match parseB ox with
          | some px =>
            let l : Int := px.len / px.unit
            let j := if i < 0 then i + l else i
            if 0 ≤ j && j < l then
              let r := refNum ((px.bits.drop (j.toNat * px.unit)).take px.unit)
              first? [(parseN oi == some r, "index-differs-from-reference"), (parseN osn == some r, "index-is-not-slice-number")]
            else first? [(oi == "z", "out-of-range-index-not-null")]
          | none => some "unparsable-observation"
        | _ => some "arity"
      finish law es obs
    | _, _ => "BADOP parse"
  | "keys" :: rest =>
    match parseE rest with
    | some x =>
      let es := [x, .key .size x, .key .start x, .key .stop x, .length x, .key .unit x, .key .bits x, .key .bytes x]
      let law : Option String :=
        match os with
        | [ox, osz, ost, osp, ol, ou, obi, oby] =>
          if isErr ox then (if [osz, ost, osp, ol, ou, obi, oby].all isErr then none else some "error-not-propagated")
          else match parseB ox, parseN osz, parseN ost, parseN osp, parseN ol, parseN ou, parseB obi, parseB oby with
          | some p, some sz, some st, some sp, some l, some u, some pbi, some pby =>
            let stop := p.start + p.len
            first? [(u == p.unit, "unit"), (sz == (p.len / p.unit : Nat), "size"), (l == sz, "length-vs-size"),
                    (st == (p.start / p.unit : Nat), "start"),
                    (sp == ((stop + p.unit - 1) / p.unit : Nat), "stop-not-rounded-up"),
                    (st * p.unit ≤ p.start && (p.start : Int) < (st + 1) * p.unit, "start-not-floor"),
                    (sp * p.unit ≥ stop && (sp - 1) * p.unit < (stop : Int) || (stop == 0 && sp == 0), "stop-not-ceil"),
                    (sameB pbi { p with unit := 1 }, "bits-key"), (sameB pby { p with unit := 8 }, "bytes-key")]
          | _, _, _, _, _, _, _, _ => some "unparsable-observation"
        | _ => some "arity"
      finish law es obs
    | none => "BADOP parse"
  | "expl" :: rest =>
    match parseE rest with
    | some x =>
      let es := [x, .explode x]
      let law : Option String :=
        match os with
        | [ox, oe] =>
          if isErr ox then (if isErr oe then none else some "error-not-propagated")
          else match parseB ox, parseA oe with
          | some p, some els =>
            let want := (chunks p.unit p.bits (p.len / p.unit)).map fun c => s!"n:{ofBitsBE c}"
            first? [(els == want, "explode-differs-from-reference")]
          | _, _ => some "unparsable-observation"
        | _ => some "arity"
      finish law es obs
    | none => "BADOP parse"
  | ["num", n] =>
    match n.toInt? with
    | some n =>
      let es := [.toBits 1 false 0 (.int n), .toNumber (.toBits 1 false 0 (.int n)), .toBits 8 false 0 (.arr [.int n]),
                 .toBits 8 false 0 (.int n)]
      let law : Option String :=
        match os with
        | [ob, on, oa, oy] =>
          let member := if n < 0 || n > 255 then isErr oa
            else match parseB oa with
              | some pa => pa.unit == 8 && pa.len == 8 && ofBitsBE pa.bits == n.toNat
              | none => false
          first? [(member, "array-member-range"),
                  (n < 0 || parseN on == some n, "number-roundtrip"),
                  (n < 0 || (match parseB ob, parseB oy with
                    | some pb, some py => ofBitsBE pb.bits == n.toNat && (pb.len == 1 || pb.bits.head? == some true)
                        && ofBitsBE py.bits == n.toNat && py.len == (pb.len + 7) / 8 * 8
                    | _, _ => false), "number-bits")]
        | _ => some "arity"
      finish law es obs
    | none => "BADOP parse"
  | "cat" :: rest =>
    match parseE rest with
    | some (.arr xs) =>
      match os with
      | obits :: obytes :: mobs =>
        let (items, members, restObs) := walkMembers xs mobs
        let es := [.toBits 1 false 0 (.arr xs), .toBits 8 false 0 (.arr xs)] ++ members
        finish (catLaw items restObs obits obytes) es obs
      | _ => finish (some "arity") [.toBits 1 false 0 (.arr xs), .toBits 8 false 0 (.arr xs)] obs
    | _ => "BADOP parse"
  | "memb" :: rest =>
    match parseE rest with
    | some x =>
      let es := [x, .toBits 8 false 0 (.arr [x]), .toBits 8 false 0 (.arr [.int 1, .str [0x61], x]),
                 .toBits 8 false 0 (.arr [x, .toBits 1 false 0 (.str [0x61])]), .toBits 1 false 0 (.arr [.arr [x]])]
      let law : Option String :=
        match os with
        | [on, o1, o2, o3, o4] =>
          if isErr on then (if [o1, o2, o3, o4].all isErr then none else some "error-not-propagated")
          else if on == "z" then (if [o1, o2, o3, o4].all isErr then none else some "null-member-accepted")
          else match parseN on with
          | some n =>
            if n < 0 || n > 255 then
              (if [o1, o2, o3, o4].all isErr then none else some "array-member-range")
            else
              let byte := toBitsBE 8 n.toNat
              let a := toBitsBE 8 0x61
              let want := [(8, 8, byte), (8, 24, toBitsBE 8 1 ++ a ++ byte), (8, 16, byte ++ a), (1, 8, byte)]
              let got := [o1, o2, o3, o4].map parseB
              if (got.zip want).all (fun (g, (u, l, bits)) => match g with
                  | some pb => pb.unit == u && pb.start == 0 && pb.len == l && pb.bits == bits
                  | none => false) then none else some "array-member-byte"
          | none => some "unparsable-observation"
        | _ => some "arity"
      finish law es obs
    | none => "BADOP parse"
  | "bad" :: rest =>
    match parseE rest with
    | some x =>
      let es := [.toBits 1 false 0 x, .toBits 8 false 0 x, .toBits 8 false 0 (.arr [x]), .toHex x, .toBits 8 true 0 x]
      let law : Option String :=
        if os.length == 5 && os.all isErr then none else some "non-convertible-accepted"
      finish law es obs
    | none => "BADOP parse"
  | _ => "BADOP op"

def stepAll (c : FileCache) (op obs : String) : FileCache × String :=
  match words op with
  | "fcat" :: _ => stepFile c (words op) obs
  | "fsl" :: _ => stepFile c (words op) obs
  | _ => (c, stepC09 op obs)

def main : IO Unit := runSt (none : FileCache) stepAll
