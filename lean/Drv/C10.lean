import FqModel.Proto
import FqModel.Dump
import FqModel.C10Json
import FqModel.C10Float
import FqModel.Ansi
/-!
  driver for C10.  Ops (observation after TAB; line feeds of the observed text are U+001E):

  hexw   <width> <start> <chunk,chunk,…>        text written by the real hexpairwriter
  asciiw <width> <start> <chunk,chunk,…>        text written by the real asciiwriter
  colw   <col;col;…>                            col = m<width|n>:<hex text> | b:<hex text>; rows printed by columnwriter
  fmt    <base> <n> <prefix 0|1> <width>        mathx.PadFormatInt
  bits   <base> <n>                             mathx.Bits.StringByteBits
  range  <base> <start> <len>                   mathx.BitRange.StringByteBits
  digits <base> <n>                             mathx.DigitsInBase(n, true, base)
  dump   k=… lb= ab= sb= db= c= vr= L= s= n= wo= root=<hex>     rows printed by d/dv/hd for ONE value
  tree   lb= ab= L= root=<hex>                  rows of a whole-tree dump (one root buffer): cell truth only
  json   <mode c|i|t> <json text>               what fq prints for the value
  jsonf  <src> <float64 bits hex> <path>        number token(s) fq printed for that float, joined by ','
-/
open FqModel FqModel.Proto FqModel.Dump FqModel.C10Json FqModel.Ansi

def rsep : Char := Char.ofNat 0x1e

def obsText (obs : String) : List Char := obs.toList.map fun c => if c = rsep then '\n' else c

def showText (cs : List Char) : String := String.ofList (cs.map fun c => if c = '\n' then rsep else c)

def splitOnChar (sep : Char) (cs : List Char) : List (List Char) :=
  let (ls, r) := cs.foldl (fun (acc : List (List Char) × List Char) c =>
    if c = sep then (acc.2.reverse :: acc.1, []) else (acc.1, c :: acc.2)) ([], [])
  (r.reverse :: ls).reverse

def parseChunks (s : String) : Option (List (List UInt8)) :=
  (s.splitOn ",").mapM bytesOfHex

def kv (ws : List String) (k : String) : Option String :=
  ws.findSome? fun w => if w.startsWith (k ++ "=") then some ((w.drop (k.length + 1)).toString) else none

def kvNat (ws : List String) (k : String) : Option Nat := (kv ws k).bind String.toNat?

/-! ### writers -/

def stepHexw (w start : Nat) (chunks : List (List UInt8)) (obs : String) : String :=
  if w = 0 then "BADOP width" else
  let impl := obsText obs
  let model := hexRun w start 0 chunks
  let bs := chunks.flatten
  let want : List (Nat × Nat × Cell) := expectCells w 0 (List.replicate start Cell.blank ++ bs.map Cell.byte)
  let got := parseHex 0 0 impl
  let div := if model == impl then "" else s!" ;DIVERGE model={showText model}"
  if bs.isEmpty then (if div.isEmpty then "OK" else s!"DIVERGE model={showText model}")
  else if got != want then
    s!"PROPFAIL hex cells read back differ from the input bytes at their (row,col){div}"
  else if div.isEmpty then "OK" else s!"DIVERGE model={showText model}"

def stepAsciiw (w start : Nat) (chunks : List (List UInt8)) (obs : String) : String :=
  if w = 0 then "BADOP width" else
  let impl := obsText obs
  let model := asciiRun w start 0 chunks
  let bs := chunks.flatten
  let want : List (Nat × Nat × Char) := expectCells w 0 (List.replicate start ' ' ++ bs.map safeAscii)
  let got := parseAscii 0 0 impl
  let div := if model == impl then "" else s!" ;DIVERGE model={showText model}"
  if bs.isEmpty then (if div.isEmpty then "OK" else s!"DIVERGE model={showText model}")
  else if start < w && got != want then
    s!"PROPFAIL ascii cells read back differ from the input bytes at their (row,col){div}"
  else if div.isEmpty then "OK" else s!"DIVERGE model={showText model}"

def parseCol (s : String) : Option Column :=
  match s.splitOn ":" with
  | [k, h] =>
    match bytesOfHex h with
    | none => none
    | some bs =>
      let t := bs.map fun b => Char.ofNat b.toNat
      if k == "b" then some (.bar t)
      else if k == "mn" then some (.multi none t)
      else if k.startsWith "m" then ((k.drop 1).toString.toNat?).map fun wd => .multi (some wd) t
      else none
  | _ => none

def stepColw (spec obs : String) : String :=
  match (spec.splitOn ";").mapM parseCol with
  | none => "BADOP cols"
  | some cols =>
    let model := (flush cols).flatMap (· ++ ['\n'])
    if model == obsText obs then "OK" else s!"DIVERGE model={showText model}"

/-! ### one dumped value -/

structure Row where
  addr : List Char
  hex : List Char
  ascii : List Char
  tree : List Char

/-- split a printed line at the column bars, by position -/
def splitRow (W lb : Nat) (l : List Char) : Option Row :=
  let hexW := 3 * lb - 1
  if l[W]? = some '|' ∧ l[W + 1 + hexW]? = some '|' ∧ l[W + 2 + hexW + lb]? = some '|' then
    some { addr := l.take W, hex := (l.drop (W + 1)).take hexW,
           ascii := (l.drop (W + 2 + hexW)).take lb, tree := l.drop (W + 3 + hexW + lb) }
  else none

def trimSp (cs : List Char) : List Char :=
  ((cs.dropWhile (· = ' ')).reverse.dropWhile (· = ' ')).reverse

def allBlank (cs : List Char) : Bool := cs.all (· = ' ')

structure DumpCase where
  o : Opts
  rootBits : Nat
  start : Nat
  len : Nat
  wo : Nat
  root : Array UInt8     -- bytes of the root buffer from byte `wo` on (a window)

def DumpCase.byteAt (d : DumpCase) (a : Nat) : Option UInt8 :=
  if a < d.wo then none else d.root[a - d.wo]?

/-- cells of one data row checked against the buffer; returns the addresses of the byte cells -/
def checkDataRowAt (d : DumpCase) (r : Row) (a : Nat) : Except String (List Nat) := do
  -- the end-of-buffer marker is a '|' directly after the last pair (dump.go:310-314)
  let markPos := r.hex.idxOf '|'
  let hex := r.hex.map fun c => if c = '|' then ' ' else c
  let cells := parseHex 0 0 (trimRight hex)
  let mut shown : List Nat := []
  for (row, c, cell) in cells do
    if row ≠ 0 then throw "line feed inside a row"
    match cell with
    | .bad => throw s!"hex cell {c} of row {a} is not a hex pair"
    | .blank =>
      let ch := r.ascii[c]?.getD ' '
      let isMark := ch = '|' ∧ markPos < r.hex.length ∧ (a + c) * 8 ≥ d.rootBits
      if ch ≠ ' ' ∧ !isMark then throw s!"ascii cell {c} of row {a} shown without a hex cell"
    | .byte b =>
      if (a + c) * 8 ≥ d.rootBits then throw s!"cell at address {a + c} is beyond the buffer"
      match d.byteAt (a + c) with
      | none => throw s!"cell at address {a + c} outside the window given by the harness"
      | some x =>
        if x ≠ b then throw s!"hex cell at address {a + c} shows {hexOfBytes [b]} but the buffer holds {hexOfBytes [x]}"
        if r.ascii[c]? ≠ some (safeAscii x) then throw s!"ascii cell at address {a + c} is wrong"
        shown := shown ++ [a + c]
  -- ascii cells beyond the hex cells
  if markPos < r.hex.length then
    -- the marker must sit at the end of the buffer
    match shown.getLast? with
    | some l => if (l + 1) * 8 < d.rootBits then throw "end marker shown before the end of the buffer"
    | none => pure ()
  return shown
where
  trimRight (cs : List Char) : List Char := (cs.reverse.dropWhile (· = ' ')).reverse

def checkDataRow (d : DumpCase) (r : Row) : Except String (List Nat) := do
  let some a := parseAddr d.o.addrbase (trimSp r.addr) | throw s!"address '{String.ofList r.addr}' does not parse"
  checkDataRowAt d r a

def isContig (start : Nat) : List Nat → Bool
  | [] => true
  | x :: xs => x == start && isContig (start + 1) xs

/-- last two blank-separated tokens of the tree text -/
def lastTwo (cs : List Char) : Option (List Char × List Char) :=
  match ((splitOnChar ' ' cs).filter (!·.isEmpty)).reverse with
  | b :: a :: _ => some (a, b)
  | _ => none

def stripParens (cs : List Char) : Option (List Char) :=
  match cs with
  | '(' :: r => if r.getLast? = some ')' then some r.dropLast else none
  | _ => none

def checkUntil (d : DumpCase) (hexCol : List Char) : Except String Unit := do
  let stopBit := d.start + d.len - 1
  let hexW := 3 * d.o.lineBytes - 1
  let t := trimSp hexCol
  let want := untilText d.o d.rootBits d.start d.len
  if want.length > hexW then
    -- the marker does not fit the hex column and is cut by FlushLine (dump.go:324 TODO);
    -- what is visible must be a prefix of the true marker
    if hexCol ≠ want.take hexW then throw s!"until marker '{String.ofList hexCol}' is not a prefix of the true one"
  else
    let toks := (splitOnChar ' ' t).filter (!·.isEmpty)
    match toks with
    | u :: stop :: rest =>
      if u ≠ "until".toList then throw "until marker expected"
      if parseByteBits d.o.addrbase stop ≠ some stopBit then
        throw s!"until marker names '{String.ofList stop}', the value stops at bit {stopBit}"
      let (isEnd, rest) := match rest with
        | e :: r => if e = "(end)".toList then (true, r) else (false, e :: r)
        | [] => (false, [])
      if isEnd ≠ (stopBit + 1 = d.rootBits) then throw "until marker: (end) is wrong"
      match rest with
      | [sz] =>
        match stripParens sz with
        | some s => if parseAddr d.o.sizebase s ≠ some ((d.len + 7) / 8) then throw "until marker: size is wrong"
        | none => throw "until marker: size expected"
      | _ => throw "until marker: size expected"
    | _ => throw "until marker expected"

def checkHeader (o : Opts) (r : Row) : Bool :=
  (List.range o.lineBytes).all fun c =>
    let lab := (r.hex.drop (3 * c)).take 2
    (parseBase o.addrbase lab == some c || (c < o.addrbase && lab == [' ', digitChar c]))
      && (c + 1 == o.lineBytes || r.hex[3 * c + 2]? == some ' ')
      && r.ascii[c]? == some (digitChar (c % o.addrbase))

/-- the property statement evaluated on the printed rows of one value -/
def dumpPredicate (d : DumpCase) (vr : Bool) (rows : List Row) : Except String Unit := do
  let o := d.o
  let stopByte := (d.start + d.len - 1) / 8
  let startByte := d.start / 8
  match rows with
  | [] => throw "no rows"
  | hdr :: body0 =>
    if !allBlank hdr.addr then throw "header row has an address"
    -- a value without data shares its first row with the header (dump.go:120-127)
    let body := if d.len = 0 then { hdr with hex := [], ascii := [] } :: body0 else body0
    let mut shown : List Nat := []
    let mut truncated := false
    let mut first := true
    for r in body do
      let a := trimSp r.addr
      if a = ['*'] then
        truncated := true
        checkUntil d r.hex
      else if a.isEmpty then
        if !allBlank r.hex ∨ !allBlank r.ascii then throw "cells without an address"
      else
        if truncated then throw "data row after the truncation marker"
        let s ← checkDataRow d r
        shown := shown ++ s
      if first then
        first := false
        if vr then
          match lastTwo r.tree with
          | none => throw "verbose range/size missing"
          | some (rg, sz) =>
            if parseRangeByteBits o.addrbase rg ≠ some (d.start, d.start + d.len) then
              throw s!"verbose range '{String.ofList rg}' is not {d.start}..{d.start + d.len}"
            match stripParens sz with
            | some s =>
              if parseByteBits o.sizebase s ≠ some d.len then throw s!"verbose size '{String.ofList sz}' is not {d.len} bits"
            | none => throw "verbose size missing"
    if d.len = 0 then
      if !shown.isEmpty then throw "an empty value shows bytes"
    else
      if !isContig startByte shown then throw "shown bytes are not the value's bytes in order, each once"
      let mayTruncate := o.displayBytes > 0 ∧ d.len > o.displayBytes * 8
      if truncated then
        if !mayTruncate then throw "value truncated although display_bytes allows it completely"
        if shown.length < o.displayBytes then throw "fewer than display_bytes bytes shown"
        if startByte + shown.length > stopByte then throw "truncation marker although everything is shown"
      else
        if startByte + shown.length ≠ stopByte + 1 then throw "value not shown completely and no truncation marker"

def parseDumpCase (ws : List String) : Option (DumpCase × Bool) := do
  let lb ← kvNat ws "lb"
  let ab ← kvNat ws "ab"
  let sb ← kvNat ws "sb"
  let db ← kvNat ws "db"
  let vr ← kvNat ws "vr"
  let L ← kvNat ws "L"
  let s ← kvNat ws "s"
  let n ← kvNat ws "n"
  let wo ← kvNat ws "wo"
  let root ← (kv ws "root").bind bytesOfHex
  if lb = 0 ∨ ab < 2 ∨ ab > 36 ∨ sb < 2 ∨ sb > 36 ∨ s + n > L then none
  else some ({ o := ⟨lb, ab, sb, db⟩, rootBits := L, start := s, len := n, wo := wo, root := root.toArray }, vr ≠ 0)

def isPow (b n : Nat) : Bool := (List.range 65).any fun k => b ^ k == n

def stepDump (ws : List String) (obs : String) : String :=
  match parseDumpCase ws with
  | none => "BADOP dump args"
  | some (d, vr) =>
    let o := d.o
    let lines := splitOnChar '\n' (obsText obs)
    let lines := if lines.getLast? = some [] then lines.dropLast else lines
    match lines with
    | [] => "PROPFAIL nothing printed"
    | l0 :: _ =>
      let W := l0.idxOf '|'
      match lines.mapM (splitRow W o.lineBytes) with
      | none => "PROPFAIL column bars are not aligned"
      | some rows =>
        -- model
        let tree1 : List Char := ['\n']
        -- dumps of more than 4096 displayed bytes: the row-by-row model comparison is skipped (the model's
        -- line splitting is quadratic); the property predicate below is evaluated as always
        let big := d.len > 8 * 4096 ∧ (o.displayBytes = 0 ∨ o.displayBytes > 4096)
        let modelRows :=
          if big then []
          else if d.len = 0 then emptyRows o W tree1
          else valueRows o W d.root.toList d.rootBits d.start d.len tree1 d.wo
        let pre (r : Row) : List Char := r.addr ++ ['|'] ++ r.hex ++ ['|'] ++ r.ascii ++ ['|']
        let implPre := rows.map pre
        let nm := modelRows.length
        let extraOk := (implPre.drop nm).all fun l => l.all fun c => c = ' ' ∨ c = '|'
        let wantW := digitsNeeded o.addrbase ((d.start + d.len + 7) / 8)
        let wOk := W = wantW ∨ (W + 1 = wantW ∧ isPow o.addrbase ((d.start + d.len + 7) / 8))
        let tailOk :=
          !vr || (match rows[if d.len = 0 then 0 else 1]? with
            | some r => lastTwo r.tree == some (rangeByteBits o.addrbase d.start d.len,
                          ['('] ++ stringByteBits o.sizebase d.len ++ [')'])
            | none => false)
        let div :=
          if big ∧ wOk ∧ tailOk then ""
          else if implPre.take nm == modelRows ∧ extraOk ∧ wOk ∧ tailOk then ""
          else s!" ;DIVERGE model={showText (modelRows.flatMap (· ++ ['\n']))} W={wantW}"
        -- property
        let hdrOk := match rows with | h :: _ => checkHeader o h | [] => false
        match dumpPredicate d vr rows with
        | .error e => s!"PROPFAIL {e}{div}"
        | .ok () =>
          if !hdrOk then
            if o.lineBytes > o.addrbase * o.addrbase then s!"KNOWN header-overflow lb={o.lineBytes} addrbase={o.addrbase}{div}"
            else s!"PROPFAIL column header does not name the columns{div}"
          else if div.isEmpty then "OK" else "DIVERGE" ++ (div.drop 9).toString

/-! ### a session on one opened file: `fsess size= fseed= real= uses=… dumps=<k=..,lb=..,…>;<…>`
     observation = the dumps' texts separated by U+001D; every dump is judged like a `dump` case
     against the bytes of the FILE (ground truth of the harness, not read back through fq) -/

def usep : Char := Char.ofNat 0x1d

def stepFileSession (ws : List String) (obs : String) : String :=
  match kv ws "dumps" with
  | none => "BADOP fsess args"
  | some ds =>
    let specs := ds.splitOn ";"
    let texts := splitOnChar usep obs.toList
    if specs.length ≠ texts.length then "BADOP fsess: dumps and observations differ in number" else
    let verdicts := (specs.zip texts).zipIdx.map fun ((spec, t), i) =>
      let v := if String.ofList (t.take 4) == "err:" then s!"PROPFAIL the dump failed: {String.ofList t}"
               else stepDump (spec.splitOn ",") (String.ofList t)
      (i, v)
    match verdicts.find? (fun (_, v) => v.startsWith "PROPFAIL" || v.startsWith "BADOP") with
    | some (i, v) =>
      if v.startsWith "BADOP" then v else s!"PROPFAIL dump #{i} of the session: {(v.drop 9).toString}"
    | none =>
      match verdicts.find? (fun (_, v) => v.startsWith "DIVERGE") with
      | some (i, v) => s!"DIVERGE dump #{i}: {(v.drop 8).toString}"
      | none =>
        match verdicts.find? (fun (_, v) => v.startsWith "KNOWN") with
        | some (_, v) => v
        | none => "OK"

/-! ### whole-tree dump over one root buffer: every cell with an address is true -/

def stepTree (ws : List String) (obs : String) : String :=
  match kvNat ws "lb", kvNat ws "ab", kvNat ws "L", (kv ws "root").bind bytesOfHex with
  | some lb, some ab, some L, some root =>
    if lb = 0 ∨ ab < 2 ∨ ab > 36 then "BADOP tree args" else
    let d : DumpCase := { o := ⟨lb, ab, 10, 0⟩, rootBits := L, start := 0, len := L, wo := 0, root := root.toArray }
    let lines := splitOnChar '\n' (obsText obs)
    let lines := if lines.getLast? = some [] then lines.dropLast else lines
    match lines with
    | [] => "PROPFAIL nothing printed"
    | l0 :: _ =>
      let W := l0.idxOf '|'
      match lines.mapM (splitRow W lb) with
      | none => "PROPFAIL column bars are not aligned"
      | some rows =>
        let res : Except String Unit := do
          for r in rows do
            let a := trimSp r.addr
            if a = ['*'] ∨ a.isEmpty then
              if a.isEmpty ∧ !allBlank r.hex ∧ !checkHeader d.o r ∧ lb ≤ ab * ab then
                throw "row without address is neither blank nor the column header"
            else
              let _ ← checkDataRow d r
        match res with
        | .error e => s!"PROPFAIL {e}"
        | .ok () => "OK"
  | _, _, _, _ => "BADOP tree args"

/-! ### whole-tree dump with nested root buffers

  `ntree k= lb= ab= sb= db= c= roots=<hex>:<bits>;… vals=<root>:<rootDepth>:<start>:<len>:<flags>,…`
  vals = the values of the tree in dump order (fq's own WalkPreOrder, depth-limited); flags:
  h header (depth 0 / root / format value), d displays data, e array-truncation line, x not reached
  (after an array truncation; counts for the address column width only), r verbose range printed. -/

structure TreeRec where
  root : Nat
  rootDepth : Nat
  start : Nat
  len : Nat
  flags : List Char

def parseRec (s : String) : Option TreeRec :=
  match s.splitOn ":" with
  | [r, rd, st, n, fl] => do
    pure { root := ← r.toNat?, rootDepth := ← rd.toNat?, start := ← st.toNat?, len := ← n.toNat?,
           flags := fl.toList }
  | _ => none

def parseRoot (s : String) : Option (List UInt8 × Nat) :=
  match s.splitOn ":" with
  | [h, l] => do pure (← bytesOfHex h, ← l.toNat?)
  | _ => none

/-- the data rows of one value (after its header row, if any) against the value's root buffer:
    row `i` has the true address `line0 + i*lineBytes`; the printed address must read back to it, or
    (known finding, nested root buffers only) be exactly the cut text the model predicts -/
def recordRowsCheck (d : DumpCase) (W rd : Nat) (rows : List Row) : Except String Bool := do
  let o := d.o
  let startByte := d.start / 8
  let stopByte := (d.start + d.len - 1) / 8
  let line0 := startByte / o.lineBytes * o.lineBytes
  let mut shown : List Nat := []
  let mut truncated := false
  let mut nested := false
  let mut i := 0
  for r in rows do
    let a := trimSp r.addr
    if a = ['*'] then
      truncated := true
      checkUntil d r.hex
    else if a.isEmpty then
      if !allBlank r.hex ∨ !allBlank r.ascii then throw "cells without an address"
    else
      if truncated then throw "data row after the truncation marker"
      let ta := line0 + i * o.lineBytes
      if parseAddr o.addrbase a ≠ some ta then
        if rd ≥ 1 ∧ r.addr = addrCell o W rd ta then nested := true
        else throw s!"row address '{String.ofList r.addr}' is not {ta} (root depth {rd})"
      let s ← checkDataRowAt d r ta
      shown := shown ++ s
      i := i + 1
  if !isContig startByte shown then throw "shown bytes are not the value's bytes in order, each once"
  let mayTruncate := o.displayBytes > 0 ∧ d.len > o.displayBytes * 8
  if truncated then
    if !mayTruncate then throw "value truncated although display_bytes allows it completely"
    if shown.length < o.displayBytes then throw "fewer than display_bytes bytes shown"
    if startByte + shown.length > stopByte then throw "truncation marker although everything is shown"
  else
    if startByte + shown.length ≠ stopByte + 1 then throw "value not shown completely and no truncation marker"
  return nested

def checkVerboseTail (o : Opts) (start len : Nat) (tree : List Char) : Except String Unit := do
  match lastTwo tree with
  | none => throw "verbose range/size missing"
  | some (rg, sz) =>
    if parseRangeByteBits o.addrbase rg ≠ some (start, start + len) then
      throw s!"verbose range '{String.ofList rg}' is not {start}..{start + len}"
    match stripParens sz with
    | some s =>
      if parseByteBits o.sizebase s ≠ some len then throw s!"verbose size '{String.ofList sz}' is not {len} bits"
    | none => throw "verbose size missing"

structure TreeAcc where
  cur : Nat := 0
  div : Option String := none
  nested : Nat := 0
  hdrBad : Bool := false

def stepNTree (ws : List String) (obs : String) : String :=
  match kvNat ws "lb", kvNat ws "ab", kvNat ws "sb", kvNat ws "db", kv ws "roots", kv ws "vals" with
  | some lb, some ab, some sb, some db, some rootsS, some valsS =>
    if lb = 0 ∨ ab < 2 ∨ ab > 36 ∨ sb < 2 ∨ sb > 36 then "BADOP ntree args" else
    match (rootsS.splitOn ";").mapM parseRoot, (valsS.splitOn ",").mapM parseRec with
    | some roots, some recs =>
      let o : Opts := ⟨lb, ab, sb, db⟩
      let rootsA := roots.toArray.map fun (bs, l) => (bs, bs.toArray, l)
      let lines := splitOnChar '\n' (obsText obs)
      let lines := if lines.getLast? = some [] then lines.dropLast else lines
      match lines with
      | [] => "PROPFAIL nothing printed"
      | l0 :: _ =>
        let W := l0.idxOf '|'
        match lines.mapM (splitRow W lb) with
        | none => "PROPFAIL column bars are not aligned"
        | some rowsL =>
          let rows := rowsL.toArray
          -- address column width: dump.go:352-358
          let terms := recs.map fun r => (2 * r.rootDepth + digitsNeeded ab ((r.start + r.len + 7) / 8),
            isPow ab ((r.start + r.len + 7) / 8))
          let mhi := (terms.map (·.1)).foldl max 0
          let mlo := (terms.map fun (t, q) => if q then t - 1 else t).foldl max 0
          let wOk := mlo ≤ W ∧ W ≤ mhi
          let pre (r : Row) : List Char := r.addr ++ ['|'] ++ r.hex ++ ['|'] ++ r.ascii ++ ['|']
          let res : Except String TreeAcc := do
            let mut acc : TreeAcc := {}
            for rc in recs do
              if rc.flags.contains 'x' then continue
              if rc.flags.contains 'e' then
                match rows[acc.cur]? with
                | none => throw "rows missing for an array truncation line"
                | some r =>
                  if !allBlank r.addr ∨ !allBlank r.hex ∨ !allBlank r.ascii then throw "array truncation line shows cells"
                  acc := { acc with cur := acc.cur + 1 }
                continue
              let some (rootL, rootArr, L) := rootsA[rc.root]? | throw "BADOP root index"
              if rc.start + rc.len > L then throw "BADOP value outside its root"
              let h := rc.flags.contains 'h'
              let disp := rc.flags.contains 'd'
              let model := treeValueRows o W rc.rootDepth h disp rootL L rc.start rc.len ['\n']
              let k := model.length
              let got := (rows.extract acc.cur (acc.cur + k)).toList
              if got.length < k then throw "fewer rows than the values of the tree need"
              if acc.div.isNone ∧ got.map pre ≠ model then
                acc := { acc with div := some s!"value {rc.root}:{rc.start}:{rc.len} model={showText (model.flatMap (· ++ ['\n']))}" }
              let d : DumpCase := { o := o, rootBits := L, start := rc.start, len := rc.len, wo := 0, root := rootArr }
              -- header row
              let (hdrRow, body) := if h then (got.head?, if disp then got.drop 1 else got) else (none, got)
              match hdrRow with
              | some hr =>
                if !checkHeader o hr then acc := { acc with hdrBad := true }
                if disp ∧ !allBlank hr.addr then throw "header row has an address"
              | none => pure ()
              if disp then
                let n ← recordRowsCheck d W rc.rootDepth body
                if n then acc := { acc with nested := acc.nested + 1 }
              else
                for r in body do
                  if !allBlank r.addr ∨ (!h ∧ (!allBlank r.hex ∨ !allBlank r.ascii)) then throw "a value without data shows cells"
              if rc.flags.contains 'r' then
                match body.head? with
                | some r => checkVerboseTail o rc.start rc.len r.tree
                | none => throw "verbose row missing"
              acc := { acc with cur := acc.cur + k }
            if acc.cur ≠ rows.size then throw s!"{rows.size - acc.cur} rows beyond the values of the tree"
            return acc
          match res with
          | .error e => if e.startsWith "BADOP" then e else s!"PROPFAIL {e}"
          | .ok acc =>
            let div := match acc.div with
              | some m => s!" ;DIVERGE {m}"
              | none => if wOk then "" else s!" ;DIVERGE address column width {W}, model {mlo}..{mhi}"
            if acc.hdrBad ∧ lb ≤ ab * ab then s!"PROPFAIL column header does not name the columns{div}"
            else if acc.nested > 0 then s!"KNOWN nested-root-address-truncated values={acc.nested}{div}"
            else if acc.hdrBad then s!"KNOWN header-overflow lb={lb} addrbase={ab}{div}"
            else if div.isEmpty then "OK" else "DIVERGE" ++ (div.drop 9).toString
    | _, _ => "BADOP ntree roots/vals"
  | _, _, _, _, _, _ => "BADOP ntree args"

/-! ### colour -/

def charsOfBytes (bs : List UInt8) : List Char := bs.map fun b => Char.ofNat b.toNat

def natChars (n : Nat) : List Char := formatBase 10 n

/-- the codes the harness wraps byte `b` in (harness byteCode, family 0 = short, 1 = combined) -/
def hSet (fam : Nat) (b : UInt8) : List Char :=
  let n := b.toNat
  if fam = 0 then
    if n % 3 = 0 then natChars (30 + n % 8) else if n % 3 = 1 then ['1'] else natChars (n % 10)
  else
    if n % 3 = 0 then natChars (30 + n % 8) ++ [';', '4']
    else if n % 3 = 1 then ['1', ';'] ++ natChars (40 + n % 8)
    else natChars n

def hReset (fam : Nat) (b : UInt8) : List Char :=
  let n := b.toNat
  if fam = 0 then
    if n % 3 = 0 then ['3', '9'] else if n % 3 = 1 then ['2', '2'] else ['0']
  else
    if n % 3 = 0 then "39;24".toList else if n % 3 = 1 then "22;49".toList else ['0']

def stepWriterColour (hex : Bool) (fam w start : Nat) (chunks : List (List UInt8)) (obs : String) : String :=
  if w = 0 then "BADOP width" else
  let cellMax := (chunks.flatten.map fun b => (colourAscii (hSet fam) (hReset fam) b).length).foldl max 0
  if obs == "panic" then
    -- asciiwriter.go:30 sizes its line buffer for 11 bytes per cell
    if !hex ∧ cellMax > 11 then s!"KNOWN asciiwriter-colour-buffer cell of {cellMax} bytes"
    else "PROPFAIL the writer panics"
  else
  match bytesOfHex obs with
  | none => "BADOP observation"
  | some ob =>
    let impl := charsOfBytes ob
    let model := if hex then hexRunF (colourHex (hSet fam) (hReset fam)) w start 0 chunks
                 else asciiRunF (colourAscii (hSet fam) (hReset fam)) w start 0 chunks
    let plain := if hex then hexRun w start 0 chunks else asciiRun w start 0 chunks
    let div := if model == impl then "" else " ;DIVERGE model differs"
    if strip impl != plain then s!"PROPFAIL stripping the escape sequences does not give the colourless text{div}"
    else if !(stateAfter false impl == false) then s!"PROPFAIL an escape sequence is left open{div}"
    else if div.isEmpty then "OK" else "DIVERGE coloured text differs from the model"

def stepAnsi (stop : Nat) (s : List UInt8) (obs : String) : String :=
  match words obs with
  | [l, h] =>
    match l.toNat?, bytesOfHex h with
    | some len, some sl =>
      if stop = 0 then "BADOP stop" else
      let cs := charsOfBytes s
      let slice := charsOfBytes sl
      let div := if ansiLen cs = len ∧ ansiSlice0 stop cs = slice then "" else
        s!" ;DIVERGE model={ansiLen cs} {hexOfBytes ((ansiSlice0 stop cs).map fun c => UInt8.ofNat c.toNat)}"
      if len ≠ (strip cs).length then s!"PROPFAIL Len is not the number of visible characters{div}"
      else if len > stop ∧ strip slice ≠ (strip cs).take stop then s!"PROPFAIL Slice does not show the first {stop} visible characters{div}"
      else if div.isEmpty then "OK" else "DIVERGE" ++ (div.drop 9).toString
    | _, _ => "BADOP ansi observation"
  | _ => "BADOP ansi observation"

/-! ### numbers -/

def stepFmt (ws : List String) (obs : String) : String :=
  match ws.mapM String.toNat? with
  | some [b, n, p, wd] =>
    if b < 2 ∨ b > 36 then "BADOP base" else
    let model := padFormat n b (p ≠ 0) wd
    let impl := obs.toList
    let body := impl.drop (if p ≠ 0 then (basePrefix b).length else 0)
    let div := if model == impl then "" else s!" ;DIVERGE model={String.ofList model}"
    if (if p ≠ 0 then parseAddr b impl else parseBase b impl) ≠ some n then s!"PROPFAIL printed number does not read back as {n}{div}"
    else if body.length > max wd 1 ∧ body.head? = some '0' ∧ body.length > wd - (if p ≠ 0 then (basePrefix b).length else 0) then
      s!"PROPFAIL leading zero beyond the padding{div}"
    else if div.isEmpty then "OK" else s!"DIVERGE model={String.ofList model}"
  | _ => "BADOP fmt args"

def stepBits (ws : List String) (obs : String) : String :=
  match ws.mapM String.toNat? with
  | some [b, n] =>
    if b < 2 ∨ b > 36 then "BADOP base" else
    let model := stringByteBits b n
    let div := if model == obs.toList then "" else s!" ;DIVERGE model={String.ofList model}"
    if parseByteBits b obs.toList ≠ some n then s!"PROPFAIL printed size does not read back as {n} bits{div}"
    else if div.isEmpty then "OK" else s!"DIVERGE model={String.ofList model}"
  | _ => "BADOP bits args"

def stepRange (ws : List String) (obs : String) : String :=
  match ws.mapM String.toNat? with
  | some [b, s, n] =>
    if b < 2 ∨ b > 36 then "BADOP base" else
    let model := rangeByteBits b s n
    let div := if model == obs.toList then "" else s!" ;DIVERGE model={String.ofList model}"
    if parseRangeByteBits b obs.toList ≠ some (s, s + n) then s!"PROPFAIL printed range does not read back{div}"
    else if div.isEmpty then "OK" else s!"DIVERGE model={String.ofList model}"
  | _ => "BADOP range args"

/-- largest power of `b` that is `≤ n` (n ≥ 1) and the next one -/
def powAround (b n : Nat) : Nat × Nat :=
  let ps := (List.range 66).map (b ^ ·)
  let le := (ps.filter (· ≤ n)).foldl max 1
  (le, le * b)

/-- `mathx.DigitsInBase` is specified by `digitsNeeded` (integer digit count, monotone —
    Props.C10.digitsNeeded_monotone).  Deviations of the float-logarithm implementation:
    * one less at an exact power: harmless (Props.C10.digits_quirk_harmless), accepted;
    * one more just below a power for n ≥ 2^44 (float rounding): a wider column, accepted;
    * one less just ABOVE a power for n ≥ 2^48: the address n-1 does not fit — known finding. -/
def stepDigits (ws : List String) (obs : String) : String :=
  match ws.mapM String.toNat?, obs.toNat? with
  | some [b, n], some got =>
    if b < 2 ∨ b > 36 then "BADOP base" else
    let want := digitsNeeded b n
    let needBelow := if n = 0 then want else digitsNeeded b (n - 1)
    let (pLe, pGt) := powAround b n
    let closeLe := (n - pLe) * 2 ^ 44 ≤ pLe
    let closeGt := (pGt - n) * 2 ^ 44 ≤ pGt
    if got = want then "OK"
    else if got + 1 = want ∧ n = pLe then "OK"
    else if got = want + 1 ∧ closeGt ∧ n ≥ 2 ^ 44 then "OK"
    else if got + 1 = want ∧ closeLe ∧ n ≥ 2 ^ 48 ∧ got < needBelow then
      s!"KNOWN digitsinbase-float-huge DigitsInBase({n},{b})={got} cannot hold the address {n - 1}"
    else if got < needBelow then s!"PROPFAIL DigitsInBase({n},{b})={got} cannot hold the address {n - 1}"
    else s!"DIVERGE model={want}"
  | _, _ => "BADOP digits args"

def parseSeg (s : String) : Option (Nat × Nat) :=
  match s.splitOn ":" with
  | [a, v] => do pure (← a.toNat?, ← v.toNat?)
  | _ => none

/-- every n in [0, hi): the implementation's value as runs; by monotonicity of `digitsNeeded` a run
    [a, e) with value v is right iff it is right at both ends -/
def stepDigitsRLE (ws : List String) (obs : String) : String :=
  match ws.mapM String.toNat?, (obs.splitOn ",").mapM parseSeg with
  | some [b, hi], some segs =>
    if b < 2 ∨ b > 36 then "BADOP base" else
    let ends := (segs.drop 1).map (·.1) ++ [hi]
    let runs := segs.zip ends
    if segs.head?.map (·.1) ≠ some 0 then "BADOP first run" else
    let bad := runs.filterMap fun ((a, v), e) =>
      if e ≤ a then some s!"empty run at {a}" else
      let last := e - 1
      if digitsNeeded b a = v ∧ digitsNeeded b last = v then none
      else if digitsNeeded b a = v ∧ isPow b last ∧ digitsNeeded b last = v + 1
          ∧ (last = a ∨ digitsNeeded b (last - 1) = v) then none       -- exact power, one less: harmless
      else some s!"DigitsInBase on [{a},{e}) = {v}, digit counts {digitsNeeded b a}..{digitsNeeded b last}"
    match bad with
    | [] => "OK"
    | m :: _ => s!"PROPFAIL {m}"
  | _, _ => "BADOP digitsrle args"

/-! ### JSON -/

def stepJson (mode : String) (text : List Char) (obs : String) : String :=
  match parseJson text with
  | none => "BADOP json value"
  | some v =>
    let indent := if mode == "i" then 2 else if mode.startsWith "n" then (mode.drop 1).toString.toNat?.getD 0 else 0
    if obs.startsWith "err:" then s!"PROPFAIL the value was not printed: {obs}" else
    let impl := obsText obs
    let impl := if impl.getLast? = some '\n' then impl.dropLast else impl
    let model := encodeJson indent v
    let div := if model == impl then "" else s!" ;DIVERGE model={showText model}"
    match parseJson impl with
    | none => s!"PROPFAIL output is not valid JSON{div}"
    | some v' =>
      if !(JV.beq (normalize v') (normalize v)) then s!"PROPFAIL output parses to a different value{div}"
      else if div.isEmpty then "OK" else s!"DIVERGE model={showText model}"

def parseHexNat (s : String) : Option Nat :=
  if s.isEmpty then none else
  s.toList.foldlM (fun acc c => (FqModel.hexVal c).map (acc * 16 + ·)) 0

/-- a float printed as JSON: every printed token must be a JSON number that READS BACK to the float
    (`null` for NaN, ±MaxFloat64 for ±Inf: encoder.go:138-146).  No prediction of strconv's digits. -/
def stepJsonFloat (bitsHex : String) (obs : String) : String :=
  match parseHexNat bitsHex with
  | none => "BADOP jsonf bits"
  | some bits =>
    if bits ≥ 2 ^ 64 then "BADOP jsonf bits" else
    if obs.startsWith "err:" then s!"PROPFAIL the float was not printed: {obs}" else
    let toks := obs.splitOn ","
    if toks.isEmpty ∨ toks.any (·.isEmpty) then "BADOP jsonf observation" else
    match toks.find? (fun t => !floatShownTrue bits t.toList) with
    | none => "OK"
    | some t => s!"PROPFAIL JSON number text does not read back to the value: {t} shown for the float {bitsHex}"

def dropWord (cs : List Char) : List Char := (cs.dropWhile (· ≠ ' ')).drop 1

def stepC10 (op obs : String) : String :=
  match words op with
  | ["hexw", w, s, ch] =>
    match w.toNat?, s.toNat?, parseChunks ch with
    | some w, some s, some chunks => stepHexw w s chunks obs
    | _, _, _ => "BADOP hexw args"
  | ["asciiw", w, s, ch] =>
    match w.toNat?, s.toNat?, parseChunks ch with
    | some w, some s, some chunks => stepAsciiw w s chunks obs
    | _, _, _ => "BADOP asciiw args"
  | ["colw", spec] => stepColw spec obs
  | ["hexwc", f, w, s, ch] =>
    match f.toNat?, w.toNat?, s.toNat?, parseChunks ch with
    | some f, some w, some s, some chunks => stepWriterColour true f w s chunks obs
    | _, _, _, _ => "BADOP hexwc args"
  | ["asciiwc", f, w, s, ch] =>
    match f.toNat?, w.toNat?, s.toNat?, parseChunks ch with
    | some f, some w, some s, some chunks => stepWriterColour false f w s chunks obs
    | _, _, _, _ => "BADOP asciiwc args"
  | ["ansi", st, h] =>
    match st.toNat?, bytesOfHex h with
    | some st, some bs => stepAnsi st bs obs
    | _, _ => "BADOP ansi args"
  | "fmt" :: ws => stepFmt ws obs
  | "bits" :: ws => stepBits ws obs
  | "range" :: ws => stepRange ws obs
  | "digits" :: ws => stepDigits ws obs
  | "digitsrle" :: ws => stepDigitsRLE ws obs
  | "dump" :: ws => stepDump ws obs
  | "tree" :: ws => stepTree ws obs
  | "ntree" :: ws => stepNTree ws obs
  | "fsess" :: ws => stepFileSession ws obs
  | "json" :: mode :: _ => stepJson mode (dropWord (dropWord op.toList)) obs
  | ["jsonf", _, bits, _] => stepJsonFloat bits obs
  | "jsonv" :: mode :: _ :: _ :: _ :: _ =>
    stepJson mode (dropWord (dropWord (dropWord (dropWord (dropWord op.toList))))) obs
  | _ => "BADOP op"

def main : IO Unit := run stepC10
