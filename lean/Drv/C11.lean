import FqModel.Proto
import FqModel.Bits
import FqModel.Query
import FqModel.C11Print
import FqModel.C11Full
import FqModel.C11Dir
import FqModel.C11Lex
/-!
  driver for C11.  Case lines (harness/cmd/c11/main.go), the observation is one JSON value:

    rt <hexprog>                 [A, A2]
    lx <hextext>                 {"reject":true} | {"a":A,"s":printed text,"b":A2}   (lexer + printer text, FqModel/C11Lex.lean)
    ctor <name> <hexP1> <hexP2>  {"in":[A1,A2],"out":V}
    rw <opts> <hexprog>          {"a":A,"o":OPTS,"r":R,"s":S,"p":RP}

  DIVERGE  = fq's value differs from the model's (FqModel/Query.lean);
  PROPFAIL = fq's own observation falsifies the property statement: the round trip changes the structure
             (modulo redundant parentheses), or the program fq really evaluates (RP) does not contain the user's
             query unchanged in parentheses / has other binders / uses a foreign name / lost its directives.
-/
open FqModel FqModel.Proto FqModel.C11 FqModel.C11.JV

def clipStr (s : String) (n : Nat := 400) : String := if s.length > n then (s.take n).toString ++ "…" else s

def hexText (h : String) : Option String := do
  let bs ← bytesOfHex h
  String.fromUTF8? (ByteArray.mk bs.toArray)

def finish (law : Option String) (div : Option String) : String :=
  match law, div with
  | none, none => "OK"
  | none, some m => s!"DIVERGE model={clipStr m}"
  | some why, none => s!"PROPFAIL {why}"
  | some why, some m => s!"PROPFAIL {why} ;DIVERGE model={clipStr m}"

def first? (cs : List (Bool × String)) : Option String :=
  match cs.find? (fun c => !c.1) with
  | some c => some c.2
  | none => none

def bodyOf (a : JV) : JV := (a.del "meta").del "imports"

/-! ### rt -/
def stepRT (obs : JV) : String :=
  match obs with
  | .arr [a, a2] =>
    if a2.hasKey "reparse_error" then finish (some "printed-form-does-not-parse") none
    else
      let law := if sameStructure a a2 then none else some "round-trip-changes-structure"
      let m := printParse a
      finish law (if m == a2 then none else some m.encode)
  | _ => "BADOP rt-observation"

/-! ### ctor -/
def ctorModel (name : String) (p1 : String) (a1 a2 : JV) : Option JV :=
  match name with
  | "null" => some queryNull
  | "query" => some (queryQuery a1)
  | "string" => some (queryString (.str p1))
  | "ident" => some queryIdent
  | "is_ident" => some (.bool (queryIsIdent a1))
  | "func0" => some (queryFunc0 (.str p1))
  | "func" => some (queryFunc (.str "name") (.arr [a1, a2]))
  | "func_name" => some (queryFuncName a1)
  | "func_args" => some (queryFuncArgs a1)
  | "is_func" => some (.arr [.bool (queryIsFunc a1), .bool (queryIsFuncNamed a1 (.str "repl"))])
  | "is_string" => some (.arr [.bool (queryIsString a1), queryStringStr a1])
  | "empty" => some queryEmpty
  | "pipe" => some (queryPipe a1 a2)
  | "array" => some (queryArray a1)
  | "array_null" => some (queryArray .null)
  | "object" => some (queryObject (JV.mkObj [("slurp", a1), ("orig", a2), ("b", a1)]))
  | "comma" => some (queryComma a1 a2)
  | "commas0" => some (queryCommas [])
  | "commas1" => some (queryCommas [a1])
  | "commas3" => some (queryCommas [a1, a2, a1])
  | "iter" => some (queryIter a1)
  | "try1" => some (queryTry a1 .null)
  | "try2" => some (queryTry a1 a2)
  | "pipe_last" => some (pipeLast (fuelOf a1) a1)
  | "transform_pipe_last" => some (transformPipeLast (fun _ => queryIdent) (fuelOf a1) a1)
  | "toquery" => some (toquery a1)
  | "func_rename" => some (queryFuncRename a1 (.str "renamed"))
  | _ => none

def stepCtor (name p1 : String) (obs : JV) : String :=
  match obs.get "in" with
  | .arr [a1, a2] =>
    match ctorModel name p1 a1 a2 with
    | some m =>
      let out := obs.get "out"
      -- the constructors are the wrapper's only means of building syntax: the parenthesising one must
      -- parenthesise, pipe/try must keep their operands where they are
      let law : Option String :=
        match name with
        | "query" => if getIn out ["term", "type"] == .str "TermTypeQuery" && getIn out ["term", "query"] == a1 then none else some "query-does-not-parenthesise"
        | "pipe" => if out.get "op" == .str "|" && out.get "left" == a1 && out.get "right" == a2 then none else some "pipe-operands"
        | "try2" => if getIn out ["term", "try", "body"] == a1 && getIn out ["term", "try", "catch"] == a2 then none else some "try-body-catch"
        | "toquery" => if evalLit (fuelOf out + 1) out == some a1 then none else some "toquery-is-not-the-literal-of-its-input"
        | _ => none
      finish law (if m == out then none else some m.encode)
    | none => "BADOP ctor-name"
  | _ => "BADOP ctor-observation"

/-! ### rw -/

def slurpNames (opts : JV) : List String :=
  match opts.get "slurps" with
  | .obj kvs => kvs.filterMap fun kv => match kv.2 with | .str s => some s | _ => none
  | _ => []

/-- the program fq evaluates is a call of one of the slurp functions on an object literal -/
def slurpCallArg (opts rp : JV) : Option JV :=
  match getIn rp ["term", "func", "name"], getIn rp ["term", "func", "args"] with
  | .str n, .arr [arg] =>
    if (slurpNames opts).contains n && getIn rp ["term", "type"] == .str "TermTypeFunc" then evalLit (fuelOf arg + 1) arg else none
  | _, _ => none

def foreignNames (whole : JV) (user : JV) : List String :=
  (listDiff (funcNames whole) (funcNames user)).filter fun n => !(wrapperNames.contains n)

def stepRW (optsName : String) (obs : JV) : String :=
  let a := obs.get "a"
  let opts := obs.get "o"
  let r := obs.get "r"
  let rp := obs.get "p"
  if !(obs.hasKey "a") || !(obs.hasKey "o") then "BADOP rw-observation" else
  let body := bodyOf a
  -- correspondence
  let rm := rewriteBody opts body
  let div1 := if rm == r then none else some ("r=" ++ rm.encode)
  let synthetic := optsName.startsWith "x_"
  let rpm := mergeIdentIndex (reparseWrapper (rewrite opts a))
  let div2 := if synthetic || rpm == rp then none else some ("p=" ++ rpm.encode)
  -- the option record is the one the model knows under that name (init.jq / repl.jq shapes)
  let div0 := match optsOf optsName with
    | some o => if o == opts then none else some ("opts=" ++ o.encode)
    | none => if synthetic then none else some "opts=unknown-name"
  let div := match div0, div1 with | some d, _ => some d | none, some d => some d | none, none => div2
  -- property, on what fq really evaluates
  let hasCatch := (opts.get "catch_query").truthy
  let law : Option String :=
    if synthetic && !hasCatch then none
    else if !(obs.get "s" matches .str _) then some "rewrite-raised-an-error"
    else if rp.hasKey "reparse_error" then some "rewritten-text-does-not-parse"
    else
      let directives := rp.get "meta" == a.get "meta" && rp.get "imports" == a.get "imports"
      match slurpCallArg opts rp with
      | some arg =>
        let rewritten := arg.get "rewrite"
        let want := wrappedQuery opts body
        first? [(directives, "directives-not-preserved"),
                (arg.get "orig" == body, "slurp-orig-is-not-the-user-query"),
                (!hasCatch || occursParenthesised want rewritten, "slurp-rewrite-does-not-keep-the-query"),
                (binders rp == [], "new-binder-around-slurp-call"),
                -- the slurp call and its arguments are cut out of the pipeline: binders may vanish with them, none may appear
                ((listDiff (binders rewritten) (binders body)).isEmpty, "new-binder-in-slurp-rewrite " ++ toString (listDiff (binders rewritten) (binders body))),
                ((foreignNames rp .null).isEmpty, "foreign-name " ++ toString (foreignNames rp .null)),
                ((foreignNames rewritten want).isEmpty, "foreign-name-in-slurp-rewrite " ++ toString (foreignNames rewritten want))]
      | none =>
        let want := mergeIdentIndex (if !((body.get "term").truthy || (body.get "op").truthy) then body.merge queryIdent else body)
        first? [(directives, "directives-not-preserved"),
                (if hasCatch then occursParenthesised want rp else bodyOf rp == mergeIdentIndex body, "user-query-not-kept-in-parentheses"),
                (binders rp == binders a, "new-binder " ++ toString (listDiff (binders rp) (binders a))),
                ((foreignNames rp a).isEmpty, "foreign-name " ++ toString (foreignNames rp a))]
  finish law div

/-! ### pp: the Lean parser (FqModel/C11Full.lean) against the fork's parser -/
namespace PP
open FqModel.C11.Full
open FqModel.C11.Print (Op)

def opOfText : String → Option Op
  | "|" => some .pipe | "," => some .comma | "//" => some .alt
  | "=" => some .upd | "|=" => some .upd | "+=" => some .upd | "-=" => some .upd | "*=" => some .upd
  | "/=" => some .upd | "%=" => some .upd | "//=" => some .upd
  | "or" => some .or | "and" => some .and
  | "==" => some .cmp | "!=" => some .cmp | "<" => some .cmp | "<=" => some .cmp | ">" => some .cmp | ">=" => some .cmp
  | "+" => some .add | "-" => some .sub | "*" => some .mul | "/" => some .div | "%" => some .mod
  | _ => none

def kwOfText : String → Option Kw
  | "null" => some .null | "true" => some .true_ | "false" => some .false_ | "if" => some .if_ | "then" => some .then_
  | "elif" => some .elif_ | "else" => some .else_ | "end" => some .end_ | "try" => some .try_ | "catch" => some .catch_
  | "reduce" => some .reduce | "foreach" => some .foreach | "as" => some .as_ | "label" => some .label
  | "break" => some .break_ | "def" => some .def_ | "import" => some .import_ | "include" => some .include
  | "module" => some .module
  | _ => none

def identLike (t : String) : Bool :=
  !t.isEmpty && (t.front.isAlpha || t.front == '_') && t.all (fun c => c.isAlphanum || c == '_' || c == ':')

def tokOfText (t : String) : Option Tok :=
  match opOfText t with
  | some o => some (.op o)
  | none =>
    match kwOfText t with
    | some k => some (.kw k)
    | none =>
      if t == "?" then some .quest else if t == "?//" then some .destalt
      else if t == "(" then some .lparen else if t == ")" then some .rparen
      else if t == "[" then some .lbrack else if t == "]" then some .rbrack
      else if t == "{" then some .lbrace else if t == "}" then some .rbrace
      else if t == ":" then some .colon else if t == ";" then some .semi
      else if t == "." then some .dot else if t == ".." then some .dotdot
      else if t == "S<" then some .strStart else if t == "\\(" then some .strQuery else if t == ">S" then some .strEnd
      else if t.length ≥ 2 && t.front == '"' && t.back == '"' then some (.str ((t.drop 1).dropEnd 1).toString)
      else if t.front.isDigit then some (.num t)
      else if t.length ≥ 2 && t.front == '.' && (t.get ⟨1⟩).isDigit then some (.num t)
      else if t.length ≥ 2 && t.front == '.' && identLike (t.drop 1).toString then some (.field (t.drop 1).toString)
      else if t.length ≥ 2 && t.front == '$' && identLike (t.drop 1).toString then some (.var t)
      else if t.length ≥ 2 && t.front == '@' && identLike (t.drop 1).toString then some (.fmt t)
      else if identLike t then some (.ident t)
      else none

def jstr (s : String) : JV := .str s
def o (kvs : List (String × JV)) : JV := JV.mkObj kvs
def typed (ty : String) (kvs : List (String × JV)) : JV := JV.mkObj (("type", .str ty) :: kvs)

def addSuffix (term suffix : JV) : JV :=
  match term.get "suffix_list" with
  | .arr xs => term.set "suffix_list" (.arr (xs ++ [suffix]))
  | _ => term.set "suffix_list" (.arr [suffix])

def strNodeJ (s : String) : JV := if s == "" then .obj [] else .obj [("str", .str s)]

def keyText (words : List String) : String := words.headD ""

/-- length of the printed form -/
def plen (e : E) : Nat := (print e).length

/- AST JSON (the fork's field names) of a tree together with the words it was printed as: operator and key texts
   are read off the words (the tree knows operator classes only) -/
mutual
  partial def strJ : E → List String → Option JV
    | .strl s, _ => some (strNodeJ s)
    | .istr ps, ws => do
      let qs ← partsJ ps (ws.drop 1)
      pure (.obj [("queries", .arr qs)])
    | _, _ => none
  partial def partsJ : List E → List String → Option (List JV)
    | [], _ => some []
    | .piece s :: rest, ws => do
      let r ← partsJ rest (ws.drop 1)
      pure (o [("term", typed "TermTypeString" [("str", strNodeJ s)])] :: r)
    | .interp q :: rest, ws => do
      let j ← queryJ q ((ws.drop 1).take (plen q))
      let r ← partsJ rest (ws.drop (plen q + 2))
      pure (o [("term", typed "TermTypeQuery" [("query", j)])] :: r)
    | _ :: _, _ => none
  partial def sepJ (f : E → List String → Option JV) : List E → List String → Option (List JV)
    | [], _ => some []
    | [x], ws => do pure [← f x ws]
    | x :: rest, ws => do
      let j ← f x (ws.take (plen x))
      let r ← sepJ f rest (ws.drop (plen x + 1))
      pure (j :: r)
  partial def idxJ : E → List String → Option JV
    | .bIdx e, ws => do pure (o [("start", ← queryJ e (ws.take (plen e)))])
    | .bSliceL e, ws => do pure (o [("start", ← queryJ e (ws.take (plen e))), ("is_slice", .bool true)])
    | .bSliceR e, ws => do pure (o [("end", ← queryJ e ((ws.drop 1).take (plen e))), ("is_slice", .bool true)])
    | .bSlice a b, ws => do
      pure (o [("start", ← queryJ a (ws.take (plen a))), ("end", ← queryJ b ((ws.drop (plen a + 1)).take (plen b))),
               ("is_slice", .bool true)])
    | _, _ => none
  partial def suffixBrJ (b : E) (ws : List String) : Option JV :=
    match b with
    | .bIter => some (o [("iter", .bool true)])
    | _ => do pure (o [("index", ← idxJ b ws)])
  partial def optValJ (base : List (String × JV)) (v : Option E) (ws : List String) : Option JV :=
    match v with
    | none => some (o base)
    | some v => do pure (o (base ++ [("val", ← queryJ v ws)]))
  partial def entryJ : E → List String → Option JV
    | .kvKey _ v, ws => optValJ [("key", .str (keyText ws))] v (ws.drop 2)
    | .kvStr s v, ws => do
      let sj ← strJ s (ws.take (plen s))
      optValJ [("key_string", sj)] v (ws.drop (plen s + 1))
    | .kvQ q v, ws => do
      let qj ← queryJ q ((ws.drop 1).take (plen q))
      let vj ← queryJ v (ws.drop (plen q + 3))
      pure (o [("key_query", qj), ("val", vj)])
    | _, _ => none
  partial def patJ : E → List String → Option JV
    | .pvar s, _ => some (o [("name", .str s)])
    | .parr ps, ws => do pure (o [("array", .arr (← sepJ patJ ps ((ws.drop 1).dropLast)))])
    | .pobj es, ws => do pure (o [("object", .arr (← sepJ patEntryJ es ((ws.drop 1).dropLast)))])
    | _, _ => none
  partial def patEntryJ : E → List String → Option JV
    | .peVar s, _ => some (o [("key", .str s)])
    | .peKey _ p, ws => do pure (o [("key", .str (keyText ws)), ("val", ← patJ p (ws.drop 2))])
    | .peStr s p, ws => do
      pure (o [("key_string", ← strJ s (ws.take (plen s))), ("val", ← patJ p (ws.drop (plen s + 1)))])
    | .peQ q p, ws => do
      pure (o [("key_query", ← queryJ q ((ws.drop 1).take (plen q))), ("val", ← patJ p (ws.drop (plen q + 3)))])
    | _, _ => none
  partial def elifsJ : List E → List String → Option (List JV)
    | [], _ => some []
    | .elif c t :: rest, ws => do
      let cj ← queryJ c ((ws.drop 1).take (plen c))
      let tj ← queryJ t ((ws.drop (plen c + 2)).take (plen t))
      let r ← elifsJ rest (ws.drop (plen c + plen t + 2))
      pure (o [("cond", cj), ("then", tj)] :: r)
    | _ :: _, _ => none
  partial def termJ : E → List String → Option JV
    | .num s, _ => some (typed "TermTypeNumber" [("number", .str s)])
    | .strl s, _ => some (typed "TermTypeString" [("str", strNodeJ s)])
    | .istr ps, ws => do pure (typed "TermTypeString" [("str", ← strJ (.istr ps) ws)])
    | .ident s, _ => some (typed "TermTypeFunc" [("func", o [("name", .str s)])])
    | .var s, _ => some (typed "TermTypeFunc" [("func", o [("name", .str s)])])
    | .call s as, ws => do
      let js ← sepJ queryJ as ((ws.drop 2).dropLast)
      pure (typed "TermTypeFunc" [("func", o [("name", .str s), ("args", .arr js)])])
    | .field s, _ => some (typed "TermTypeIndex" [("index", o [("name", .str s)])])
    | .dot, _ => some (typed "TermTypeIdentity" [])
    | .dotdot, _ => some (typed "TermTypeRecurse" [])
    | .dotStr s, ws => do pure (typed "TermTypeIndex" [("index", o [("str", ← strJ s (ws.drop 1))])])
    | .dotIdx b, ws =>
      match b with
      | .bIter => some (typed "TermTypeIdentity" [("suffix_list", .arr [o [("iter", .bool true)]])])
      | _ => do pure (typed "TermTypeIndex" [("index", ← idxJ b (ws.drop 2))])
    | .lit .null, _ => some (typed "TermTypeNull" [])
    | .lit .true_, _ => some (typed "TermTypeTrue" [])
    | .lit .false_, _ => some (typed "TermTypeFalse" [])
    | .lit _, _ => none
    | .fmt s, _ => some (typed "TermTypeFormat" [("format", .str s)])
    | .fmtS s sv, ws => do pure (typed "TermTypeFormat" [("format", .str s), ("str", ← strJ sv (ws.drop 1))])
    | .arr none, _ => some (typed "TermTypeArray" [("array", .obj [])])
    | .arr (some q), ws => do pure (typed "TermTypeArray" [("array", o [("query", ← queryJ q ((ws.drop 1).dropLast))])])
    | .obj [], _ => some (typed "TermTypeObject" [("object", .obj [])])
    | .obj kvs, ws => do
      pure (typed "TermTypeObject" [("object", o [("key_vals", .arr (← sepJ entryJ kvs ((ws.drop 1).dropLast)))])])
    | .neg e, ws => do pure (typed "TermTypeUnary" [("unary", o [("op", .str "-"), ("term", ← termJ e (ws.drop 1))])])
    | .pos e, ws => do pure (typed "TermTypeUnary" [("unary", o [("op", .str "+"), ("term", ← termJ e (ws.drop 1))])])
    | .ite c t es els, ws => do
      let cj ← queryJ c ((ws.drop 1).take (plen c))
      let tj ← queryJ t ((ws.drop (plen c + 2)).take (plen t))
      let esLen := (printCat es).length
      let ej ← elifsJ es ((ws.drop (plen c + plen t + 2)).take esLen)
      let base := [("cond", cj), ("then", tj)] ++ (if ej.isEmpty then [] else [("elif", JV.arr ej)])
      match els with
      | none => pure (typed "TermTypeIf" [("if", o base)])
      | some e => do
        let elj ← queryJ e ((ws.drop (plen c + plen t + esLen + 3)).take (plen e))
        pure (typed "TermTypeIf" [("if", o (base ++ [("else", elj)]))])
    | .try_ b c, ws => do
      let bj ← termJ b ((ws.drop 1).take (plen b))
      match c with
      | none => pure (typed "TermTypeTry" [("try", o [("body", o [("term", bj)])])])
      | some c => do
        let cj ← termJ c (ws.drop (plen b + 2))
        pure (typed "TermTypeTry" [("try", o [("body", o [("term", bj)]), ("catch", o [("term", cj)])])])
    | .reduce src p a b, ws => do
      let sj ← queryJ src ((ws.drop 1).take (plen src))
      let pj ← patJ p ((ws.drop (plen src + 2)).take (plen p))
      let aj ← queryJ a ((ws.drop (plen src + plen p + 3)).take (plen a))
      let bj ← queryJ b ((ws.drop (plen src + plen p + plen a + 4)).take (plen b))
      pure (typed "TermTypeReduce" [("reduce", o [("query", sj), ("pattern", pj), ("start", aj), ("update", bj)])])
    | .foreach src p a b c, ws => do
      let sj ← queryJ src ((ws.drop 1).take (plen src))
      let pj ← patJ p ((ws.drop (plen src + 2)).take (plen p))
      let aj ← queryJ a ((ws.drop (plen src + plen p + 3)).take (plen a))
      let bj ← queryJ b ((ws.drop (plen src + plen p + plen a + 4)).take (plen b))
      let base := [("query", sj), ("pattern", pj), ("start", aj), ("update", bj)]
      match c with
      | none => pure (typed "TermTypeForeach" [("foreach", o base)])
      | some c => do
        let cj ← queryJ c ((ws.drop (plen src + plen p + plen a + plen b + 5)).take (plen c))
        pure (typed "TermTypeForeach" [("foreach", o (base ++ [("extract", cj)]))])
    | .brk s, _ => some (typed "TermTypeBreak" [("break", .str s)])
    | .paren e, ws => do pure (typed "TermTypeQuery" [("query", ← queryJ e ((ws.drop 1).dropLast))])
    | .opt t, ws => do pure (addSuffix (← termJ t (ws.take (plen t))) (o [("optional", .bool true)]))
    | .sfxField t s, ws => do pure (addSuffix (← termJ t (ws.take (plen t))) (o [("index", o [("name", .str s)])]))
    | .sfxStr t s, ws => do
      pure (addSuffix (← termJ t (ws.take (plen t))) (o [("index", o [("str", ← strJ s (ws.drop (plen t + 1)))])]))
    | .sfxBr t b, ws => do
      pure (addSuffix (← termJ t (ws.take (plen t))) (← suffixBrJ b (ws.drop (plen t + 1))))
    | _, _ => none
  partial def queryJ : E → List String → Option JV
    | .bin _ l r, ws => do
      let lj ← queryJ l (ws.take (plen l))
      let rj ← queryJ r (ws.drop (plen l + 1))
      pure (o [("left", lj), ("op", .str ((ws.drop (plen l)).headD "")), ("right", rj)])
    | .bind t ps b, ws => do
      let tj ← termJ t (ws.take (plen t))
      let pl := (printSep .destalt ps).length
      let pj ← sepJ patJ ps ((ws.drop (plen t + 1)).take pl)
      let bj ← queryJ b (ws.drop (plen t + pl + 2))
      pure (o [("term", addSuffix tj (o [("bind", o [("patterns", .arr pj), ("body", bj)])]))])
    | .label s b, ws => do
      pure (o [("term", typed "TermTypeLabel" [("label", o [("ident", .str s), ("body", ← queryJ b (ws.drop 3))])])])
    | .def_ n ps fb rest, ws => do
      let hdr := if ps.isEmpty then 3 else 2 * ps.length + 4
      let fbj ← queryJ fb ((ws.drop hdr).take (plen fb))
      let rj ← queryJ rest (ws.drop (hdr + plen fb + 1))
      let params : List JV := (List.range ps.length).map fun i => .str ((ws.drop (3 + 2 * i)).headD "")
      let fd := o ([("name", JV.str n), ("body", fbj)] ++ (if ps.isEmpty then [] else [("args", JV.arr params)]))
      match rj.get "func_defs" with
      | .arr fds => pure (rj.set "func_defs" (.arr (fd :: fds)))
      | _ => pure (rj.set "func_defs" (.arr [fd]))
    | e, ws => do pure (o [("term", ← termJ e ws)])
end

/-- beq of the two token types (derived DecidableEq) -/
def sameToks (a b : List Tok) : Bool := decide (a = b)

def kwText : Kw → String
  | .null => "null" | .true_ => "true" | .false_ => "false" | .if_ => "if" | .then_ => "then" | .elif_ => "elif"
  | .else_ => "else" | .end_ => "end" | .try_ => "try" | .catch_ => "catch" | .reduce => "reduce" | .foreach => "foreach"
  | .as_ => "as" | .label => "label" | .break_ => "break" | .def_ => "def" | .import_ => "import" | .include => "include"
  | .module => "module"

open FqModel.C11.Dir in
mutual
  partial def constJ : C → JV
    | .num s => o [("number", .str s)]
    | .str s => if s == "" then .obj [] else o [("str", .str s)]
    | .lit .null => o [("null", .bool true)]
    | .lit .true_ => o [("true", .bool true)]
    | .lit _ => o [("false", .bool true)]
    | .arr [] => o [("array", .obj [])]
    | .arr xs => o [("array", o [("elems", .arr (xs.map constJ))])]
    | .obj kvs => o [("object", constObjJ kvs)]
  partial def constObjJ (kvs : List (Tok × C)) : JV :=
    if kvs.isEmpty then .obj [] else
    o [("keyvals", .arr (kvs.map fun kv =>
      match kv.1 with
      | .str s => o ((if s == "" then [] else [("key_string", JV.str s)]) ++ [("val", constJ kv.2)])
      | .ident s => o [("key", .str s), ("val", constJ kv.2)]
      | .kw k => o [("key", .str (kwText k)), ("val", constJ kv.2)]
      | .op .and => o [("key", .str "and"), ("val", constJ kv.2)]
      | _ => o [("key", .str "or"), ("val", constJ kv.2)]))]
end

open FqModel.C11.Dir in
def metaJ : Option C → List (String × JV)
  | some (.obj kvs) => [("meta", constObjJ kvs)]
  | _ => []

open FqModel.C11.Dir in
def impJ (i : Imp) : JV :=
  let aliasText := match i.alias with | .ident s => s | .var s => s | _ => ""
  if i.isImport then o ((if i.path == "" then [] else [("import_path", JV.str i.path)]) ++ [("import_alias", .str aliasText)] ++ metaJ i.dmeta)
  else o ((if i.path == "" then [] else [("include_path", JV.str i.path)]) ++ metaJ i.dmeta)

def stepPP (words : List String) (obs : JV) : String :=
  match words.mapM tokOfText with
  | none => "BADOP pp-token"
  | some ts =>
    match FqModel.C11.Dir.parseProg ts with
    | none =>
      match obs with
      | .str "reject" => "OK"
      | _ => "DIVERGE model=reject"
    | some pr =>
      let e := pr.body
      -- the printed form of what the model parsed is the token line again, and the tree is well-formed
      if !(sameToks (FqModel.C11.Dir.printProg pr) ts) then "BADOP model-print-of-parse-differs"
      else if !(FqModel.C11.Dir.wfProg pr) then "BADOP model-parse-not-wellformed"
      else if parse (print e) matches none then "BADOP model-reparse-fails"
      else
        let bodyWords := words.drop (words.length - plen e)
        match queryJ e bodyWords with
        | none => "BADOP model-conversion-failed"
        | some m =>
          let m := match metaJ pr.pmeta with | [(k, v)] => m.set k v | _ => m
          let m := if pr.imports.isEmpty then m else m.set "imports" (.arr (pr.imports.map impJ))
          if m == obs then "OK" else s!"DIVERGE model={clipStr m.encode 1500}"

end PP


/-! ### lx: the Lean lexer (FqModel/C11Lex.lean) + parser against gojq.Parse on program TEXT; printText against
    `_query_tostring` -/
namespace LX
open FqModel.C11.Full FqModel.C11.Lex

/-- token sequences the Lean grammar leaves out (header of FqModel/C11Full.lean): `term . [`, a trailing comma in an
    object, a program of definitions only -/
def termEndTok : Tok → Bool
  | .rparen => true | .rbrack => true | .rbrace => true | .quest => true | .dotdot => true | .dot => true | .strEnd => true
  | .kw k => isLitKw k || k == .end_
  | .num _ => true | .str _ => true | .ident _ => true | .var _ => true | .field _ => true | .fmt _ => true
  | _ => false

def outsideCore : List Tok → Bool
  | [] => true
  | ts =>
    (ts.getLast? == some .semi) ||
    (let rec go : List Tok → Bool
      | a :: .dot :: .lbrack :: r => termEndTok a || go (.dot :: .lbrack :: r)
      | .op .comma :: .rbrace :: _ => true
      | .op .comma :: .rbrack :: r => go (.rbrack :: r)
      | _ :: r => go r
      | [] => false
    go ts)

def hasDirectives (ts : List Tok) : Bool :=
  match ts with
  | .kw .module :: _ => true | .kw .import_ :: _ => true | .kw .include :: _ => true
  | _ => false

def stepLX (hex : String) (obs : JV) : String :=
  match bytesOfHex hex with
  | none => "BADOP hex"
  | some bs =>
    let accepted := !(obs.hasKey "reject")
    -- the property on fq's own observation: the printed text parses back to the same AST
    let law : Option String :=
      if !accepted then none
      else if (obs.get "b").hasKey "reparse_error" then some "printed-form-does-not-parse"
      else if !(sameStructure (obs.get "a") (obs.get "b")) then some "round-trip-changes-structure"
      else none
    match String.fromUTF8? (ByteArray.mk bs.toArray) with
    | none => finish law none       -- not valid UTF-8: outside the Char-level model, real side only
    | some text =>
      let cs := text.toList
      match lex cs with
      | none => finish law (if accepted then some "lex-error" else none)
      | some lt =>
        let ts := lt.map LTok.cls
        match FqModel.C11.Dir.parseProg ts with
        | none =>
          if accepted && !(outsideCore ts) then finish law (some "reject") else finish law none
        | some pr =>
          if !accepted then finish law (some "accept")
          else
            let e := pr.body
            let ws := lt.map fun t => String.ofList (tokText false t)
            match PP.queryJ e (ws.drop (ws.length - PP.plen e)) with
            | none => "BADOP model-conversion-failed"
            | some m =>
              let m := match PP.metaJ pr.pmeta with | [(k, v)] => m.set k v | _ => m
              let m := if pr.imports.isEmpty then m else m.set "imports" (.arr (pr.imports.map PP.impJ))
              if m != obs.get "a" then finish law (some ("a=" ++ m.encode))
              else if hasDirectives ts then finish law none
              else
                let txt := printText e lt
                -- the theorem's conclusion on this instance (model against itself)
                if lex txt != some lt then "BADOP model-text-roundtrip-fails"
                else if obs.get "s" != .str (String.ofList txt) then finish law (some ("s=" ++ String.ofList txt))
                else finish law none

end LX

def stepC11 (op obs : String) : String :=
  match parseJson obs with
  | none => "BADOP observation-is-not-json"
  | some o =>
    if o.hasKey "harness_error" then "BADOP harness-error" else
    match words op with
    | "pp" :: toks => PP.stepPP toks o
    | ["rt", _] => stepRT o
    | ["lx", h] => LX.stepLX h o
    | ["ctor", name, h1, _] =>
      match hexText h1 with
      | some p1 => stepCtor name p1 o
      | none => "BADOP hex"
    | ["rw", optsName, _] => stepRW optsName o
    | _ => "BADOP op"

def main : IO Unit := run stepC11
