import FqModel.Proto
import FqModel.Bits
import FqModel.Query
import FqModel.C11Print
/-!
  driver for C11.  Case lines (harness/cmd/c11/main.go), the observation is one JSON value:

    rt <hexprog>                 [A, A2]
    ctor <name> <hexP1> <hexP2>  {"in":[A1,A2],"out":V}
    rw <opts> <hexprog>          {"a":A,"o":OPTS,"r":R,"s":S,"p":RP}

  DIVERGE  = fq's value differs from the model's (FqModel/Query.lean);
  PROPFAIL = fq's own observation falsifies the property statement: the round trip changes the structure
             (modulo redundant parentheses), or the program fq really evaluates (RP) does not contain the user's
             query unchanged in parentheses / has other binders / uses a foreign name / lost its directives.
-/
open FqModel FqModel.Proto FqModel.C11 FqModel.C11.JV

def clipStr (s : String) (n : Nat := 400) : String := if s.length > n then (s.take n).toString ++ "…" else s

def hexText (h : String) : Option String := do
  let bs ← bytesOfHex h
  String.fromUTF8? (ByteArray.mk bs.toArray)

def finish (law : Option String) (div : Option String) : String :=
  match law, div with
  | none, none => "OK"
  | none, some m => s!"DIVERGE model={clipStr m}"
  | some why, none => s!"PROPFAIL {why}"
  | some why, some m => s!"PROPFAIL {why} ;DIVERGE model={clipStr m}"

def first? (cs : List (Bool × String)) : Option String :=
  match cs.find? (fun c => !c.1) with
  | some c => some c.2
  | none => none

def bodyOf (a : JV) : JV := (a.del "meta").del "imports"

/-! ### rt -/
def stepRT (obs : JV) : String :=
  match obs with
  | .arr [a, a2] =>
    if a2.hasKey "reparse_error" then finish (some "printed-form-does-not-parse") none
    else
      let law := if sameStructure a a2 then none else some "round-trip-changes-structure"
      let m := printParse a
      finish law (if m == a2 then none else some m.encode)
  | _ => "BADOP rt-observation"

/-! ### ctor -/
def ctorModel (name : String) (p1 : String) (a1 a2 : JV) : Option JV :=
  match name with
  | "null" => some queryNull
  | "query" => some (queryQuery a1)
  | "string" => some (queryString (.str p1))
  | "ident" => some queryIdent
  | "is_ident" => some (.bool (queryIsIdent a1))
  | "func0" => some (queryFunc0 (.str p1))
  | "func" => some (queryFunc (.str "name") (.arr [a1, a2]))
  | "func_name" => some (queryFuncName a1)
  | "func_args" => some (queryFuncArgs a1)
  | "is_func" => some (.arr [.bool (queryIsFunc a1), .bool (queryIsFuncNamed a1 (.str "repl"))])
  | "is_string" => some (.arr [.bool (queryIsString a1), queryStringStr a1])
  | "empty" => some queryEmpty
  | "pipe" => some (queryPipe a1 a2)
  | "array" => some (queryArray a1)
  | "array_null" => some (queryArray .null)
  | "object" => some (queryObject (JV.mkObj [("slurp", a1), ("orig", a2), ("b", a1)]))
  | "comma" => some (queryComma a1 a2)
  | "commas0" => some (queryCommas [])
  | "commas1" => some (queryCommas [a1])
  | "commas3" => some (queryCommas [a1, a2, a1])
  | "iter" => some (queryIter a1)
  | "try1" => some (queryTry a1 .null)
  | "try2" => some (queryTry a1 a2)
  | "pipe_last" => some (pipeLast (fuelOf a1) a1)
  | "transform_pipe_last" => some (transformPipeLast (fun _ => queryIdent) (fuelOf a1) a1)
  | "toquery" => some (toquery a1)
  | "func_rename" => some (queryFuncRename a1 (.str "renamed"))
  | _ => none

def stepCtor (name p1 : String) (obs : JV) : String :=
  match obs.get "in" with
  | .arr [a1, a2] =>
    match ctorModel name p1 a1 a2 with
    | some m =>
      let out := obs.get "out"
      -- the constructors are the wrapper's only means of building syntax: the parenthesising one must
      -- parenthesise, pipe/try must keep their operands where they are
      let law : Option String :=
        match name with
        | "query" => if getIn out ["term", "type"] == .str "TermTypeQuery" && getIn out ["term", "query"] == a1 then none else some "query-does-not-parenthesise"
        | "pipe" => if out.get "op" == .str "|" && out.get "left" == a1 && out.get "right" == a2 then none else some "pipe-operands"
        | "try2" => if getIn out ["term", "try", "body"] == a1 && getIn out ["term", "try", "catch"] == a2 then none else some "try-body-catch"
        | "toquery" => if evalLit (fuelOf out + 1) out == some a1 then none else some "toquery-is-not-the-literal-of-its-input"
        | _ => none
      finish law (if m == out then none else some m.encode)
    | none => "BADOP ctor-name"
  | _ => "BADOP ctor-observation"

/-! ### rw -/

def slurpNames (opts : JV) : List String :=
  match opts.get "slurps" with
  | .obj kvs => kvs.filterMap fun kv => match kv.2 with | .str s => some s | _ => none
  | _ => []

/-- the program fq evaluates is a call of one of the slurp functions on an object literal -/
def slurpCallArg (opts rp : JV) : Option JV :=
  match getIn rp ["term", "func", "name"], getIn rp ["term", "func", "args"] with
  | .str n, .arr [arg] =>
    if (slurpNames opts).contains n && getIn rp ["term", "type"] == .str "TermTypeFunc" then evalLit (fuelOf arg + 1) arg else none
  | _, _ => none

def foreignNames (whole : JV) (user : JV) : List String :=
  (listDiff (funcNames whole) (funcNames user)).filter fun n => !(wrapperNames.contains n)

def stepRW (optsName : String) (obs : JV) : String :=
  let a := obs.get "a"
  let opts := obs.get "o"
  let r := obs.get "r"
  let rp := obs.get "p"
  if !(obs.hasKey "a") || !(obs.hasKey "o") then "BADOP rw-observation" else
  let body := bodyOf a
  -- correspondence
  let rm := rewriteBody opts body
  let div1 := if rm == r then none else some ("r=" ++ rm.encode)
  let synthetic := optsName.startsWith "x_"
  let rpm := mergeIdentIndex (reparseWrapper (rewrite opts a))
  let div2 := if synthetic || rpm == rp then none else some ("p=" ++ rpm.encode)
  -- the option record is the one the model knows under that name (init.jq / repl.jq shapes)
  let div0 := match optsOf optsName with
    | some o => if o == opts then none else some ("opts=" ++ o.encode)
    | none => if synthetic then none else some "opts=unknown-name"
  let div := match div0, div1 with | some d, _ => some d | none, some d => some d | none, none => div2
  -- property, on what fq really evaluates
  let hasCatch := (opts.get "catch_query").truthy
  let law : Option String :=
    if synthetic && !hasCatch then none
    else if !(obs.get "s" matches .str _) then some "rewrite-raised-an-error"
    else if rp.hasKey "reparse_error" then some "rewritten-text-does-not-parse"
    else
      let directives := rp.get "meta" == a.get "meta" && rp.get "imports" == a.get "imports"
      match slurpCallArg opts rp with
      | some arg =>
        let rewritten := arg.get "rewrite"
        let want := wrappedQuery opts body
        first? [(directives, "directives-not-preserved"),
                (arg.get "orig" == body, "slurp-orig-is-not-the-user-query"),
                (!hasCatch || occursParenthesised want rewritten, "slurp-rewrite-does-not-keep-the-query"),
                (binders rp == [], "new-binder-around-slurp-call"),
                -- the slurp call and its arguments are cut out of the pipeline: binders may vanish with them, none may appear
                ((listDiff (binders rewritten) (binders body)).isEmpty, "new-binder-in-slurp-rewrite " ++ toString (listDiff (binders rewritten) (binders body))),
                ((foreignNames rp .null).isEmpty, "foreign-name " ++ toString (foreignNames rp .null)),
                ((foreignNames rewritten want).isEmpty, "foreign-name-in-slurp-rewrite " ++ toString (foreignNames rewritten want))]
      | none =>
        let want := mergeIdentIndex (if !((body.get "term").truthy || (body.get "op").truthy) then body.merge queryIdent else body)
        first? [(directives, "directives-not-preserved"),
                (if hasCatch then occursParenthesised want rp else bodyOf rp == mergeIdentIndex body, "user-query-not-kept-in-parentheses"),
                (binders rp == binders a, "new-binder " ++ toString (listDiff (binders rp) (binders a))),
                ((foreignNames rp a).isEmpty, "foreign-name " ++ toString (foreignNames rp a))]
  finish law div

/-! ### pp: the Lean parser of the operator core against the fork's parser -/
open FqModel.C11.Print in
def opOfText : String → Option Op
  | "|" => some .pipe | "," => some .comma | "//" => some .alt
  | "=" => some .upd | "|=" => some .upd | "+=" => some .upd | "-=" => some .upd | "*=" => some .upd
  | "/=" => some .upd | "%=" => some .upd | "//=" => some .upd
  | "or" => some .or | "and" => some .and
  | "==" => some .cmp | "!=" => some .cmp | "<" => some .cmp | "<=" => some .cmp | ">" => some .cmp | ">=" => some .cmp
  | "+" => some .add | "-" => some .sub | "*" => some .mul | "/" => some .div | "%" => some .mod
  | _ => none

open FqModel.C11.Print in
def tokOfText (t : String) : Option Tok :=
  match opOfText t with
  | some o => some (.op o)
  | none =>
    if t == "?" then some .quest
    else if t == "(" then some .lparen
    else if t == ")" then some .rparen
    else if t == "if" then some (.bopen "if")
    else if t == "then" then some .bsep
    else if t == "end" then some .bclose
    else if t.startsWith "as:" then some (.as_ (t.drop 3).toString)
    else if t.startsWith "label:" then some (.label (t.drop 6).toString)
    else if t.all (fun c => c.isAlphanum || c == '$' || c == '_') && !t.isEmpty then some (.atom t)
    else none

def addSuffix (term suffix : JV) : JV :=
  match term.get "suffix_list" with
  | .arr xs => term.set "suffix_list" (.arr (xs ++ [suffix]))
  | _ => term.set "suffix_list" (.arr [suffix])

/- AST JSON of an operator tree (the fork's field names); the operator texts are taken, in print order, from the
    token line (the tree only knows the operator class) -/
open FqModel.C11.Print in
mutual
  def termJ : E → List String → Option (JV × List String)
    | .atom s, ops =>
      if s.front.isDigit then some (.obj [("number", .str s), ("type", .str "TermTypeNumber")], ops)
      else some (.obj [("func", .obj [("name", .str s)]), ("type", .str "TermTypeFunc")], ops)
    | .paren e, ops => do
      let (j, ops) ← queryJ e ops
      pure (.obj [("query", j), ("type", .str "TermTypeQuery")], ops)
    | .brack _ a b, ops => do
      let (ja, ops) ← queryJ a ops
      let (jb, ops) ← queryJ b ops
      pure (.obj [("if", .obj [("cond", ja), ("then", jb)]), ("type", .str "TermTypeIf")], ops)
    | .opt e, ops => do
      let (t, ops) ← termJ e ops
      pure (addSuffix t (.obj [("optional", .bool true)]), ops)
    | .neg e, ops =>
      match ops with
      | o :: ops => do
        let (t, ops) ← termJ e ops
        pure (.obj [("type", .str "TermTypeUnary"), ("unary", .obj [("op", .str o), ("term", t)])], ops)
      | [] => none
    | _, _ => none
  def queryJ : E → List String → Option (JV × List String)
    | .bin _ l r, ops => do
      let (jl, ops) ← queryJ l ops
      match ops with
      | o :: ops =>
        let (jr, ops) ← queryJ r ops
        pure (.obj [("left", jl), ("op", .str o), ("right", jr)], ops)
      | [] => none
    | .bind t p b, ops => do
      let (jt, ops) ← termJ t ops
      let (jb, ops) ← queryJ b ops
      pure (.obj [("term", addSuffix jt (.obj [("bind", .obj [("body", jb), ("patterns", .arr [.obj [("name", .str p)]])])]))], ops)
    | .label n b, ops => do
      let (jb, ops) ← queryJ b ops
      pure (.obj [("term", .obj [("label", .obj [("body", jb), ("ident", .str n)]), ("type", .str "TermTypeLabel")])], ops)
    | e, ops => do
      let (t, ops) ← termJ e ops
      pure (.obj [("term", t)], ops)
end

def stepPP (toks : List String) (obs : JV) : String :=
  match toks.mapM tokOfText with
  | none => "BADOP pp-token"
  | some ts =>
    let opTexts := toks.filter fun t => (opOfText t).isSome
    let model : Option JV :=
      match FqModel.C11.Print.parse ts with
      | some e => match queryJ e opTexts with
        | some (j, []) => some j
        | _ => some (.str "model-conversion-failed")
      | none => none
    -- the printed form of what the model parsed must be the token line again (print is a left inverse on parser output)
    let law : Option String :=
      match FqModel.C11.Print.parse ts with
      | some e =>
        if FqModel.C11.Print.print e != ts then some "model-print-of-parse-differs"
        else if !(FqModel.C11.Print.wf e) then some "model-parse-not-wellformed"
        else none
      | none => none
    match law with
    | some w => s!"BADOP {w}"
    | none =>
      match model, obs with
      | none, .str "reject" => "OK"
      | none, _ => "DIVERGE model=reject"
      | some m, o => if m == o then "OK" else s!"DIVERGE model={clipStr m.encode}"

def stepC11 (op obs : String) : String :=
  match parseJson obs with
  | none => "BADOP observation-is-not-json"
  | some o =>
    if o.hasKey "harness_error" then "BADOP harness-error" else
    match words op with
    | "pp" :: toks => stepPP toks o
    | ["rt", _] => stepRT o
    | ["ctor", name, h1, _] =>
      match hexText h1 with
      | some p1 => stepCtor name p1 o
      | none => "BADOP hex"
    | ["rw", optsName, _] => stepRW optsName o
    | _ => "BADOP op"

def main : IO Unit := run stepC11
