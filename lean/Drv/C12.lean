import FqModel.Proto
import FqModel.Bits
import FqModel.Nav
/-! driver for C12

  `tree <format> <hex input> <dump> | <probe paths>`  TAB  `<node obs> ; … | <probe results>`
      dump  : pre-order, one token per node `K,isRoot,hasFormat,hex(name),Index,nkids` (K = S|A|L), the real
              shape of the decode tree walked in Go;
      node obs (pre-order, the node's id is its position):
              `<topath> <getpath> <parent> <root> <buffer_root> <format_root> <parents> <tupV> <tupG> <hV> <hG> <keys>`
              (keys = `n` for a leaf, else `<keys as path items>=<id of .[key] per key>=<length>`)
              where ids are pre-order numbers, `null`, `err`, `x` (not a decode value), `?` (a decode value that
              is not in the tree); tup = `_start._stop.hex(_name)._index|n`; h = hash of `tovalue|tojson` or `-`.
      verdict: the property predicate evaluated on fq's answers against the dumped shape (identity of
              `root|getpath(v|topath)`, parent contains v under its reported name/index, roots, parents chain),
              then model = observation for every navigation result and probe.
  `expr <path>`  TAB  `<hex of path_to_expr> ok <path of expr_to_path>` | `<hex> err…` | `perr`
      path items: `s<hex utf-8>` / `i<decimal>` joined by `,`; `-` = empty path.
-/
open FqModel FqModel.Proto FqModel.Nav

/-! ### parsing -/

def strOfHex (h : String) : Option String :=
  if h == "-" || h == "" then some ""
  else match bytesOfHex h with
    | some bs => String.fromUTF8? (ByteArray.mk bs.toArray)
    | none => none

def parseItem (w : String) : Option PItem :=
  if w.startsWith "s" then (strOfHex (w.drop 1).toString).map .inl
  else if w.startsWith "i" then ((w.drop 1).toString.toInt?).map .inr
  else none

def parsePathTok (w : String) : Option Path :=
  if w == "-" then some [] else (w.splitOn ",").mapM parseItem

def parseBool01 (s : String) : Option Bool :=
  if s == "1" then some true else if s == "0" then some false else none

structure Tok where
  info : Info
  nkids : Nat

def parseTok (w : String) : Option Tok :=
  match w.splitOn "," with
  | [k, r, f, nm, ix, n] => do
    let kind ← (if k == "S" then some Kind.struct else if k == "A" then some Kind.array
                else if k == "L" then some Kind.leaf else none)
    let r ← parseBool01 r
    let f ← parseBool01 f
    let nm ← strOfHex nm
    let ix ← ix.toInt?
    let n ← n.toNat?
    pure { info := { name := nm, index := ix, isRoot := r, hasFormat := f, kind := kind }, nkids := n }
  | _ => none

mutual
partial def buildNode (toks : Array Tok) (pos : Nat) : Option (Tree × Nat) :=
  if h : pos < toks.size then
    let tk := toks[pos]
    match buildKids toks (pos + 1) tk.nkids #[] with
    | some (kids, pos') => some (.mk tk.info kids.toList, pos')
    | none => none
  else none
partial def buildKids (toks : Array Tok) (pos : Nat) (n : Nat) (acc : Array Tree) : Option (Array Tree × Nat) :=
  if n = 0 then some (acc, pos)
  else match buildNode toks pos with
    | some (t, pos') => buildKids toks pos' (n - 1) (acc.push t)
    | none => none
end

/-- pointers of all nodes in pre-order -/
partial def ptrsOf (t : Tree) (self : Ptr) (acc : Array Ptr) : Array Ptr := Id.run do
  let mut acc := acc.push self
  let mut k := 0
  for c in t.kids do
    acc := ptrsOf c (k :: self) acc
    k := k + 1
  return acc

/-- an observed id -/
inductive Obs
  | node (id : Nat)
  | null | err | other | foreign
deriving BEq, Repr

def parseObsId (w : String) : Option Obs :=
  if w == "null" then some .null
  else if w == "err" then some .err
  else if w == "x" then some .other
  else if w == "?" then some .foreign
  else w.toNat?.map .node

def showOptPtr (ptrs : Array Ptr) (p : Option Ptr) : String :=
  match p with
  | none => "-"
  | some q => match ptrs.toList.findIdx? (· == q) with
    | some i => toString i
    | none => s!"ptr{q}"

/-- does the observation denote exactly this model result (a node or "not a node") -/
def obsIs (ptrs : Array Ptr) (o : Obs) (m : Option Ptr) : Bool :=
  match o, m with
  | .node id, some q => ptrs[id]? == some q
  | .null, none => true
  | .err, none => true
  | .other, none => true
  | _, _ => false

structure Tup where
  start : String
  stop : String
  name : String
  index : Option Int
deriving BEq

def parseTup (w : String) : Option Tup :=
  match w.splitOn "." with
  | [a, b, n, i] => do
    let nm ← strOfHex n
    let ix ← (if i == "n" then some none else i.toInt?.map some)
    pure { start := a, stop := b, name := nm, index := ix }
  | _ => none

def showItem : PItem → String
  | .inl s => "s" ++ (if s.isEmpty then "" else hexOfBytes s.toUTF8.toList)
  | .inr i => "i" ++ toString i

def showPath (p : Path) : String := if p.isEmpty then "-" else ",".intercalate (p.map showItem)

/-! ### the tree case -/

structure NodeObs where
  path : String
  g : String
  par : String
  root : String
  broot : String
  froot : String
  parents : String
  tupV : String
  tupG : String
  hV : String
  hG : String
  keys : String

def parseNodeObs (s : String) : Option NodeObs :=
  match words s with
  | [a, b, c, d, e, f, g, h, i, j, k, l] => some ⟨a, b, c, d, e, f, g, h, i, j, k, l⟩
  | _ => none

/-- the pointer itself and all its ancestors, nearest first -/
def selfAndAncestors : Ptr → List Ptr
  | [] => [[]]
  | k :: up => (k :: up) :: selfAndAncestors up

/-- nearest pointer among `n` and its ancestors (nearest first) that satisfies `p`, else the top -/
def nearest (n : Ptr) (p : Ptr → Bool) : Ptr :=
  match ((selfAndAncestors n).filter (· ≠ [])).find? p with
  | some q => q
  | none => []

def checkNode (t : Tree) (ptrs : Array Ptr) (id : Nat) (n : Ptr) (o : NodeObs) : Option String := do
  -- returns some failure text, none if fine; "P:" = property predicate, "M:" = model divergence
  let some v := deref t n | some s!"M: node {id}: driver cannot dereference its own pointer"
  let some path := parsePathTok o.path | some s!"P: node {id}: topath failed or is not an array of strings/ints ({o.path})"
  let some g := parseObsId o.g | some s!"B: node {id}: bad id {o.g}"
  -- P0 (Props.C12.path_length_is_depth): one path component per ancestor. The depth comes from the shape walked
  -- in Go (Compound.Children), not from anything fq's path functions said.
  if path.length != depth n then
    some s!"P: node {id}: path length ≠ depth: topath has {path.length} components, the value is {depth n} levels below the root (topath={o.path})"
  else
  -- P1: root | getpath(v | topath) is v itself
  if g != .node id then
    some s!"P: node {id}: root|getpath(topath) is {o.g}, not the value itself (topath={o.path})"
  else if o.tupV != o.tupG then
    some s!"P: node {id}: (_start,_stop,_name,_index) of getpath result {o.tupG} differs from the value's {o.tupV}"
  else if o.hV != o.hG || o.hV == "err" then
    some s!"P: node {id}: tovalue of the getpath result differs ({o.hV} vs {o.hG})"
  else
  let some tv := parseTup o.tupV | some s!"B: node {id}: bad tuple {o.tupV}"
  -- reported _name/_index against the dumped Go fields
  if tv.name != v.info.name then some s!"M: node {id}: _name differs from the dumped Name"
  else if tv.index != (if v.info.index == -1 then none else some v.info.index) then
    some s!"M: node {id}: _index {repr tv.index} differs from the dumped Index {v.info.index}"
  else
  -- P2: the parent contains v under its reported name / index
  let some par := parseObsId o.par | some s!"B: node {id}: bad id {o.par}"
  let p2 : Option String :=
    match n with
    | [] => if par == .null then none else some s!"P: node {id}: the root has a parent ({o.par})"
    | k :: up =>
      if !(obsIs ptrs par (some up)) then some s!"P: node {id}: parent is {o.par}, expected {showOptPtr ptrs (some up)}"
      else match deref t up with
        | none => some s!"M: node {id}: no parent in dump"
        | some pv =>
          match pv.info.kind with
          | .struct =>
            if lookupName tv.name pv.kids == some k && path.getLast? == some (.inl tv.name) then none
            else some s!"P: node {id}: its struct parent does not contain it under the reported name (last path element {o.path})"
          | .array =>
            if tv.index == some (k : Int) && path.getLast? == some (.inr (k : Int)) then none
            else some s!"P: node {id}: its array parent does not contain it at the reported index {repr tv.index} (position {k}, topath={o.path})"
          | .leaf => some s!"P: node {id}: parent is a leaf"
  if let some e := p2 then some e else
  -- P3: roots and parents agree with the shape
  let some r := parseObsId o.root | some s!"B: node {id}: bad id"
  let some br := parseObsId o.broot | some s!"B: node {id}: bad id"
  let some fr := parseObsId o.froot | some s!"B: node {id}: bad id"
  let flag (f : Info → Bool) (q : Ptr) : Bool := match deref t q with | some w => f w.info | none => false
  let expBR := nearest n (flag (·.isRoot))
  let expFR := nearest n (flag (fun i => i.isRoot || i.hasFormat))
  if r != .node 0 then some s!"P: node {id}: root is {o.root}, not the top of the tree"
  else if !(obsIs ptrs br (some expBR)) then
    some s!"P: node {id}: buffer_root is {o.broot}, the nearest enclosing buffer root is {showOptPtr ptrs (some expBR)}"
  else if !(obsIs ptrs fr (some expFR)) then
    some s!"P: node {id}: format_root is {o.froot}, the nearest enclosing format/buffer root is {showOptPtr ptrs (some expFR)}"
  else
  let expParents := (selfAndAncestors n).drop 1
  let obsParents : Option (List Obs) := if o.parents == "-" then some [] else (o.parents.splitOn ",").mapM parseObsId
  let some ops := obsParents | some s!"P: node {id}: parents failed ({o.parents})"
  if ops.length != expParents.length || !((ops.zip expParents).all (fun (a, b) => obsIs ptrs a (some b))) then
    some s!"P: node {id}: parents is {o.parents}, the chain of parents up to the root has {expParents.length} elements"
  else
  -- P4: keys ↔ children. `keys` has no duplicates, as many elements as there are children (= length), and the
  -- compound indexed with each key gives a child of this node that carries that name / sits at that position
  let p4 : Option String :=
    if o.keys == "n" then
      (if v.info.kind == .leaf then none else some s!"P: node {id}: keys/length failed on a compound")
    else match o.keys.splitOn "=" with
      | [ks, ids, len] =>
        match parsePathTok ks, (if ids == "-" then some [] else (ids.splitOn ",").mapM parseObsId), len.toNat? with
        | some keys, some kobs, some ln =>
          if v.info.kind == .leaf then some s!"P: node {id}: a leaf has keys"
          else if ln != v.kids.length then some s!"P: node {id}: length {ln} but {v.kids.length} children"
          else if keys.length != v.kids.length || kobs.length != keys.length then
            some s!"P: node {id}: {keys.length} keys for {v.kids.length} children"
          else if !(keys.eraseDups.length == keys.length) then
            some s!"P: node {id}: keys has duplicates ({ks}) — two children share a name"
          else
            let bad := (keys.zip kobs).find? (fun (key, ob) =>
              match ob with
              | .node cid =>
                match ptrs[cid]? with
                | some (ck :: cup) =>
                  if cup != n then true
                  else match deref t (ck :: cup), key with
                    | some c, .inl name => !(v.info.kind == .struct && c.info.name == name)
                    | some _, .inr i => !(v.info.kind == .array && i == (ck : Int))
                    | none, _ => true
                | _ => true
              | _ => true)
            match bad with
            | some (key, ob) => some s!"P: node {id}: indexing it with its key {showItem key} gives {repr ob}, not a child under that key"
            | none =>
              -- model: one getpath step per key
              match (keys.zip kobs).find? (fun (key, ob) => !(obsIs ptrs ob (step t n key))) with
              | some (key, _) => some s!"M: node {id}: model step for key {showItem key} differs"
              | none =>
                if v.info.kind == .array && keys != childKeys v then some s!"M: node {id}: array keys differ from 0..n-1"
                else none
        | _, _, _ => some s!"B: node {id}: bad keys field {o.keys}"
      | _ => some s!"P: node {id}: keys failed ({o.keys})"
  if let some e := p4 then some e else
  -- model = implementation
  if pathOf t n != path then some s!"M: node {id}: model pathOf differs from topath {o.path}"
  else if resolve t path != some n then some s!"M: node {id}: model resolve of topath is {showOptPtr ptrs (resolve t path)}"
  else if Nav.root t n != [] then some s!"M: node {id}: model root"
  else if bufferRoot t n != expBR || !(obsIs ptrs br (some (bufferRoot t n))) then some s!"M: node {id}: model bufferRoot {showOptPtr ptrs (some (bufferRoot t n))} vs {o.broot}"
  else if formatRoot t n != expFR || !(obsIs ptrs fr (some (formatRoot t n))) then some s!"M: node {id}: model formatRoot {showOptPtr ptrs (some (formatRoot t n))} vs {o.froot}"
  else if Nav.parents n != expParents then some s!"M: node {id}: model parents"
  else if !(obsIs ptrs par (parent n)) then some s!"M: node {id}: model parent"
  else none

def treeVerdict (op obs : String) : String :=
  match op.splitOn " | ", obs.splitOn " | " with
  | [opL, opR], [obL, obR] =>
    match words opL with
    | "tree" :: _fmt :: _hex :: dump =>
      match dump.mapM parseTok with
      | none => "BADOP dump"
      | some toks =>
        let toks := toks.toArray
        match buildNode toks 0 with
        | none => "BADOP dump-shape"
        | some (t, used) =>
          if used != toks.size then "BADOP dump-trailing" else
          let ptrs := ptrsOf t [] #[]
          let nodeObs := (obL.splitOn " ; ").map parseNodeObs
          if nodeObs.length != ptrs.size then s!"BADOP {nodeObs.length} node observations for {ptrs.size} nodes"
          else if nodeObs.any (·.isNone) then "BADOP node-observation"
          else
            let fails := ((List.range ptrs.size).zip nodeObs).filterMap (fun (i, o) =>
              match o with
              | some o => checkNode t ptrs i ptrs[i]! o
              | none => some "B: obs")
            -- probes
            let probes := (words opR).map parsePathTok
            let pobs := (words obR).map parseObsId
            -- no probes at all: the harness writes "-" as the only result
            let pobs := if (words opR).isEmpty && words obR == ["-"] then [] else pobs
            let pf : List String :=
              if probes.length != pobs.length then [s!"B: {probes.length} probes, {pobs.length} results"]
              else (probes.zip pobs).filterMap (fun (p, o) =>
                match p, o with
                | some p, some o =>
                  if o == .foreign then
                    some s!"P: getpath of a probe path returned a decode value that is not a node of the tree (a stale struct key?)"
                  else if obsIs ptrs o (resolve t p) then none
                  else some s!"M: probe: model resolve is {showOptPtr ptrs (resolve t p)}, fq returned {repr o}"
                | _, _ => some "B: probe")
            let wf : List String := if t.wfb then [] else
              ["P: the tree is not well-formed (duplicate struct name, array Index ≠ position, or a leaf with children)"]
            let all := fails ++ pf ++ wf
            let bad := all.find? (·.startsWith "B:")
            let pfail := all.find? (·.startsWith "P:")
            let div := all.find? (·.startsWith "M:")
            match bad, pfail, div with
            | some b, _, _ => s!"BADOP {b}"
            | none, some p, some d => s!"PROPFAIL {p} ;DIVERGE model={d}"
            | none, some p, none => s!"PROPFAIL {p}"
            | none, none, some d => s!"DIVERGE model={d}"
            | none, none, none => "OK"
    | _ => "BADOP op"
  | _, _ => "BADOP split"

/-! ### the expr case -/

def exprVerdict (ptok obs : String) : String :=
  match parsePathTok ptok with
  | none => "BADOP path"
  | some p =>
    let modelExpr := pathToExpr p
    let modelHex := hexOfBytes modelExpr.toUTF8.toList
    match words obs with
    | ["perr"] => s!"PROPFAIL path_to_expr failed on a path of strings and integers ;DIVERGE model={modelHex}"
    | h :: rest =>
      match strOfHex h with
      | none => "BADOP expr-hex"
      | some e =>
        let div := if e == modelExpr then "" else s!" ;DIVERGE model={modelHex}"
        -- predicate on fq's string alone (no model, no parser): every key printed WITHOUT quotes is a pure
        -- ASCII identifier [A-Za-z_][A-Za-z0-9_]* — anything else is not a jq field token
        let badKey : Option String :=
          match unquotedKeys e.toList with
          | none => some "is not a chain of .key / .\"string\" / [index] segments"
          | some ks =>
            match ks.find? (fun k => !(isIdentL k && k.all (fun c => c.toNat < 128))) with
            | some k => some s!"has the unquoted key {hexOfBytes (String.ofList k).toUTF8.toList} (hex) which is not an ASCII identifier"
            | none => none
        if let some why := badKey then s!"PROPFAIL the expression of path_to_expr for {ptok} {why}{div}" else
        -- the model's parser on fq's string (is fq's string inside the modelled language, and does it mean p?)
        let mparse := exprToPath e
        match rest with
        | ["ok", back] =>
          match parsePathTok back with
          | none => "BADOP back-path"
          | some q =>
            if q != p then s!"PROPFAIL path_to_expr | expr_to_path gives {back} for {ptok}{div}"
            else if mparse != some p then
              s!"DIVERGE model=parser gives {(mparse.map showPath).getD "none"} on fq's expression{div}"
            else if div.isEmpty then "OK" else s!"DIVERGE model={modelHex}"
        | _ => s!"PROPFAIL path_to_expr | expr_to_path fails ({" ".intercalate rest}) for {ptok}{div}"
    | _ => "BADOP obs"

def stepC12 (op obs : String) : String :=
  match words op with
  | ["expr", p] => exprVerdict p obs
  | "tree" :: _ => treeVerdict op obs
  | _ => "BADOP op"

def main : IO Unit := run stepC12
