import FqModel.Proto
import FqModel.Total
import FqModel.Total2
import FqModel.Total3
/-! driver for C13 — "every function fq adds is total over jq values"

  `call <name>/<arity> <V input> <V arg>*` TAB `<class>`
        class = ok <n results> [<V first result>] | err | halt | panic:<frame> | panic@force:<frame>
              | crash:<frame> | resource:timeout | resource:hang | resource:mem | resource:skipped
        verdict: (1) the property predicate on the observation alone — a panic / crash / memory
                 exhaustion is PROPFAIL (KNOWN for the two documented defect classes);
                 (2) for the functions modelled in FqModel/Total.lean the model's prediction
                 (exact class, and value for bitops / radix / intdiv / index / slice) — DIVERGE.
  `cast <int|float|big|bool|string|indent> <V>` TAB `ok <V>` | `fail` | `panic`     gojqx.CastFn
  `opts <V>` TAB `ok depth=… …` | `err` | `panic`                                  OptionsFromValue
  `preview <V string> n:<string_truncate>` TAB `ok <runes kept>` | `panic`        previewValue (preview.go)
  `asciiw|hexpw <width> <start> <l,l,…|l,…>` TAB `ok <bytes written> <len buf>` | `panic`   the dump's column writers
  `optsfmt <V>` TAB `ok <size prefix|->` | `err` | `panic`       the bits format closure it returns, run
  `linecol <V string> n:<offset>` TAB `ok <line> <column>` | `panic`              internal/pos NewFromOffset
  `dumprange <nbytes> <startBit> <sizeBits> <V opts>` TAB `ok <bytes shown> <address lines> <start offset>` | `err` | `panic`
        the real hexdump on a bit range, read back from its text; model = dumpRange (FqModel/Total3.lean)

  V is the token grammar of harness/cmd/c13/pool.go.
-/
open FqModel FqModel.Proto FqModel.Total

/-! ### token parser -/

def hexVal (c : Char) : Option Nat :=
  if '0' ≤ c && c ≤ '9' then some (c.toNat - '0'.toNat)
  else if 'a' ≤ c && c ≤ 'f' then some (c.toNat - 'a'.toNat + 10)
  else none

def hexBytes : List Char → Option (List Nat)
  | [] => some []
  | a :: b :: rest => do
    let x ← hexVal a; let y ← hexVal b; let r ← hexBytes rest
    pure ((x * 16 + y) :: r)
  | _ => none

def parseHexOrDash (s : String) : Option (List Nat) :=
  if s == "-" then some [] else hexBytes s.toList

def parseFlt (s : String) : Option Flt :=
  if s == "nan" then some .nan
  else if s == "+inf" then some (.inf false)
  else if s == "-inf" then some (.inf true)
  else match s.splitOn "p" with
    | [m, e] => do
      let m ← m.toInt?; let e ← e.toInt?
      if e ≥ 0 then pure (.fin (m * 2 ^ e.toNat) 1) else pure (.fin m (2 ^ (-e).toNat))
    | _ => none

/-- scalar token (no parentheses inside) -/
def parseScalar (t : String) : Option JV :=
  if t == "null" then some .null
  else if t == "true" then some (.bool true)
  else if t == "false" then some (.bool false)
  else if t.startsWith "n:" then (t.drop 2).toString.toInt?.map .int
  else if t.startsWith "b:" then (t.drop 2).toString.toInt?.map .big
  else if t.startsWith "f:" then (parseFlt (t.drop 2).toString).map .flt
  else if t.startsWith "s:" then (parseHexOrDash (t.drop 2).toString).map .str
  else if t.startsWith "S:" then
    match (t.drop 2).toString.splitOn ":" with
    | [n, hh] => do
      let n ← n.toNat?; let b ← hexBytes hh.toList
      match b with
      | [x] => pure (.str (List.replicate (min n 4097) x))   -- content beyond 4096 bytes is never used
      | _ => none
    | _ => none
  else if t.startsWith "bin:" then
    match (t.drop 4).toString.splitOn "/" with
    | [_, nb, u] => do
      -- `…/<unit>@<s>:<e>`: the slice .[s:e] of that binary — a binary of (e-s)·unit bits whose
      -- range starts at bit s·unit of the reader (binSliceOf gives the start)
      match u.splitOn "@" with
      | [u] =>
        let nb ← nb.toNat?; let u ← u.toInt?
        pure (.bin nb u)
      | [u, se] =>
        match se.splitOn ":" with
        | [a, b] => do
          let u ← u.toNat?; let a ← a.toNat?; let b ← b.toNat?
          pure (.bin ((b - a) * u) u)
        | _ => none
      | _ => none
    | _ => none
  else none

mutual
/-- returns the value and the rest of the input -/
partial def parseV (cs : List Char) : Option (JV × List Char) :=
  match cs with
  | 'A' :: '(' :: rest => parseArr rest []
  | 'O' :: '(' :: rest => parseObj rest []
  | 'd' :: 'v' :: ':' :: rest =>
    let (_, after) := rest.span (· != '=')
    match after with
    | '=' :: v => (parseV v).map fun (u, r) => (.dv u, r)
    | _ => none
  | _ =>
    let (tok, rest) := cs.span (fun c => c != ';' && c != ')')
    (parseScalar (String.ofList tok)).map fun v => (v, rest)

partial def parseArr (cs : List Char) (acc : List JV) : Option (JV × List Char) :=
  match cs with
  | ')' :: rest => some (.arr acc.reverse, rest)
  | _ =>
    match parseV cs with
    | some (v, ';' :: rest) => parseArr rest (v :: acc)
    | some (v, ')' :: rest) => some (.arr (v :: acc).reverse, rest)
    | _ => none

partial def parseObj (cs : List Char) (acc : List (String × JV)) : Option (JV × List Char) :=
  match cs with
  | ')' :: rest => some (.obj acc.reverse, rest)
  | _ =>
    let (k, after) := cs.span (· != '=')
    match after with
    | '=' :: v =>
      match parseV v with
      | some (x, ';' :: rest) => parseObj rest ((String.ofList k, x) :: acc)
      | some (x, ')' :: rest) => some (.obj ((String.ofList k, x) :: acc).reverse, rest)
      | _ => none
    | _ => none
end

def parseTok (s : String) : Option JV :=
  match parseV s.toList with
  | some (v, []) => some v
  | _ => none

/-- gojq normalises the numbers of every value that enters an evaluation (compiler.go:50-52
    `normalizeNumbers`): a *big.Int that fits an int IS an int by the time a function sees it.
    Small big integers still reach the functions, but only from inside (decode values: `dv:…=b:13`). -/
partial def normalizeNumbers : JV → JV
  | .big i => if inInt64 i then .int i else .big i
  | .arr l => .arr (l.map normalizeNumbers)
  | .obj kv => .obj (kv.map fun (k, v) => (k, normalizeNumbers v))
  | v => v

/-- (bits of the reader, first bit of the binary's range) of a `bin:` token: (nbits, 0) for a whole
    binary, (nbits, s·unit) for the slice form `…@s:e` -/
def binBufStart (t : String) : Option (Nat × Nat) :=
  if t.startsWith "bin:" then
    match (t.drop 4).toString.splitOn "/" with
    | [_, nb, u] =>
      match u.splitOn "@" with
      | [_] => nb.toNat?.map fun nb => (nb, 0)
      | [u, se] =>
        match se.splitOn ":" with
        | [a, _] => do
          let nb ← nb.toNat?; let u ← u.toNat?; let a ← a.toNat?
          pure (nb, a * u)
        | _ => none
      | _ => none
    | _ => none
  else none

/-- bytes of a `bin:<hex>/…` token (the bits a binary holds) -/
def binBytes (t : String) : Option (List Nat) :=
  if t.startsWith "bin:" then
    match (t.drop 4).toString.splitOn "/" with
    | [h, _, _] => parseHexOrDash h
    | _ => none
  else none

/-! ### rendering of model values in the harness' token form -/

def hexDigit (n : Nat) : Char := if n < 10 then Char.ofNat (48 + n) else Char.ofNat (87 + n)
def hexOfBytes (bs : List Nat) : String :=
  if bs.isEmpty then "-" else String.ofList (bs.flatMap fun b => [hexDigit (b / 16), hexDigit (b % 16)])

def natHex (n : Nat) : String := String.ofList (Nat.toDigits 16 n)

def tokBig (i : Int) : String :=
  let a := i.natAbs
  let bl := if a == 0 then 0 else Nat.log2 a + 1
  if bl > 2048 then
    let sign := if i < 0 then "-1" else "1"
    s!"B:{sign}:{bl}:{natHex (a >>> (bl - 64))}:{natHex (a % 2 ^ 64)}"
  else s!"b:{i}"

/-- strip common / trailing factors of two: the harness' canonical `m p e` form (m odd) -/
def stripTwos (fuel : Nat) (m : Int) (e : Int) : Int × Int :=
  match fuel with
  | 0 => (m, e)
  | fuel + 1 => if m != 0 && m % 2 == 0 then stripTwos fuel (m / 2) (e + 1) else (m, e)

def tokFlt : Flt → String
  | .nan => "f:nan"
  | .inf false => "f:+inf"
  | .inf true => "f:-inf"
  | .fin n d =>
    if n == 0 then "f:0p0" else
    -- d is a power of two (every float64 is m * 2^e)
    let (m, e) := stripTwos (Nat.log2 n.natAbs + 1) n (-(Nat.log2 d : Int))
    s!"f:{m}p{e}"

/-- token of the big integer l * 2^n without building it when it has more than 2048 bits -/
def tokShl (l : Int) (n : Nat) : String :=
  let a := l.natAbs
  if a == 0 then "b:0" else
  let la := Nat.log2 a + 1
  let bl := la + n
  if bl ≤ 2048 then tokBig (l * 2 ^ n) else
  let sign := if l < 0 then "-1" else "1"
  let top := if la ≥ 64 then a >>> (la - 64) else a <<< (64 - la)
  let low := if n ≥ 64 then 0 else (a <<< n) % 2 ^ 64
  s!"B:{sign}:{bl}:{natHex top}:{natHex low}"

def tokJV : JV → String
  | .null => "null"
  | .bool true => "true"
  | .bool false => "false"
  | .int i => s!"n:{i}"
  | .big i => tokBig i
  | .flt f => tokFlt f
  | .str bs => s!"s:{hexOfBytes bs}"
  | .shl l n => tokShl l n
  | _ => "?"

/-! ### predictions -/

/-- what the model says about one call: the set of admissible classes and, when the class is
    `ok` and the model computes the value, the token of the first result -/
structure Pred where
  classes : List String
  value : Option String := none
  valueByNumber : Bool := false      -- compare n:/b: tokens by numeric value only

def noPanic : Pred := { classes := ["ok", "err", "halt", "resource"] }
def exactCls (c : String) : Pred := { classes := [c] }

def predOfOutcome (o : Outcome JV) : Pred :=
  match o with
  | .ok v => { classes := ["ok"], value := some (tokJV v) }
  | .err _ => exactCls "err"
  | .panic _ => exactCls "panic"
  | .resource _ => exactCls "resource"

/-- integers (int or big, also behind a decode value) -/
def asInteger (v : JV) : Option Int :=
  match toGoJQ v with
  | .int i => some i
  | .big i => some i
  | _ => none

def isNumber (v : JV) : Bool :=
  match toGoJQ v with
  | .int _ | .big _ | .flt _ => true
  | _ => false

def isZeroNumber (v : JV) : Bool :=
  match toGoJQ v with
  | .int i | .big i => i == 0
  | .flt (.fin n _) => n == 0
  | _ => false

def numTok (i : Int) : String := if inInt64 i then s!"n:{i}" else tokBig i

def radixFuel : Nat := 4000

def predToRadix (c base : JV) : Pred :=
  if !isNumber c then exactCls "err"
  else match asInteger base with
    | some b =>
      if b < 2 then exactCls "err"            -- "base too small", before the zero shortcut
      else if isZeroNumber c then { classes := ["ok"], value := some "s:30" }
      else match asInteger c with
        | some n =>
          match toRadix radixFuel n b with
          | .ok (some s) => { classes := ["ok"], value := some s!"s:{hexOfBytes (s.toUTF8.toList.map (·.toNat))}" }
          | .ok none => exactCls "resource"
          | .err _ => exactCls "err"
          | .panic _ => exactCls "panic"
          | .resource _ => exactCls "resource"
        | none => noPanic
    | none =>
      -- `$base < 2` in jq's order of types: null and booleans sort below numbers
      match toGoJQ base with
      | .null | .bool _ => exactCls "err"
      | _ => noPanic

def predFromRadix (c base : JV) : Pred :=
  match c with          -- binaries and decode values take fq's binary-aware split: not modelled
  | .str bs =>
    if bs.isEmpty then exactCls "err"
    else if bs.length > 4096 then noPanic
    else if bs.all (· < 128) then
      match asInteger base with
      | some b =>
        match fromRadix (bs.map Char.ofNat) b with
        | .ok n => { classes := ["ok"], value := some (numTok n), valueByNumber := true }
        | .err _ => exactCls "err"
        | _ => exactCls "panic"
      | none => noPanic
    else noPanic
  | .bin _ _ => noPanic
  | .dv (.str _) => noPanic
  | _ => exactCls "err"

def predIntdiv (a b : JV) : Pred :=
  match asInteger a, asInteger b with
  | some x, some y =>
    match intdiv x y with
    | .ok n => { classes := ["ok"], value := some (numTok n), valueByNumber := true }
    | .err _ => exactCls "err"
    | _ => exactCls "panic"
  | _, _ => noPanic

/-- the length in bits of the input of `_tobits` as toBinary sees it (binary.go:31-42): none = the
    token does not carry it (decode values; the content of a huge string is cut by the parser but
    its length is in the token) -/
def inputBits (tok : String) (c : JV) : Option (Outcome Nat) :=
  if (tok.splitOn "dv:").length > 1 then none
  else if tok.startsWith "S:" then
    match (tok.drop 2).toString.splitOn ":" with
    | [n, _] => n.toNat?.map fun n => .ok (8 * n)
    | _ => none
  else if (tok.splitOn "S:").length > 1 then none
  else some (toBitReader 0 false c)

/-- `_tobits` from the casts to the returned binary (FqModel/Total3.lean toBitsFull): class, and the
    length / unit of the result -/
def predToBitsFull (tok : String) (c : JV) (o : Option ToBitsOpts) (keep : Bool) : Pred :=
  match o with
  | none => exactCls "err"
  | some o =>
    match inputBits tok c with
    | none =>
      -- a decode value: its length is not in the token; every outcome but a fault
      if convertible c == some false then exactCls "err" else noPanic
    | some (.ok len) =>
      match toBitsFull len o keep with
      | .ok r => { classes := ["ok"], value := some s!"?binary[{r.len}/{r.unit}]" }
      | .err _ => exactCls "err"
      | .panic _ => exactCls "panic"
      | .resource _ => exactCls "resource"
    | some (.err _) => exactCls "err"
    | some (.panic _) => exactCls "panic"
    | some (.resource _) => exactCls "resource"

def predToBits (tok : String) (c opts : JV) : Pred :=
  predToBitsFull tok c (castToBitsOpts opts) (keepRangeOf opts)

/-- `tobits($pad)` / `tobytes($pad)` = `_tobits({unit: 1|8, keep_range: false, pad_to_units: $pad})` -/
def predToBitsPad (unit : Int) (tok : String) (c pad : JV) : Pred :=
  predToBitsFull tok c ((fieldInt 0 (some pad)).map fun p => ⟨unit, p⟩) false

def indentErrOr (dflt : Int) (opts : JV) (outOfRange : Int → Bool) : Pred :=
  match castIndentOpts dflt opts with
  | none => exactCls "err"
  | some i => if outOfRange i then exactCls "err" else noPanic

def predToTOML (c opts : JV) : Pred :=
  match castIndentOpts 2 opts with
  | none => exactCls "err"
  | some i =>
    -- the encoder is abstract: any non-panic outcome; the model fixes what precedes it
    match toTOML (match c with | .null => true | _ => false) i (fun _ => .ok ()) with
    | .err _ => exactCls "err"
    | .panic _ => exactCls "panic"
    | .resource _ => exactCls "resource"
    | .ok _ => noPanic

/-- to_xml: ToXMLOpts{Indent int; AttributePrefix string} -/
def predToXML (c opts : JV) : Pred :=
  let castOk : Option Int :=
    match normScalar opts with
    | .null => some 0
    | .big _ => some 0
    | .obj kv => if fieldStrOk (lookup kv "attribute_prefix") then fieldInt 0 (lookup kv "indent") else none
    | _ => none
  match castOk with
  | none => exactCls "err"
  | some i =>
    let shapeOk := match toGoJQ c with | .obj _ | .arr _ | .null => true | _ => false
    if !shapeOk then exactCls "err"
    else match toXML true i (fun _ => .ok ()) with
      | .err _ => exactCls "err"
      | .panic _ => exactCls "panic"
      | .resource _ => exactCls "resource"
      | .ok _ => noPanic

def predToJSON (opts : JV) : Pred :=
  indentErrOr 0 opts (fun i => match toJSON i 1 with | .err _ => true | _ => false)
def predToYAML (opts : JV) : Pred :=
  match castIndentOpts 4 opts with
  | none => exactCls "err"
  | some i => match toYAML i with | .panic _ => exactCls "panic" | _ => noPanic

/-- gojq toInt for an index / slice bound (func.go:2301): saturating -/
def gojqToInt (v : JV) : Option Int :=
  match toGoJQ v with
  | .int i => some i
  | .big i => some (if inInt64 i then i else if i > 0 then maxInt64 else minInt64)
  | .flt _ => castInt v
  | _ => none

def bitsOfBytes (bs : List Nat) : Nat := bs.foldl (fun acc b => acc * 256 + b) 0

def predIndex (ctok : String) (c i : JV) : Pred :=
  match c, binBytes ctok, gojqToInt i, binBufStart ctok with
  | .bin nbits unit, some bytes, some ix, some (bufBits, startBit) =>
    if unit ≤ 0 then noPanic else
    match binIndexAt bufBits startBit nbits unit ix with
    | .ok none => { classes := ["ok"], value := some "null" }
    | .ok (some (start, n)) =>
      let total := bytes.length * 8
      let all := bitsOfBytes bytes
      let v := (all >>> (total - (start.toNat + n.toNat))) % 2 ^ n.toNat
      { classes := ["ok"], value := some s!"b:{v}" }
    | .err _ => exactCls "err"
    | .panic _ => exactCls "panic"
    | .resource _ => exactCls "resource"
  | _, _, _, _ => noPanic

def predSlice (ctok : String) (c s e : JV) : Pred :=
  let bound (v : JV) : Option (Option Int) :=       -- null = open end
    match v with
    | .null => some none
    | _ => (gojqToInt v).map some
  match c, bound s, bound e, binBufStart ctok with
  | .bin nbits unit, some s, some e, some (bufBits, startBit) =>
    if unit ≤ 0 then noPanic else
    let l := (nbits : Int).tdiv unit
    match binSliceAt bufBits startBit nbits unit (s.getD 0) (e.getD l) with
    | .ok (_, n) => { classes := ["ok"], value := some s!"?binary[{n}/{unit}]" }
    | .err _ => noPanic        -- the range is only checked when the slice is read
    | .panic _ => exactCls "panic"
    | .resource _ => exactCls "resource"
  | _, _, _, _ => noPanic

/-- `@bytecolor/1`: input = a byte_colors array whose values are among the four the driver knows,
    argument = a byte; the model picks the last entry with a covering (clamped) range -/
def colourSet (v : JV) : Option String :=
  match v with
  | .str bs =>
    let s := String.ofList (bs.map Char.ofNat)
    if s == "red" then some "s:1b5b33316d" else if s == "bgbrightred" then some "s:1b5b3130316d"
    else if s == "bold" then some "s:1b5b316d" else if s == "" then some "s:-" else none
  | _ => none

def predByteColor (c b : JV) : Pred :=
  match c, b with
  | .arr es, .int bi =>
    let parsed : Option (List (List (Int × Int) × String)) := es.mapM fun e =>
      match e with
      | .obj kv =>
        match lookup kv "ranges", (lookup kv "value").bind colourSet with
        | some (.arr rs), some set =>
          (rs.mapM fun (r : JV) => match r with
            | JV.arr [JV.int lo, JV.int hi] => some (lo, hi)
            | _ => none).map fun l => (l, set)
        | _, _ => none
      | _ => none
    match parsed with
    | some ents =>
      if bi < 0 || bi > 255 then noPanic else
      match byteColorEntry (ents.map (·.1)) bi.toNat with
      | some k => { classes := ["ok"], value := some ((ents.getD k ([], "?")).2) }
      | none => { classes := ["ok"], value := some "s:-" }
    | none => noPanic
  | _, _ => noPanic

/-! ### second batch (FqModel/Total2.lean) -/

/-- how a position that is cast to a string sees the value: none = the cast fails, some none = a
    string whose bytes the token does not carry (1 MiB strings, unaligned binaries) -/
def strView (tok : String) (v : JV) : Option (Option (List Nat)) :=
  match v with
  | .bin nbits _ =>
    match binBytes tok with
    | some bs => if nbits == 8 * bs.length then some (some bs) else some none
    | none => some none
  | _ =>
    match castStr v with
    | some bs => if tok.startsWith "S:" then some none else some (some bs)
    | none => none

def clsOfOutcome {α} (o : Outcome α) : Pred :=
  match o with
  | .ok _ => exactCls "ok"
  | .err _ => exactCls "err"
  | .panic _ => exactCls "panic"
  | .resource _ => exactCls "resource"

/-- the harness' token of a string result (pool.go tokOf): short strings only -/
def strResultTok (bs : List Nat) : Option String :=
  if bs.length ≤ 64 then some s!"s:{hexOfBytes bs}" else none

def binResultTok (nbytes : Nat) : String := s!"?binary[{8 * nbytes}/8]"

def predFromHex (tok : String) (c : JV) : Pred :=
  match strView tok c with
  | none => exactCls "err"
  | some none => noPanic
  | some (some bs) =>
    match hexDecodeString bs with
    | .ok out => { classes := ["ok"], value := some (binResultTok out.length) }
    | o => clsOfOutcome o

def predUnescape (plusSpace : Bool) (tok : String) (c : JV) : Pred :=
  match strView tok c with
  | none => exactCls "err"
  | some none => noPanic
  | some (some bs) =>
    match unescape plusSpace bs with
    | .ok out => { classes := ["ok"], value := strResultTok out }
    | o => clsOfOutcome o

def predUrlQuery (tok : String) (c : JV) : Pred :=
  match strView tok c with
  | none => exactCls "err"
  | some none => noPanic
  | some (some bs) => clsOfOutcome (fromUrlQueryStr bs)

def predStrFn0 (c : JV) : Pred := if (castStr c).isSome then exactCls "ok" else exactCls "err"

def predNalUnescape (tok : String) (c : JV) : Pred :=
  match toBitReader 0 false c with
  | .ok _ =>
    let bytes : Option (List Nat) :=
      match c with
      | .str bs => if tok.startsWith "S:" then none else some bs
      | .bin _ _ => (strView tok c).bind id
      | _ => none
    match bytes with
    | some bs =>
      match nalUnescape 0 c bs with
      | .ok out => { classes := ["ok"], value := some (binResultTok out.length) }
      | o => clsOfOutcome o
    | none => exactCls "ok"
  | o => clsOfOutcome o

def optObj (k v : String) : JV := .obj [(k, .str (v.toUTF8.toList.map (·.toNat)))]

/-- `{encoding: "std"} + $opts` (jq object addition: the right side wins; null is neutral) -/
def addStdEncoding (o : JV) : Option JV :=
  match o with
  | .null => some (optObj "encoding" "std")
  | .obj kv => some (.obj (kv ++ [("encoding", .str [115, 116, 100])]))
  | _ => none

def isOpaqueDv : JV → Bool
  | .dv (.obj _) => true
  | .dv (.arr _) => true
  | _ => false

/-- the x/text encoder / decoder is abstract: where the model reaches it, ok and err are both admitted -/
def predAbstractTail (o : Outcome Unit) : Pred :=
  match o with
  | .ok _ => { classes := ["ok", "err"] }
  | o => clsOfOutcome o

def predToCSV (c o : JV) : Pred :=
  if isOpaqueDv c then noPanic
  else match castArr c with
    | some rows => if rows.any isOpaqueDv then noPanic else clsOfOutcome (toCSV c o)
    | none => clsOfOutcome (toCSV c o)

/-- the virtual OS of the harness (vos.go): stdin is an empty reader that is also writable and a
    terminal; stdout / stderr are writers and terminals, not readers -/
def predStdioRead (fd l : JV) : Pred :=
  let isStdin := match castStr fd with | some n => strOfBytes n == "stdin" | none => false
  match stdioReadCall fd l isStdin 0 with
  | .ok _ => if castInt l == some 0 then exactCls "ok" else exactCls "err"     -- io.ReadFull on empty stdin: EOF unless 0 bytes are asked for
  | o => clsOfOutcome o

def hashWrappers : List (String × String) :=
  [("to_md4/0", "md4"), ("to_md5/0", "md5"), ("to_sha1/0", "sha1"), ("to_sha256/0", "sha256"), ("to_sha512/0", "sha512"),
   ("to_sha3_224/0", "sha3_224"), ("to_sha3_256/0", "sha3_256"), ("to_sha3_384/0", "sha3_384"), ("to_sha3_512/0", "sha3_512")]

def toEncWrappers : List (String × String) :=
  [("to_iso8859_1/0", "ISO8859_1"), ("to_utf8/0", "UTF8"), ("to_utf16/0", "UTF16"), ("to_utf16le/0", "UTF16LE"), ("to_utf16be/0", "UTF16BE")]
def fromEncWrappers : List (String × String) :=
  [("from_iso8859_1/0", "ISO8859_1"), ("from_utf8/0", "UTF8"), ("from_utf16/0", "UTF16"), ("from_utf16le/0", "UTF16LE"), ("from_utf16be/0", "UTF16BE")]

def modelled2 : List String :=
  ["from_hex/0", "to_hex/0", "_to_base64/1", "to_base64/0", "to_base64/1", "_to_hash/1", "_to_strencoding/1", "_from_strencoding/1",
   "nal_unescape/0", "_query_fromstring/0", "from_urlencode/0", "from_urlpath/0", "from_urlquery/0", "to_urlquery/0", "to_url/0",
   "to_urlencode/0", "to_urlpath/0", "from_xmlentities/0", "to_xmlentities/0",
   "_to_csv/1", "to_csv/0", "to_csv/1", "_stdio_read/2", "_stdio_write/1", "_stdio_info/1"]
  ++ hashWrappers.map (·.1) ++ toEncWrappers.map (·.1) ++ fromEncWrappers.map (·.1)

def predict2 (fn : String) (toks : List String) (vs : List JV) : Option Pred :=
  let tok0 := toks.headD ""
  match fn, vs with
  | "from_hex/0", [c] => some (predFromHex tok0 c)
  | "to_hex/0", [c] => some (clsOfOutcome (toHex 0 c))
  | "_to_base64/1", [c, o] => some (clsOfOutcome (toBase64 0 c o))
  | "to_base64/0", [c] => some (clsOfOutcome (toBase64 0 c .null))
  | "to_base64/1", [c, o] =>
    if isOpaqueDv o then some noPanic else
    some (match addStdEncoding (toGoJQ o) with
      | some o' => clsOfOutcome (toBase64 0 c o')
      | none => exactCls "err")
  | "_to_hash/1", [c, o] => some (clsOfOutcome (toHash 0 c o))
  | "_to_strencoding/1", [c, o] => some (predAbstractTail (toStrEncoding c o (.ok ())))
  | "_from_strencoding/1", [c, o] => some (predAbstractTail (fromStrEncoding 0 c o (.ok ())))
  | "nal_unescape/0", [c] => some (predNalUnescape tok0 c)
  | "_query_fromstring/0", [c] => some (if (castStr c).isSome then { classes := ["ok", "err"] } else exactCls "err")
  | "from_urlencode/0", [c] => some (predUnescape true tok0 c)
  | "from_urlpath/0", [c] => some (predUnescape false tok0 c)
  | "from_urlquery/0", [c] => some (predUrlQuery tok0 c)
  | "to_urlquery/0", [c] => some (clsOfOutcome (toUrlQuery c))
  | "to_url/0", [c] => some (clsOfOutcome (toUrl c))
  | "to_urlencode/0", [c] => some (predStrFn0 c)
  | "to_urlpath/0", [c] => some (predStrFn0 c)
  | "from_xmlentities/0", [c] => some (predStrFn0 c)
  | "to_xmlentities/0", [c] => some (predStrFn0 c)
  | "_to_csv/1", [c, o] => some (predToCSV c o)
  | "to_csv/1", [c, o] => some (predToCSV c o)
  | "to_csv/0", [c] => some (predToCSV c .null)
  | "_stdio_read/2", [_, fd, l] => some (predStdioRead fd l)
  | "_stdio_write/1", [_, fd] => some (clsOfOutcome (stdioFdOp fd true))
  | "_stdio_info/1", [_, fd] => some (clsOfOutcome (stdioFdOp fd true))
  | _, [c] =>
    match hashWrappers.find? (·.1 == fn), toEncWrappers.find? (·.1 == fn), fromEncWrappers.find? (·.1 == fn) with
    | some (_, name), _, _ => some (clsOfOutcome (toHash 0 c (optObj "name" name)))
    | _, some (_, name), _ => some (predAbstractTail (toStrEncoding c (optObj "encoding" name) (.ok ())))
    | _, _, some (_, name) => some (predAbstractTail (fromStrEncoding 0 c (optObj "encoding" name) (.ok ())))
    | _, _, _ => none
  | _, _ => none

def modelled : List String :=
  ["bnot/0", "bsl/2", "bsr/2", "band/2", "bor/2", "bxor/2", "to_radix/1", "from_radix/1", "_tobits/1",
   "tobits/1", "tobytes/1", "_to_toml/1", "to_toml/1", "to_xml/1", "_to_json/1", "tojson/1", "_to_yaml/1",
   "to_yaml/1", "intdiv/2", "@index/1", "@slice/2", "@bytecolor/1"] ++ modelled2

def predict (fn : String) (toks : List String) (vs : List JV) : Option Pred :=
  match fn, vs with
  | "bnot/0", [c] => some (predOfOutcome (bnot c))
  | "bsl/2", [_, a, b] => some (predOfOutcome (bsl a b))
  | "bsr/2", [_, a, b] => some (predOfOutcome (bsr a b))
  | "band/2", [_, a, b] => some (predOfOutcome (bandF a b))
  | "bor/2", [_, a, b] => some (predOfOutcome (borF a b))
  | "bxor/2", [_, a, b] => some (predOfOutcome (bxorF a b))
  | "to_radix/1", [c, b] => some (predToRadix c b)
  | "from_radix/1", [c, b] => some (predFromRadix c b)
  | "intdiv/2", [_, a, b] => some (predIntdiv a b)
  | "_tobits/1", [c, o] => some (predToBits (toks.headD "") c o)
  | "tobits/1", [c, p] => some (predToBitsPad 1 (toks.headD "") c p)
  | "tobytes/1", [c, p] => some (predToBitsPad 8 (toks.headD "") c p)
  | "_to_toml/1", [c, o] => some (predToTOML c o)
  | "to_toml/1", [c, o] => some (predToTOML c o)
  | "to_xml/1", [c, o] => some (predToXML c o)
  | "_to_json/1", [_, o] => some (predToJSON o)
  | "tojson/1", [_, o] => some (predToJSON o)
  | "_to_yaml/1", [_, o] => some (predToYAML o)
  | "to_yaml/1", [_, o] => some (predToYAML o)
  | "@index/1", [c, i] => some (predIndex (toks.headD "") c i)
  | "@slice/2", [c, s, e] => some (predSlice (toks.headD "") c s e)
  | "@bytecolor/1", [c, b] => some (predByteColor c b)
  | _, _ => predict2 fn toks vs

/-! ### observation classes -/

def obsClass (obs : String) : Option String :=
  let w := (words obs).headD ""
  if w == "ok" then some "ok"
  else if w == "err" then some "err"
  else if w == "halt" then some "halt"
  else if w.startsWith "panic:" || w.startsWith "panic@force:" then some "panic"
  else if w.startsWith "crash:" then some "crash"
  else if w == "resource:mem" then some "resource:mem"
  else if w.startsWith "resource:" then some "resource"
  else none

/-- numeric value of an n:/b: token -/
def tokNumber (t : String) : Option Int :=
  if t.startsWith "n:" || t.startsWith "b:" then (t.drop 2).toString.toInt? else none

def valueAgrees (p : Pred) (want got : String) : Bool :=
  if want == got then true
  else if p.valueByNumber then
    match tokNumber want, tokNumber got with
    | some a, some b => a == b
    | _, _ => false
  else false

/-- known defect classes (known_findings.json, status "known"): exactly these, nothing wider.
    (tobits-unit-zero, tojson-negative-indent-wrap, protobuf-seek0-loop, line-bytes-unbounded and
    stdio-read-length were found by this check and have been fixed in /repo: they are
    violations again if they return.) -/
def knownClass (_fn : String) (_vs : List JV) (_obs : String) : Option String := none

def hasHugeString (toks : List String) : Bool := toks.any (·.startsWith "S:")

/-- the property predicate on the observation alone (no model involved) -/
def classVerdict (fn : String) (vs : List JV) (obs cls div : String) (huge : Bool) : String :=
  -- memory exhaustion counts when it comes from SMALL values; with the 1 MiB string in some
  -- position, jq code that needs kilobytes per character (split, regex matches) is recorded only
  if cls == "panic" || cls == "crash" || (cls == "resource:mem" && !huge) then
    match knownClass fn vs obs with
    | some key => s!"KNOWN {key} {(words obs).headD ""}{div}"
    | none => s!"PROPFAIL {(words obs).headD ""}{div}"
  else if div.isEmpty then "OK" else (div.drop 2).toString

def callVerdict (fn : String) (toks : List String) (obs : String) : String :=
  match obsClass obs with
  | none => s!"BADOP observation {obs}"
  | some cls =>
    if !(modelled.contains fn) then
      -- not modelled: the verdict depends on the class only; the value tokens are not
      -- interpreted (they must be present: one per position) unless a fault has to be classified
      if toks.any (·.isEmpty) then "BADOP token"
      else if fn == "@so/1" then classVerdict fn [] obs cls "" false       -- tokens are jq source, not values
      else if cls == "panic" || cls == "crash" || cls == "resource:mem" then
        match toks.mapM parseTok with
        | some vs => classVerdict fn (vs.map normalizeNumbers) obs cls "" (hasHugeString toks)
        | none => "BADOP token"
      else classVerdict fn [] obs cls "" (hasHugeString toks)
    else
    match toks.mapM parseTok with
    | none => "BADOP token"
    | some vs =>
      let vs := vs.map normalizeNumbers
      -- (2) model
      let div : String :=
        match predict fn toks vs with
        | none => " ;DIVERGE model=unsupported-shape"
        | some p =>
          let c := if cls == "resource:mem" then "resource" else if cls == "crash" then "panic" else cls
          if !(p.classes.contains c) then
            -- a slow evaluation of something the model answers instantly is tolerated only for
            -- the 1 MiB string, for skipped cases and for results of more than 2048 bits
            -- (a 256 MiB shift on a loaded machine)
            let hugeResult := match p.value with | some v => v.startsWith "B:" | none => false
            if c == "resource" && !(p.classes.contains "panic") && (hasHugeString toks || obs == "resource:skipped" || hugeResult) then ""
            else s!" ;DIVERGE model={" ".intercalate p.classes}{match p.value with | some v => " " ++ v | none => ""}"
          else match p.value, c with
            | some want, "ok" =>
              match words obs with
              | [_, "1", got] => if valueAgrees p want got then "" else s!" ;DIVERGE model=ok 1 {want}"
              | _ => s!" ;DIVERGE model=ok 1 {want}"
            | _, _ => ""
      -- (1) the property predicate, on the observation alone
      -- a result of more than 2048 bits (in the pool: a shift by 2^31-1, 256 MiB, which the fixed
      -- bsl honours) is memory the caller asked for: exceeding the worker's budget there is recorded only
      let hugeResult := match predict fn toks vs with
        | some p => (match p.value with | some v => v.startsWith "B:" | none => false)
        | none => false
      classVerdict fn vs obs cls div (hasHugeString toks || hugeResult)

/-! ### direct ops -/

def optOk (o : Option String) : String := match o with | some s => "ok " ++ s | none => "fail"

def castVerdict (kind tok obs : String) : String :=
  match parseTok tok with
  | none => "BADOP token"
  | some v =>
    if obs == "panic" then "PROPFAIL cast-panics" else
    let model : Option String :=
      match kind with
      | "int" => some (optOk ((castInt v).map fun i => s!"n:{i}"))
      | "big" => some (optOk ((castBig v).map fun i => tokBig i))
      | "float" => some (optOk ((castFloat v).map tokFlt))
      | "bool" => some (optOk ((castBool v).map fun b => if b then "true" else "false"))
      | "string" => some (optOk ((castString v).map fun _ => "str"))
      | "indent" => some (optOk ((castIndentOpts 2 v).map fun i => s!"n:{i}"))
      | _ => none
    match model with
    | none => "BADOP cast-kind"
    | some m => verdict m obs

def optsVerdict (tok obs : String) : String :=
  match parseTok tok with
  | none => "BADOP token"
  | some v =>
    if obs == "panic" then "PROPFAIL OptionsFromValue-panics" else
    let o := optionsFromValue v
    -- the property of the clamps, evaluated on the implementation's numbers
    let model := s!"ok depth={o.depth} array_truncate={o.arrayTruncate} string_truncate={o.stringTruncate} line_bytes={o.lineBytes} display_bytes={o.displayBytes} addrbase={o.addrbase} sizebase={o.sizebase}"
    let isObj := match normScalar v with | .obj _ => true | _ => false
    let hasBitsFormat := match normScalar v with | .obj kv => (lookup kv "bits_format").isSome | _ => false
    if obs == "err" then
      -- a non-object has no (valid) bits_format, an object may carry an invalid one
      if !isObj || hasBitsFormat then "OK" else s!"DIVERGE model={model}"
    else
      let safe : Bool :=
        match (words obs).filterMap (fun w => match w.splitOn "=" with | [k, n] => n.toInt?.map (fun i => (k, i)) | _ => none) with
        | kvs =>
          let get (k : String) : Int := ((kvs.find? (·.1 == k)).map (·.2)).getD (-1)
          (dump ⟨get "depth", get "array_truncate", get "string_truncate", get "line_bytes",
            get "display_bytes", get "addrbase", get "sizebase"⟩ 12345).noFault
          && decide (get "depth" ≥ 0) && decide (get "array_truncate" ≥ 0) && decide (get "string_truncate" ≥ 0)
          && decide (get "display_bytes" ≥ 0)
      if !safe then s!"PROPFAIL options-not-clamped {obs}"
      else verdict model obs

/-- the bits_format member as OptionsFromValue reads it (a string field; anything else leaves "") -/
def bitsFormatOf (v : JV) : String :=
  match normScalar v with
  | .obj kv =>
    match (lookup kv "bits_format").map normScalar with
    | some (.str bs) => String.ofList (bs.map Char.ofNat)
    | _ => ""
  | _ => ""

/-- `optsfmt V`: OptionsFromValue then its bits format closure on 1000 zero bytes -/
def optsfmtVerdict (tok obs : String) : String :=
  match parseTok tok with
  | none => "BADOP token"
  | some v =>
    if obs == "panic" then "PROPFAIL bits-format-renderer-panics (an option it uses was not clamped)" else
    let model : String :=
      match (optionsFromValueFmt (bitsFormatOf v) v).bind (fun x => x.fn.render 8000) with
      | .ok s => "ok " ++ s
      | .err _ => "err"
      | .panic _ => "panic"
      | .resource _ => "resource"
    verdict model obs

/-- `preview s:<hex> n:<limit>`: the real previewValue; observation = runes kept -/
def previewVerdict (stok ltok obs : String) : String :=
  match parseTok stok, parseTok ltok with
  | some (.str bs), some (.int st) =>
    if obs == "panic" then "PROPFAIL previewValue-slice-out-of-range" else
    let model := match previewTruncate (runeCount bs) st with
      | .ok n => s!"ok {n}"
      | .err _ => "err"
      | .panic _ => "panic"
      | .resource _ => "resource"
    verdict model obs
  | _, _ => "BADOP token"

/-- `asciiw W S l,l,…|l,…` / `hexpw …`: the column writers driven directly -/
def parseChunks (s : String) : Option (List (List Nat)) :=
  (s.splitOn "|").mapM fun ch => (ch.splitOn ",").mapM (·.toNat?)

def writerVerdict (kind sw ss schunks obs : String) : String :=
  match sw.toNat?, ss.toNat?, parseChunks schunks with
  | some width, some start, some chunks =>
    if obs == "panic" then s!"PROPFAIL {kind}-index-out-of-range" else
    let r := if kind == "asciiw" then writeAll asciiWrite (asciiNew width start) 0 chunks
             else writeAll hexpairWrite (hexpairNew width start) 0 chunks
    let model := match r with
      | .ok (h, n) => s!"ok {n} {h.bufLen}"
      | .err _ => "err"
      | .panic _ => "panic"
      | .resource _ => "resource"
    verdict model obs
  | _, _, _ => "BADOP token"

/-- `linecol s:<hex> n:<offset>`: the real pos.NewFromOffset; observation = line and column -/
def linecolVerdict (stok otok obs : String) : String :=
  match parseTok stok, parseTok otok with
  | some (.str bs), some (.int off) =>
    if obs == "panic" then "PROPFAIL offsetToLineColumn-slice-out-of-range" else
    if obs == "hang" then "PROPFAIL offsetToLineColumn-does-not-terminate" else
    let model := match offsetToLineColumn bs off with
      | .ok (some (l, c)) => s!"ok {l} {c}"
      | .ok none => "hang"
      | .err _ => "err"
      | .panic _ => "panic"
      | .resource _ => "resource"
    verdict model obs
  | _, _ => "BADOP token"

/-- `dumprange nbytes startBit sizeBits V`: the real hexdump, read back from its text -/
def dumprangeVerdict (sn ss sz tok obs : String) : String :=
  match sn.toNat?, ss.toInt?, sz.toInt?, parseTok tok with
  | some nbytes, some startBit, some sizeBits, some v =>
    if obs == "panic" then "PROPFAIL hexdump-panics" else
    let o := optionsFromValue (normalizeNumbers v)
    let model := match dumpRange (8 * nbytes) startBit sizeBits o.displayBytes o.lineBytes with
      | .ok r =>
        -- bitio.BitsByteCount of the bits read; the first address line is always printed
        let shown := (r.reqBits + 7) / 8
        let lines := if r.addrLines < 1 then 1 else r.addrLines
        s!"ok {shown} {lines} {if shown == 0 then 0 else r.startLineByteOffset}"
      | .err _ => "err"
      | .panic _ => "panic"
      | .resource _ => "resource"
    verdict model obs
  | _, _, _, _ => "BADOP token"

def stepC13 (op obs : String) : String :=
  match words op with
  | "call" :: fn :: toks => if toks.isEmpty then "BADOP call" else callVerdict fn toks obs
  | ["cast", kind, tok] => castVerdict kind tok obs
  | ["opts", tok] => optsVerdict tok obs
  | ["optsfmt", tok] => optsfmtVerdict tok obs
  | ["preview", stok, ltok] => previewVerdict stok ltok obs
  | ["linecol", stok, otok] => linecolVerdict stok otok obs
  | ["dumprange", sn, ss, sz, tok] => dumprangeVerdict sn ss sz tok obs
  | ["asciiw", w, st, ch] => writerVerdict "asciiw" w st ch obs
  | ["hexpw", w, st, ch] => writerVerdict "hexpw" w st ch obs
  | _ => "BADOP op"

def main : IO Unit := run stepC13
