import FqModel.Proto
import FqModel.Bits
import FqModel.Codec
import FqModel.C14Hash
import FqModel.C14Json
import FqModel.C14Xml
import FqModel.C14Csv
import FqModel.C14Large
/-!
  driver for C14.  Case lines (everything binary/text is lower-case hex, `-` = empty):

    <codec> rt  <input>   TAB  <to_F output | err> [<from_F of that output | err>]
    <codec> dec <text>    TAB  <from_F output | err>
    <hash>  hash <bin>    TAB  <digest>

  <bin>  = <hex>/<nbits>  (bytes zero-padded on the right, nbits = exact bit length)
  codecs on binaries : hex b64std b64url b64rawstd b64rawurl          (rt input = <bin>)
  codecs on strings  : urlq urlp latin1 utf8 utf16 utf16le utf16be    (rt input = hex of the Go string)
  radix              : `radix rt <base> <decimal>` / `radix dec <base> <texthex>`

  Verdicts: rt  — PROPFAIL if fq's own from_F(to_F(x)) differs from x (evaluated on fq's outputs,
                  independent of the model), or if a binary-to-text encoding differs from the
                  reference encoder; DIVERGE if the model predicts another text / decode result.
            dec — PROPFAIL if fq returns a value where the reference decoder reports malformed
                  input, or returns a different value; DIVERGE if fq rejects what the model accepts.
-/
open FqModel FqModel.Proto FqModel.Codec

def hx (bs : Bytes) : String := if bs.isEmpty then "-" else hexOfBytes bs

def showO (o : Option Bytes) : String := match o with | some b => hx b | none => "err"

def parseO (s : String) : Option (Option Bytes) :=
  if s == "err" then some none else (bytesOfHex s).map some

def parseBin (s : String) : Option Bits :=
  match s.splitOn "/" with
  | [h, n] => do
    let bs ← bytesOfHex h
    let n ← n.toNat?
    let bits := bytesToBits bs
    if n ≤ bits.length ∧ bits.length < n + 8 then some (bits.take n) else none
  | _ => none

def charsOfBytes (bs : Bytes) : Option (List Char) :=
  (String.fromUTF8? (ByteArray.mk bs.toArray)).map String.toList

def bytesOfChars (cs : List Char) : Bytes := (String.ofList cs).toUTF8.toList

def strOfBytes (bs : Bytes) : Option String := String.fromUTF8? (ByteArray.mk bs.toArray)

/-- binary -> text codecs -/
def binCodec (name : String) : Option ((Bytes → Bytes) × (Bytes → Option Bytes)) :=
  match name with
  | "hex" => some (hexEnc, hexDec)
  | "b64std" => some (b64Std.enc, b64Std.dec)
  | "b64url" => some (b64Url.enc, b64Url.dec)
  | "b64rawstd" => some (b64RawStd.enc, b64RawStd.dec)
  | "b64rawurl" => some (b64RawUrl.enc, b64RawUrl.dec)
  | _ => none

/-- string -> string codecs (byte level) -/
def strCodec (name : String) : Option ((Bytes → Bytes) × (Bytes → Option Bytes)) :=
  match name with
  | "urlq" => some (urlEscape true, urlUnescape true)
  | "urlp" => some (urlEscape false, urlUnescape false)
  | _ => none

/-- unicode string -> bytes encoders, bytes -> unicode string decoders -/
def txtCodec (name : String) : Option ((List Char → Option Bytes) × (Bytes → Option (List Char))) :=
  match name with
  | "latin1" => some (toLatin1, fun b => some (fromLatin1 b))
  | "utf8" => some (fun s => some (toUtf8 s), fun b => some (fromUtf8 b))
  | "utf16" => some (fun s => some (toUtf16 true true s), fun b => some (fromUtf16 true true b))
  | "utf16le" => some (fun s => some (toUtf16 true false s), fun b => some (fromUtf16 true false b))
  | "utf16be" => some (fun s => some (toUtf16 false false s), fun b => some (fromUtf16 false false b))
  | _ => none

def mkVerdict (propfail : Option String) (diverge : Option String) : String :=
  match propfail, diverge with
  | some p, some d => s!"PROPFAIL {p} ;DIVERGE model={d}"
  | some p, none => s!"PROPFAIL {p}"
  | none, some d => s!"DIVERGE model={d}"
  | none, none => "OK"

/-- round trip of an encoder/decoder pair over `Bytes` where the original is `orig` -/
def rtVerdict (enc : Bytes → Bytes) (dec : Bytes → Option Bytes) (orig : Bytes) (refIsSpec : Bool)
    (obs : List String) : String :=
  match obs with
  | [t, d] =>
    match parseO t, parseO d with
    | some (some implText), some implDec =>
      let mText := enc orig
      let mDec := dec implText
      let pf :=
        if implDec != some orig then some s!"roundtrip from(to(x))={showO implDec} x={hx orig}"
        else if refIsSpec && implText != mText then some s!"encoding-differs-from-reference ref={hx mText}"
        else none
      let dv := if implText != mText || implDec != mDec then some s!"{hx mText} {showO mDec}" else none
      mkVerdict pf dv
    | _, _ => "BADOP obs"
  | [t] =>
    -- to_F failed: never allowed for these total encoders
    if t == "err" then mkVerdict (some "encoder-error-in-domain") (some (hx (enc orig))) else "BADOP obs"
  | _ => "BADOP obs"

def decVerdict (mDec : Option Bytes) (obs : String) : String :=
  match parseO obs with
  | some impl =>
    if impl == mDec then "OK"
    else match mDec, impl with
      | none, some _ => mkVerdict (some "malformed-input-accepted") (some "err")
      | some m, some _ => mkVerdict (some "wrong-value") (some (hx m))
      | some m, none => mkVerdict none (some (hx m))
      | none, none => "OK"
  | none => "BADOP obs"

def validDigitD (b : Nat) (c : Char) : Bool :=
  match radixVal c with
  | some d => decide (d < b)
  | none => false

def stepRadix (dir : String) (args : List String) (obs : String) : String :=
  match dir, args with
  | "rt", [b, n] =>
    match b.toNat?, n.toNat? with
    | some b, some n =>
      match words obs with
      | [t, d] =>
        match parseO t with
        | some (some implText) =>
          match strOfBytes implText with
          | none => "PROPFAIL to_radix-not-utf8"
          | some s =>
            let mText := (toRadix b n).map String.ofList
            let implDec : Option (Option Nat) := if d == "err" then some none else d.toNat?.map some
            match implDec with
            | none => "BADOP obs-dec"
            | some implDec =>
              let mDec := fromRadix b s.toList
              let pf := if implDec != some n then some s!"roundtrip from_radix(to_radix(n))={d}" else none
              let dv := if mText != some s || mDec != implDec then some s!"{mText} {mDec}" else none
              mkVerdict pf dv
        | _ => "BADOP obs"
      | [t] =>
        if t == "err" then
          (if (toRadix b n).isNone && ¬ (2 ≤ b ∧ b ≤ 64) then "OK" else mkVerdict (some "to_radix-error-in-domain") (some s!"{toRadix b n}"))
        else "BADOP obs"
      | _ => "BADOP obs"
    | _, _ => "BADOP args"
  | "dec", [b, t] =>
    match b.toNat?, bytesOfHex t with
    | some b, some tb =>
      match charsOfBytes tb with
      | none => "BADOP text-not-utf8"
      | some cs =>
        let m := fromRadix b cs
        let impl : Option (Option Nat) := if obs == "err" then some none else obs.toNat?.map some
        match impl with
        | none => "BADOP obs"
        | some impl =>
          -- independent reading of "malformed": empty, a character outside the table, or a digit
          -- that is not below the base  (radix-digit-not-below-base / radix-empty-string were
          -- known findings until /repo 1a4271bf; now a PROPFAIL again)
          let div := if impl == m then "" else s!" ;DIVERGE model={m}"
          let malformed := cs.isEmpty || cs.any (fun c => !validDigitD b c)
          match impl with
          | some _ =>
            if malformed then s!"PROPFAIL malformed-input-accepted{div}"
            else if impl == m then "OK"
            else match m with
              | some mv => mkVerdict (some "wrong-value") (some s!"{mv}")
              | none => mkVerdict (some "malformed-input-accepted") (some "err")
          | none => if impl == m then "OK" else mkVerdict none (some s!"{m}")
    | _, _ => "BADOP args"
  | _, _ => "BADOP radix-op"

/-! URL query objects on the wire: `{s<hex>:s<hex>,s<hex>:[s<hex>,s<hex>]}` (keys sorted; a key with
    one value is a string, with several an array) -/

def showQS (b : Bytes) : String := "s" ++ hx b

def showQuery (q : QueryVals) : String :=
  "{" ++ ",".intercalate (q.map (fun kv =>
    showQS kv.1 ++ ":" ++ (match kv.2 with
      | [v] => showQS v
      | vs => "[" ++ ",".intercalate (vs.map showQS) ++ "]"))) ++ "}"

def parseQS (s : String) : Option Bytes :=
  if s.startsWith "s" then bytesOfHex (s.drop 1).toString else none

/-- split a member list at top-level commas (arrays are one level deep) -/
def splitTop (cs : List Char) : List String :=
  let rec go : List Char → Nat → List Char → List String → List String
    | [], _, cur, acc => (String.ofList cur.reverse :: acc).reverse
    | c :: r, depth, cur, acc =>
      if c == '[' then go r (depth + 1) (c :: cur) acc
      else if c == ']' then go r (depth - 1) (c :: cur) acc
      else if c == ',' && depth == 0 then go r depth [] (String.ofList cur.reverse :: acc)
      else go r depth (c :: cur) acc
  go cs 0 [] []

def parseQueryWire (s : String) : Option QueryVals :=
  if !(s.startsWith "{" && s.endsWith "}") then none else
  let inner := ((s.drop 1).dropEnd 1).toString
  if inner.isEmpty then some [] else
  (splitTop inner.toList).mapM (fun m =>
    match m.splitOn ":" with
    | [k, v] => do
      let k ← parseQS k
      if v.startsWith "[" && v.endsWith "]" then
        let vs ← (((v.drop 1).dropEnd 1).toString.splitOn ",").mapM parseQS
        pure (k, vs)
      else
        let v ← parseQS v
        pure (k, [v])
    | _ => none)

def showOQ (o : Option QueryVals) : String := match o with | some q => showQuery q | none => "err"

def stepUrlQuery (dir input obs : String) : String :=
  match dir with
  | "rt" =>
    match parseQueryWire input with
    | none => "BADOP urlquery-input"
    | some q =>
      let mText := encodeQuery q
      match words obs with
      | ["err"] => mkVerdict (some "to_urlquery-error-in-domain") (some (hx mText))
      | [t, d] =>
        match parseO t with
        | some (some implText) =>
          let mDec := showOQ (parseQuery implText)
          let pf := if d != showQuery q then some s!"roundtrip from_urlquery(to_urlquery(x))={d}" else none
          let dv := if implText != mText || d != mDec then some s!"{hx mText} {mDec}" else none
          mkVerdict pf dv
        | _ => "BADOP obs"
      | _ => "BADOP obs"
  | "dec" =>
    match bytesOfHex input with
    | none => "BADOP input"
    | some t =>
      let m := showOQ (parseQuery t)
      if obs == m then "OK"
      else if m == "err" then mkVerdict (some "malformed-input-accepted") (some "err")
      else if obs == "err" then mkVerdict none (some m)
      else mkVerdict (some "wrong-value") (some m)
  | _ => "BADOP urlquery-op"

/-! XML -/
open FqModel.Json FqModel.Xml in
def stepXmlArr (input obs : String) : String :=
  match unwireAll input with
  | none => "BADOP xml-input"
  | some t =>
    match fromArr t with
    | none => if obs == "err" then "OK" else mkVerdict (some "to_xml-accepted-nameless-element") (some "err")
    | some n =>
      if !safeNode n then "BADOP xml-unsafe-name" else
      let m := String.ofList (wire (toArr (cleanNode n)))
      let canonical := (toArr n == t) && (cleanNode n == n)
      let pf := if canonical && obs != String.ofList (wire t) then some s!"roundtrip from_xml(to_xml(x))={obs}" else none
      let dv := if obs != m then some m else none
      mkVerdict pf dv

open FqModel.Xml in
/-- `xmlseq rt a,b,a`: children names of `<r>`, child i has text i.
    obs = `<groups> <order>`: groups `name:seq/text;seq/text|name:…` (seq `-` when absent) as
    from_xml({seq:true}) shows them, order `name/text,…` after `| to_xml | from_xml({array:true})` -/
def stepXmlSeq (input obs : String) : String :=
  let names := if input == "-" then [] else input.splitOn ","
  let cs : List (List Char × Nat) := (names.zipIdx).map (fun p => (p.1.toList, p.2))
  let single := cs.length == 1
  let groups := groupChildren cs
  let showG := if groups.isEmpty then "-" else "|".intercalate (groups.map (fun kv =>
    String.ofList kv.1 ++ ":" ++ ";".intercalate (kv.2.map (fun sv =>
      (if single then "-" else toString sv.1) ++ "/" ++ toString sv.2))))
  let showOrder := fun (l : List (List Char × Nat)) =>
    if l.isEmpty then "-" else ",".intercalate (l.map (fun p => String.ofList p.1 ++ "/" ++ toString p.2))
  let m := showG ++ " " ++ showOrder (seqRoundTrip cs)
  match words obs with
  | [_, o] =>
    let pf := if o != showOrder cs then some s!"element-order-lost {o}" else none
    let dv := if obs != m then some m else none
    mkVerdict pf dv
  | ["err"] => mkVerdict (some "xml-seq-error") (some m)
  | _ => "BADOP obs"

/-! CSV -/
open FqModel.Json FqModel.Csv in
def rowsOfJV (v : JV) : Option (List Row) :=
  match v with
  | .arr rows => rows.mapM (fun r => match r with
    | .arr fs => fs.mapM (fun f => match f with | .str s => some s | _ => none)
    | _ => none)
  | _ => none

open FqModel.Json FqModel.Csv in
def showRows (o : Option (List Row)) : String :=
  match o with
  | none => "err"
  | some rows => String.ofList (wire (.arr (rows.map (fun r => .arr (r.map .str)))))

open FqModel.Json FqModel.Csv in
def stepCsv (dir input obs : String) : String :=
  match dir with
  | "rt" =>
    match (unwireAll input).bind rowsOfJV with
    | none => "BADOP csv-input"
    | some rows =>
      let mText := bytesOfChars (toCsv rows)
      match words obs with
      | ["err"] => mkVerdict (some "to_csv-error-in-domain") (some (hx mText))
      | [t, d] =>
        match parseO t with
        | some (some implText) =>
          match charsOfBytes implText with
          | none => "PROPFAIL to_csv-not-utf8"
          | some cs =>
            let mDec := showRows (fromCsv cs)
            -- the three known-finding classes (known_findings.json), excused only on failure
            let known : Option String :=
              if rows.any (fun r => r.any (fun f => ((String.ofList f).splitOn "\r\n").length > 1)) then some "csv-crlf-in-field"
              else if rows.any (fun r => match r with | f :: _ => f.head? == some '#' | [] => false) then some "csv-comment-row"
              else if rows.any (fun r => r == [[]]) then some "csv-single-empty-field"
              else none
            -- the round trip is claimed for rectangular tables with at least one column
            let rect := match rows with
              | [] => true
              | r :: rs => !r.isEmpty && rs.all (fun x => x.length == r.length)
            let ok := d == showRows (some rows) || !rect
            let dv := if implText != mText || d != mDec then s!" ;DIVERGE model={hx mText} {mDec}" else ""
            if ok then (if dv.isEmpty then "OK" else s!"DIVERGE model={hx mText} {mDec}")
            else match known with
              | some key => s!"KNOWN {key} from_csv(to_csv(x))={d}{dv}"
              | none => s!"PROPFAIL roundtrip from_csv(to_csv(x))={d}{dv}"
        | _ => "BADOP obs"
      | _ => "BADOP obs"
  | "dec" =>
    match (bytesOfHex input).bind charsOfBytes with
    | none => "BADOP csv-text"
    | some cs =>
      let m := showRows (fromCsv cs)
      if obs == m then "OK"
      else if m == "err" then mkVerdict (some "malformed-input-accepted") (some "err")
      else if obs == "err" then mkVerdict none (some m)
      else mkVerdict (some "wrong-value") (some m)
  | _ => "BADOP csv-op"

def hashFn (name : String) : Option (Bytes → Bytes) :=
  match name with
  | "md5" => some Hash.md5
  | "sha1" => some Hash.sha1
  | "sha256" => some Hash.sha256
  | "sha512" => some Hash.sha512
  | "md4" => some Hash.md4
  | "sha3_224" => some Hash.sha3_224
  | "sha3_256" => some Hash.sha3_256
  | "sha3_384" => some Hash.sha3_384
  | "sha3_512" => some Hash.sha3_512
  | _ => none

open FqModel.Json in
def showPR (p : PR JV) : String :=
  match p with
  | .ok v _ => String.ofList (wire v)
  | .err => "err"
  | .unmodelled => "unmodelled"

open FqModel.Json in
def stepJson (jq : Bool) (ind : Nat) (dir input obs : String) : String :=
  match dir with
  | "rt" =>
    match unwireAll input with
    | none => "BADOP json-input"
    | some v =>
      let mText := bytesOfChars (encodeI jq ind 0 v)
      match words obs with
      | ["err"] => mkVerdict (some "tojson-error-in-domain") (some (hx mText))
      | [t, d] =>
        match parseO t with
        | some (some implText) =>
          let implDec : Option (Option JV) := if d == "err" then some none else (unwireAll d).map some
          match implDec, charsOfBytes implText with
          | some implDec, some cs =>
            let mDec := parseWith jq cs
            let pf := if implDec != some v then some s!"roundtrip fromjson(tojson(x))={d}" else none
            let agree := match mDec, implDec with
              | .ok m _, some i => m == i
              | .err, none => true
              | _, _ => false
            let dv := if implText != mText || !agree then some s!"{hx mText} {showPR mDec}" else none
            mkVerdict pf dv
          | none, _ => "BADOP json-obs-value"
          | _, none => "PROPFAIL tojson-not-utf8"
        | _ => "BADOP obs"
      | _ => "BADOP obs"
  | "dec" =>
    -- from_jq on arbitrary programs is outside the model (gojq's full grammar)
    if jq then "BADOP jqlit-dec-not-modelled" else
    match (bytesOfHex input).bind charsOfBytes with
    | none => "BADOP json-text"
    | some cs =>
      let m := parse cs
      -- a well-formed text with a fraction/exponent number is outside the modelled fragment: only
      -- "accepted, not an error" is compared
      if (match m with | .ok v _ => hasFloat v | _ => false) then
        (if obs == "err" then mkVerdict none (some "value-with-float") else "OK unmodelled-float")
      else
      let impl : Option (Option JV) := if obs == "err" then some none else (unwireAll obs).map some
      match impl, m with
      | none, _ => "BADOP json-obs-value"
      | _, .unmodelled => "BADOP unmodelled-number"
      | some none, .err => "OK"
      | some (some i), .ok v _ => if i == v then "OK" else mkVerdict (some "wrong-value") (some (showPR m))
      | some (some _), .err => mkVerdict (some "malformed-input-accepted") (some "err")
      | some none, .ok _ _ => mkVerdict none (some (showPR m))
  | _ => "BADOP json-op"

/-! large / composite inputs:  `<codec> lrt <seed> <nbytes> <trim> <pieces>`   TAB  `<n> <hashes> <n> <hashes>|err`
    `<hash> lhash <seed> <nbytes> <trim> <pieces>`  TAB  `<digest hex>`
    The source is hlib.NewRand(seed).Bytes(nbytes) with the last `trim` bits cut off; `pieces` says how the
    harness composed the input binary (plain, or an array of members) and does not enter the expected value:
    the result is a function of the bit string (Props.C14 *_chunk_independent). -/
open FqModel.C14Large in
def stepLarge (codec : String) (args : List String) (obs : String) : String :=
  match args.map String.toNat? with
  | [some seed, some n, some trim, _] =>
    if trim ≥ 8 || (n == 0 && trim != 0) then "BADOP trim" else
    let src := trimmed (FqModel.LargeObs.genBytes seed n) trim
    let orig := src.toList
    -- tie of the array code to the list definition on small cases
    if n ≤ 64 && trimmedSpec (FqModel.LargeObs.genBytes seed n).toList trim != orig then "BADOP self-check trimmed" else
    let mEnc : Option Bytes :=
      match binCodec codec with
      | some (enc, _) => some (encChunked enc chunk orig)
      | none => none
    match mEnc with
    | none => "BADOP codec"
    | some mText =>
      -- self check of the chunked evaluation against the list definition (theorem: equal for all inputs)
      if n ≤ 9000 && (binCodec codec).map (fun c => c.1 orig) != some mText then "BADOP self-check chunked" else
      match words obs with
      | ["err"] => "PROPFAIL encoder-error-in-domain"
      | [tn, th, "err"] =>
        let _ := tn; let _ := th
        "PROPFAIL roundtrip from(to(x))=err"
      | [tn, th, dn, dh] =>
        match tn.toNat?, dn.toNat? with
        | some tn, some dn =>
          let encBad := FqModel.LargeObs.compare (ByteArray.mk mText.toArray) tn th
          let rtBad := FqModel.LargeObs.compare src dn dh
          match rtBad, encBad with
          | some w, _ => s!"PROPFAIL roundtrip from(to(x)) differs from x: {w}"
          | none, some w => s!"PROPFAIL encoding-differs-from-reference: {w}"
          | none, none => "OK"
        | _, _ => "BADOP obs"
      | _ => "BADOP obs"
  | _ => "BADOP args"

open FqModel.C14Large in
def stepLargeHash (h : String) (args : List String) (obs : String) : String :=
  match hashFn h, args.map String.toNat? with
  | some f, [some seed, some n, some trim, _] =>
    if trim ≥ 8 || (n == 0 && trim != 0) then "BADOP trim" else
    let src := trimmed (FqModel.LargeObs.genBytes seed n) trim
    let m := hx (f src.toList)
    if obs == m then "OK" else s!"PROPFAIL digest-differs-from-reference ;DIVERGE model={m}"
  | _, _ => "BADOP lhash"

def stepC14 (op obs : String) : String :=
  if (obs.splitOn "panic").length > 1 then "PROPFAIL go-panic" else
  if (obs.splitOn "timeout").length > 1 then "PROPFAIL does-not-terminate" else
  match words op with
  | "radix" :: dir :: args => stepRadix dir args obs
  | ["normint", kind, dec] =>
    (match dec.toInt? with
     | none => "BADOP normint"
     | some v =>
       let g : Option GoInt := match kind with
         | "int" => some (.int v) | "int64" => some (.int64 v) | "uint64" => some (.uint64 v) | "big" => some (.big v)
         | _ => none
       match g with
       | none => "BADOP normint-kind"
       | some g =>
         if !g.valid then "BADOP normint-range" else
         let m := match toGoJQInt g with
           | .int x => s!"int:{x}"
           | .big x => s!"big:{x}"
         -- the property, independent of the model: an int iff the value fits an int
         let want := if minInt ≤ v ∧ v ≤ maxInt then s!"int:{v}" else s!"big:{v}"
         if obs != want then mkVerdict (some s!"integer-not-canonical want={want}") (if obs != m then some m else none)
         else if obs != m then s!"DIVERGE model={m}" else "OK")
  | ["urlquery", dir, input] => stepUrlQuery dir input obs
  | ["csvdelim", "rt", opt] =>
    -- `[["a","b"]] | to_csv({comma: opt})` and `… | from_csv({comma: opt})`
    (match bytesOfHex opt with
     | none => "BADOP csvdelim"
     | some ob =>
       let text := fun (c : Char) => hx (bytesOfChars (['a', c, 'b', '\n']))
       let mTo := match FqModel.Csv.toCsvDelim ob with | some c => text c | none => "err"
       let mFrom := match FqModel.Csv.toCsvDelim ob, FqModel.Csv.fromCsvDelim ob with
         | some _, some _ => "[[s61,s62]]"
         | _, _ => "err"
       match words obs with
       | ["err"] => if mTo == "err" then "OK" else s!"DIVERGE model={mTo} {mFrom}"
       | [t, f] =>
         let pf := if t != "err" && f != "err" && f != "[[s61,s62]]" then some s!"to_csv/from_csv disagree on the delimiter: {f}" else none
         let dv := if t != mTo || f != mFrom then some s!"{mTo} {mFrom}" else none
         mkVerdict pf dv
       | _ => "BADOP obs")
  | ["csvopt", "rt", opt, input] =>
    -- `rows | to_csv({comma: opt}) | from_csv({comma: opt})`, modelled with the option's delimiter
    (match bytesOfHex opt, (FqModel.Json.unwireAll input).bind rowsOfJV with
     | some ob, some rows =>
       match FqModel.Csv.toCsvDelim ob, FqModel.Csv.fromCsvDelim ob with
       | some c, fd =>
         let mText := bytesOfChars (FqModel.Csv.toCsvWith c rows)
         let mDec := match fd with
           | some c' => showRows (FqModel.Csv.fromCsvWith c' (FqModel.Csv.toCsvWith c rows))
           | none => "err"
         (match words obs with
          | [t, dd] =>
            let rect := match rows with
              | [] => true
              | r :: rs => !r.isEmpty && rs.all (fun x => x.length == r.length)
            let known : Option String :=
              if rows.any (fun r => r.any (fun f => ((String.ofList f).splitOn "\r\n").length > 1)) then some "csv-crlf-in-field"
              else if rows.any (fun r => match r with | f :: _ => f.head? == some '#' | [] => false) then some "csv-comment-row"
              else if rows.any (fun r => r == [[]]) then some "csv-single-empty-field"
              else none
            let ok := dd == showRows (some rows) || dd == "err" || !rect
            let dv := if t != hx mText || dd != mDec then s!" ;DIVERGE model={hx mText} {mDec}" else ""
            if ok then (if dv.isEmpty then "OK" else s!"DIVERGE model={hx mText} {mDec}")
            else match known with
              | some key => s!"KNOWN {key} from_csv(to_csv(x))={dd}{dv}"
              | none => s!"PROPFAIL roundtrip-with-options from_csv(to_csv(x))={dd}{dv}"
          | _ => "BADOP obs")
       | none, _ => if obs == "err" then "OK" else "DIVERGE model=err"
     | _, _ => "BADOP csvopt")
  | ["csv", dir, input] => stepCsv dir input obs
  | ["xmlarr", "rt", input] => stepXmlArr input obs
  | ["xmlseq", "rt", input] => stepXmlSeq input obs
  | ["json", dir, input] => stepJson false 0 dir input obs
  | ["jqlit", dir, input] => stepJson true 0 dir input obs
  | ["jsonind", "rt", n, input] =>
    (match n.toNat? with | some n => stepJson false n "rt" input obs | none => "BADOP indent")
  | ["jqlitind", "rt", n, input] =>
    (match n.toNat? with | some n => stepJson true n "rt" input obs | none => "BADOP indent")
  | [h, "hash", input] =>
    match hashFn h, parseBin input with
    | some f, some bits =>
      -- hash.go:63-70: the bits are read through bitio.NewIOReader (zero-padded to a byte)
      let m := hx (f (bitsToBytesPadR bits))
      if obs == m then "OK" else s!"PROPFAIL digest-differs-from-reference ;DIVERGE model={m}"
    | _, _ => "BADOP hash"
  | [codec, "prt", input, _cuts] =>
    -- to_F, cut the bytes into an array binary anywhere, from_F: the property statement is the identity on the
    -- string (Props.C14 *_roundtrip: dec (enc s) = s; the cuts do not enter — a binary is its bit string)
    (match txtCodec codec with
     | none => "BADOP codec"
     | some _ =>
       if obs == input then "OK"
       else if obs == "err" then "PROPFAIL pieces-roundtrip from(pieces(to(s)))=err"
       else s!"PROPFAIL pieces-roundtrip from(pieces(to(s))) differs from s: got {(obs.take 80).toString}")
  | [codec, "lrt", a, b, c, d] => stepLarge codec [a, b, c, d] obs
  | [h, "lhash", a, b, c, d] => stepLargeHash h [a, b, c, d] obs
  | [codec, "rt", input] =>
    match binCodec codec, strCodec codec, txtCodec codec with
    | some (enc, dec), _, _ =>
      match parseBin input with
      | some bits => rtVerdict enc dec (bitsToBytesPadR bits) true (words obs)
      | none => "BADOP input"
    | _, some (enc, dec), _ =>
      match bytesOfHex input with
      | some s => rtVerdict enc dec s false (words obs)
      | none => "BADOP input"
    | _, _, some (enc, dec) =>
      match (bytesOfHex input).bind charsOfBytes with
      | none => "BADOP input"
      | some cs =>
        let mEnc := enc cs
        match words obs with
        | ["err"] => if mEnc.isNone then "OK" else mkVerdict (some "encoder-error-in-domain") (some (showO mEnc))
        | [t, d] =>
          match parseO t, parseO d with
          | some (some implBytes), some implDec =>
            let implDecC := implDec.bind charsOfBytes
            let mDec := dec implBytes
            let pf :=
              if mEnc.isNone then some "unencodable-string-accepted"
              else if implDecC != some cs then some s!"roundtrip from(to(s))={showO implDec}"
              else none
            let dv := if mEnc != some implBytes || mDec != implDecC then
              some s!"{showO mEnc} {showO (mDec.map bytesOfChars)}" else none
            mkVerdict pf dv
          | _, _ => "BADOP obs"
        | _ => "BADOP obs"
    | none, none, none => "BADOP codec"
  | [codec, "dec", input] =>
    match bytesOfHex input with
    | none => "BADOP input"
    | some t =>
      match binCodec codec, strCodec codec, txtCodec codec with
      | some (_, dec), _, _ => decVerdict (dec t) obs
      | _, some (_, dec), _ => decVerdict (dec t) obs
      | _, _, some (_, dec) => decVerdict ((dec t).map bytesOfChars) obs
      | none, none, none => "BADOP codec"
  | _ => "BADOP op"

def main : IO Unit := run stepC14
