import FqModel.ContainerInfl
import FqModel.Proto
import FqModel.Bits
import FqModel.Container
import FqModel.ContainerPng
import FqModel.ContainerGz
import FqModel.Riff
import FqModel.Gif
import FqModel.Zip
/-! driver for C15 (container decoders)

  `crc <table> <bits> <init> <hex data>` TAB `<hex of checksum.CRC.Sum after Write(data)>`
      model: `crcWrite` over the REGENERATED table + `crcSum`; predicate: the bit-by-bit CRC with the
      textbook polynomial (hand written here, independent of the generated facts).
  `dec <format> <hex file> <truth…>` TAB `<ok|err> <projection tokens of fq>`
      model (gzip, tar, png, ogg_page, zip, gif, wav): the Lean parser on the same bytes renders the same tokens
      (inflate results are taken from the truth: library code; "?" = a token the model does not predict:
      date renderings, the harness' LZW expansion); predicate: the projection against the generator's ground
      truth and the stored checksums against the Lean `crc32`/`adler32`/`crcMsb`. bzip2: predicate only.
  `nst <path> <hex outer file> <inner format> <hex inner file> <truth…>` TAB `<projection of the inner tree>`
      a container inside containers (tar member / zip member / gzip payload, up to two levels), reached by fq's probing;
      judged exactly like `dec` on the inner file.
  `cor <format> <hex file> <pos>:<xor>:<kind>…` TAB `<code>…`
      predicate "never a clean result": kind d: E|I; kind z,a: E|I|C=; kind u (zip/tar, checksum
      never verified by fq): E|I, a clean result is the known finding `checksum-not-validated`.
      For png/ogg_page/gzip-trailer the driver re-derives from its own parse that a `d` position
      really lies in a checksummed region.
-/
open FqModel FqModel.Container FqModel.Proto

abbrev Toks := List String

def hexB (bs : Bytes) : String := if bs.isEmpty then "-" else hexOfBytes bs
/-- a text field as fq shows it: UTF-8 decoded (BOM dropped, ill-formed parts replaced) -/
def hexS (bs : Bytes) : String := hexB (utf8Text bs)
def optHexS : Option Bytes → String
  | some b => hexS b
  | none => "~"
def optHex : Option Bytes → String
  | some b => hexB b
  | none => "~"
def optNat : Option Nat → String
  | some n => toString n
  | none => "~"
def bit (b : Bool) : String := if b then "1" else "0"

def unhex (s : String) : Option Bytes := bytesOfHex s
/-- "~" = absent -/
def unhexOpt (s : String) : Option (Option Bytes) :=
  if s == "~" then some none else (bytesOfHex s).map some

/-- value of `key=` in a token list -/
def kvGet (ws : Toks) (k : String) : Option String :=
  (ws.find? (·.startsWith (k ++ "="))).map (fun w => (w.drop (k.length + 1)).toString)
def kvNat (ws : Toks) (k : String) : Option Nat := (kvGet ws k).bind String.toNat?
def kvHex (ws : Toks) (k : String) : Option Bytes := (kvGet ws k).bind unhex
def kvHexOpt (ws : Toks) (k : String) : Option (Option Bytes) := (kvGet ws k).bind unhexOpt

/-- split at marker tokens: prefix, then one segment per marker (without it) -/
def splitAt (isMark : String → Bool) (ws : Toks) : Toks × List (String × Toks) :=
  let rec go (ws : Toks) (cur : Toks) (curM : Option String) (pre : Toks) (acc : List (String × Toks)) : Toks × List (String × Toks) :=
    match ws with
    | [] => match curM with
      | none => (cur.reverse, acc.reverse)
      | some m => (pre, ((m, cur.reverse) :: acc).reverse)
    | w :: r =>
      if isMark w then
        match curM with
        | none => go r [] (some w) cur.reverse acc
        | some m => go r [] (some w) pre ((m, cur.reverse) :: acc)
      else go r (w :: cur) curM pre acc
  go ws [] none [] []

/-- model tokens may end in "*" (rest not predicted); "?" = one token the model does not predict
    (date renderings: checked against the ground truth only) -/
def matchToks : Toks → Toks → Bool
  | ["*"], _ => true
  | [], [] => true
  | m :: ms, o :: os => (m == "?" || m == o) && matchToks ms os
  | _, _ => false

def showToks (t : Toks) : String := " ".intercalate t

def firstDiff (m o : Toks) : String :=
  let rec go (i : Nat) : Toks → Toks → String
    | ["*"], _ => "none"
    | [], [] => "none"
    | a :: as, b :: bs => if a == "?" || a == b then go (i+1) as bs else s!"token#{i}:model={a.take 60},impl={b.take 60}"
    | [], b :: _ => s!"token#{i}:model=<end>,impl={b.take 60}"
    | a :: _, [] => s!"token#{i}:model={a.take 60},impl=<end>"
  go 0 m o

/-- combine the predicate's verdict with the model comparison -/
def verdictWith (prop : String) (model obs : Toks) : String :=
  let div := if matchToks model obs then "" else s!"DIVERGE model={firstDiff model obs}"
  if prop == "OK" then (if div.isEmpty then "OK" else div)
  else if div.isEmpty then prop else s!"{prop} ;{div}"

/-! ### crc -/

def refPoly (name : String) : Option (Nat × Nat) :=
  if name == "ATM8" then some (0x07, 8)
  else if name == "ANSI16" then some (0x8005, 16)
  else if name == "Poly04c11db7" then some (0x04C11DB7, 32)
  else if name == "IEEELE" then some (0xEDB88320, 32)     -- fq's MakeTable(0xedb88320, 32): msb-first use of the reflected constant (unused by any decoder)
  else none

def stepCrc (name sbits sinit shex obs : String) : String :=
  match genTable name, refPoly name, sbits.toNat?, sinit.toNat?, unhex shex with
  | some (tbl, _, gbits), some (rpoly, rbits), some bits, some init, some data =>
    if gbits != bits then s!"DIVERGE model=table-bits-{gbits}"
    else
      let model := match crcWrite bits tbl init data with
        | .ok cur => (crcSum bits cur).map hexB |>.getD "panic"
        | .panic => "panic"
      let ref := crcMsb rpoly rbits init data
      let refHex := hexB (toBE (rbits / 8) ref)
      if obs != refHex then
        s!"PROPFAIL crc {name} of {data.length} bytes: fq {obs} reference {refHex}" ++ (if model == obs then "" else s!" ;DIVERGE model={model}")
      else verdict model obs
  | _, _, _, _, _ => "BADOP crc"

/-! ### gzip -/

structure GzTruth where
  flg : Nat
  name : Option Bytes
  comment : Option Bytes
  extra : Option Bytes
  mtime : Nat
  mdesc : String
  xfl : Nat
  os : Nat
  hcrc : Option Bytes
  hlen : Nat
  clen : Nat
  data : Bytes

def gzTruth (seg : Toks) : Option GzTruth := do
  pure { flg := ← kvNat seg "flg", name := ← kvHexOpt seg "name", comment := ← kvHexOpt seg "comment", extra := ← kvHexOpt seg "extra",
         mtime := ← kvNat seg "mtime", mdesc := ← kvGet seg "mdesc", xfl := ← kvNat seg "xfl", os := ← kvNat seg "os", hcrc := ← kvHexOpt seg "hcrc", hlen := ← kvNat seg "hlen",
         clen := ← kvNat seg "clen", data := ← kvHex seg "data" }

def gzHeaderToks (h : GzHeader) : Toks :=
  ["M", toString h.cm, bit h.text ++ bit h.hcrc ++ bit h.extra ++ bit h.name ++ bit h.comment, toString h.reserved,
   toString h.mtime, "?", toString h.xfl, toString h.os, optNat h.xlen, optHex h.extraBytes, optHexS h.nameStr, optHexS h.commentStr,
   optHex h.hcrcBytes, "B"]

def gzBodyToks (b : GzBody) : Toks := [toString b.clen, toString b.crc, b.crcDesc, toString b.isize, hexB b.data]

/-- header tokens the as-is model predicts for the members up to the first misaligned one -/
def gzModelPrefix (ts : List GzTruth) (file : Bytes) : Toks :=
  let rec go (fuel : Nat) (ts : List GzTruth) (bs : Bytes) (acc : Toks) : Toks × Bool :=
    match fuel, ts with
    | 0, _ => (acc, false)
    | _, [] => (acc, bs.isEmpty)
    | fuel+1, t :: ts =>
      match parseGzHeader bs with
      | none => (acc ++ ["*"], false)
      | some (h, rest) =>
        if bs.length - rest.length != t.hlen then (acc ++ (gzHeaderToks h).dropLast ++ ["*"], false)
        else match parseGzBody (fun _ => some (t.clen, t.data)) h.cm rest with
          | none => (acc ++ gzHeaderToks h ++ ["*"], false)
          | some (b, rest') => go fuel ts rest' (acc ++ gzHeaderToks h ++ gzBodyToks b)
  let (toks, clean) := go (ts.length + 1) ts file []
  if clean then toks ++ ["U", hexB (ts.flatMap (·.data))] else toks

def gzProp (ts : List GzTruth) (obs : Toks) : String :=
  match obs with
  | e :: n :: rest =>
    let (_, segs) := splitAt (fun w => w == "M" || w == "U") rest
    let ms := segs.filter (·.1 == "M")
    let rec chk (i : Nat) : List GzTruth → List (String × Toks) → Option (Nat × String)
      | [], _ => none
      | _ :: _, [] => some (i, "member missing")
      | t :: ts, (_, m) :: ms =>
        match m with
        | [cm, fl, rs, mtime, mdesc, xfl, os, xlen, extra, name, comment, hcrc, "B", clen, crc, cd, isize, u] =>
          -- the five flags in the order fq prints them (text, header_crc, extra, name, comment), as RFC 1952 defines them
          let wantFl := bit (t.flg.testBit 0) ++ bit (t.flg.testBit 1) ++ bit (t.flg.testBit 2) ++ bit (t.flg.testBit 3) ++ bit (t.flg.testBit 4)
          let bad :=
            if cm != "8" then "compression_method"
            else if fl != wantFl || rs != "0" then s!"flags {fl} reserved {rs}, written {wantFl} reserved 0"
            else if hcrc != optHex t.hcrc then "header_crc"
            else if xlen != optNat (t.extra.map (·.length)) then "xlen"
            else if name != optHex t.name then "name"
            else if comment != optHex t.comment then "comment"
            else if extra != optHex t.extra then "extra"
            else if mtime != toString t.mtime then "mtime"
            else if mdesc != t.mdesc then "mtime description is not the written time"
            else if xfl != toString t.xfl then "extra_flags"
            else if os != toString t.os then "os"
            else if clen != toString t.clen then "compressed size"
            else if u != hexB t.data then "uncompressed payload"
            else if crc != toString (crc32 t.data).toNat then "stored crc32 is not the crc32 of the payload"
            else if cd != "valid" then s!"crc32 description {cd}"
            else if isize != toString (t.data.length % 2 ^ 32) then "isize"
            else ""
          if bad.isEmpty then chk (i+1) ts ms else some (i, bad)
        | _ => some (i, "member shape")
    match chk 0 ts ms with
    | some (i, why) =>
      -- excused only when a member up to and including the failing one has a non-zero FLG byte
      -- … i.e. a FLG byte that the decoder's reversed bit order reads differently: FTEXT/FHCRC/FEXTRA set, or exactly one of
      -- FNAME/FCOMMENT (0x18, both, reads the same either way and is checked strictly)
      if (ts.take (i+1)).any (fun t => t.flg % 8 != 0 || t.flg.testBit 3 != t.flg.testBit 4) then s!"KNOWN gzip-flags-bit-order member {i}: {why}"
      else s!"PROPFAIL gzip member {i}: {why}"
    | none =>
      if e != "ok" then "PROPFAIL gzip: decode error on an intact file"
      else if n != toString ts.length then s!"PROPFAIL gzip: {n} members reported, {ts.length} written"
      else match segs.find? (·.1 == "U") with
        | some (_, [u]) => if u == hexB (ts.flatMap (·.data)) then "OK" else "PROPFAIL gzip: root uncompressed differs from the concatenated payloads"
        | _ => "PROPFAIL gzip: root uncompressed missing"
  | _ => "PROPFAIL gzip: no projection (decode failed outright)"

def stepGzip (file : Bytes) (truth obs : Toks) : String :=
  let (_, segs) := splitAt (· == "M") truth
  match segs.mapM (fun s => gzTruth s.2) with
  | none => "BADOP gzip truth"
  | some ts =>
    -- the member loop of the model (`parseGzip`), flate answered from the truth by position
    let starts := (ts.foldl (fun (acc : Nat × List (Nat × Nat × Bytes)) t => (acc.1 + t.hlen + t.clen + 8, (acc.1 + t.hlen, t.clen, t.data) :: acc.2)) (0, [])).2
    let oracle : Bytes → Option (Nat × Bytes) := fun bs => (starts.find? (fun e => e.1 + bs.length == file.length)).map (·.2)
    match parseGzip oracle file with
    | some (ms, root) =>
      let model : Toks := ["ok", toString ms.length] ++ ms.flatMap (fun m => gzHeaderToks m.1 ++ gzBodyToks m.2) ++ ["U", hexB root]
      verdictWith (gzProp ts obs) model obs
    | none =>
    let pre := gzModelPrefix ts file
    -- the model predicts the member tokens; err/count only when every member is aligned
    let aligned := pre.getLast? != some "*"
    let model : Toks := if aligned then ["ok", toString ts.length] ++ pre else
      match obs with
      | e :: n :: _ => [e, n] ++ pre
      | _ => ["*"]
    verdictWith (gzProp ts obs) model obs

/-! ### tar -/

def tarEntryToks (e : TarEntry) : Toks :=
  ["F", hexS e.name, optNat e.mode, optNat e.uid, optNat e.gid, toString e.size, optNat e.mtime, "?", optNat e.chksum,
   hexS e.typeflag, hexS e.linkname, hexS e.magic, optNat e.version, hexS e.uname, hexS e.gname, optNat e.devmajor,
   optNat e.devminor, hexS e.pfx, toString e.hpad, hexB e.data, toString e.dpad]

def tarModel (file : Bytes) : Toks :=
  let r := parseTar file
  if r.err then ["err", "*"] else
  ["ok", toString r.files.length] ++ r.files.flatMap tarEntryToks ++ ["E", optNat r.endMarker]

structure TarTruth where
  name : Bytes
  typ : Nat
  link : Option Bytes
  mode : Nat
  uid : Nat
  gid : Nat
  mtime : Nat
  uname : Option Bytes
  gname : Option Bytes
  data : Bytes
  mdesc : String
  devmajor : String
  devminor : String

def tarTruth (seg : Toks) : Option TarTruth := do
  pure { name := ← kvHex seg "name", typ := ← kvNat seg "type", link := ← kvHexOpt seg "link", mode := ← kvNat seg "mode",
         uid := ← kvNat seg "uid", gid := ← kvNat seg "gid", mtime := ← kvNat seg "mtime", uname := ← kvHexOpt seg "uname",
         gname := ← kvHexOpt seg "gname", data := ← kvHex seg "data", mdesc := ← kvGet seg "mdesc",
         devmajor := ← kvGet seg "devmajor", devminor := ← kvGet seg "devminor" }

structure TarObs where
  name : Bytes
  mode : String
  uid : String
  gid : String
  size : String
  mtime : String
  chksum : String
  typeflag : Bytes
  linkname : Bytes
  uname : Bytes
  gname : Bytes
  pfx : Bytes
  data : Bytes
  mdesc : String
  devmajor : String
  devminor : String

def tarObs (m : Toks) : Option TarObs :=
  match m with
  | [name, mode, uid, gid, size, mtime, mdesc, chksum, tf, ln, _magic, _ver, un, gn, dmaj, dmin, pfx, _hp, data, _dp] => do
    pure { name := ← unhex name, mode, uid, gid, size, mtime, chksum, typeflag := ← unhex tf, linkname := ← unhex ln,
           uname := ← unhex un, gname := ← unhex gn, pfx := ← unhex pfx, data := ← unhex data, mdesc, devmajor := dmaj, devminor := dmin }
  | _ => none

/-- does a pax extended header body contain the record `<len> <key>=<value>\n`? (length prefix not re-checked) -/
def isInfix (needle hay : Bytes) : Bool :=
  let n := needle.length
  (List.range (hay.length + 1 - n)).any (fun i => (hay.drop i).take n == needle)

def paxHas (body : Bytes) (key : String) (value : Bytes) : Bool :=
  isInfix ([0x20] ++ key.toUTF8.toList ++ [0x3d] ++ value ++ [0x0a]) body

/-- walk fq's raw entries: `x` (pax) and `L`/`K` (gnu long name / link) entries qualify the next real entry -/
def tarProp (file : Bytes) (ts : List TarTruth) (obs : Toks) : String :=
  match obs with
  | e :: _n :: rest =>
    if ts.isEmpty then
      -- an archive without members is only the end marker; fq reports `no files found` (accepted, see assumptions)
      if e == "err" then "OK" else "PROPFAIL tar: empty archive decoded to something"
    else if e != "ok" then "PROPFAIL tar: decode error on an intact file" else
    let (_, segs) := splitAt (fun w => w == "F" || w == "E") rest
    match (segs.filter (·.1 == "F")).mapM (fun s => tarObs s.2) with
    | none => "PROPFAIL tar: entry shape"
    | some es =>
      -- header checksum of every entry against the Lean sum (entries start at multiples of 512: walk by sizes)
      let rec sums (fuel : Nat) (pos : Nat) : List TarObs → Option String
        | [] => none
        | o :: os =>
          match fuel with
          | 0 => some "fuel"
          | fuel+1 =>
            let hdr := (file.drop pos).take 512
            if o.chksum != toString (tarHeaderSum hdr) then some s!"chksum of the header at {pos}: fq {o.chksum}, sum of the header bytes {tarHeaderSum hdr}"
            else sums fuel (pos + 512 + (o.data.length + 511) / 512 * 512) os
      match sums (es.length + 1) 0 es with
      | some why => s!"PROPFAIL tar: {why}"
      | none =>
      let rec walk (i : Nat) (ts : List TarTruth) (es : List TarObs) (paxBody : Option Bytes) (longName longLink : Option Bytes) : String :=
        match es with
        | [] => if ts.isEmpty then "OK" else s!"PROPFAIL tar: member {i} not reported"
        | o :: es =>
          if o.size != toString o.data.length then s!"PROPFAIL tar: entry size {o.size} but {o.data.length} data bytes"
          else if o.typeflag == [0x78] || o.typeflag == [0x67] then walk i ts es (some o.data) longName longLink
          else if o.typeflag == [0x4c] then walk i ts es paxBody (some (cstr o.data)) longLink
          else if o.typeflag == [0x4b] then walk i ts es paxBody longName (some (cstr o.data))
          else match ts with
            | [] => "PROPFAIL tar: more entries than members"
            | t :: ts =>
              let hdrName := if o.pfx.isEmpty then o.name else o.pfx ++ [0x2f] ++ o.name
              let nameOk := hdrName == t.name || longName == some t.name ||
                (match paxBody with | some b => paxHas b "path" t.name | none => false)
              let link := t.link.getD []
              let linkOk := o.linkname == link || longLink == some link ||
                (match paxBody with | some b => paxHas b "linkpath" link | none => false)
              let numOk (s : String) (v : Nat) (key : String) : Bool :=
                s == toString v || (match paxBody with | some b => paxHas b key (toString v).toUTF8.toList | none => false)
              let strOk (s : Bytes) (v : Option Bytes) (key : String) : Bool :=
                s == v.getD [] || (match paxBody with | some b => paxHas b key (v.getD []) | none => false)
              if !nameOk then s!"PROPFAIL tar: member {i} name not reported (header name {hexB hdrName})"
              else if o.data != t.data then s!"PROPFAIL tar: member {i} payload differs"
              else if o.typeflag != [UInt8.ofNat t.typ] then s!"PROPFAIL tar: member {i} typeflag"
              else if !linkOk then s!"PROPFAIL tar: member {i} linkname"
              else if o.mode != toString t.mode then s!"PROPFAIL tar: member {i} mode {o.mode}"
              else if !numOk o.uid t.uid "uid" then s!"PROPFAIL tar: member {i} uid {o.uid}"
              else if !numOk o.gid t.gid "gid" then s!"PROPFAIL tar: member {i} gid {o.gid}"
              else if o.mtime != toString t.mtime then s!"PROPFAIL tar: member {i} mtime {o.mtime}"
              else if o.mdesc != t.mdesc then s!"PROPFAIL tar: member {i} mtime description is not the written time"
              else if o.devmajor != t.devmajor || o.devminor != t.devminor then s!"PROPFAIL tar: member {i} devmajor/devminor {o.devmajor}/{o.devminor}, written {t.devmajor}/{t.devminor}"
              else if !strOk o.uname t.uname "uname" then s!"PROPFAIL tar: member {i} uname"
              else if !strOk o.gname t.gname "gname" then s!"PROPFAIL tar: member {i} gname"
              else walk (i+1) ts es none none none
      let r := walk 0 ts es none none none
      if r != "OK" then r else
      match segs.find? (·.1 == "E") with
      | some (_, [em]) => if em == "1024" then "OK" else s!"PROPFAIL tar: end marker {em} bytes, 1024 written"
      | _ => "PROPFAIL tar: end marker missing"
  | _ => "PROPFAIL tar: no projection"

def stepTar (file : Bytes) (truth obs : Toks) : String :=
  let (_, segs) := splitAt (· == "F") truth
  match segs.mapM (fun s => tarTruth s.2) with
  | none => "BADOP tar truth"
  | some ts => verdictWith (tarProp file ts obs) (tarModel file) obs

/-! ### png -/

structure PngText where
  kw : Bytes
  z : Bool
  text : Bytes

def pngTexts (truth : Toks) : Option (List PngText) :=
  let (_, segs) := splitAt (· == "T") truth
  segs.mapM fun s => do
    pure { kw := ← kvHex s.2 "kw", z := (← kvNat s.2 "z") == 1, text := ← kvHex s.2 "text" }

def tTEXT : Bytes := [0x74, 0x45, 0x58, 0x74]
def tZTXT : Bytes := [0x7a, 0x54, 0x58, 0x74]
def tPHYS : Bytes := [0x70, 0x48, 0x59, 0x73]

def pngChunkRaw (c : PngChunk) : Bytes := toBE 4 c.length ++ c.typ ++ c.data ++ toBE 4 c.crc

/-- tokens of one chunk; `ct` = colour type seen so far; `texts` are the truth texts not yet consumed (the zTXt inflate oracle).
    IHDR / PLTE / tRNS come from the model `pngBody`; text chunks and pHYs are rendered here. -/
def pngChunkToks (ct : Nat) (c : PngChunk) (texts : List PngText) : Toks × List PngText × Nat :=
  let base := ["C", toString c.length, hexB c.typ, bit c.ancillary ++ bit c.priv ++ bit c.reserved ++ bit c.safeToCopy,
               toString c.crc, c.crcDesc, hexB (pngChunkRaw c)]
  match pngBody ct c.typ c.data with
  | none => (base ++ ["*"], texts, ct)
  | some (.ihdr i) => (base ++ ["I", toString i.width, toString i.height, toString i.bitDepth, toString i.colorType,
                          toString i.compression, toString i.filter, toString i.interlace], texts, i.colorType)
  | some (.plte cols) => (base ++ ["P", toString cols.length, hexB (writePlte cols)], texts, ct)
  | some (.trnsGray a) => (base ++ ["R", toString a, "~", "~", "~", "~"], texts, ct)
  | some (.trnsRgb r g b) => (base ++ ["R", "~", toString r, toString g, toString b, "~"], texts, ct)
  | some (.trnsPal al) => (base ++ ["R", "~", "~", "~", "~", hexB al], texts, ct)
  | some .trnsNone => (base ++ ["R", "~", "~", "~", "~", "~"], texts, ct)
  | some .iend => (base, texts, ct)
  | some (.raw _) => (base, texts, ct)
  | some .unmodelled =>
  if c.typ == tTEXT then
    match takeCStr c.data with
    | some (kw, rest) => (base ++ ["T", hexS kw, hexS rest], texts.drop 1, ct)
    | none => (base ++ ["*"], texts, ct)
  else if c.typ == tZTXT then
    match takeCStr c.data with
    | some (kw, cm :: _) =>
      if cm == 0 then
        match texts with
        | t :: ts => (base ++ ["Z", hexS kw, "0", hexS t.text], ts, ct)
        | [] => (base ++ ["*"], texts, ct)
      else (base ++ ["Z", hexS kw, toString cm.toNat, "~"], texts.drop 1, ct)
    | _ => (base ++ ["*"], texts, ct)
  else if c.typ == tPHYS then
    (if c.data.length == 9 then base ++ ["Y", toString (beNat (c.data.take 4)), toString (beNat ((c.data.drop 4).take 4)), toString (beNat (c.data.drop 8))]
     else base ++ ["*"], texts, ct)
  else (base, texts, ct)

def pngModel (file : Bytes) (texts : List PngText) : Toks :=
  match parsePng file with
  | none => ["err", "*"]
  | some r =>
    if r.err then ["err", "*"] else
    let rec go : Nat → List PngChunk → List PngText → Toks → Toks
      | _, [], _, acc => acc
      | ct, c :: cs, ts, acc =>
        let (t, ts', ct') := pngChunkToks ct c ts
        if t.getLast? == some "*" then acc ++ t else go ct' cs ts' (acc ++ t)
    ["ok", hexB pngSig, toString r.chunks.length] ++ go 0 r.chunks texts []

def pngProp (truth : Toks) (texts : List PngText) (obs : Toks) : String :=
  match obs with
  | e :: sig :: _n :: rest =>
    if e != "ok" then "PROPFAIL png: decode error on an intact file"
    else if sig != hexB pngSig then "PROPFAIL png: signature"
    else
    let (_, segs) := splitAt (· == "C") rest
    let chunks := segs.map (·.2)
    -- every chunk: stored crc = crc32(type ++ data) by the Lean reference, and shown as valid
    let rec crcs (i : Nat) : List Toks → Option String
      | [] => none
      | c :: cs =>
        match c with
        | len :: typ :: fl :: crc :: cd :: raw :: _ =>
          match unhex raw with
          | some rb =>
            let body := (rb.drop 4).take (rb.length - 8)
            -- ancillary / private / reserved / safe-to-copy = lower case of the four type letters (bit 5)
            let wantFl := String.join ((body.take 4).map (fun b => bit (b.toNat.testBit 5)))
            if toString (beNat (rb.take 4)) != len then some s!"chunk {i}: length"
            else if hexB (body.take 4) != typ then some s!"chunk {i}: type"
            else if fl != wantFl then some s!"chunk {i}: property bits {fl}, type letters say {wantFl}"
            else if crc != toString (crc32 body).toNat then some s!"chunk {i}: stored crc is not crc32(type+data)"
            else if cd != "valid" then some s!"chunk {i}: crc description {cd}"
            else crcs (i+1) cs
          | none => some s!"chunk {i}: raw"
        | _ => some s!"chunk {i}: shape"
    match crcs 0 chunks with
    | some why => s!"PROPFAIL png: {why}"
    | none =>
      let want := ["I", (kvGet truth "w").getD "?", (kvGet truth "h").getD "?", (kvGet truth "bd").getD "?", (kvGet truth "ct").getD "?", "0", "0", (kvGet truth "il").getD "0"]
      match chunks with
      | first :: _ =>
        if first.drop 6 != want then s!"PROPFAIL png: IHDR fields {showToks (first.drop 6)} expected {showToks want}"
        else if (chunks.getLast?.bind (·[1]?)) != some (hexB tIEND) then "PROPFAIL png: last chunk is not IEND"
        else if !(chunks.any (·[1]? == some (hexB tIDAT))) then "PROPFAIL png: no IDAT"
        else if (match kvGet truth "pal" with
            | some "~" => false
            | some p => (chunks.find? (fun (c : Toks) => c[1]? == some (hexB tPLTE))).map (fun (c : Toks) => c.drop 6) != some ["P", toString (p.length / 6), p]
            | none => true) then "PROPFAIL png: PLTE is not the palette written"
        else if (match kvGet truth "trns" with
            | some t => (chunks.find? (fun (c : Toks) => c[1]? == some (hexB tTRNS))).map (fun (c : Toks) => c.drop 6) != some ("R" :: t.splitOn ":")
            | none => false) then "PROPFAIL png: tRNS fields differ from what was written"
        else if let some why := (match kvGet truth "idat", (kvGet truth "raw").bind unhex with
            | some z, some raw =>
              -- the data of all IDAT chunks, in order, is the zlib stream the writer cut into pieces …
              let pieces := (chunks.filter (fun (c : Toks) => c[1]? == some (hexB tIDAT))).map (fun (c : Toks) =>
                match (c[5]?).bind unhex with
                | some rb => (rb.drop 8).take (rb.length - 12)
                | none => [])
              if hexB pieces.flatten != z then some "the IDAT chunks' data do not concatenate to the zlib stream written"
              else if (kvNat truth "nidat").any (· != pieces.length) then some "number of IDAT chunks"
              else
                -- … and that stream is RFC 1950 framing of the scanline data (Lean reader, flate as an oracle)
                match parseZlib (fun bs => some (bs.length - 4, raw)) pieces.flatten with
                | .ok (r, rest) => if r.data == raw && rest.isEmpty && !r.hdr.fdict then none else some "IDAT zlib framing: payload / trailing bytes / FDICT"
                | .error _ => some "IDAT zlib framing: header check or Adler-32 of the scanline data"
            | none, _ => none
            | _, none => some "BADTRUTH raw") then
          s!"PROPFAIL png: {why}"
        else if (match kvGet truth "phys" with
            | some p => (chunks.find? (fun (c : Toks) => c[1]? == some (hexB tPHYS))).map (fun (c : Toks) => c.drop 6) != some ("Y" :: p.splitOn ":")
            | none => false) then "PROPFAIL png: pHYs fields differ from what was written"
        else
          let tchunks := chunks.filter (fun c => c[1]? == some (hexB tTEXT) || c[1]? == some (hexB tZTXT))
          let rec tx (i : Nat) : List PngText → List Toks → String
            | [], [] => "OK"
            | t :: ts, c :: cs =>
              let tail := c.drop 6
              if t.z then
                if tail != ["Z", hexB t.kw, "0", hexB t.text] then s!"PROPFAIL png: zTXt {i} keyword/text differ from what was written"
                else
                  -- the zlib stream ends in the Adler-32 of the text
                  match (c[5]?).bind unhex with
                  | some rb =>
                    let zl := (rb.drop (8 + t.kw.length + 2)).take (rb.length - 12 - t.kw.length - 2)
                    if beNat (zl.drop (zl.length - 4)) != adler32 t.text then s!"PROPFAIL png: zTXt {i}: zlib trailer is not adler32(text)"
                    else if (beNat (zl.take 2)) % 31 != 0 then s!"PROPFAIL png: zTXt {i}: zlib header check"
                    else tx (i+1) ts cs
                  | none => "PROPFAIL png: zTXt raw"
              else if tail != ["T", hexB t.kw, hexB t.text] then s!"PROPFAIL png: tEXt {i} keyword/text differ from what was written"
              else tx (i+1) ts cs
            | _, _ => "PROPFAIL png: number of text chunks"
          tx 0 texts tchunks
      | [] => "PROPFAIL png: no chunks"
  | _ => "PROPFAIL png: no projection"

def stepPng (file : Bytes) (truth obs : Toks) : String :=
  match pngTexts truth with
  | none => "BADOP png truth"
  | some texts => verdictWith (pngProp truth texts obs) (pngModel file texts) obs

/-! ### ogg page -/

def oggCovered (file : Bytes) : Bytes := file.take 22 ++ [0, 0, 0, 0] ++ file.drop 26

def oggModel (file : Bytes) : Toks :=
  match parseOggPage file with
  | none => ["err", "*"]
  | some (p, _) =>
    ["ok", hexB oggS, toString p.version, toString p.unused, bit p.last, bit p.first, bit p.continued, toString p.granule,
     toString p.serial, toString p.seqNo, toString p.crc, p.crcDesc, toString p.nseg, toString p.segs.length, hexB p.segs.flatten]

def oggProp (file : Bytes) (truth obs : Toks) : String :=
  match obs, kvNat truth "flags", kvGet truth "gp", kvGet truth "sn", kvGet truth "seq", kvGet truth "nseg", kvGet truth "data", kvNat truth "good" with
  | [e, _cp, ver, un, la, fi, co, gp, sn, sq, crc, cd, ns, nsegs, data], some fl, some tgp, some tsn, some tsq, some tns, some tdata, some good =>
    let ref := crcMsb 0x04C11DB7 32 0 (oggCovered file)
    if e != "ok" then "PROPFAIL ogg: decode error on an intact page"
    else if ver != "0" || un != toString (fl / 8) || la != bit (fl.testBit 2) || fi != bit (fl.testBit 1) || co != bit (fl.testBit 0) then "PROPFAIL ogg: flags"
    else if gp != tgp || sn != tsn || sq != tsq then "PROPFAIL ogg: granule/serial/sequence"
    else if ns != tns || nsegs != tns then "PROPFAIL ogg: segment count"
    else if data != tdata then "PROPFAIL ogg: segment data"
    else if good == 1 && crc != toString ref then "PROPFAIL ogg: stored crc is not the reference crc of the page"
    else if good == 1 && cd != "valid" then s!"PROPFAIL ogg: correct crc shown as {cd}"
    else if good == 0 && cd != "invalid" then s!"PROPFAIL ogg: wrong crc shown as {cd}"
    else "OK"
  | _, _, _, _, _, _, _, _ => "PROPFAIL ogg: no projection"

/-! ### zip -/

structure ZipTruth where
  name : Bytes
  method : Nat
  dd : Bool
  fcomment : Option Bytes
  off : Nat
  data : Bytes
  fdate : Nat
  ftime : Nat
  guess : String
  gdesc : String
  xt : String
  ext : String
  utf8 : String
  clen : Nat
  xraw : String

/-- the MS-DOS time/date words and everything fq derives from them (zip.go:131-186), against the words the
    generator computed from the modification time it handed to the writer; sub-fields are split here -/
def zipDateCheck (t : ZipTruth) (ws : Toks) : String :=
  match ws with
  | [ft, fd, s, ssym, mi, h, d, mo, y, ysym, guess, gdesc] =>
    if ft != toString t.ftime then s!"fat_time {ft}, written {t.ftime}"
    else if fd != toString t.fdate then s!"fat_date {fd}, written {t.fdate}"
    else if s != toString (t.ftime % 32) || ssym != toString (2 * (t.ftime % 32)) then s!"second {s} ({ssym})"
    else if mi != toString (t.ftime / 32 % 64) then s!"minute {mi}"
    else if h != toString (t.ftime / 2048) then s!"hour {h}"
    else if d != toString (t.fdate % 32) then s!"day {d}"
    else if mo != toString (t.fdate / 32 % 16) then s!"month {mo}"
    else if y != toString (t.fdate / 512) || ysym != toString (1980 + t.fdate / 512) then s!"year {y} ({ysym}), written {1980 + t.fdate / 512}"
    else if guess != t.guess then s!"unix_guess {guess}, written time is {t.guess}"
    else if gdesc != t.gdesc then "unix_guess description is not the written date"
    else ""
  | _ => "last_modification shape"

def zipExtraCheck (t : ZipTruth) (x : String) : String :=
  -- the writer's own record (unknown tag) first, then the extended timestamp of a streamed member
  let want := (if t.xraw == "~" then [] else [s!"{t.xraw}:~"]) ++ (if t.xt == "~" then [] else [s!"21589:5:{t.xt}"])
  let wantS := if want.isEmpty then "-" else ",".intercalate want
  if x == wantS then "" else s!"extra fields {x.take 60}, written {wantS}"

def zipTruth (seg : Toks) : Option ZipTruth := do
  pure { name := ← kvHex seg "name", method := ← kvNat seg "method", dd := (← kvNat seg "dd") == 1, fcomment := ← kvHexOpt seg "fcomment",
         off := ← kvNat seg "off", data := ← kvHex seg "data", fdate := ← kvNat seg "fdate", ftime := ← kvNat seg "ftime",
         guess := ← kvGet seg "guess", gdesc := ← kvGet seg "gdesc", xt := ← kvGet seg "xt", ext := ← kvGet seg "ext", utf8 := ← kvGet seg "utf8",
         clen := ← kvNat seg "clen", xraw := (kvGet seg "xraw").getD "~" }

def zipProp (file : Bytes) (truth : Toks) (ts : List ZipTruth) (obs : Toks) : String :=
  match obs with
  | e :: "E" :: disk :: nrd :: nr :: cds :: cdo :: comment :: rest =>
    let clen := if comment == "-" then 0 else comment.length / 2
    if e != "ok" then "PROPFAIL zip: decode error on an intact file"
    else if disk != "0" || nrd != nr then "PROPFAIL zip: disk number / records on disk"
    else if (do let a ← cds.toNat?; let b ← cdo.toNat?; pure (a + b + 22 + clen)) != some file.length then
      "PROPFAIL zip: central directory offset + size + end record is not the file length"
    else if nr != toString ts.length then s!"PROPFAIL zip: {nr} records, {ts.length} written"
    else if comment != ((kvGet truth "comment").map (fun c => if c == "~" then "-" else c)).getD "?" then "PROPFAIL zip: archive comment"
    else
    let (_, segs) := splitAt (fun w => w == "D" || w == "L") rest
    let ds := (segs.filter (·.1 == "D")).map (·.2)
    let ls := (segs.filter (·.1 == "L")).map (·.2)
    -- the count tokens end up at the tail of the previous segment; compare list lengths instead
    if ds.length != ts.length then s!"PROPFAIL zip: {ds.length} central directory entries" else
    if ls.length != ts.length then s!"PROPFAIL zip: {ls.length} local files" else
    let rec cd (i : Nat) : List ZipTruth → List Toks → Option String
      | [], _ => none
      | _, [] => none
      | t :: ts, d :: ds =>
        match d with
        | name :: method :: fl :: crc :: csize :: usize :: lfo :: fc :: _nx :: ext :: "T" :: rest =>
          let dc := zipDateCheck t (rest.take 12)
          let xc := match rest.drop 12 with
            | "X" :: x :: _ => zipExtraCheck t x
            | _ => "extra fields shape"
          if name != hexB t.name then some s!"central directory {i}: name"
          else if dc != "" then some s!"central directory {i}: {dc}"
          else if xc != "" then some s!"central directory {i}: {xc}"
          else if ext != t.ext then some s!"central directory {i}: external_file_attributes {ext}, written {t.ext}"
          else if (fl.drop 1).toString != t.utf8 then some s!"central directory {i}: language_encoding flag"
          else if method != toString t.method then some s!"central directory {i}: method"
          else if fl.take 1 != bit t.dd then some s!"central directory {i}: data descriptor flag"
          else if crc != toString (crc32 t.data).toNat then some s!"central directory {i}: crc32_uncompressed is not crc32(payload)"
          else if usize != toString t.data.length then some s!"central directory {i}: uncompressed_size"
          else if t.method == 0 && csize != toString t.data.length then some s!"central directory {i}: compressed_size of a stored member"
          else if lfo != toString t.off then some s!"central directory {i}: local header offset"
          else if fc != hexB (t.fcomment.getD []) then some s!"central directory {i}: comment"
          else cd (i+1) ts ds
        | _ => some s!"central directory {i}: shape"
    match cd 0 ts ds with
    | some why => s!"PROPFAIL zip: {why}"
    | none =>
      let rec lf (i : Nat) : List ZipTruth → List Toks → String
        | [], _ => "OK"
        | _, [] => "OK"
        | t :: ts, l :: ls =>
          match l with
          | name :: method :: fl :: crc :: _csize :: usize :: u :: _clen :: ddp :: _ddsig :: ddcrc :: _ddcs :: ddus :: "T" :: rest =>
            let known := t.method == 0 && t.dd && !t.data.isEmpty
            let dc := zipDateCheck t (rest.take 12)
            let xc := match rest.drop 12 with
              | "X" :: x :: _ => zipExtraCheck t x
              | _ => "extra fields shape"
            let bad :=
              if name != hexB t.name then "name"
              else if dc != "" then dc
              else if xc != "" then xc
              else if (fl.drop 1).toString != t.utf8 then "language_encoding flag"
              else if method != toString t.method then "method"
              else if fl.take 1 != bit t.dd then "data descriptor flag"
              else if u != hexB t.data then "uncompressed payload differs from what was written"
              else if !t.dd && crc != toString (crc32 t.data).toNat then "crc32_uncompressed is not crc32(payload)"
              else if !t.dd && usize != toString t.data.length then "uncompressed_size"
              else if t.dd && ddp != "1" then "data descriptor missing"
              else if t.dd && ddcrc != toString (crc32 t.data).toNat then "descriptor crc32 is not crc32(payload)"
              else if t.dd && ddus != toString t.data.length then "descriptor uncompressed_size"
              else ""
            if bad.isEmpty then lf (i+1) ts ls
            else if known then s!"KNOWN zip-stored-data-descriptor local file {i}: {bad}"
            else s!"PROPFAIL zip: local file {i}: {bad}"
          | _ => s!"PROPFAIL zip: local file {i}: shape"
      lf 0 ts ls
  | _ => "PROPFAIL zip: no projection"

def zipDateToks (d : ZipDate) : Toks :=
  ["T", toString d.ftime, toString d.fdate, toString d.second, toString (2 * d.second), toString d.minute, toString d.hour, toString d.day,
   toString d.month, toString d.year, toString (1980 + d.year), toString d.guess, "?"]

def zipExtraToks (xs : List ZipExtra) : Toks :=
  ["X", if xs.isEmpty then "-" else ",".intercalate (xs.map fun x => s!"{x.tag}:{x.size}:{optNat x.mtime}")]

def zipCDToks (c : ZipCD) : Toks :=
  ["D", hexS c.name, toString c.method, bit c.dd ++ bit c.lang, toString c.crc, toString c.csize, toString c.usize, toString c.lfo,
   hexS c.comment, toString c.extras.length, toString c.ext] ++ zipDateToks c.date ++ zipExtraToks c.extras

def zipLocalToks (l : ZipLocal) : Toks :=
  ["L", hexS l.name, toString l.method, bit l.dd ++ bit l.lang, toString l.crc, toString l.csize, toString l.usize, optHex l.uncompressed,
   optNat l.compressedLen] ++
  (match l.di with
   | some d => ["1", optHex d.sig, toString d.crc, toString d.csize, toString d.usize]
   | none => ["~", "~", "~", "~", "~"]) ++ zipDateToks l.date ++ zipExtraToks l.extras

/-- the Lean parser on the same bytes; deflate results come from the ground truth (member offset -> compressed length, data) -/
def zipModel (file : Bytes) (ts : List (Nat × Nat × Bytes)) : Toks :=
  let inflate := fun (off : Nat) (_ : Bytes) => (ts.find? (·.1 == off)).map (fun t => (t.2.1, t.2.2))
  match parseZip inflate file with
  | .ok z =>
    ["ok", "E", toString z.eocd.disk, toString z.eocd.nrDisk, toString z.eocd.nr, toString z.eocd.cdSize, toString z.eocd.cdOff, hexS z.eocd.comment,
     toString z.cds.length] ++ z.cds.flatMap zipCDToks ++ [toString z.locals.length] ++ z.locals.flatMap zipLocalToks
  | .err => ["err", "*"]
  | .unsupported => ["*"]

/-! ### gif ( `P` tokens = LZW expansion, by the harness with Go's compress/lzw, of the bytes fq reports) -/

def gifProp0 (truth obs : Toks) : String :=
  match obs with
  | e :: hdr :: w :: h :: gcp :: cres :: z :: bd :: bc :: par :: gcm :: _nb :: rest =>
    if e != "ok" then "PROPFAIL gif: decode error on an intact file"
    else if hdr != "474946383961" then "PROPFAIL gif: header"
    else if some w != kvGet truth "w" || some h != kvGet truth "h" then "PROPFAIL gif: logical screen size"
    else if gcp != bit (kvNat truth "gct" == some 1) then "PROPFAIL gif: global colour map flag"
    else if cres != "1" || z != "0" || par != "0" then "PROPFAIL gif: colour resolution / sort flag / pixel aspect ratio"
    else if some bd != (if kvNat truth "gct" == some 1 then kvGet truth "lbits" else some "1") then "PROPFAIL gif: logical screen bit depth"
    else if some bc != kvGet truth "bg" then "PROPFAIL gif: background colour index"
    else if (match kvNat truth "n", (kvGet truth "loop").bind String.toInt? with
        | some n, some loop =>
          let want : Option Toks := if n > 1 && loop ≥ 0 then
            some ["255", "2", "4e45545343415045322e30" ++ hexOfBytes [1, UInt8.ofNat (loop.toNat % 256), UInt8.ofNat (loop.toNat / 256)]] else none
          let sg : List (String × Toks) := (splitAt (fun x => x == "I" || x == "X" || x == "T") rest).2
          let got : Option Toks := (sg.find? (fun (s : String × Toks) => s.1 == "X" && s.2.head? == some "255" && s.2.drop 1 != ["1", "-"])).map (fun (s : String × Toks) => s.2)
          got != want
        | _, _ => true) then "PROPFAIL gif: NETSCAPE loop extension"
    else if kvNat truth "gct" == some 1 && !((kvGet truth "pal").map (fun p => gcm.startsWith p)).getD false then "PROPFAIL gif: global colour map does not start with the palette"
    else
    let (_, tall) := splitAt (fun x => x == "I" || x == "J") truth
    let tsegs := tall.filter (·.1 == "I")
    let jsegs := tall.filter (·.1 == "J")
    -- hand-made extensions without sub-blocks: their function codes, in order
    let wantXe : List String := match kvGet truth "xe" with
      | some "~" => []
      | some l => l.splitOn ","
      | none => []
    let (_, segs) := splitAt (fun x => x == "I" || x == "X" || x == "T") rest
    let imgs := (segs.filter (·.1 == "I")).map (·.2)
    let gotXe : List String := (segs.filter (fun (s : String × Toks) => s.1 == "X" && s.2.drop 1 == ["1", "-"])).map (fun (s : String × Toks) => s.2.headD "?")
    if imgs.length != tsegs.length + jsegs.length then s!"PROPFAIL gif: {imgs.length} images, {tsegs.length + jsegs.length} written" else
    if gotXe != wantXe then s!"PROPFAIL gif: extensions without sub-blocks {gotXe}, written {wantXe}" else
    -- a hand-made comment extension: its data split into 255 byte sub-blocks must come back whole
    if (match kvGet truth "cmt" with
        | some "~" => false
        | some c =>
          let n := (c.length / 2 + 254) / 255
          !(segs.any (fun (s : String × Toks) => s.1 == "X" && s.2 == ["254", toString n, c]))
        | none => false) then "PROPFAIL gif: comment extension data / sub-block count differ from what was written" else
    if (segs.find? (·.1 == "T")).map (·.2) != some ["59"] then "PROPFAIL gif: trailer" else
    -- delays: a graphic control extension (0xf9 = 249) qualifies the next image; none = delay 0
    let rec go (i : Nat) (ts : List (String × Toks)) (bl : List (String × Toks)) (pending : Option (Nat × Nat)) : String :=
      match bl with
      | [] => if ts.isEmpty then "OK" else s!"PROPFAIL gif: image {i} missing"
      | (k, b) :: bl =>
        if k == "X" then
          match b with
          | ["249", _, d] =>
            match unhex d with
            | some [fl, lo, hi, _] => go i ts bl (some (lo.toNat + 256 * hi.toNat, fl.toNat))
            | _ => s!"PROPFAIL gif: graphic control block before image {i}"
          | _ => go i ts bl pending
        else if k == "I" then
          match ts, b with
          | (_, t) :: ts, l :: tp :: iw :: ih :: lcm :: il :: ibd :: cs :: lmap :: _nsub :: _bytes :: "P" :: pix :: _ =>
            if lcm != bit (kvNat truth "gct" != some 1) then s!"PROPFAIL gif: image {i} local colour map flag"
            else if lcm == "1" && !((kvGet truth "pal").map (fun p => lmap.startsWith p)).getD false then s!"PROPFAIL gif: image {i} local colour map does not start with the palette"
            else if some l != kvGet t "x" || some tp != kvGet t "y" || some iw != kvGet t "w" || some ih != kvGet t "h" then s!"PROPFAIL gif: image {i} position/size"
            else if il != "0" then s!"PROPFAIL gif: image {i} interlace flag"
            else if some pix != kvGet t "pix" then s!"PROPFAIL gif: image {i}: the LZW data fq reports does not expand to the pixels written"
            else if kvNat t "delay" != some (pending.getD (0, 0)).1 then s!"PROPFAIL gif: image {i} delay"
            else if (kvNat t "disp").map (· * 4) != some (pending.getD (0, 0)).2 then s!"PROPFAIL gif: image {i} disposal / transparency flags"
            else if some ibd != (if lcm == "1" then kvGet truth "lbits" else some "1") then s!"PROPFAIL gif: image {i} bit depth"
            else if some cs != (kvNat truth "lbits").map (fun b => toString (max 2 b)) then s!"PROPFAIL gif: image {i} LZW code size"
            else go (i+1) ts bl none
          | [], l :: tp :: iw :: ih :: lcm :: il :: ibd :: cs :: lmap :: nsub :: bytes :: "P" :: pix :: _ =>
            -- a hand-made image without data: descriptor fields as written, one array element (the terminator), no bytes
            match jsegs[i - tsegs.length]? with
            | some (_, t) =>
              if [some l, some tp, some iw, some ih, some cs] != [kvGet t "x", kvGet t "y", kvGet t "w", kvGet t "h", kvGet t "cs"] then s!"PROPFAIL gif: data-less image {i} descriptor"
              else if [lcm, il, ibd, lmap, nsub, bytes, pix] != ["0", "0", "1", "~", "1", "-", "-"] then s!"PROPFAIL gif: data-less image {i} is not shown as empty"
              else go (i+1) [] bl none
            | none => s!"PROPFAIL gif: unexpected image {i}"
          | _, _ => s!"PROPFAIL gif: image {i} shape"
        else go i ts bl pending
    go 0 tsegs segs none
  | _ => "PROPFAIL gif: no projection"

/-- known finding `gif-local-color-map-order` (gif.go:126-131, pinned by format/gif/testdata/4x4.fqtest):
    `code_size` is read BEFORE the local colour table although the file has the table first, so with a
    local table the reported code_size is the first colour byte and the table is shifted by one byte,
    ending in the real LZW code size. `gifProp0` is evaluated on the projection with that shift undone
    (so every other field is still checked strictly); the verdict for such a file is then KNOWN. -/
def gifUnshift (obs : Toks) : Toks × Bool :=
  let rec go : Toks → Toks → Bool → Toks × Bool
    | [], acc, sh => (acc.reverse, sh)
    | "I" :: l :: t :: w :: h :: "1" :: il :: bd :: cs :: lmap :: rest, acc, _ =>
      -- bytes as the file has them: [cs] ++ lmap = table ++ [real code size]
      let csHex := match cs.toNat? with
        | some n => hexOfBytes [UInt8.ofNat n]
        | none => "??"
      let all := csHex ++ lmap
      let table := (all.dropEnd 2).toString
      let real := match unhex (all.drop (all.length - 2)).toString with
        | some [b] => toString b.toNat
        | _ => "?"
      go rest (table :: real :: bd :: il :: "1" :: h :: w :: t :: l :: "I" :: acc) true
    | x :: rest, acc, sh => go rest (x :: acc) sh
  go obs [] false

def gifProp (truth obs : Toks) : String :=
  let (o, shifted) := gifUnshift obs
  let r := gifProp0 truth o
  if shifted then
    if r == "OK" then "KNOWN gif-local-color-map-order code_size and local_color_map are shifted by one byte (every other field as written)"
    else r
  else r

/-- a chain without sub-blocks is an array of one element (the terminator) in fq's tree -/
def gifSubsToks (subs : List GifSub) : Toks := [if subs.isEmpty then "1" else toString subs.length, hexB (subs.flatMap (·.data))]

def gifBlockToks : GifBlock → Toks
  | .ext _ code subs => ["X", toString code] ++ gifSubsToks subs
  | .image _ l t w h lcm il _ bd cs lmap subs =>
    ["I", toString l, toString t, toString w, toString h, bit lcm, bit il, toString bd, toString cs, optHex lmap] ++ gifSubsToks subs ++ ["P", "?"]

/-- the Lean parser's rendering of the file (the `P` token, the harness' LZW expansion, is not predicted) -/
def gifModel (file : Bytes) : Toks :=
  match parseGif file with
  | some (g, _) =>
    ["ok", hexS g.header, toString g.width, toString g.height, bit g.gcp, toString g.cres, toString g.zero, toString g.bd,
     toString g.black, toString g.par, optHex g.gcm, toString g.blocks.length] ++ g.blocks.flatMap gifBlockToks ++ ["T", toString g.term]
  | none => ["err", "*"]

/-! ### wav -/

/-- tokens of the chunk with the given id (hex) : everything between its "(" and the next "(" or ")" -/
def wavChunk (obs : Toks) (idHex : String) : Option Toks :=
  let rec go : Toks → Option Toks
    | [] => none
    | "(" :: i :: r => if i == idHex then some (r.takeWhile (fun w => w != "(" && w != ")")) else go r
    | _ :: r => go r
  go obs

def wavProp (file : Bytes) (truth obs : Toks) : String :=
  match obs with
  | e :: rest =>
    if e != "ok" then "PROPFAIL wav: decode error on an intact file" else
    match wavChunk rest "52494646", wavChunk rest "666d74", wavChunk rest "64617461" with
    | some riff, some fmt, some data =>
      let g := fun k => (kvGet truth k).getD "?"
      let fv := g "fv"
      if riff != [toString (file.length - 8), "R", "57415645"] then "PROPFAIL wav: RIFF size/form type"
      else match fmt, data with
        | fsz :: "F" :: af :: ch :: rate :: brate :: al :: bits :: cb :: ex :: es :: vb :: mask :: sub :: _, [dsz, "S", samples] =>
          let wantF := if fv == "0" then some 16 else if fv == "2" then some 40 else (kvNat truth "cb").map (18 + ·)
          if [af, ch, rate, brate, al, bits] != [g "af", g "ch", g "rate", g "brate", g "align", g "bits"] then "PROPFAIL wav: fmt fields"
          else if some fsz != wantF.map toString then "PROPFAIL wav: fmt chunk size"
          else if g "info" != "~" && (wavChunk rest "4c495354").map (fun c => c.drop 1) != some ["Y", "494e464f"] then "PROPFAIL wav: LIST type"
          else if g "junk" != "~" && (wavChunk rest "6a756e6b").map (fun c => c.drop 1) != some ["D", g "junk"] then "PROPFAIL wav: junk chunk data"
          else if fv == "0" && (cb != "~" || es != "~") then "PROPFAIL wav: plain fmt chunk shows extension fields"
          else if fv == "1" && (cb != g "cb" || ex != g "ex") then "PROPFAIL wav: cb_size / extra bytes"
          else if fv == "2" && (es != "22" || vb != g "vb" || mask != g "mask" || sub != "0100000000001000800000aa00389b71") then "PROPFAIL wav: extensible fmt fields"
          else if samples != g "samples" then "PROPFAIL wav: samples differ from what was written"
          else if some dsz != ((kvHex truth "samples").map (fun s => toString s.length)) then "PROPFAIL wav: data chunk size"
          else
            let info := g "info"
            if info != "~" && (wavChunk rest "49415254").map (fun c => c.drop 1) != some ["V", info] then "PROPFAIL wav: LIST/INFO IART value"
            else match kvGet truth "fact" with
              | some f => if (wavChunk rest "66616374").map (fun c => c.drop 1) != some ["A", f] then "PROPFAIL wav: fact sample_length" else "OK"
              | none => "OK"
        | _, _ => "PROPFAIL wav: fmt/data chunk shape"
    | _, _, _ => "PROPFAIL wav: RIFF, fmt or data chunk missing"
  | _ => "PROPFAIL wav: no projection"

def wavEvToks : WavEv → Toks
  | .opn id size => ["(", hexS id, toString size]
  | .riff f => ["R", hexS f]
  | .list t => ["Y", hexS t]
  | .fmt f => ["F", toString f.audioFormat, toString f.numChannels, toString f.sampleRate, toString f.byteRate, toString f.blockAlign,
               toString f.bitsPerSample, optNat f.cbSize, optHex f.unknown, optNat f.extSize, optNat f.validBits, optNat f.chanMask, optHex f.subFormat]
  | .samples d => ["S", hexB d]
  | .fact n => ["A", toString n]
  | .str v => ["V", hexS v]
  | .raw d => ["D", hexB d]
  | .close a => [")", optNat a]

def wavModel (file : Bytes) : Toks :=
  match parseWav file with
  | some evs => "ok" :: evs.flatMap wavEvToks
  | none => ["err", "*"]

/-! ### bzip2 (predicate only; writer: the bzip2 program) -/

/-- known finding `bzip2-single-block-only`: format/bzip2/bzip2.go decodes the header of ONE block and compares
    its crc (and the stream crc derived from it) with the crc of the whole decompressed stream; a stream with
    several blocks reads `invalid` although intact, a stream without blocks (empty input) is a decode error.
    Excused class: truth blocks != 1. -/
def bzip2Prop (truth obs : Toks) : String :=
  let known := kvNat truth "blocks" != some 1
  let r :=
    match obs with
    | [e, magic, _ver, lvl, _bcrc, bdesc, _fcrc, fdesc, u] =>
      if e != "ok" then "PROPFAIL bzip2: decode error on an intact file"
      else if magic != "425a" then "PROPFAIL bzip2: magic"
      else if some lvl != (kvNat truth "level").map (fun l => toString (48 + l)) then "PROPFAIL bzip2: block size digit"
      else if some u != kvGet truth "data" then "PROPFAIL bzip2: uncompressed differs from what was compressed"
      else if bdesc != "valid" then s!"PROPFAIL bzip2: block crc of an intact file shown as {bdesc}"
      else if fdesc != "valid" then s!"PROPFAIL bzip2: stream crc of an intact file shown as {fdesc}"
      else "OK"
    | _ => "PROPFAIL bzip2: no projection"
  if known && r.startsWith "PROPFAIL" then "KNOWN bzip2-single-block-only " ++ (r.drop 9).toString else r

/-! ### corruption -/

def parseCorr (w : String) : Option (Nat × String) :=
  match w.splitOn ":" with
  | [p, _x, k] => p.toNat?.map (·, k)
  | _ => none

/-- byte ranges [a,b) that a checksum verified by fq covers directly, from the driver's own parse -/
def directRegions (format : String) (file : Bytes) : Option (List (Nat × Nat)) :=
  if format == "png" then
    let rec go (fuel pos : Nat) (bs : Bytes) (acc : List (Nat × Nat)) : List (Nat × Nat) :=
      match fuel with
      | 0 => acc
      | fuel+1 =>
        if bs.length < 12 then acc else
        let l := beNat (bs.take 4)
        go fuel (pos + 12 + l) (bs.drop (12 + l)) ((pos + 4, pos + 12 + l) :: acc)
    some (go (file.length / 12 + 1) 8 (file.drop 8) [])
  else if format == "ogg_page" then some [(0, file.length)]
  else none

def stepCor (format : String) (file : Bytes) (cs obs : Toks) : String :=
  match cs.mapM parseCorr with
  | none => "BADOP cor positions"
  | some cs =>
    if cs.length != obs.length then "BADOP cor count" else
    let regs := directRegions format file
    let rec go : List (Nat × String) → Toks → Option String → String
      | [], _, known => known.getD "OK"
      | _, [], known => known.getD "OK"
      | (p, k) :: cs, o :: os, known =>
        if p ≥ file.length then s!"BADOP position {p} outside the file"
        else if k == "d" && (match regs with | some rs => !(rs.any fun r => r.1 ≤ p && p < r.2) | none => false) then
          s!"BADOP position {p} is not inside a checksummed region of the driver's own parse"
        else
          let okSet : List String :=
            if k == "d" then ["E", "I"] else if k == "z" || k == "a" then ["E", "I", "C="] else if k == "u" then ["E", "I"] else []
          if okSet.isEmpty then s!"BADOP kind {k}"
          else if okSet.contains o then go cs os known
          else if format == "bzip2" && o == "N" then
            go cs os (known <|> some s!"KNOWN bzip2-decompress-error-ignored byte {p} altered: no error, no invalid, uncompressed absent")
          else if k == "u" && (format == "zip" || format == "tar" || format == "gzip") && (o == "C=" || o == "C!") then
            go cs os (known <|> some s!"KNOWN checksum-not-validated {format}: byte {p} altered, result clean ({o})")
          else s!"PROPFAIL {format}: byte {p} (kind {k}) altered inside a checksummed region, result {o} — clean"
    go cs obs none

/-! ### zlib framing, directly: `zlb <valid> <hex stream> <clen|x> <hex data>` TAB `ok <hex text> | err`
    The harness puts the stream into the zTXt chunk of a small png; fq's outcome for that chunk is compared with the model of the
    library reader (`parseZlib`, flate answered from the truth: `x` = flate fails). valid = 1: a stream an independent writer made,
    fq must show the text; 0: a broken stream (header check, unknown dictionary, Adler-32, cut trailer), never a clean result;
    2: model comparison only. -/
def stepZlb (valid shex sclen sdata obs : String) : String :=
  match unhex shex, unhex sdata with
  | some stream, some data =>
    let oracle : Bytes → Option (Nat × Bytes) := fun bs =>
      match sclen.toNat? with
      | some n => if n ≤ bs.length then some (n, data) else none
      | none => none
    let model := match parseZlib oracle stream with
      | .ok (r, _) => s!"ok {hexB r.data}"
      | .error _ => "err"
    let prop :=
      if valid == "1" then (if obs == s!"ok {hexB data}" then "OK" else s!"PROPFAIL zlib: intact stream of {data.length} bytes not shown as written: {obs.take 80}")
      else if valid == "0" then (if obs == "err" then "OK" else s!"PROPFAIL zlib: broken stream gives a clean result: {obs.take 80}")
      else if valid == "2" then "OK" else "BADOP zlb valid"
    if prop.startsWith "BADOP" then prop
    else if prop == "OK" then verdict model obs
    else if model == obs then prop else s!"{prop} ;DIVERGE model={model.take 80}"
  | _, _ => "BADOP zlb hex"

/-! ### dispatch -/

/-- a `dec` line, or (nested = true) an `nst` line: the same judgement on the inner file -/
def stepDec (nested : Bool) (format fhex : String) (truth : Toks) (obs : String) : String :=
  match unhex fhex with
  | none => "BADOP file hex"
  | some file =>
    let o := words obs
    if o.head? == some "panic" then s!"PROPFAIL {format}: fq panicked"
    else if o.head? == some "err" && o.contains "JQERR" then
      s!"PROPFAIL {format}: decode error on an intact file (the tree is partial, the projection could not be completed)"
    else if nested && (o.contains "JQERR" || o.head? == some "noline") then
      -- a decode that fails at top level (decode error shown) makes the probe fail when nested: the member stays raw.
      -- The same classes are excused as at top level.
      if format == "gzip" && truth.any (fun w => w.startsWith "flg=" && w != "flg=0" && w != "flg=24") then
        "KNOWN gzip-flags-bit-order nested member with FLG != 0 is not recognised as gzip"
      else if format == "bzip2" && kvNat truth "blocks" != some 1 then
        "KNOWN bzip2-single-block-only nested stream is not recognised as bzip2"
      else if format == "tar" && kvNat truth "n" == some 0 then "OK"
      else s!"PROPFAIL {format}: the nested container is not decoded as {format} (probing from the parent container), or its tree lacks fields"
    else if o.head? == some "noline" || o.contains "JQERR" then s!"BADOP projection failed: {obs.take 200}"
    else if format == "gzip" then stepGzip file truth o
    else if format == "tar" then stepTar file truth o
    else if format == "png" then stepPng file truth o
    else if format == "ogg_page" then verdictWith (oggProp file truth o) (oggModel file) o
    else if format == "zip" then
      let (pre, segs) := splitAt (· == "F") truth
      match segs.mapM (fun s => zipTruth s.2) with
      | some ts => verdictWith (zipProp file pre ts o) (zipModel file (ts.map fun t => (t.off, t.clen, t.data))) o
      | none => "BADOP zip truth"
    else if format == "gif" then verdictWith (gifProp truth o) (gifModel file) o
    else if format == "wav" then verdictWith (wavProp file truth o) (wavModel file) o
    else if format == "bzip2" then bzip2Prop truth o
    else "BADOP format"

/-- `swp` lines (harness/cmd/c15/sweep.go): (inflated size x compressibility class x method / level) sweep through the stdlib
    writers. truth = `m v len crc md5 clen`* `u len md5`; the expected report is `swpExpect` (the views of
    `container_reports_inflated_payload`: the payload whole, ISIZE = len mod 2^32, crc valid, sizes where the writer put them).
    Only lengths and hashes are on the line, the payloads are multi-MiB. -/
def swpTruth : List String → List SwpM → Option (List SwpM × Nat × String)
  | ["u", l, h], acc => l.toNat?.map (fun n => (acc.reverse, n, h))
  | "m" :: v :: l :: c :: h :: cl :: rest, acc =>
    match l.toNat?, c.toNat?, cl.toNat? with
    | some l, some c, some cl => swpTruth rest ({ v, len := l, crc := c, md5 := h, clen := cl } :: acc)
    | _, _, _ => none
  | _, _ => none

def stepSwp (kind : String) (truth : List String) (obs : String) : String :=
  match swpTruth truth [] with
  | none => "BADOP swp truth"
  | some (ms, ulen, umd5) =>
    match swpExpect kind ms ulen umd5 with
    | none => "BADOP swp kind"
    | some want =>
      let o := words obs
      if o.head? == some "noline" || o.contains "JQERR" || o.isEmpty then s!"BADOP projection failed: {obs.take 200}"
      else if o.head? == some "panic" then s!"PROPFAIL swp {kind}: fq panicked on an intact file"
      else if o.head? == some "err" then s!"PROPFAIL swp {kind}: decode error on an intact file from an independent writer"
      else match swpDiff 0 want o with
        | none => "OK"
        | some (i, w, g) => s!"PROPFAIL swp {kind}: report token {i}: the writer stored {w}, fq reports {g} (tokens: ok n, then per member gzip M clen crc32 verdict isize len md5 / zip L method dd crc csize usize len md5 clen dd-crc dd-csize dd-usize, D crc csize usize / png Z crc-verdict clen len md5)"

def stepC15 (op obs : String) : String :=
  match words op with
  | ["crc", name, bits, init, hex] => stepCrc name bits init hex obs
  | "mdl" :: "tar" :: valid :: fhex :: truth =>
    -- hand-made tar headers with numbers in base-256 (GNU / star extension). valid = 1: intact for a reader of the extension,
    -- judged exactly like a `dec tar` line (model tokens + predicate: size and payload reported = written; a decode error is a
    -- PROPFAIL — the repaired defect `could not decode size` would show here); 0: a size that does not fit 63 bits / negative:
    -- never a clean result; 2: model comparison only (fields where fq shows a number but no description)
    match unhex fhex with
    | some file =>
      let o := words obs
      if valid == "1" then stepTar file truth o
      else if valid == "0" then
        verdictWith (if o.head? == some "err" then "OK" else "PROPFAIL tar: a size field that is not a 63 bit number gives a clean result") (tarModel file) o
      else if valid == "2" then verdictWith "OK" (tarModel file) o
      else "BADOP mdl valid"
    | none => "BADOP file hex"
  | ["zlb", valid, shex, sclen, sdata] => stepZlb valid shex sclen sdata obs
  | "swp" :: kind :: _variant :: _cls :: _size :: _level :: _seed :: truth => stepSwp kind truth obs
  | "dec" :: format :: fhex :: truth => stepDec false format fhex truth obs
  | "nst" :: _path :: _outer :: format :: fhex :: truth => stepDec true format fhex truth obs
  | "cor" :: format :: fhex :: cs =>
    match unhex fhex with
    | none => "BADOP file hex"
    | some file => stepCor format file cs (words obs)
  | _ => "BADOP op"

def main : IO Unit := run stepC15
