import FqModel.Proto
import FqModel.Bits
import FqModel.Serial.Common
import FqModel.Serial.Text
import FqModel.Serial.Msgpack
import FqModel.Serial.Cbor
import FqModel.Serial.Bencode
import FqModel.Serial.Bson
import FqModel.Serial.Json
import FqModel.Serial.Ber
import FqModel.Serial.Ties
/-! driver for C16

  `<format> <hex of the input> <kind> <source value>` TAB `<observation of fq -d <format> torepr>`
     kind = full      the input is a complete encoding (any wire form) of the source value
          | trunc     the input is a strict prefix of an encoding of the source value
          | trail:<n> a complete encoding followed by <n> further bytes
          | bad       the input is not an encoding of any value (the source value on the line is ignored)
          | any       an arbitrary input (first-byte sweeps): no source value, fq's observation must equal the model's
     observation = err                       root `._error` is set (decode error)
                 | reprerr                   decode fine, `torepr` raised a jq error
                 | ok <value> <gaps>         <gaps> = `-` or `g<start byte>:<hex>` joined by `+`
     value syntax: FqModel/Serial/Text.lean.

  verdict: the property predicate is evaluated on fq's observation against the SOURCE value carried on the
  line (independent of the model):  full ⇒ `ok norm(source) -`, trunc / bad ⇒ `err`,
  trail:n ⇒ `ok norm(source) g<len-n>:<the n bytes>`;  then the model's observation must equal fq's.
-/
open FqModel FqModel.Proto FqModel.Serial

def showRes (total : Nat) (r : Res (V × Bytes)) : Option String :=
  match r with
  | .ok (v, rest) =>
    let gap := if rest.isEmpty then "-" else s!"g{total - rest.length}:{hexOfBytes rest}"
    some s!"ok {render v} {gap}"
  | .err .eof => some "err"
  | .err .fatal => some "err"
  | .err .repr => some "reprerr"
  | .err .fuel => none
  | .err .unmodelled => none

/-- (as-is model, repaired model if the format has a modelled known defect) -/
def models (fmt : String) : Option ((Bytes → Res (V × Bytes)) × Option (Bytes → Res (V × Bytes)) × String) :=
  match fmt with
  | "msgpack" => some (Msgpack.decode, none, "")
  | "cbor" => some (Cbor.decode, some Cbor.decodeFixed, "cbor-indef-string-break")
  | "bencode" => some (Bencode.decode, none, "")
  | "bson" => some (Bson.decode, none, "")
  | "asn1_ber" => some (Ber.decodeX, some Ber.decodeXFixed, "asn1-ber-zero-length")
  | "json" => some (Json.decode, none, "")
  | "jsonl" => some (Json.decodeLines, none, "")
  | _ => none

/-- the proved model of a format when the driver runs an extended one: they must agree wherever the proved
    model is defined -/
def provedModel (fmt : String) : Option (Bytes → Res (V × Bytes)) :=
  match fmt with
  | "asn1_ber" => some Ber.decode
  | _ => none

def expected (kind : String) (src : V) (input : Bytes) : Option String :=
  let v := render (norm src)
  if kind == "full" then some s!"ok {v} -"
  else if kind == "trunc" then some "err"
  else if kind == "bad" then some "err"
  else if kind == "any" then some ""              -- no source value: the model alone is the oracle
  else match kind.splitOn ":" with
    | ["trail", ns] =>
      match ns.toNat? with
      | some n =>
        if n == 0 || n > input.length then none
        else some s!"ok {v} g{input.length - n}:{hexOfBytes (input.drop (input.length - n))}"
      | none => none
    | _ => none

/-- does the source value contain a string (or key) that starts with U+FEFF (EF BB BF)?  Those are the
    values the known finding `utf8-bom-stripped` excuses.  cbor (`anywhere`): a U+FEFF anywhere in a text
    string, because an indefinite-length string is stripped chunk by chunk and a chunk may start there. -/
def bomAt : Bytes → Bool
  | 0xef :: 0xbb :: 0xbf :: _ => true
  | _ => false

def bomInside : Bytes → Bool
  | [] => false
  | b :: r => bomAt (b :: r) || bomInside r

partial def hasBomString (anywhere : Bool) : V → Bool
  | .str s => if anywhere then bomInside s else bomAt s
  | .arr xs => xs.any (hasBomString anywhere)
  | .map kvs => kvs.any (fun (k, v) => hasBomString anywhere k || hasBomString anywhere v)
  | _ => false

/-- bson known finding `bson-string-embedded-nul`: the source has a string with an embedded NUL -/
partial def hasNulString : V → Bool
  | .str s => s.contains 0
  | .arr xs => xs.any hasNulString
  | .map kvs => kvs.any (fun (_, v) => hasNulString v)
  | _ => false

def stepC16 (op obs : String) : String :=
  match words op with
  | [fmt, hex, kind, srcs] =>
    match models fmt, parseHexTok hex, parseValue srcs with
    | some (asIs, fixed?, key), some input, some src =>
      match expected kind src input with
      | none => "BADOP kind"
      | some exp =>
        let crossOk := match provedModel fmt with
          | some pm => (match showRes input.length (pm input) with
            | some mp => mp == (showRes input.length (asIs input)).getD ""
            | none => true)
          | none => true
        if !crossOk then "BADOP proved-model-and-extended-model-disagree" else
        match showRes input.length (asIs input) with
        | none =>
          -- an arbitrary input that leaves the modelled fragment carries no claim
          if kind == "any" then "OK outside-model" else "BADOP model-fuel-or-unmodelled-branch"
        | some m =>
          if kind == "any" then (if m == obs then "OK" else s!"DIVERGE model={m}") else
          let div := if m == obs then "" else s!" ;DIVERGE model={m}"
          if obs == exp then (if div.isEmpty then "OK" else s!"DIVERGE model={m}")
          else
            -- the property statement is falsified by fq's observation; is it the modelled known defect?
            let known := match fixed? with
              | some fx => m == obs && showRes input.length (fx input) == some exp
              | none => false
            if known then s!"KNOWN {key} expected={exp}"
            else if m == obs && hasBomString (fmt == "cbor") src && kind != "trunc" && kind != "bad" then
              s!"KNOWN utf8-bom-stripped expected={exp}"
            else if fmt == "cbor" && m == obs && input.head? == some 0xf8 && kind != "trunc" && kind != "bad" then
              s!"KNOWN cbor-simple-value-argument expected={exp}"
            else if fmt == "bson" && m == obs && hasNulString src && kind != "trunc" && kind != "bad" then
              s!"KNOWN bson-string-embedded-nul expected={exp}"
            else s!"PROPFAIL expected={exp}{div}"
    | none, _, _ => "BADOP format"
    | _, none, _ => "BADOP hex"
    | _, _, none => "BADOP source-value"
  | _ => "BADOP op"

/-- `drv_c16 --ties`: one line per format `<format> <facts|nofacts> <text|notext>` — which ties to the current
    source hold in this run (FqModel/Serial/Ties.lean); the harness reads it to choose its generators -/
def main (args : List String) : IO Unit := do
  if args.contains "--ties" then
    for (f, facts, text) in Ties.all do
      IO.println s!"{f} {if facts then "facts" else "nofacts"} {if text then "text" else "notext"}"
  else
    run stepC16
