import FqModel.Proto
/-! driver for C17 (stub — replaced by the property's own driver) -/
open FqModel.Proto
def main : IO Unit := run (fun _ _ => "BADOP driver-stub")
