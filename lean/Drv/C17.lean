import FqModel.Proto
import FqModel.Bits
import FqModel.Cli
/-! driver for C17 (stateful: the first case line is the header with fq's own option table and exit codes)

  `hdr codes=<args>,<io>,<compile>,<decode>,<expr> defaults=<n> opts=<E>;<E>;… otypes=<hexkey>:<type>,…` TAB (empty)
        E = `<name>|<short|~>|<long|~>|<alias,alias|~>|<kinds>`; strings are hex of their UTF-8, kinds ⊆ "bsaop?"
        (the entries of `_opt_cli_opts | to_entries` in that order, the five `_exit_code_*`)
  `parse <argv>` TAB `<P>`
        <argv> = `.` (empty) or hex strings joined by `,` (`-` = empty string; a trailing `*` marks an intended input file)
        <P> = `ok rest=<list> parsed=<null | name=V;name=V…>` | `err:<advisory class>:<hex message>` (the message text is NOT
              compared: error-vs-success must agree and the message must mention the offending argument); V = `T` | `S:<hex>` | `A:<list>` |
              `P:<hex>+<hex>,…` | `O:<hexk>=<hexv>,…` (keys sorted)      — what the real `_args_parse` returned
  `meta <kind> <argvA> <argvB>` TAB `<PA> | <PB>`
        a theorem statement evaluated on the implementation: kind `same` (combined short flags, `--k=v` vs `--k v`, permuted
        boolean flags): PA = PB;  kind `dd:<n>`: argvA = argvB ++ `--` :: post with |post| = n: PA.parsed = PB.parsed and
        PA.rest = PB.rest ++ post
  `run argv=<argv> stdin=<fk> world=<hex>:<fk>:<pc>:<cc>:<json 0|1>:<fmt>,…` TAB `all=<O> singles=<O>;<O>…|. [norepl=<O>]`
        <O> = `<exit>/<len>:<polyhash of stdout>/<errs|->`, errs = `io:<hexname>`, `dec:<hexname>`, `expr`, `fatal`, `other` joined by `,`
        singles = the same command with only the i-th marked input file kept
        norepl  = (only when the command line has -i or --repl) the same command without it
  `opt argv=… stdin=… world=… keys=<hexkey,…>` TAB `exit=<n> opts=<hexkey:V,…|none>`
        one run whose program prints `options` to stderr; V = N | T | F | I<int> | S<hex> | A<hex+hex…|.> | P<hex~hex+…> | Z ([null]) | X
        (the header carries fq's `_opt_build_default_fixed` in the same codec: `dflt=<hexkey:V,…>`)
  `ometa same <argvA> <argvB> stdin=… world=… keys=…` TAB `<obsA> | <obsB>`   two command lines a merge theorem equates
  `bind argv=… stdin=… world=… names=<hex,…> prog=<hex>` TAB `exit=<n> vals=<hexname:K:hexpayload,…|none>`
        one run whose program `prog` prints the named arguments; K = a string / j JSON text / r raw-file path / d decode-file path / u unknown
  `raw form=<n> files=<spec;…|.> stdin=<hex>` TAB `R=<exit>/<vals>/<errs> Rs=<exit>/<vals>/<errs>`
        raw input at BYTE level: spec = `f<hex>` regular file, `p<hex>` fifo, `m` missing, `d` directory (files are named by
        position; no file = stdin); R = the run with -R, Rs = the same with -R -s, both with a program that frames every
        input value as <byte length>:<bytes>; vals = `.` (none) | hex strings joined by `,` | `?` (unreadable framing);
        errs = `-` | `io:<index>`/`other` joined by `,`
  a `run` line may carry `fs=real` (the run used the real file system under a scratch directory); its world entries then
        have a 7th field `<opens>.<regular>.<seekable>.<stat size>.<seek end|e>.<read all|e>`: what os.Open / Stat / Seek /
        ReadAll said about the path, measured by the harness; the stated kind must agree with `openModel` on it
-/
open FqModel FqModel.Cli FqModel.Proto

/-! ### codecs -/

def strOfHex (s : String) : Option Str := do
  let bs ← bytesOfHex s
  let str ← String.fromUTF8? (ByteArray.mk bs.toArray)
  pure str.toList

def hexOfStr (s : Str) : String :=
  let bs := (String.ofList s).toUTF8.toList
  if bs.isEmpty then "-" else hexOfBytes bs

/-- `.` = empty list; returns strings and the indices marked with `*` -/
def parseArgv (s : String) : Option (List Str × List Bool) :=
  if s == "." then some ([], []) else do
    let items := s.splitOn ","
    let xs ← items.mapM (fun it =>
      let marked := it.endsWith "*"
      let body := if marked then (it.dropEnd 1).toString else it
      (strOfHex body).map (fun x => (x, marked)))
    pure (xs.map (·.1), xs.map (·.2))

def showList (xs : List Str) : String := if xs.isEmpty then "." else ",".intercalate (xs.map hexOfStr)

def showPV : PV → String
  | .flag => "T"
  | .str s => "S:" ++ hexOfStr s
  | .arr xs => "A:" ++ showList xs
  | .pairs xs => "P:" ++ ",".intercalate (xs.map (fun (a, b) => hexOfStr a ++ "+" ++ hexOfStr b))
  | .obj kvs => "O:" ++ ",".intercalate (kvs.map (fun (k, v) => hexOfStr k ++ "=" ++ hexOfStr v))

def showParsed (p : List (Str × PV)) : String :=
  if p.isEmpty then "null" else ";".intercalate (p.map (fun (k, v) => String.ofList k ++ "=" ++ showPV v))

def showRes : Res → String
  | .ok r => s!"ok rest={showList r.rest} parsed={showParsed r.parsed}"
  | .error (.noSuch a) => "err:nosuch:" ++ hexOfStr a
  | .error (.needsArg a) => "err:needsarg:" ++ hexOfStr a
  | .error (.needsTwo a) => "err:needstwo:" ++ hexOfStr a
  | .error (.takesNo a) => "err:takesno:" ++ hexOfStr a
  | .error (.keyValue a) => "err:keyvalue:" ++ hexOfStr a
  | .error .typeErr => "err:type"
  | .error .fuel => "err:fuel"

/-! ### header -/

structure Hdr where
  table : Table
  codes : Codes
  otypes : OTypes
  dflt : JObj

/-! ### the flat value codec (harness `encJV`) -/

def showJV : JV → String
  | .null => "N"
  | .bool true => "T"
  | .bool false => "F"
  | .num n => s!"I{n}"
  | .str s => "S" ++ hexOfStr s
  | .strs xs => "A" ++ (if xs.isEmpty then "." else "+".intercalate (xs.map hexOfStr))
  | .pairs xs => if xs.isEmpty then "A." else "P" ++ "+".intercalate (xs.map (fun (a, b) => hexOfStr a ++ "~" ++ hexOfStr b))
  | .obj _ => "X"
  | .nullArr => "Z"
  | .other => "X"

def parseJV (s : String) : Option JV :=
  let body := (s.drop 1).toString
  match s.toList.head? with
  | some 'N' => if body == "" then some .null else none
  | some 'T' => if body == "" then some (.bool true) else none
  | some 'F' => if body == "" then some (.bool false) else none
  | some 'Z' => if body == "" then some .nullArr else none
  | some 'X' => if body == "" then some .other else none
  | some 'I' => body.toInt?.map JV.num
  | some 'S' => (strOfHex body).map JV.str
  | some 'A' => if body == "." then some (.pairs []) else ((body.splitOn "+").mapM strOfHex).map JV.strs
  | some 'P' => ((body.splitOn "+").mapM (fun (it : String) => match it.splitOn "~" with
      | [a, b] => do let a ← strOfHex a; let b ← strOfHex b; pure (a, b)
      | _ => none)).map JV.pairs
  | _ => none

def parseJObj (s : String) : Option JObj :=
  if s == "." then some [] else
  (s.splitOn ",").mapM (fun (e : String) => match e.splitOn ":" with
    | [k, v] => do let k ← strOfHex k; let v ← parseJV v; pure (k, v)
    | _ => none)

def optStr (s : String) : Option (Option Str) := if s == "~" then some none else (strOfHex s).map some

def parseOptEntry (e : String) : Option Opt :=
  match e.splitOn "|" with
  | [n, sh, lo, al, kinds] => do
    let name ← strOfHex n
    let short ← optStr sh
    let long ← optStr lo
    let aliases ← if al == "~" then some [] else (al.splitOn ",").mapM strOfHex
    if !(kinds.toList.all (fun c => "bsaop?-".toList.contains c)) then none
    pure { name, short, long, aliases,
           bool := kinds.contains 'b', string := kinds.contains 's', array := kinds.contains 'a',
           object := kinds.contains 'o', pairs := kinds.contains 'p', optional := kinds.contains '?' }
  | _ => none

def kv (ws : List String) (key : String) : Option String :=
  (ws.find? (·.startsWith (key ++ "="))).map (fun w => (w.drop (key.length + 1)).toString)

def parseHdr (ws : List String) : Except String Hdr :=
  match kv ws "codes", kv ws "defaults", kv ws "opts", kv ws "otypes", (kv ws "dflt").bind parseJObj with
  | some cs, some d, some os, some ots, some dflt =>
    match (cs.splitOn ",").mapM String.toNat? with
    | some [a, i, c, de, e] =>
      if d != "0" then .error "option table has defaults: not modelled (args.jq:98-104)" else
      match (os.splitOn ";").mapM parseOptEntry with
      | some t =>
        let codes : Codes := { args := a, io := i, compile := c, decode := de, expr := e }
        -- the hypothesis of Props.C17.exit_combines (LoopWf): positive, pairwise distinct
        if !(0 < i && 0 < de && 0 < e && i != de && i != e && de != e && 0 < a && 0 < c) then
          .error "exit codes of the remembered classes are not positive and pairwise distinct"
        else
          match (ots.splitOn ",").mapM (fun e => match e.splitOn ":" with
              | [k, ty] => (strOfHex k).map (fun k => (k, ty))
              | _ => none) with
          | some otypes =>
            -- hypothesis of Props.C17.flag_eq_option_partial, for EVERY boolean entry of the table: its name is typed
            -- boolean in `_opt_options` or not listed there
            match t.find? (fun o => o.bool && !(o.string || o.array || o.object || o.pairs) &&
                !(getKey o.name otypes == some "boolean" || getKey o.name otypes == none)) with
            | some o => .error s!"boolean flag {String.ofList o.name} has a non-boolean option type: `-o {String.ofList o.name}=true` is not the flag"
            | none => .ok { table := t, codes, otypes, dflt }
          | none => .error "otypes"
      | none => .error "opts"
    | _ => .error "codes"
  | _, _, _, _, _ => .error "hdr fields"

/-! ### run lines -/

def parseFK : String → Option FKind
  | "j" => some .jobj | "n" => some .jnum | "b" => some .bin | "u" => some .undec
  | "m" => some .missing | "d" => some .dir | "x" => some .unknown
  | "e" => some .empty | "o" => some .noopen | "g" => some .ghost | _ => none

def parsePC : String → Option PClass
  | "ok" => some .ok | "okq" => some .okq | "fnum" => some .fnum | "fall" => some .fall | "nc" => some .nc | "x" => some .unknown | _ => none

def parseFmt : String → Option FmtKind
  | "p" => some .probe | "f" => some .forced | "-" => some .invalid | _ => none

def parseOptNat (s : String) : Option (Option Nat) := if s == "e" then some none else s.toNat?.map some

def parseBit (s : String) : Option Bool := if s == "1" then some true else if s == "0" then some false else none

/-- `<opens>.<regular>.<seekable>.<stat size>.<seek end|e>.<read all|e>` -/
def parseOsFile (s : String) : Option OsFile :=
  match s.splitOn "." with
  | [o, r, k, sz, se, ra] => do
    let opens ← parseBit o
    let regular ← parseBit r
    let seekable ← parseBit k
    let statSize ← sz.toNat?
    let seekEnd ← parseOptNat se
    let readAll ← parseOptNat ra
    pure { opens, regular, seekable, statSize, seekEnd, readAll }
  | _ => none

/-- a world entry and, on the real file system, what the OS said about the path -/
def parseTokOs (s : String) : Option (Tok × Option OsFile) :=
  match s.splitOn ":" with
  | n :: fk :: pc :: cc :: j :: fm :: rest => do
    let name ← strOfHex n
    let fk ← parseFK fk
    let pc ← parsePC pc
    let cc ← parsePC cc
    let fmt ← parseFmt fm
    if j != "0" && j != "1" then none
    let os ← match rest with
      | [] => some none
      | [o] => (parseOsFile o).map some
      | _ => none
    pure ({ name, fk, pc, cc, jsonOk := j == "1", fmt }, os)
  | _ => none

def parseTok (s : String) : Option Tok := (parseTokOs s).map (·.1)

structure Obs where
  exit : Nat
  len : Nat
  hash : Nat
  errs : List String
deriving Repr

def parseObs (s : String) : Option Obs :=
  match s.splitOn "/" with
  | [e, lh, errs] =>
    match lh.splitOn ":" with
    | [l, h] => do
      let exit ← e.toNat?
      let len ← l.toNat?
      let hash ← h.toNat?
      pure { exit, len, hash, errs := if errs == "-" then [] else errs.splitOn "," }
    | _ => none
  | _ => none

def hashP : Nat := 2 ^ 61 - 1
def hashB : Nat := 1000003

def powMod (b e m : Nat) : Nat := Id.run do
  let mut r := 1
  let mut b := b % m
  let mut e := e
  while e > 0 do
    if e % 2 == 1 then r := r * b % m
    b := b * b % m
    e := e / 2
  return r

/-- (len, hash) of a concatenation from the parts: H(a ++ b) = H(a)·B^|b| + H(b) (mod P) -/
def hashConcat (parts : List (Nat × Nat)) : Nat × Nat :=
  parts.foldl (fun (l, h) (l2, h2) => (l + l2, (h * powMod hashB l2 hashP + h2) % hashP)) (0, 0)

def collapseExpr : List String → List String
  | "expr" :: "expr" :: rest => collapseExpr ("expr" :: rest)
  | x :: rest => x :: collapseExpr rest
  | [] => []

def showELine : ELine → String
  | .io n => "io:" ++ hexOfStr n
  | .dec n => "dec:" ++ hexOfStr n
  | .expr => "expr"

def showErrs (l : List String) : String := if l.isEmpty then "-" else ",".intercalate l

/-- "exit status reflects the failure classes that occurred, 2 over 4 over 5", on the observation alone -/
def exitReflects (c : Codes) (o : Obs) : Option String :=
  if o.errs.contains "other" then some "stderr line that is not an error report"
  else if o.errs.contains "fatal" then
    if o.exit == c.args || o.exit == c.compile then none else some s!"fatal error but exit {o.exit}"
  else
    let io := o.errs.any (·.startsWith "io:")
    let dec := o.errs.any (·.startsWith "dec:")
    let ex := o.errs.contains "expr"
    let want := finallyExit c io dec ex
    if o.exit == want then none else some s!"exit {o.exit} but the reported failure classes demand {want}"

def dedup (l : List String) : List String := l.foldl (fun acc x => if acc.contains x then acc else acc ++ [x]) []

def sameSet (a b : List String) : Bool := a.all b.contains && b.all a.contains

def runVerdict (h : Hdr) (argv : List Str) (marks : List Bool) (w : World) (all : Obs) (singles : List Obs)
    (norepl : Option Obs) (mustIo : List Str := []) : String :=
  match mainModel h.table h.codes h.dflt h.otypes w argv with
  | .error (.mk why) => s!"BADOP unmodelled: {why}"
  | .ok p =>
    let modelErrs := collapseExpr (p.errs.map showELine) ++ (if p.fatal then ["fatal"] else [])
    let modelObs := s!"{p.exit}/{showErrs modelErrs}"
    let implObs := s!"{all.exit}/{showErrs all.errs}"
    let marked := (argv.zip marks).filter (·.2) |>.map (·.1)
    let div :=
      if modelObs != implObs then s!"DIVERGE model={modelObs}"
      else if p.defaultMode && p.files != [none] && p.files != marked.map some then "DIVERGE model=file-roles-differ-from-marks"
      else ""
    let pf : Option String :=
      match exitReflects h.codes all with
      | some why => some why
      | none =>
        match singles.findSome? (exitReflects h.codes) with
        | some why => some ("single run: " ++ why)
        | none =>
          -- independence, RELATIVE to the single runs; applies when inputs are fed one by one (model) to a
          -- compiled program and the marked files are the input files
          -- --repl with named input files reads the same inputs and runs the same program as the command line without
          -- it (init.jq:246-258 vs :260-277): same set of reports, same status (only the order of reports and the
          -- display differ).  Not comparable when a run halts with a fatal error.
          -- real file system: a path that the OS facts say cannot be opened or read (`openModel` = err on the measured
          -- facts: a directory, a missing / forbidden / looping path) must be reported as a FILE error when it is the
          -- only input of a default-mode run (status 2, not 4, not silence)
          let notIo := (marked.zip singles).find? (fun (n, s) => mustIo.contains n && !s.errs.contains ("io:" ++ hexOfStr n) && !s.errs.contains "fatal")
          if p.defaultMode && p.files == marked.map some && singles.length == marked.length && notIo.isSome
              && !((notIo.map (fun d => d.2.len == 0 && d.2.errs.isEmpty)).getD false) then
            some s!"input {String.ofList (notIo.map (·.1) |>.getD [])} cannot be opened or read (measured) but is not reported as a file error: reports {showErrs ((notIo.map (·.2.errs)).getD [])}, exit {(notIo.map (·.2.exit)).getD 0}"
          else
          let replBad : Option String := match norepl with
            | some nr =>
              if p.repl && !marked.isEmpty && !all.errs.contains "fatal" && !nr.errs.contains "fatal"
                  && (all.exit != nr.exit || !sameSet (dedup all.errs) (dedup nr.errs)) then
                some s!"with --repl: exit {all.exit} reports {showErrs all.errs}; without: exit {nr.exit} reports {showErrs nr.errs}"
              else none
            | none => none
          if replBad.isSome then replBad else
          -- every named input is either processed (the program's output) or reported (stderr + status), never
          -- silently dropped (Props.C17.input_processed_or_reported); programs of class okq may print nothing
          let dropped := (marked.zip singles).find? (fun (_, s) => s.len == 0 && s.errs.isEmpty)
          if p.defaultMode && p.pc != .okq && p.files == marked.map some && singles.length == marked.length && dropped.isSome then
            some s!"input {String.ofList (dropped.map (·.1) |>.getD [])} was silently dropped: no output, no report, exit {(dropped.map (·.2.exit)).getD 0}"
          else
          -- a `_fatal_error` halts every run alike before any input is touched: nothing to compose
          let allHalt := all.errs.contains "fatal" && singles.all (·.errs.contains "fatal")
          if p.defaultMode && !allHalt && p.files == marked.map some && !marked.isEmpty && singles.length == marked.length then
            let (l, hs) := hashConcat (singles.map (fun s => (s.len, s.hash)))
            if all.exit != combineExits h.codes (singles.map (·.exit)) then
              some s!"exit {all.exit} is not the precedence-max {combineExits h.codes (singles.map (·.exit))} of the single exits"
            else if collapseExpr (singles.flatMap (·.errs)) != all.errs then some "stderr reports of the joint run are not those of the single runs in order"
            else if (l, hs) == (all.len, all.hash) then none
            else some s!"stdout of the joint run ({all.len} bytes) is not the concatenation of the single runs ({l} bytes)"
          else none
    match pf with
    | some why => s!"PROPFAIL {why}" ++ (if div.isEmpty then "" else " ;" ++ div)
    | none => if div.isEmpty then "OK" else div

def stepRun (h : Hdr) (ws : List String) (obs : String) : String :=
  match kv ws "argv", kv ws "stdin", kv ws "world" with
  | some av, some si, some wo =>
    match parseArgv av, parseFK si, (if wo == "." then some [] else (wo.splitOn ",").mapM parseTokOs) with
    | some (argv, marks), some stdin, some toksOs =>
      let toks := toksOs.map (·.1)
      -- real file system: the kind the harness states for a path must be what `openModel` makes of the measured OS facts
      match toksOs.find? (fun (tk, os) => match os with | some o => !kindAgrees tk.fk o | none => false) with
      | some (tk, _) => s!"BADOP the kind stated for {String.ofList tk.name} disagrees with openModel on the measured OS facts"
      | none =>
      let ows := words obs
      if ows.any (fun w => (w.splitOn "=panic:").length > 1 || (w.splitOn ";panic:").length > 1) then "PROPFAIL fq panicked" else
      match kv ows "all", kv ows "singles" with
      | some a, some s =>
        match parseObs a, (if s == "." then some [] else (s.splitOn ";").mapM parseObs) with
        | some all, some singles =>
          let mustIo := toksOs.filterMap (fun (tk, os) => match os with
            | some o => if openModel o == .err then some tk.name else none
            | none => none)
          match kv ows "norepl" with
          | none => runVerdict h argv marks { toks, stdin } all singles none mustIo
          | some nr => match parseObs nr with
            | some o => runVerdict h argv marks { toks, stdin } all singles (some o) mustIo
            | none => "BADOP obs norepl"
        | _, _ => "BADOP obs"
      | _, _ => "BADOP obs fields"
    | _, _, _ => "BADOP run fields"
  | _, _, _ => "BADOP run"

/-! ### parse / meta lines -/

def isErrObs (o : String) : Bool := o.startsWith "err:"

/-- the message of an `err:<class>:<hex message>` observation -/
def errMsg (o : String) : Option Str :=
  match o.splitOn ":" with
  | ["err", _, m] => strOfHex m
  | _ => none

def isInfix (a : Str) : Str → Bool
  | [] => a.isEmpty
  | c :: cs => (a.isPrefixOf (c :: cs)) || isInfix a cs

def errArg : Err → Str
  | .noSuch a | .needsArg a | .needsTwo a | .takesNo a | .keyValue a => a
  | _ => []

/-- model result against the implementation's observation.  A success must match exactly.  For an error the
    TEXT of the message is not compared and the harness' class is advisory: what must agree is error-vs-success
    and that the message mentions the offending argument (robust to rewording). -/
def parseAgree (m : Res) (obs : String) : Bool :=
  match m with
  | .ok _ => showRes m == obs
  | .error .fuel => false
  | .error e => match errMsg obs with
    | some msg => isInfix (errArg e) msg
    | none => false

/-- two observations of `_args_parse` count as equal when they are the same success or both are errors -/
def obsSame (a b : String) : Bool := a == b || (isErrObs a && isErrObs b)

def stepParse (h : Hdr) (av : String) (obs : String) : String :=
  match parseArgv av with
  | some (argv, _) =>
    let m := argsParse h.table argv
    if parseAgree m obs then "OK" else s!"DIVERGE model={showRes m}"
  | none => "BADOP argv"

/-- split `ok rest=… parsed=…` -/
def obsParts (o : String) : Option (String × String) :=
  match words o with
  | ["ok", r, p] => if r.startsWith "rest=" && p.startsWith "parsed=" then some ((r.drop 5).toString, (p.drop 7).toString) else none
  | _ => none

def stepMeta (h : Hdr) (kind a b : String) (obs : String) : String :=
  match parseArgv a, parseArgv b, obs.splitOn " | " with
  | some (aa, _), some (ab, _), [oa, ob] =>
    let ma := argsParse h.table aa
    let mb := argsParse h.table ab
    let div := if !parseAgree ma oa then s!" ;DIVERGE model={showRes ma}" else if !parseAgree mb ob then s!" ;DIVERGE model={showRes mb}" else ""
    if kind == "same" then
      -- hypotheses of the theorem: the model itself must equate the two command lines
      if showRes ma != showRes mb then "BADOP meta pair outside the theorem's hypotheses"
      else if !obsSame oa ob then s!"PROPFAIL the two command lines parse differently{div}"
      else if div.isEmpty then "OK" else (div.drop 2).toString
    else if kind.startsWith "dd:" then
      match (kind.drop 3).toString.toNat?, mb with
      | some n, .ok _ =>
        let post := aa.drop (aa.length - n)
        if aa != ab ++ ("--".toList :: post) then "BADOP dd shape"
        else match obsParts oa, obsParts ob with
          | some (ra, pa), some (rb, pb) =>
            let expectRest := if rb == "." then showList post else if post.isEmpty then rb else rb ++ "," ++ showList post
            if pa != pb then s!"PROPFAIL `--` changed the parsed options{div}"
            else if ra != expectRest then s!"PROPFAIL arguments after `--` are not exactly the trailing positionals{div}"
            else if div.isEmpty then "OK" else (div.drop 2).toString
          | _, _ => s!"PROPFAIL `--` after a complete command line must not fail{div}"
      | some _, .error _ =>
        -- a prefix that already fails: the error is the result, whatever follows
        if !(isErrObs oa && isErrObs ob) then s!"PROPFAIL a failing prefix must still fail when `--` follows{div}"
        else if div.isEmpty then "OK" else (div.drop 2).toString
      | _, _ => "BADOP dd"
    else "BADOP meta kind"
  | _, _, _ => "BADOP meta"


/-! ### opt / ometa / bind lines -/

def parseWorld (ws : List String) : Option World :=
  match kv ws "stdin", kv ws "world" with
  | some si, some wo =>
    match parseFK si, (if wo == "." then some [] else (wo.splitOn ",").mapM parseTok) with
    | some stdin, some toks => some { toks, stdin }
    | _, _ => none
  | _, _ => none

def parseKeys (s : String) : Option (List Str) := if s == "." then some [] else (s.splitOn ",").mapM strOfHex

/-- model observation of an opt line: `exit=<n> opts=<…|none>`; `runFailed` = the run itself reports failures (the
    program may then never have run) -/
structure OptPred where
  exit : Nat
  opts : Option JObj
  runFailed : Bool

def optModel (h : Hdr) (w : World) (argv : List Str) : Except String OptPred :=
  match mainDecide h.table h.dflt h.otypes w argv with
  | .error (.mk why) => .error why
  | .ok .fatalArgs => .ok { exit := h.codes.args, opts := none, runFailed := false }
  | .ok .help => .ok { exit := 0, opts := none, runFailed := false }
  | .ok .version => .ok { exit := 0, opts := none, runFailed := false }
  | .ok (.run m o) =>
    match runModel h.codes w m o with
    | .error (.mk why) => .error why
    | .ok p => .ok { exit := p.exit, opts := some m, runFailed := p.exit != 0 }

def showOpts (keys : List Str) (m : JObj) : String :=
  ",".intercalate (keys.map (fun k => hexOfStr k ++ ":" ++ showJV ((getKey k m).getD .null)))

def showOptPred (keys : List Str) (p : OptPred) : String :=
  s!"exit={p.exit} opts=" ++ (match p.opts with | some m => showOpts keys m | none => "none")

/-- does the model's prediction agree with `exit=<n> opts=<…>`? -/
def optAgree (keys : List Str) (p : OptPred) (obs : String) : Bool :=
  let ows := words obs
  match kv ows "exit", kv ows "opts" with
  | some e, some o =>
    e == toString p.exit &&
      (if o == "none" then p.opts.isNone || p.runFailed
       else match p.opts with | some m => o == showOpts keys m | none => false)
  | _, _ => false

def stepOpt (h : Hdr) (ws : List String) (obs : String) : String :=
  match (kv ws "argv").bind parseArgv, parseWorld ws, (kv ws "keys").bind parseKeys with
  | some (argv, _), some w, some keys =>
    if obs.startsWith "panic:" then "PROPFAIL fq panicked" else
    match optModel h w argv with
    | .error why => s!"BADOP unmodelled: {why}"
    | .ok p => if optAgree keys p obs then "OK" else s!"DIVERGE model={showOptPred keys p}"
  | _, _, _ => "BADOP opt fields"

def stepOmeta (h : Hdr) (a b : String) (ws : List String) (obs : String) : String :=
  match parseArgv a, parseArgv b, parseWorld ws, (kv ws "keys").bind parseKeys, obs.splitOn " | " with
  | some (aa, _), some (ab, _), some w, some keys, [oa, ob] =>
    if oa.startsWith "panic:" || ob.startsWith "panic:" then "PROPFAIL fq panicked" else
    match optModel h w aa, optModel h w ab with
    | .ok pa, .ok pb =>
      let div := if !optAgree keys pa oa then s!" ;DIVERGE model={showOptPred keys pa}"
        else if !optAgree keys pb ob then s!" ;DIVERGE model={showOptPred keys pb}" else ""
      -- hypotheses of the theorems: the model itself must equate the two command lines
      if showOptPred keys pa != showOptPred keys pb then "BADOP ometa pair outside the theorems' hypotheses"
      else if oa != ob then s!"PROPFAIL the two command lines give different options or status: {oa} | {ob}{div}"
      else if div.isEmpty then "OK" else (div.drop 2).toString
    | .error why, _ => s!"BADOP unmodelled: {why}"
    | _, .error why => s!"BADOP unmodelled: {why}"
  | _, _, _, _, _ => "BADOP ometa fields"

def showSrc : Src → String
  | .arg v => "a:" ++ hexOfStr v
  | .json t => "j:" ++ hexOfStr t
  | .raw p => "r:" ++ hexOfStr p
  | .dec p => "d:" ++ hexOfStr p

def stepBind (h : Hdr) (ws : List String) (obs : String) : String :=
  match (kv ws "argv").bind parseArgv, parseWorld ws, (kv ws "names").bind parseKeys, (kv ws "prog").bind strOfHex with
  | some (argv, _), some w, some names, some prog =>
    if obs.startsWith "panic:" then "PROPFAIL fq panicked" else
    let ows := words obs
    match kv ows "exit", kv ows "vals" with
    | some oe, some ov =>
      -- on the observation alone: a variable is bound to one of the values the command line gives (never to something else)
      let given (payload : String) : Bool :=
        match strOfHex payload with
        | some p => argv.any (fun a => a == p || isInfix p a)
        | none => false
      let bad : Option String :=
        if ov == "none" || ov == "differ" then (if ov == "differ" then some "the variables changed between inputs" else none)
        else (ov.splitOn ",").findSome? (fun e => match e.splitOn ":" with
          | [n, k, p] => if k == "u" || !given p then some s!"variable {n} is bound to a value the command line does not give" else none
          | _ => some "unreadable binding")
      let model : Except String String :=
        match mainDecide h.table h.dflt h.otypes w argv with
        | .error (.mk why) => .error why
        | .ok .fatalArgs => .ok s!"exit={h.codes.args} vals=none"
        | .ok .help => .ok "exit=0 vals=none"
        | .ok .version => .ok "exit=0 vals=none"
        | .ok (.run m o) =>
          match runModel h.codes w m o, bindList m with
          | .error (.mk why), _ => .error why
          | _, .error (.mk why) => .error why
          | .ok p, .ok bl =>
            -- the variables are printed by the program `prog`; if another program runs (the text was taken as a flag's value) nothing is printed
            if p.exit != 0 || o.exprArg != some prog then .ok s!"exit={p.exit} vals=none"
            else .ok (s!"exit=0 vals=" ++ ",".intercalate (names.map (fun n =>
              hexOfStr n ++ ":" ++ (match bindOf bl n with | some s => showSrc s | none => "unbound"))))
      match model with
      | .error why => s!"BADOP unmodelled: {why}"
      | .ok mo =>
        let div := if mo == s!"exit={oe} vals={ov}" then "" else s!"DIVERGE model={mo}"
        match bad with
        | some why => s!"PROPFAIL {why}" ++ (if div.isEmpty then "" else " ;" ++ div)
        | none => if div.isEmpty then "OK" else div
    | _, _ => "BADOP bind obs"
  | _, _, _, _ => "BADOP bind fields"


/-! ### raw lines (bytes) -/

structure RawSpec where
  kind : Char                 -- f regular file, p fifo, m missing, d directory
  content : List UInt8

def parseRawSpec (s : String) : Option RawSpec :=
  match s.toList with
  | 'm' :: [] => some { kind := 'm', content := [] }
  | 'd' :: [] => some { kind := 'd', content := [] }
  | 'f' :: rest => (bytesOfHex (String.ofList rest)).map (fun b => { kind := 'f', content := b })
  | 'p' :: rest => (bytesOfHex (String.ofList rest)).map (fun b => { kind := 'p', content := b })
  | _ => none

def RawSpec.readable (r : RawSpec) : Bool := r.kind == 'f' || r.kind == 'p'

structure RawObs where
  exit : Nat
  vals : Option (List (List UInt8))     -- none = the framing could not be read back
  errs : List String

def parseRawObs (s : String) : Option RawObs :=
  match s.splitOn "/" with
  | [e, vs, errs] => do
    let exit ← e.toNat?
    let vals ← if vs == "?" then some none else if vs == "." then some (some []) else ((vs.splitOn ",").mapM bytesOfHex).map some
    pure { exit, vals, errs := if errs == "-" then [] else errs.splitOn "," }
  | _ => none

def showVals (vs : List (List UInt8)) : String :=
  if vs.isEmpty then "." else ",".intercalate (vs.map (fun b => if b.isEmpty then "-" else hexOfBytes b))

def showRawObs (exit : Nat) (vs : List (List UInt8)) (errs : List String) : String :=
  s!"{exit}/{showVals vs}/{showErrs errs}"

def enumFrom {α} : Nat → List α → List (Nat × α)
  | _, [] => []
  | n, x :: xs => (n, x) :: enumFrom (n + 1) xs

/-- the judgement of a `raw` line, on the observations and the input bytes alone -/
def rawPropFail (c : Codes) (chunks : List (List UInt8)) (wantErrs : List String) (r rs : RawObs) : Option String :=
  match r.vals, rs.vals with
  | none, _ => some "the output of the -R run cannot be read back as a sequence of framed strings"
  | _, none => some "the output of the -Rs run cannot be read back as a sequence of framed strings"
  | some lines, some svals =>
    match svals with
    | [text] =>
      if text != rawSlurpG chunks then some s!"-Rs gave {showVals [text]}, which is not the concatenation {showVals [rawSlurpG chunks]} of the readable inputs"
      else if !rawJudge (10 : UInt8) text lines then
        -- which clause of `rawJudge`
        if lines.any (fun l => l.contains 10) then some "a value of -R contains a newline"
        else if lines.isEmpty != text.isEmpty then some s!"-R gave {lines.length} values for a text of {text.length} bytes (an empty text, and only an empty text, has no line)"
        else some s!"the values of -R joined with \\n ({showVals [rawJoin (10 : UInt8) text lines]}) do not reproduce the string of -Rs ({showVals [text]}): a byte other than a separating \\n was dropped or added"
      else if r.errs != wantErrs || rs.errs != wantErrs then
        some s!"reports on stderr are {showErrs r.errs} (-R) / {showErrs rs.errs} (-Rs), but the inputs that cannot be read are {showErrs wantErrs}: every failed input is reported once, in order"
      else
        let want := if wantErrs.isEmpty then 0 else c.io
        if r.exit != want || rs.exit != want then some s!"exit {r.exit} (-R) / {rs.exit} (-Rs), but the reported failure classes demand {want}"
        else none
    | _ => some s!"-Rs gave {svals.length} values; jq gives exactly one string (also for empty input)"

def stepRaw (h : Hdr) (ws : List String) (obs : String) : String :=
  match kv ws "form", kv ws "files", (kv ws "stdin").bind bytesOfHex with
  | some _, some fs, some stdin =>
    match (if fs == "." then some [] else (fs.splitOn ";").mapM parseRawSpec) with
    | none => "BADOP raw files"
    | some specs =>
      let ows := words obs
      match (kv ows "R").bind parseRawObs, (kv ows "Rs").bind parseRawObs with
      | some r, some rs =>
        -- init.jq:76: every input is read first; the unreadable ones are reported and skipped; no file = stdin
        let chunks := if specs.isEmpty then [stdin] else (specs.filter RawSpec.readable).map (·.content)
        let wantErrs := (enumFrom 0 specs).filterMap (fun (i, sp) => if sp.readable then none else some s!"io:{i}")
        let exit := if wantErrs.isEmpty then 0 else h.codes.io
        let model := s!"R={showRawObs exit (rawLinesG (10 : UInt8) chunks) wantErrs} Rs={showRawObs exit [rawSlurpG chunks] wantErrs}"
        let impl := s!"R={showRawObs r.exit (r.vals.getD []) r.errs} Rs={showRawObs rs.exit (rs.vals.getD []) rs.errs}"
        let div := if model == impl && r.vals.isSome && rs.vals.isSome then "" else s!"DIVERGE model={model}"
        match rawPropFail h.codes chunks wantErrs r rs with
        | some why => s!"PROPFAIL {why}" ++ (if div.isEmpty then "" else " ;" ++ div)
        | none => if div.isEmpty then "OK" else div
      | _, _ => "BADOP raw obs"
  | _, _, _ => "BADOP raw fields"

def stepC17 (st : Option Hdr) (op obs : String) : Option Hdr × String :=
  match words op with
  | "hdr" :: ws =>
    match parseHdr ws with
    | .ok h =>
      -- the property statement names the numbers: 2 argument or file errors, 3 compile, 4 decode, 5 runtime
      if h.codes == { args := 2, io := 2, compile := 3, decode := 4, expr := 5 } then (some h, "OK")
      else (some h, s!"PROPFAIL exit code constants args={h.codes.args} io={h.codes.io} compile={h.codes.compile} decode={h.codes.decode} expr={h.codes.expr} differ from the documented 2 2 3 4 5")
    | .error e => (none, s!"BADOP header: {e}")
  | ws =>
    match st with
    | none => (none, "BADOP no header line before the first case")
    | some h =>
      let ws := ws.filter (fun w => !w.startsWith "@")
      match ws with
      | ["parse", av] => (st, stepParse h av obs)
      | ["meta", kind, a, b] => (st, stepMeta h kind a b obs)
      | "run" :: rest => (st, stepRun h rest obs)
      | "opt" :: rest => (st, stepOpt h rest obs)
      | "ometa" :: "same" :: a :: b :: rest => (st, stepOmeta h a b rest obs)
      | "bind" :: rest => (st, stepBind h rest obs)
      | "raw" :: rest => (st, stepRaw h rest obs)
      | _ => (st, "BADOP op")

def main : IO Unit := runSt (none : Option Hdr) stepC17
