import FqModel.Proto
/-! driver for C18

  `trial seed=<n> <job>*`  TAB  `<tok>*`      a multiset of decode+display jobs run in one process
  `procrep seed=0 <job>*`  TAB  `<tok>*`      the pool run sequentially in a second process
      job  = path[@N]|format|opts|render                       (opaque here)
      tok  = r:<k>:<hash>        reference: job number k of the line run ALONE in a fresh process
           | rt:<k>:<hash>       reference decode-tree hash of job k (pkg/decode driven directly, same fresh process)
           | hammer<G>:<k>:<hash> job k decoded many times by pkg/decode on G goroutines together with the
                                 other jobs of the line: the tree hash, or the first differing one
           | <mode>:<k>:<hash>   job k run in mode seq0..seq3 (the jobs one after the other, in four
                                 orders), conc2|conc4|conc8|conc16 (concurrently on that many
                                 goroutines), procrep
      hash = first 8 bytes of SHA-256 of (stdout, 0, stderr, 0, error) in hex `/` length

  `sweep <format> <path>…` TAB `<mode>:<k>:<hash>…`   see stepSweep.

  The property predicate, evaluated on the implementation's observation: every job has exactly one
  reference, there is at least one run per job, and EVERY run of job k has the hash of its reference.
  (What the model predicts — FqModel/Isolation.lean, `interleaving_result_eq_alone` — is the same
  statement: the result of a job under any schedule is its lone result; so there is no separate DIVERGE.)
  Race reports are `!PROPFAIL` lines decided by the harness (the race detector is a runtime monitor).
-/
open FqModel.Proto

structure Tok where
  mode : String
  k : Nat
  hash : String

def parseTok (w : String) : Option Tok :=
  match w.splitOn ":" with
  | [m, k, h] =>
    match k.toNat? with
    | some k => if m.isEmpty || h.isEmpty then none else some ⟨m, k, h⟩
    | none => none
  | _ => none

def isRef (t : Tok) : Bool := t.mode == "r" || t.mode == "rt"

/-- which reference a run is compared with -/
def refKind (t : Tok) : String := if t.mode.startsWith "hammer" then "rt" else "r"

def lookupRef (refs : List Tok) (kind : String) (k : Nat) : Option String :=
  (refs.find? (fun t => t.mode == kind && t.k == k)).map (·.hash)

/-- `sweep <format> <path>…` TAB `<mode>:<k>:<hash>…` (modes first, rep1, rep2 = three decodes in a row in one
    process; other = a second process, reverse order; conc = a third process, 8 goroutines):
    all hashes of sample k must be equal, and every sample needs the three sequential decodes. -/
def stepSweep (paths : List String) (obs : String) : String :=
  match (words obs).mapM parseTok with
  | none => "BADOP obs"
  | some toks =>
    let n := paths.length
    if n == 0 then "BADOP no-samples"
    else if toks.any (fun t => t.k ≥ n) then "BADOP sample number out of range"
    else if (List.range n).any (fun k => ["first", "rep1", "rep2"].any (fun m => !(toks.any (fun t => t.k == k && t.mode == m)))) then
      "BADOP a sample lacks its three sequential decodes"
    else
      match toks.find? (fun t => toks.any (fun u => u.k == t.k && u.mode == "first" && u.hash != t.hash)) with
      | some t =>
        let f := ((toks.find? (fun u => u.k == t.k && u.mode == "first")).map (·.hash)).getD "?"
        s!"PROPFAIL sample#{t.k} {paths.getD t.k "?"}: decode `{t.mode}` gave {t.hash}, the first decode in a process gave {f}"
      | none => "OK"

def stepC18 (op obs : String) : String :=
  match words op with
  | "sweep" :: _format :: paths => stepSweep paths obs
  | kind :: seed :: jobs =>
    if kind != "trial" && kind != "procrep" then "BADOP op"
    else if !seed.startsWith "seed=" then "BADOP seed"
    else if jobs.isEmpty then "BADOP no-jobs"
    else if jobs.any (fun j => (j.splitOn "|").length != 4) then "BADOP job"
    else
      match (words obs).mapM parseTok with
      | none => "BADOP obs"
      | some toks =>
        let refs := toks.filter isRef
        let runs := toks.filter (fun t => !isRef t)
        let n := jobs.length
        if (refs.filter (fun t => t.mode == "r")).length != n then s!"BADOP not one output reference per job"
        else if (List.range n).any (fun k => (refs.filter (fun t => t.mode == "r" && t.k == k)).length != 1) then
          "BADOP reference numbering"
        else if (List.range n).any (fun k => (refs.filter (fun t => t.mode == "rt" && t.k == k)).length > 1) then
          "BADOP tree reference numbering"
        else if toks.any (fun t => t.k ≥ n) then "BADOP job number out of range"
        else if (List.range n).any (fun k => !(runs.any (fun t => t.k == k))) then "BADOP a job was never run"
        else
          match runs.find? (fun t => lookupRef refs (refKind t) t.k != some t.hash) with
          | some t =>
            s!"PROPFAIL job#{t.k} {jobs.getD t.k "?"} in mode {t.mode} gave {t.hash}, alone it gives {(lookupRef refs (refKind t) t.k).getD "(no reference)"}"
          | none => "OK"
  | _ => "BADOP op"

def main : IO Unit := run stepC18
