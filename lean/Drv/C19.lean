import FqModel.Proto
import FqModel.Bits
import FqModel.Reasm
import FqModel.Gopacket
/-! driver for C19 — TCP streams and IPv4 datagrams are reassembled exactly

  case line (written by harness/cmd/c19, grammar in kase.go / main.go there):
    cap <fmt> <links> [t=<timestamps>] (C <ipA> <portA> <ipB> <portB> <isnA> <isnB> <dataA> <dataB>)+ P (<pkt> | N | N=<links>)* [@note]*
        TAB  fq <format> B=<facts> (S (K <6 client fields> <6 server fields>)* (R <datagram>)*)* T=<same|diff…> X (<call>* flush)(N <call>* flush)*
    linktable TAB <linktype>=<method>…      (the dispatch table of format/pcap/shared.go, dumped from the binary)

  Sections (pcapng): the packets are grouped as fq forms sections (`fqSectioning`, `fqInterfaceLink` of the model:
  the file's sections, each with its own interface table); steps 1-4 below run per section, each with its own reference state and its own recorded calls.
  Addresses are IPv4 or IPv6 (`ipString` models net.IP.String()); only IPv4 is fragmented.

  What is computed for a `cap` line
    1. the abstract packet list is replayed: IPv4 fragments are put together by the REFERENCE `defragGroup`
       (arrival order, per source/destination/identification), TCP headers of reassembled datagrams are parsed,
       giving the list of captured TCP segments per connection and direction;
    2. REFERENCE per direction: `reasmFrom` over the captured segments from the initial sequence number (SYN
       captured) or from the lowest captured byte (no SYN): expected stream, "segments beyond the first hole
       exist", number of missing bytes below the last captured byte;
    3. PREDICATE on fq's observation, against the data the case says was SENT: every connection reported once,
       with the right addresses and ports; each direction's stream = sent[base, first missing byte);
       skipped_bytes > 0 ⇔ something was captured beyond the first missing byte; has_start / has_end only if a
       SYN / FIN of that direction is in the capture; client = sender of the SYN when the capture starts with it;
       ipv4_reassembled = the reference datagrams in order of completion;
    4. MODEL of fq's own code: `newConn` for the first packet of every connection, `reassembledSG` folded over the
       recorded calls of gopacket's assembler (X), `acceptReassembled` for completed datagrams; its result must
       equal fq's report field by field (DIVERGE otherwise); the recorded calls must satisfy the interface
       assumption (`flushDiscipline`, in-order delivery of sent bytes) and the harness must have seen the traced
       Decoder end in the state fq reported (T=same);
    5. the predicate is evaluated twice — in the reference world (every captured segment counts) and in the world of
       the fq model (payload-free segments rejected by `Accept`, `acceptSegment`, never reach the assembler; this
       world feeds the model replay and the interface check).  A PROPFAIL is reported as KNOWN only for
         `seq-wrap`      every failure lies in a direction whose sequence numbers cross 2^32 (`wraps`) and that has
                         (`wrapDupOv`) two captured data segments sharing a byte of which one touches 2^32 — the class of
                         `Props.C19.gopacket_seq_wrap_witness` — or (`wrapEdge`) a data/FIN segment starting at sequence
                         number 2^32-1 (gopacket's Sequence.Difference takes 2^32-1 and 0 for equal: one-byte hole glued
                         over, FIN overtaking the byte at 2^32-1); for such a direction the `exhausts`/`flushes` checks on
                         the recorded calls are skipped too.  A loss at the wrap WITHOUT these (pure reordering: harness
                         family wrap-reorder) is a PROPFAIL.  Only the reference's COUNT of skipped bytes and the byte
                         positions after a skip are still not compared for any disorder across the wrap.
    5a. `Accept`: `acceptReplay` runs `acceptSegment` per connection over the recorded packets; a recorded answer that
       differs is DIVERGE `accept answer differs`; a rejected segment with payload that no accepted segment of the
       direction covers (wrap-aware) is PROPFAIL `Accept rejected needed data`, never excused.
       A T packet may carry a 7th field `x<k>` / `xL`: the record was cut by the snap length (k bytes of the IP packet
       captured / cut inside the link header); both worlds see of it what `visiblePayload` says.
       Fixed in /repo and no longer excused: defrag-length (8dc84a5a), fsm-reorder (1ef5f83b), pcapng-shb-section and
       pcapng-section-length (501642c1), tcp-header-cut (e2e770fa).
    5b. MODEL of gopacket's assembler (`FqModel.Gopacket`, a transliteration of reassembly/tcpassembly.go): the trace
       also holds the INPUT side — one `A…` record per `AssembleWithContext` call (sequence number, flags, payload,
       direction, the half connection's `nextSeq` as gopacket passed it to `Accept`, `Accept`'s answer).  The driver
       feeds these packets to `assembleConn` and compares call by call: the model's `nextSeq` before every packet,
       the `ReassembledSG` call (or none) that follows every packet, and per connection the calls of the final
       `FlushAll` (`flushConn`; the order of the connections in the flush is Go map order and is not compared).
       No excuse for wrap-around here: the model has gopacket's off-by-one `Sequence.Difference`.
    6. `linktable`: the dispatch table dumped from the binary under test must contain `linkToDecodeFn` (every link
       type the generator uses, mapped as the model says); further entries are only counted by the harness.
-/
open FqModel FqModel.Proto FqModel.Reasm

abbrev Bytes := List UInt8

def genBytes (seed : Nat) (n : Nat) : Bytes := Id.run do
  let mut x : UInt64 := UInt64.ofNat seed
  let mut out : Array UInt8 := Array.mkEmpty n
  for _ in [0:n] do
    x := x * 6364136223846793005 + 1442695040888963407
    out := out.push (x >>> 56).toUInt8
  return out.toList

def fnv64 (b : Bytes) : UInt64 :=
  b.foldl (fun h c => (h ^^^ c.toUInt64) * 0x100000001b3) 0xcbf29ce484222325

def hex16 (x : UInt64) : String :=
  String.ofList ((List.range 16).map fun i => hexDigit ((x >>> (UInt64.ofNat (60 - 4 * i))).toNat % 16))

def blob (b : Bytes) : String :=
  if b.length > 2048 then s!"h{hex16 (fnv64 b)}:{b.length}"
  else if b.isEmpty then "-" else hexOfBytes b

def parseData (w : String) : Option Bytes :=
  if w.startsWith "g" then
    match (w.drop 1).toString.splitOn ":" with
    | [s, n] => do
      let s ← s.toNat?
      let n ← n.toNat?
      if n > 1048576 then none else some (genBytes s n)
    | _ => none
  else bytesOfHex w

def hexNat (w : String) : Option Nat :=
  if w.isEmpty then none else w.toList.foldlM (fun a c => (hexVal c).map (a * 16 + ·)) 0

/-- dotted IPv4, or IPv6 as eight colon separated hex groups (no compression) -/
def parseIP (w : String) : Option Bytes := do
  if w.contains ':' then
    let ps := w.splitOn ":"
    if ps.length != 8 then none
    let ns ← ps.mapM hexNat
    if ns.any (· > 65535) then none
    some (ns.flatMap fun n => [UInt8.ofNat (n / 256), UInt8.ofNat (n % 256)])
  else
    let ps := w.splitOn "."
    if ps.length != 4 then none
    let ns ← ps.mapM (·.toNat?)
    if ns.any (· > 255) then none
    some (ns.map UInt8.ofNat)

structure CConn where
  ip : Bytes × Bytes
  port : Nat × Nat
  isn : Nat × Nat
  data : Bytes × Bytes
deriving Inhabited

def sel {β} (p : β × β) (d : Nat) : β := if d == 0 then p.1 else p.2

inductive Pkt
  | t (c d so n : Nat) (syn ack fin : Bool) (cut : Option (Option Nat))   -- cut: none = whole, some none = inside the link header, some (some k) = k bytes of the IP packet captured
  | f (c d id foff : Nat) (mf : Bool) (body : Bytes) (proto : Nat)
deriving Inhabited

/-- a packet with the link type of the interface it was written on and the link type fq uses for it -/
structure FPkt where
  p : Pkt
  link : String
  fqLink : Option String

structure Case where
  fmt : String
  conns : Array CConn
  secs : List (List String × List Pkt)    -- the file's sections: link types of the interfaces, packets

def Case.ng (k : Case) : Bool := k.fmt.startsWith "pcapng"
/-- the sections as fq forms them (`fqSectioning`), every packet with its real and its fq link type
    (`fqInterfaceLink`); packet i of a file section is on interface i mod (number of interfaces) -/
def Case.fqSections (k : Case) : List (List FPkt) :=
  let links := k.secs.map (·.1)
  let fileSecs := (List.range k.secs.length).map fun si =>
    let (ls, ps) := k.secs[si]!
    (List.range ps.length).map fun i =>
      let j := i % ls.length
      (⟨ps[i]!, ls[j]!, fqInterfaceLink links si j⟩ : FPkt)
  fqSectioning fileSecs

def parseDir (w : String) : Option Nat := if w == "a" then some 0 else if w == "b" then some 1 else none

def parsePkt (nconn : Nat) (w : String) : Option Pkt :=
  match w.splitOn ":" with
  | "T" :: c :: d :: so :: n :: fl :: rest => do
    let c ← c.toNat?
    let d ← parseDir d
    let so ← so.toNat?
    let n ← n.toNat?
    if c ≥ nconn then none
    if fl != "-" && fl.toList.any (fun ch => !(ch == 'S' || ch == 'A' || ch == 'F' || ch == 'P')) then none
    let cut ← match rest with
      | [] => some none
      | ["xL"] => some (some none)
      | [w] => if w.startsWith "x" then (w.drop 1).toString.toNat?.map (fun k => some (some k)) else none
      | _ => none
    some (.t c d so n (fl.contains 'S') (fl.contains 'A') (fl.contains 'F') cut)
  | "F" :: c :: d :: id :: fo :: mf :: hx :: rest => do
    let proto ← match rest with
      | [] => some 6
      | [w] => if w.startsWith "p" then (w.drop 1).toString.toNat? else none
      | _ => none
    if proto > 255 then none
    let c ← c.toNat?
    let d ← parseDir d
    let id ← id.toNat?
    let fo ← fo.toNat?
    let body ← bytesOfHex hx
    if c ≥ nconn || fo % 8 != 0 || !(mf == "0" || mf == "1") then none
    some (.f c d id fo (mf == "1") body proto)
  | _ => none

partial def parseConns (ws : List String) (acc : Array CConn) : Option (Array CConn × List String) :=
  match ws with
  | "C" :: ia :: pa :: ib :: pb :: sa :: sb :: da :: db :: rest => do
    let ia ← parseIP ia
    let ib ← parseIP ib
    let pa ← pa.toNat?
    let pb ← pb.toNat?
    let sa ← sa.toNat?
    let sb ← sb.toNat?
    let da ← parseData da
    let db ← parseData db
    if pa > 65535 || pb > 65535 || sa ≥ 4294967296 || sb ≥ 4294967296 then none
    parseConns rest (acc.push ⟨(ia, ib), (pa, pb), (sa, sb), (da, db)⟩)
  | "P" :: rest => some (acc, rest)
  | _ => none

def parseLinks (w : String) : Option (List String) :=
  let links := w.splitOn "+"
  if links.isEmpty || links.any (fun l => (linkSpec l).isNone) then none else some links

def knownFormats : List String :=
  ["pcap_le", "pcap_be", "pcap_le_ns", "pcap_be_ns", "pcapng_le", "pcapng_be", "pcapng_le_len", "pcapng_be_len",
   "pcapng_le_len_big", "pcapng_be_len_big"]

def timeModes : List String := ["dense", "const", "zero", "minutes", "hours", "days", "back", "wrap", "jumps"]

def parseCase (op : String) : Option Case :=
  match (words op).filter (fun w => !w.startsWith "@") with
  | "cap" :: fmt :: links :: rest => do
    if !knownFormats.contains fmt then none
    -- capture timestamps (`t=<mode>[/<resolution>]`): the reference does not depend on them
    -- (Props.C19.reassembly_time_independent); only the spelling is checked
    let rest ← match rest with
      | w :: more =>
        if w.startsWith "t=" then
          match (w.drop 2).toString.splitOn "/" with
          | [m] => if timeModes.contains m then some more else none
          | [m, r] => if timeModes.contains m && ["us", "ns", "ms", "b10", "s"].contains r then some more else none
          | _ => none
        else some rest
      | [] => some rest
    let links ← parseLinks links
    let (conns, ps) ← parseConns rest #[]
    -- split the packet words into sections at `N` / `N=<links>`
    let mut secs : Array (List String × List Pkt) := #[]
    let mut cur : List Pkt := []
    let mut curLinks := links
    for w in ps do
      if w == "N" || w.startsWith "N=" then
        if !fmt.startsWith "pcapng" then none
        secs := secs.push (curLinks, cur.reverse)
        cur := []
        curLinks ← if w == "N" then some links else parseLinks (w.drop 2).toString
      else
        let p ← parsePkt conns.size w
        -- every T packet must lie inside the data its sender sent; fragments only of IPv4 connections
        let ok := match p with
          | .t c d so n _ _ _ _ => n == 0 || (so ≥ 1 && so - 1 + n ≤ (sel conns[c]!.data d).length)
          | .f c _ _ _ _ _ _ => conns[c]!.ip.1.length == 4
        if !ok then none
        cur := p :: cur
    secs := secs.push (curLinks, cur.reverse)
    if conns.any (fun c => c.ip.1.length != c.ip.2.length) then none
    some ⟨fmt, conns, secs.toList⟩
  | _ => none

/-! ### replay of the packet list: defragmentation, TCP segments -/

/-- a captured TCP segment: connection, sender (0 = A, 1 = B), sequence offset relative to the ISN, payload -/
structure Ev where
  c : Nat
  d : Nat
  so : Nat
  data : Bytes
  syn : Bool
  ack : Bool
  fin : Bool

structure Done where
  src : Bytes
  dst : Bytes
  id : Nat
  proto : Nat
  payload : Bytes
  lastLen : Nat        -- total length field of the fragment that completed the datagram
  accepted : Bool      -- `acceptReassembled`: fq's own completion test
deriving Inhabited

def be (b : Bytes) : Nat := b.foldl (fun a x => a * 256 + x.toNat) 0

def ipChecksum (b : Bytes) : Nat := Id.run do
  let rec sum : Bytes → Nat → Nat
    | h :: l :: rest, a => sum rest (a + h.toNat * 256 + l.toNat)
    | [h], a => a + h.toNat * 256
    | [], a => a
  let mut s := sum b 0
  for _ in [0:4] do
    s := s % 65536 + s / 65536
  return 65535 - s

def u16 (n : Nat) : Bytes := [UInt8.ofNat (n / 256 % 256), UInt8.ofNat (n % 256)]

/-- the datagram gopacket serialises for fq (flowsdecoder.go:222-231): header of the completing fragment with
    flags/offset cleared, lengths and checksum fixed -/
def datagram (src dst : Bytes) (id proto : Nat) (payload : Bytes) : Bytes :=
  let h0 : Bytes := [0x45, 0] ++ u16 (20 + payload.length) ++ u16 id ++ [0, 0, 64, UInt8.ofNat proto]
  let h1 : Bytes := src ++ dst
  h0 ++ u16 (ipChecksum (h0 ++ [0, 0] ++ h1)) ++ h1 ++ payload

/-- parse the TCP header of a reassembled datagram and attribute it to a connection of the case -/
def tcpOf (conns : Array CConn) (src dst : Bytes) (p : Bytes) : Option Ev := do
  if p.length < 20 then none
  let sport := be (p.take 2)
  let dport := be ((p.drop 2).take 2)
  let seq := be ((p.drop 4).take 4)
  let doff := (p.getD 12 0).toNat / 16
  let fl := (p.getD 13 0).toNat
  if doff < 5 || doff * 4 > p.length then none
  let data := p.drop (doff * 4)
  let idx := (List.range conns.size).findSome? fun i =>
    let c := conns[i]!
    if c.ip.1 == src && c.ip.2 == dst && c.port.1 == sport && c.port.2 == dport then some (i, 0)
    else if c.ip.2 == src && c.ip.1 == dst && c.port.2 == sport && c.port.1 == dport then some (i, 1)
    else none
  let (c, d) ← idx
  let isn := sel conns[c]!.isn d
  some ⟨c, d, (seq + 4294967296 - isn) % 4294967296, data, fl / 2 % 2 == 1, fl / 16 % 2 == 1, fl % 2 == 1⟩

abbrev FragKey := Bytes × Bytes × Nat

structure Replay where
  groups : FragGroups FragKey UInt8 := []
  evsRef : Array Ev := #[]     -- reference world: every packet of the capture counts
  evsFq : Array Ev := #[]      -- fq model: packets the dispatch table / interface table do not hand to the right decoder are lost
  done : Array Done := #[]
  unseen : Nat := 0            -- packets on an interface whose link type the dispatch table does not serve as specified
  misdecoded : Nat := 0        -- packets for which the model of fq's interface table gives another link type (none since 501642c1)

def replay (conns : Array CConn) (pkts : List FPkt) : Replay := Id.run do
  let mut r : Replay := {}
  for fp in pkts do
    let right := fp.fqLink == some fp.link
    let served := right && match linkSpec fp.link with
      | some (num, dec) => linkToDecodeFn num == some dec
      | none => false
    if !right then r := { r with misdecoded := r.misdecoded + 1 }
    else if !served then r := { r with unseen := r.unseen + 1 }
    match fp.p with
    | .t c d so n syn ack fin cut =>
      let cc := conns[c]!
      let ipHdr := if cc.ip.1.length == 16 then 40 else 20
      -- what is in the file of this segment (`visiblePayload`): none = nothing a decoder can use
      let vis : Option Nat := match cut with
        | none => some n
        | some none => none
        | some (some k) => visiblePayload ipHdr k n
      match vis with
      | some m =>
        let data := if m == 0 then [] else ((sel cc.data d).drop (so - 1)).take m
        let ev : Ev := ⟨c, d, so, data, syn, ack, fin⟩
        r := { r with evsRef := r.evsRef.push ev }
        if served then r := { r with evsFq := r.evsFq.push ev }
      | none => pure ()    -- `reachesAssembler` = false: nothing of the segment reaches the assembler (either world)
    | .f c d id foff mf body proto =>
      let cc := conns[c]!
      let src := sel cc.ip d
      let dst := sel cc.ip (1 - d)
      -- the reference defragmenter of the model, one step (`defragStep`): order of completion
      let (groups, out) := defragStep r.groups (src, dst, id) ⟨foff, mf, body⟩
      r := { r with groups }
      match out with
      | none => pure ()
      | some (_, payload, _) =>
        let acc := acceptReassembled true true     -- a fragment, and it completed the datagram
        -- the datagram is reported whatever it carries; only a TCP segment (protocol 6, complete header) goes on
        -- to the assembler
        let seg := if proto == 6 then tcpOf conns src dst payload else none
        let (recorded, handedOn) := onReassembled seg.isSome (proto == 6)
        r := { r with done := r.done.push ⟨src, dst, id, proto, payload, 20 + body.length, acc && served && recorded⟩ }
        match (if handedOn then seg else none) with
        | none => pure ()
        | some ev =>
          r := { r with evsRef := r.evsRef.push ev }
          if acc && served then r := { r with evsFq := r.evsFq.push ev }
  return r

/-- `Accept` (`acceptSegment`) over the TCP segments that reach the assembler: the accepted ones, and the number of
    rejected (payload-free) SYN / FIN segments -/
def fsmFilter (evs : Array Ev) : Array Ev × Nat := Id.run do
  let mut states : List (Nat × Nat × Fsm) := []     -- connection, direction of its first packet, state
  let mut out : Array Ev := #[]
  let mut rejected := 0
  for e in evs do
    let (first, t) := match states.find? (fun s => s.1 == e.c) with
      | some (_, f, t) => (f, t)
      | none => (e.d, {})
    let r := acceptSegment t e.syn e.ack e.fin false (e.d != first) (!e.data.isEmpty)
    states := (e.c, first, r.1) :: states.filter (fun s => s.1 != e.c)
    if r.2 then out := out.push e
    else if e.syn || e.fin then rejected := rejected + 1
  return (out, rejected)

/-! ### reference per direction -/

structure DirRef where
  present : Bool          -- at least one segment of this direction is in the capture
  hasSyn : Bool
  hasFin : Bool
  base : Nat              -- data offset the stream starts at
  stop : Nat              -- first missing byte
  stream : Bytes          -- reference stream (from the captured payloads)
  beyondHole : Bool
  missing : Nat           -- uncovered byte positions between the first missing byte and the last captured one
  wraps : Bool            -- the sequence numbers in play cross 2^32
  clean : Bool            -- the data segments arrive exactly once and in order, after the SYN and before the FIN
  wrapDupOv : Bool        -- class of `gopacket_seq_wrap_witness`: two captured data segments share a byte (a duplicate
                          -- is a full overlap) and one of them touches the wrap (starts below 2^32, ends at or above it)
  wrapEdge : Bool         -- the other half of the finding (2^32-1 and 0 compare equal): a captured segment of the
                          -- direction (data, or a payload-free FIN) STARTS at sequence number 2^32-1 or the stream itself does

def dirRef (k : Case) (evs : Array Ev) (c d : Nat) : DirRef :=
  let mine := evs.toList.filter fun e => e.c == c && e.d == d
  let dataEvs := mine.filter fun e => !e.data.isEmpty && e.so ≥ 1
  let segs : List (Seg UInt8) := dataEvs.map fun e => Seg.mk' (e.so - 1) e.data
  let hasSyn := mine.any (·.syn)
  let hasFin := mine.any (·.fin)
  let minOff := segs.foldl (fun m s => min m s.off) (maxStop segs)
  let base := if hasSyn then 0 else minOff
  let r := reasmFrom segs base
  let stop := prefixEnd segs base
  let isn := sel k.conns[c]!.isn d
  let lo := isn + 1 + (if hasSyn then 0 else minOff)
  let hi := isn + 1 + maxStop segs + 1
  -- in order: every data segment continues where the previous one stopped, no data after a FIN, none before the SYN
  let dataInOrder := (segs.foldl (fun (acc : Bool × Nat) s => (acc.1 && s.off == acc.2, s.stop)) (true, base)).1
  let flagsInOrder := (mine.foldl (fun (acc : Bool × Bool × Bool) e =>
      -- (ok, a FIN has been seen, data has been seen)
      let hasData := !e.data.isEmpty
      (acc.1 && !(hasData && acc.2.1) && !(e.syn && acc.2.2), acc.2.1 || e.fin, acc.2.2 || hasData)) (true, false, false)).1
  let clean := dataInOrder && flagsInOrder
  -- absolute (not reduced) sequence ranges of the captured data segments, in arrival order
  let absr : List (Nat × Nat) := dataEvs.map fun e => (isn + e.so, isn + e.so + e.data.length)
  let touchers := (absr.zipIdx).filter fun (r, _) => r.1 < 4294967296 && r.2 ≥ 4294967296
  let wrapDupOv := touchers.any fun (t, ti) =>
    (absr.zipIdx).any fun (r, ri) => ri != ti && r.1 < t.2 && t.1 < r.2
  let wrapEdge := isn + 1 == 4294967295 ||
    mine.any fun e => (!e.data.isEmpty || e.fin) && (isn + e.so == 4294967295 || (e.fin && isn + e.so + e.data.length == 4294967295))
  { present := !mine.isEmpty, hasSyn, hasFin, base, stop, stream := r.1, beyondHole := r.2,
    missing := uncoveredCount segs stop (maxStop segs - stop),
    wraps := lo < 4294967296 && hi ≥ 4294967296, clean, wrapDupOv, wrapEdge }

/-! ### fq's observation -/

structure ODir where
  ip : String
  port : Nat
  skipped : Nat
  start : Bool
  stop : Bool
  stream : String          -- blob text
deriving BEq, Inhabited

structure Call where
  conn : Nat
  s2c : Bool
  start : Bool
  stop : Bool
  skip : Int
  data : Bytes
  flushed : Bool

/-- one `AssembleWithContext` call as recorded in `Accept` -/
structure Inp where
  conn : Nat
  s2c : Bool
  syn : Bool
  fin : Bool
  rst : Bool
  ack : Bool
  seq : Nat
  nextSeq : Int
  accepted : Bool
  startAfter : Bool
  data : Bytes

inductive TEv
  | inp (i : Inp)
  | call (c : Call)
  | flush

structure ObsSec where
  conns : Array (ODir × ODir) := #[]
  reasm : Array String := #[]
  calls : Array Call := #[]
deriving Inhabited

structure Obs where
  format : String
  facts : List (Nat × Nat)       -- pcapng: (length of the SHB, length of the last block) per file section
  secs : Array ObsSec            -- what fq reported, per section
  traced : String
  traceSecs : Array (Array Call) -- the recorded calls, per section of the traced run
  traceEvs : Array (Array TEv) := #[]   -- packets handed to the assembler, calls and the flush marker, in order

def parseFacts (w : String) : Option (List (Nat × Nat)) :=
  if w == "B=-" then some []
  else if !w.startsWith "B=" then none
  else ((w.drop 2).toString.splitOn ",").mapM fun p =>
    match p.splitOn ":" with
    | [a, b] => do
      let a ← a.toNat?
      let b ← b.toNat?
      some (a, b)
    | _ => none

def parseBool01 (w : String) : Option Bool := if w == "1" then some true else if w == "0" then some false else none

def parseODir (ws : List String) : Option ODir :=
  match ws with
  | [ip, port, sk, st, en, stream] => do
    let port ← port.toNat?
    let sk ← sk.toNat?
    let st ← parseBool01 st
    let en ← parseBool01 en
    some ⟨ip, port, sk, st, en, stream⟩
  | _ => none

def parseTraceData (k : Case) (w : String) : Option Bytes :=
  if w.startsWith "r" then
    match (w.drop 1).toString.splitOn ":" with
    | [c, d, off, n] => do
      let c ← c.toNat?
      let d ← parseDir d
      let off ← off.toNat?
      let n ← n.toNat?
      if c ≥ k.conns.size then none
      let src := sel k.conns[c]!.data d
      if off + n > src.length then none
      some ((src.drop off).take n)
    | _ => none
  else bytesOfHex w

def parseCall (k : Case) (flushed : Bool) (w : String) : Option Call :=
  match w.splitOn "." with
  | [c, d, se, skip, data] => do
    let c ← c.toNat?
    let s2c ← if d == "c" then some false else if d == "s" then some true else none
    let (st, en) ← match se.toList with
      | [a, b] => do
        let a ← parseBool01 (String.singleton a)
        let b ← parseBool01 (String.singleton b)
        some (a, b)
      | _ => none
    let skip ← skip.toInt?
    let data ← parseTraceData k data
    some ⟨c, s2c, st, en, skip, data, flushed⟩
  | _ => none

def parseInp (k : Case) (w : String) : Option Inp :=
  match w.splitOn "." with
  | [c, d, fl, seq, ns, af, data] => do
    if !c.startsWith "A" then none
    let c ← (c.drop 1).toString.toNat?
    let s2c ← if d == "c" then some false else if d == "s" then some true else none
    if fl != "-" && fl.toList.any (fun ch => !(ch == 'S' || ch == 'A' || ch == 'F' || ch == 'R')) then none
    let seq ← seq.toNat?
    let ns ← ns.toInt?
    let (acc, st) ← match af.toList with
      | [a, b] => do
        let a ← parseBool01 (String.singleton a)
        let b ← parseBool01 (String.singleton b)
        some (a, b)
      | _ => none
    let data ← parseTraceData k data
    if seq ≥ 4294967296 then none
    some ⟨c, s2c, fl.contains 'S', fl.contains 'F', fl.contains 'R', fl.contains 'A', seq, ns, acc, st, data⟩
  | _ => none

partial def parseObsBody (k : Case) (ws : List String) (o : Obs) : Option Obs :=
  match ws with
  | [] => none
  | "S" :: rest => parseObsBody k rest { o with secs := o.secs.push {} }
  | "K" :: rest =>
    if rest.length < 12 || o.secs.isEmpty then none else do
      let c ← parseODir (rest.take 6)
      let s ← parseODir ((rest.drop 6).take 6)
      parseObsBody k (rest.drop 12) { o with secs := o.secs.modify (o.secs.size - 1) fun x => { x with conns := x.conns.push (c, s) } }
  | "R" :: d :: rest =>
    if o.secs.isEmpty then none
    else parseObsBody k rest { o with secs := o.secs.modify (o.secs.size - 1) fun x => { x with reasm := x.reasm.push d } }
  | t :: "X" :: rest =>
    if !t.startsWith "T=" then none else do
      let mut flushed := false
      let mut calls : Array Call := #[]
      let mut secs : Array (Array Call) := #[]
      let mut evs : Array TEv := #[]
      let mut esecs : Array (Array TEv) := #[]
      for w in rest do
        if w == "flush" then
          if flushed then none
          flushed := true
          evs := evs.push .flush
        else if w == "N" then
          -- every section is flushed exactly once, at its end
          if !flushed then none
          secs := secs.push calls
          esecs := esecs.push evs
          calls := #[]
          evs := #[]
          flushed := false
        else if w.startsWith "A" then
          -- no packet reaches the assembler after the flush
          if flushed then none
          let i ← parseInp k w
          evs := evs.push (.inp i)
        else
          let c ← parseCall k flushed w
          calls := calls.push c
          evs := evs.push (.call c)
      if !flushed then none
      some { o with traced := (t.drop 2).toString, traceSecs := secs.push calls, traceEvs := esecs.push evs }
  | _ => none

def parseObs (k : Case) (obs : String) : Option Obs :=
  match words obs with
  | "fq" :: fmt :: facts :: rest => do
    let facts ← parseFacts facts
    parseObsBody k rest ⟨fmt, facts, #[], "", #[], #[]⟩
  | _ => none

/-! ### the model of fq's part, run on the recorded calls -/

/-- connections in the order fq's `New` is called: first TCP segment of each 4-tuple; (case connection, sender of
    that first segment) -/
instance : Inhabited (Conn UInt8) := ⟨{}⟩

def connOrder (evs : Array Ev) : Array (Nat × Nat) :=
  (firstSeen (evs.toList.map fun e => (e.c, e.d))).toArray

def modelConns (k : Case) (order : Array (Nat × Nat)) (calls : Array Call) : Option (Array (Conn UInt8)) := do
  let mut conns : Array (Conn UInt8) := order.map fun (c, d) =>
    let cc := k.conns[c]!
    newConn (sel cc.ip d) (sel cc.ip (1 - d)) (u16 (sel cc.port d)) (u16 (sel cc.port (1 - d)))
  for cl in calls do
    if cl.conn ≥ conns.size then none
    conns := conns.modify cl.conn fun t => reassembledSG t ⟨cl.s2c, cl.start, cl.stop, cl.skip, cl.data⟩
  return conns

def oDirOf (d : Dir UInt8) : ODir :=
  let f := fieldFlowsDir d
  ⟨f.ip, f.port, f.skippedBytes, f.hasStart, f.hasEnd, blob d.buffer⟩

def showODir (d : ODir) : String :=
  s!"{d.ip} {d.port} {d.skipped} {if d.start then 1 else 0} {if d.stop then 1 else 0} {(d.stream.take 40).toString}"

/-- interface assumption on one direction's recorded chunks: flush discipline and in-order delivery of sent bytes -/
def interfaceOK (sent : Bytes) (base : Nat) (chunks : List Call) : Bool :=
  flushDiscipline false (chunks.map fun c => (c.skip, c.flushed)) &&
  (chunks.foldl (fun (acc : Bool × Nat) c =>
      let p := if c.skip > 0 then acc.2 + c.skip.toNat else acc.2
      (acc.1 && c.skip ≥ -1 && c.data == (sent.drop p).take c.data.length && p + c.data.length ≤ sent.length,
       p + c.data.length)) (true, base)).1

/-! ### the model of gopacket's assembler, run on the recorded packets and compared call by call -/

instance : Inhabited (Gopacket.GConn UInt8) := ⟨{}⟩

def showCall (c : SGCall UInt8) : String :=
  s!"{if c.serverToClient then "s" else "c"}.{if c.start then 1 else 0}{if c.stop then 1 else 0}.{c.skip}.{c.data.length}b"

def sameCall (m : SGCall UInt8) (c : Call) : Bool :=
  m.serverToClient == c.s2c && m.start == c.start && m.stop == c.stop && m.skip == c.skip && m.data == c.data

/-- replay of one section's trace through `FqModel.Gopacket`: first divergence, if any -/
def gopacketReplay (evs : Array TEv) : Option String := Id.run do
  let mut conns : Array (Gopacket.GConn UInt8) := #[]
  -- the call the model expects next (after a packet), and the calls recorded after the flush per connection
  let mut pending : Option (Nat × Option (SGCall UInt8)) := none
  let mut flushed := false
  let mut flushCalls : Array (List Call) := #[]
  let mut npk := 0
  for e in evs do
    match e with
    | .inp i =>
      match pending with
      | some (_, some m) => return some s!"gopacket-model: packet {npk}: model delivers {showCall m}, gopacket nothing"
      | _ => pure ()
      npk := npk + 1
      -- connections are numbered in the order of `New`: a new one is the next index
      if i.conn > conns.size then return some s!"gopacket-model: packet {npk}: connection {i.conn} out of order"
      if i.conn == conns.size then conns := conns.push {}
      let g := conns[i.conn]!
      let h := if i.s2c then g.s2c else g.c2s
      if h.nextSeq != i.nextSeq then
        return some s!"gopacket-model: packet {npk}: nextSeq model={h.nextSeq} gopacket={i.nextSeq}"
      -- tcpassembly.go:662: a.start = nextSeq invalid && SYN; fq's Accept leaves it alone
      if i.startAfter != (i.nextSeq == -1 && i.syn) then
        return some s!"gopacket-model: packet {npk}: Accept changed *start"
      let r := Gopacket.assembleConn g i.s2c i.accepted ⟨i.seq, i.syn, i.fin, i.rst, i.data⟩
      conns := conns.set! i.conn r.1
      pending := some (i.conn, r.2)
    | .call c =>
      if flushed then
        if c.conn ≥ conns.size then return some s!"gopacket-model: flush call for unknown connection {c.conn}"
        flushCalls := flushCalls.modify c.conn (c :: ·)
      else
        match pending with
        | some (ci, some m) =>
          if ci != c.conn || !sameCall m c then
            return some s!"gopacket-model: packet {npk}: call model={ci}.{showCall m} gopacket={c.conn}.{if c.s2c then "s" else "c"}.{if c.start then 1 else 0}{if c.stop then 1 else 0}.{c.skip}.{c.data.length}b"
          pending := none
        | _ => return some s!"gopacket-model: packet {npk}: gopacket delivers a call (skip {c.skip}, {c.data.length} bytes), model nothing"
    | .flush =>
      match pending with
      | some (_, some m) => return some s!"gopacket-model: packet {npk}: model delivers {showCall m}, gopacket nothing"
      | _ => pure ()
      pending := none
      flushed := true
      flushCalls := Array.replicate conns.size []
  -- FlushAll: per connection s2c then c2s
  for ci in [0:conns.size] do
    let m := (Gopacket.flushConn conns[ci]!).2
    let got := (flushCalls.getD ci []).reverse
    if m.length != got.length then
      return some s!"gopacket-model: flush of connection {ci}: model {m.length} calls, gopacket {got.length}"
    for (a, b) in m.zip got do
      if !sameCall a b then
        return some s!"gopacket-model: flush of connection {ci}: call model={showCall a} gopacket skip {b.skip} {b.data.length}b"
  for ci in [0:conns.size] do
    let g := conns[ci]!
    if g.c2s.fault || g.s2c.fault then return some s!"gopacket-model: connection {ci}: slice index out of range in the model"
  return none

/-! ### fq's `Accept` itself: the recorded answers against `Reasm.acceptSegment`

  Per connection the state machine of the model runs over the recorded packets in order (flags and direction as
  gopacket handed them to `Accept`); every recorded answer must be the model's.  Independently of the model: a
  REJECTED segment with payload of which some byte is carried by no accepted segment of the same direction was
  needed (`Props.C19.accept_never_rejects_needed_data`) — distances wrap-aware, measured from the rejected segment's
  own sequence number minus 2^31. -/
instance : Inhabited Fsm := ⟨{}⟩

def acceptReplay (evs : Array TEv) : List String × List String := Id.run do
  let mut states : Array Fsm := #[]
  let mut dv : List String := []
  let mut pf : List String := []
  let inps : List Inp := evs.toList.filterMap fun e => match e with | .inp i => some i | _ => none
  let mut npk := 0
  for i in inps do
    npk := npk + 1
    if i.conn > states.size then
      dv := dv ++ [s!"accept: packet {npk}: connection {i.conn} out of order"]
      break
    if i.conn == states.size then states := states.push {}
    let r := acceptSegment states[i.conn]! i.syn i.ack i.fin i.rst i.s2c (!i.data.isEmpty)
    states := states.set! i.conn r.1
    if r.2 != i.accepted then
      dv := dv ++ [s!"accept answer differs: packet {npk} (seq {i.seq}, {i.data.length} bytes, nextSeq {i.nextSeq}) model={r.2} fq={i.accepted}"]
    if !i.accepted && !i.data.isEmpty then
      let org := (i.seq + 2147483648) % 4294967296     -- i.seq - 2^31
      let rel := fun (q : Nat) => (q + 4294967296 - org) % 4294967296
      let others : List (Seg UInt8) := (inps.zipIdx.filter fun (j, jn) =>
          jn + 1 != npk && j.conn == i.conn && j.s2c == i.s2c && j.accepted && !j.data.isEmpty).map fun (j, _) => Seg.mk' (rel j.seq) j.data
      if (List.range' (rel i.seq) i.data.length).any (fun b => !covered others b) then
        pf := pf ++ [s!"Accept rejected needed data: connection {i.conn} {if i.s2c then "s2c" else "c2s"} seq {i.seq} {i.data.length} bytes (nextSeq {i.nextSeq}) carried by no accepted segment"]
  return (dv, pf)

/-! ### verdict -/

structure Findings where
  propfail : List String := []
  wrapOnly : Bool := true      -- every failure so far lies in a direction of class seq-wrap
  diverge : List String := []

def Findings.fail (f : Findings) (why : String) (inWrap : Bool) : Findings :=
  { f with propfail := f.propfail ++ [why], wrapOnly := f.wrapOnly && inWrap }

def Findings.div (f : Findings) (why : String) : Findings := { f with diverge := f.diverge ++ [why] }

/-- the property predicate: fq's report against the SENT data and the reference computed from `evs` -/
def predicate (k : Case) (o : ObsSec) (evs : Array Ev) (dones : List Done) (order : Array (Nat × Nat)) : Findings := Id.run do
  let mut f : Findings := {}
  if o.conns.size != order.size then
    f := f.fail s!"connections reported {o.conns.size} captured {order.size}" false
  let mut seen : List Nat := []
  for (oc, os) in o.conns do
    -- attribution: the reported endpoints are the two endpoints of exactly one connection of the case
    let hit := (List.range k.conns.size).findSome? fun i =>
      let c := k.conns[i]!
      if ipString c.ip.1 == oc.ip && c.port.1 == oc.port && ipString c.ip.2 == os.ip && c.port.2 == os.port then some (i, 0)
      else if ipString c.ip.2 == oc.ip && c.port.2 == oc.port && ipString c.ip.1 == os.ip && c.port.1 == os.port then some (i, 1)
      else none
    match hit with
    | none => f := f.fail s!"unknown connection {oc.ip}:{oc.port} {os.ip}:{os.port}" false
    | some (ci, clientIs) =>
      if seen.contains ci then f := f.fail s!"connection {ci} reported twice" false
      seen := ci :: seen
      let cc := k.conns[ci]!
      -- role: when the capture of this connection starts with the pure SYN, its sender is the client
      match evs.toList.find? (fun e => e.c == ci) with
      | some e0 => if e0.syn && !e0.ack && e0.d != clientIs then f := f.fail s!"connection {ci}: client is not the SYN sender" false
      | none => f := f.fail s!"connection {ci} reported but not captured" false
      for (od, d) in [(oc, clientIs), (os, 1 - clientIs)] do
        let r := dirRef k evs ci d
        let sent := sel cc.data d
        -- `w`: the excuse for a PROPFAIL (known finding seq-wrap), exactly the class of the witnesses
        -- `Props.C19.gopacket_seq_wrap_witness` / `seq_wrap_witness`; `wl`: the wider class in which only the reference's
        -- COUNT of skipped bytes is not compared (every distance across the wrap is one short)
        let w := r.wraps && (r.wrapDupOv || r.wrapEdge)
        let wl := r.wraps && !r.clean
        let expect := (sent.drop r.base).take (r.stop - r.base)
        if od.stream != blob expect then
          f := f.fail s!"connection {ci} {if d == 0 then "A" else "B"}: stream is not sent[{r.base},{r.stop}) got {(od.stream.take 32).toString}" w
        if blob r.stream != blob expect then
          f := f.div s!"reference stream differs from the sent data (case inconsistent) connection {ci}"
        if (od.skipped > 0) != r.beyondHole then
          f := f.fail s!"connection {ci} {if d == 0 then "A" else "B"}: skipped_bytes {od.skipped} but data beyond the first missing byte captured = {r.beyondHole}" w
        if od.start && !r.hasSyn then f := f.fail s!"connection {ci}: has_start without a SYN" false
        if od.stop && !r.hasFin then f := f.fail s!"connection {ci}: has_end without a FIN" false
        -- the exact count is a prediction of the reference model, not part of the property statement
        if od.skipped != r.missing && !wl then
          f := f.div s!"connection {ci} {if d == 0 then "A" else "B"}: skipped_bytes {od.skipped} reference counts {r.missing} missing bytes"
  -- ipv4_reassembled
  let expectR := dones.map fun d => blob (datagram d.src d.dst d.id d.proto d.payload)
  if o.reasm.toList != expectR then
    f := f.fail s!"ipv4_reassembled has {o.reasm.size} datagrams, reference {expectR.length}" false
  return f

structure SecResult where
  refF : Findings
  fqF : Findings
  dv : List String
  dropped : Nat
  fsmRejected : Nat
  misdecoded : Nat
  acceptFail : List String := []

/-- one flows section: fq's report `o` for it and the calls recorded for it against the section's packets -/
def stepSection (k : Case) (pkts : List FPkt) (o : ObsSec) (calls : Array Call) (tevs : Array TEv) : SecResult := Id.run do
  let r := replay k.conns pkts
  let refF := predicate k o r.evsRef r.done.toList (connOrder r.evsRef)
  let dropped := (r.done.toList.filter (fun d => !d.accepted)).length
  -- the same predicate in the world of the fq model (segments rejected by Accept, packets decoded with the wrong
  -- link type are lost)
  let (evsFq, fsmRejected) := fsmFilter r.evsFq
  let fqF := predicate k o evsFq (r.done.toList.filter (·.accepted)) (connOrder r.evsFq)
  -- model of fq's own part on the recorded calls
  let mut dv : List String := fqF.diverge
  let order := connOrder r.evsFq
  match modelConns k order calls with
  | none => dv := dv ++ ["trace names a connection the model does not have"]
  | some conns =>
    if conns.size != o.conns.size then dv := dv ++ [s!"model has {conns.size} connections"]
    else
      for i in [0:conns.size] do
        let m := conns[i]!
        let (oc, os) := o.conns[i]!
        if oDirOf m.client != oc then dv := dv ++ [s!"connection {i} client model={showODir (oDirOf m.client)}"]
        if oDirOf m.server != os then dv := dv ++ [s!"connection {i} server model={showODir (oDirOf m.server)}"]
    -- interface assumption on the recorded calls, per direction
    for i in [0:order.size] do
      let (ci, first) := order[i]!
      for s2c in [false, true] do
        let d := if s2c then 1 - first else first
        let rf := dirRef k evsFq ci d
        let chunks := calls.toList.filter fun c => c.conn == i && c.s2c == s2c
        -- skipped for the class of the known finding; the byte COUNTS of skips (`interfaceOK`) also for every
        -- other disorder across the wrap (gopacket's distances across 2^32 are one short)
        let wx := rf.wraps && (rf.wrapDupOv || rf.wrapEdge)
        if !(rf.wraps && !rf.clean) then
          if !interfaceOK (sel k.conns[ci]!.data d) rf.base chunks then
            dv := dv ++ [s!"interface-assumption (Delivers/FlushOnlyAtEnd) violated by the recorded calls of connection {i} {if s2c then "s2c" else "c2s"}"]
        if !wx then
          -- `exhausts` / `flushes` of Props.C19.GopacketInterface
          let pre := chunks.filter fun c => c.skip == 0 || c.skip == -1
          let post := chunks.filter fun c => c.skip > 0
          let delivered := pre.foldl (fun a c => a + c.data.length) 0
          if rf.base + delivered != rf.stop && !(delivered == 0 && rf.stop ≤ rf.base) then
            dv := dv ++ [s!"interface-assumption (exhausts) connection {i} {if s2c then "s2c" else "c2s"}: {delivered} bytes delivered before the first skip, reference [{rf.base},{rf.stop})"]
          if !post.isEmpty != rf.beyondHole then
            dv := dv ++ [s!"interface-assumption (flushes) connection {i} {if s2c then "s2c" else "c2s"}"]
  -- fq's Accept on the recorded packets
  let (adv, apf) := acceptReplay tevs
  dv := dv ++ adv
  -- the transliterated assembler on the recorded packets
  match gopacketReplay tevs with
  | some w => dv := dv ++ [w]
  | none => pure ()
  -- every segment the fq model hands to the assembler is one recorded packet
  let npk := (tevs.toList.filter fun e => match e with | .inp _ => true | _ => false).length
  if npk != r.evsFq.size then
    dv := dv ++ [s!"gopacket-model: {npk} packets reached the assembler, the fq model hands on {r.evsFq.size}"]
  let modelR := (r.done.toList.filter (·.accepted)).map fun d => blob (datagram d.src d.dst d.id d.proto d.payload)
  if modelR != o.reasm.toList then dv := dv ++ [s!"ipv4_reassembled model has {modelR.length}"]
  return ⟨refF, fqF, dv, dropped, fsmRejected, r.misdecoded, apf⟩

def Findings.merge (a b : Findings) : Findings :=
  ⟨a.propfail ++ b.propfail, a.wrapOnly && b.wrapOnly, a.diverge ++ b.diverge⟩

def stepCap (k : Case) (o : Obs) : String := Id.run do
  let secs := k.fqSections
  let mut refF : Findings := {}
  let mut fqF : Findings := {}
  let mut dv : List String := []
  if o.format != (if k.ng then "pcapng" else "pcap") then refF := refF.fail s!"format {o.format}" false
  if o.traced != "same" then dv := dv ++ [s!"traced-decoder-state-{o.traced}"]
  if o.secs.size != secs.length || o.traceSecs.size != secs.length then
    dv := dv ++ [s!"sections: fq reports {o.secs.size}, traced {o.traceSecs.size}, model {secs.length}"]
    -- fq reports ONE section for a file with several: is anything lost or invented when the file is read as
    -- one capture?  (the harness then traced one decoder over all packets)
    if o.secs.size == 1 && o.traceSecs.size == 1 then
      let r := stepSection k secs.flatten o.secs[0]! o.traceSecs[0]! (o.traceEvs.getD 0 #[])
      refF := refF.merge r.refF
      for w in r.acceptFail do refF := refF.fail w false
      fqF := fqF.merge r.fqF
  else
    for i in [0:secs.length] do
      let r := stepSection k secs[i]! o.secs[i]! o.traceSecs[i]! (o.traceEvs.getD i #[])
      let tag := fun (l : List String) => if secs.length == 1 then l else l.map fun w => s!"section {i}: {w}"
      refF := refF.merge { r.refF with propfail := tag r.refF.propfail }
      for w in tag r.acceptFail do refF := refF.fail w false
      fqF := fqF.merge { r.fqF with propfail := tag r.fqF.propfail }
      dv := dv ++ tag r.dv
  let suffix := match dv with
    | [] => ""
    | w :: _ => s!" ;DIVERGE model={w}"
  if refF.propfail.isEmpty then
    match dv with
    | [] => return "OK"
    | w :: _ => return s!"DIVERGE model={w}"
  -- the only class still excused: seq-wrap (gopacket).  fsm-reorder, pcapng-shb-section, pcapng-section-length and
  -- defrag-length are fixed in /repo: what they produced is a PROPFAIL again.
  if refF.wrapOnly then
    return s!"KNOWN seq-wrap {refF.propfail.head!}{suffix}"
  return s!"PROPFAIL {refF.propfail.head!}{suffix}"

/-- `linktable`: every link type the model / generator USES must be dispatched to the decoder the model expects
    (`linkToDecodeFn`); a missing or re-mapped one is a divergence.  Further entries of fq's table (link types
    the generator does not write) are not the property's business: the harness reports them as a statistic. -/
def stepTable (obs : String) : String :=
  let used := [0, 1, 101, 113, 228, 229, 276]
  let model := used.filterMap fun n => (linkToDecodeFn n).map fun d => (s!"{n}", d.name)
  -- the model serves nothing but the link types the generator uses
  let extra := (List.range 400).filter fun n => (linkToDecodeFn n).isSome && !used.contains n
  if !extra.isEmpty || model.length != used.length then "BADOP model-table"
  else
    let entries := (words obs).map fun w => match w.splitOn "=" with
      | [a, b] => (a, b)
      | _ => (w, "")
    if entries.any (fun e => e.2 == "") then "BADOP obs"
    else
      let bad := model.filter fun (n, d) => entries.lookup n != some d
      match bad with
      | [] => "OK"
      | _ => s!"DIVERGE model={" ".intercalate (bad.map fun (n, d) => s!"{n}={d}")} (fq: {" ".intercalate (bad.map fun (n, _) => s!"{n}={(entries.lookup n).getD "-"}")})"

def stepC19 (op obs : String) : String :=
  if op == "linktable" then stepTable obs
  else match parseCase op with
  | none => "BADOP op"
  | some k =>
    if obs.startsWith "err:" then
      match words obs with
      | [e, facts] => if (parseFacts facts).isSome then s!"PROPFAIL fq-failed {e}" else "BADOP obs"
      | _ => "BADOP obs"
    else match parseObs k obs with
    | none => "BADOP obs"
    | some o => stepCap k o

def main : IO Unit := run stepC19
