import FqModel.Proto
import FqModel.CtxStack
import FqModel.CtxReadSeeker
/-! driver for C20

  `seq|interp [@note]* <op>;<op>;…` TAB `<obs>;<obs>;…`
      op  = `p-` | `p<i>` | `f<i>` | `i` | `s`      (Push / cancel closure of the i-th push / interrupt / Stop)
            `b<i>` | `d`   (blocked Read on a ctxreadseeker bound to context i / the underlying read returns;
                            such lines carry a third observation field B | c | d | -)
      obs = `<e>/<w>[!]` after the op: e[j] = 1 iff Err() ≠ nil of the j-th pushed context,
            w[j] = 1 iff a Write through the CtxWriter bound to context j reached the sink,
            `!` = the op panicked.
      verdict: the property statement (the abstract specification `Spec`, evaluated independently of
      the machine model; `w = ¬e`; a panic only for a second Stop), then model (`Variant.fixed`) = impl.
  `lin [@note]* <events>` TAB `-`
      a recorded two-thread history, see `linVerdict`.
  `rs <closer 0|1> <schedule>` TAB `<ev>,<ev>,…|max=<n>|closes=<n>`
      a harness schedule driven through the real ctxreadseeker with an instrumented underlying reader;
      ev = `c:r|c:s|c:c` (Reader.Read/Seek/Close called) | `x` (cancel) | `ok` | `er` (call returned nil / ctx error)
           | `Br|Bs|Bc` / `Er|Es|Ec` (underlying Read/Seek/Close entered / returned) | `T:<what>` (a wait timed out);
      max = the largest number of operations in flight on the underlying reader (atomic counter).
      verdict: the monitor `CtxRS.Mon.ok` over the recorded events (PROPFAIL), then the recorded sequence
      must be a trace of the model `CtxRS` (`accepts .fixed`), else DIVERGE.
-/
open FqModel FqModel.CtxStack FqModel.Proto

def parseOp (w : String) : Option Op :=
  if w == "i" then some .interrupt
  else if w == "s" then some .stop
  else if w == "p-" then some (.push none)
  else match w.toList with
    | 'p' :: ds => (String.ofList ds).toNat?.map (fun n => .push (some n))
    | 'f' :: ds => (String.ofList ds).toNat?.map .finish
    | _ => none

def parseROp (w : String) : Option ROp :=
  if w == "d" then some .data
  else match w.toList with
    | 'b' :: ds => (String.ofList ds).toNat?.map (fun n => .read .ctxAware n)
    | _ => (parseOp w).map .ev

def showOp : Op → String
  | .push none => "p-"
  | .push (some n) => s!"p{n}"
  | .finish i => s!"f{i}"
  | .interrupt => "i"
  | .stop => "s"

def showROp : ROp → String
  | .ev o => showOp o
  | .read _ c => s!"b{c}"
  | .data => "d"

def ropsValid : Nat → List ROp → Bool
  | _, [] => true
  | n, .ev (.push none) :: r => ropsValid (n + 1) r
  | n, .ev (.push (some p)) :: r => p < n && ropsValid (n + 1) r
  | n, .ev (.finish i) :: r => i < n && ropsValid n r
  | n, .read _ c :: r => c < n && ropsValid n r
  | n, _ :: r => ropsValid n r

/-- parents and closure indices must refer to earlier pushes -/
def opsValid : Nat → List Op → Bool
  | _, [] => true
  | n, .push none :: r => opsValid (n + 1) r
  | n, .push (some p) :: r => p < n && opsValid (n + 1) r
  | n, .finish i :: r => i < n && opsValid n r
  | n, _ :: r => opsValid n r

def parseBits (s : String) : Option (List Bool) :=
  s.toList.mapM (fun c => if c == '1' then some true else if c == '0' then some false else none)

def showBits (bs : List Bool) : String := String.ofList (bs.map (fun b => if b then '1' else '0'))

structure ImplObs where
  errs : List Bool
  writes : List Bool
  panicked : Bool
  /-- B | c | d | - -/
  reader : String

def parseObs (s : String) : Option ImplObs :=
  let (s, bang) := if s.endsWith "!" then ((s.dropEnd 1).toString, true) else (s, false)
  match s.splitOn "/" with
  | [e, w] => do
    let e ← parseBits e
    let w ← parseBits w
    some ⟨e, w, bang, "-"⟩
  | [e, w, r] => do
    let e ← parseBits e
    let w ← parseBits w
    if r == "B" || r == "c" || r == "d" || r == "-" then some ⟨e, w, bang, r⟩ else none
  | _ => none

def showObs (o : Obs) : String :=
  s!"{showBits o.errs}/{showBits (o.errs.map not)}{if o.doubleClose || o.rtPanic then "!" else ""}"

def firstDiff (a b : List Bool) : Nat := ((a.zip b).takeWhile (fun (x, y) => x == y)).length

/-- the reader field the model predicts for the step `s → s'` -/
def readerField (s s' : RSt) : String :=
  if s'.results.length > s.results.length then
    (match s'.results.getLast? with | some .cancelled => "c" | _ => "d")
  else if s'.blocked.isSome then "B" else "-"

/-- verdict for one sequence: walk the traces side by side -/
def seqVerdict (ops : List ROp) (impl : List ImplObs) : String := Id.run do
  let mut m := RSt.init
  let mut old := St.init
  let mut sp := Spec.init
  let mut k := 0
  let mut fail : Option String := none
  let mut div : Option String := none
  let mut bad : Option String := none
  let mut oldAgrees := true
  let mut errFail := false
  for (rop, io) in ops.zip impl do
    let spBefore := sp
    let mBefore := m
    m := rstep m rop
    -- the specification sees the stack operations (the evaluator performs none while it is blocked)
    match rop with
    | .ev o =>
      if mBefore.blocked.isSome && o != .interrupt then
        if bad.isNone then bad := some s!"op {k} ({showROp rop}): evaluator operation while a call is blocked"
      sp := sp.step o
      old := step .oldPop old o
    | _ => pure ()
    let want := sp.ctxs.errs
    let isStop := match rop with | .ev .stop => true | _ => false
    let newMisuse := isStop && spBefore.stopped
    if old.obs.errs != io.errs then oldAgrees := false
    if fail.isNone then
      if io.errs.length != want.length then
        fail := some s!"op {k} ({showROp rop}): {io.errs.length} contexts observed, {want.length} pushed"
      else if io.errs != want then
        let j := firstDiff io.errs want
        let what := if io.errs.getD j false then "is cancelled but must be live" else "is live but must be cancelled"
        fail := some s!"op {k} ({showROp rop}): context {j} {what}: impl={showBits io.errs} spec={showBits want}"
        errFail := true
      else if io.writes != io.errs.map not then
        let j := firstDiff io.writes (io.errs.map not)
        let what := if io.writes.getD j false then "a write after cancellation reached the sink" else "a write on a live context was suppressed"
        fail := some s!"op {k} ({showROp rop}): CtxWriter of context {j}: {what}"
      else if io.panicked != newMisuse then
        fail := some (if io.panicked then s!"op {k} ({showROp rop}): panic" else s!"op {k} ({showROp rop}): second Stop did not panic (model: close of closed channel)")
      else
        -- the reader, judged on the implementation's own observation: a context-aware call may be
        -- blocked only while its context is live, and comes back only with data or the cancellation
        let bctx := match m.blocked, mBefore.blocked with
          | some b, _ => some b.ctx
          | none, some b => some b.ctx
          | none, none => (match rop with | .read _ c => some c | _ => none)
        match bctx with
        | some c =>
          if io.reader == "B" && want.getD c false then
            fail := some s!"op {k} ({showROp rop}): the call on the reader bound to context {c} is still blocked although the context is cancelled"
          else if io.reader == "c" && !want.getD c false then
            fail := some s!"op {k} ({showROp rop}): the call came back with the cancellation error although context {c} is live"
          else if io.reader == "d" && rop != .data then
            fail := some s!"op {k} ({showROp rop}): the call came back with data that never arrived"
        | none =>
          if io.reader != "-" then
            fail := some s!"op {k} ({showROp rop}): reader observation {io.reader} without a call"
    if div.isNone then
      let mo := m.st.obs
      if mo.errs != io.errs || (mo.rtPanic || (isStop && mBefore.st.stopped && mBefore.blocked.isNone)) != io.panicked
          || readerField mBefore m != io.reader then
        div := some s!"op{k}:{showObs mo}/{readerField mBefore m}"
    k := k + 1
  let d := match div with | some t => s!" ;DIVERGE model={t}" | none => ""
  match bad with
  | some b => return s!"BADOP {b}"
  | none =>
  match fail with
  | some f =>
    let hint := if oldAgrees && errFail then " [impl agrees with the model of the pop closure before commit c3499288]" else ""
    return s!"PROPFAIL {f}{hint}{d}"
  | none =>
    match div with
    | some t => return s!"DIVERGE model={t}"
    | none => return "OK"

def stripNotes (ws : List String) : List String := ws.filter (fun w => !w.startsWith "@")

def seqLine (opsText obs : String) : String :=
  match (opsText.splitOn ";").filter (· ≠ "") |>.mapM parseROp with
  | none => "BADOP op"
  | some ops =>
    if !ropsValid 0 ops then "BADOP op refers to a push that has not happened"
    else if obs.startsWith "unplanned:" then s!"PROPFAIL fq did not follow the harness plan: {obs.drop 10}"
    else if obs.startsWith "invalid:" then s!"BADOP {obs}"
    else match (obs.splitOn ";").mapM parseObs with
      | none => s!"BADOP obs"
      | some impl =>
        if impl.length != ops.length then s!"BADOP {impl.length} observations for {ops.length} ops"
        else seqVerdict ops impl

/-! ### recorded two-thread histories (`lin`)

  `<E events>|<T events>`, events `,`-separated `<op>:<t0>:<t1>[:<bits>]`. E = the evaluator's
  operations in program order (`o` = atomic snapshot of Err()≠nil of all contexts), T = the
  interrupts in order. The history is accepted iff there is a total order of all events that
  (1) keeps both program orders, (2) puts `a` before `b` whenever `a` returned before `b` was
  invoked (`a.t1 < b.t0`), and (3) run through `Spec.step` makes every snapshot equal to the
  specification's `errs` at that point. Breadth-first over (events of E taken, events of T taken,
  specification state). -/

inductive LOp
  | op (o : Op)
  | snap (bits : List Bool)

structure LEv where
  op : LOp
  t0 : Nat
  t1 : Nat

def parseLEv (w : String) : Option LEv :=
  match w.splitOn ":" with
  | [o, a, b] => do
    let o ← parseOp o
    let a ← a.toNat?
    let b ← b.toNat?
    some ⟨.op o, a, b⟩
  | ["o", a, b, bits] => do
    let a ← a.toNat?
    let b ← b.toNat?
    let bs ← if bits == "-" then some [] else parseBits bits
    some ⟨.snap bs, a, b⟩
  | _ => none

def parseLEvs (s : String) : Option (List LEv) :=
  if s.isEmpty then some [] else (s.splitOn ",").mapM parseLEv

structure LState where
  i : Nat
  j : Nat
  sp : Spec
deriving DecidableEq

def dedup (l : List LState) : List LState :=
  l.foldl (fun acc x => if acc.contains x then acc else x :: acc) []

def linExpand (es ts : Array LEv) (st : LState) : List LState :=
  let a? := es[st.i]?
  let b? := ts[st.j]?
  let takeE : List LState :=
    match a? with
    | none => []
    | some a =>
      -- b must come first if it returned before a was invoked
      if (match b? with | some b => decide (b.t1 < a.t0) | none => false) then []
      else match a.op with
        | .op o => [⟨st.i + 1, st.j, st.sp.step o⟩]
        | .snap bits => if st.sp.ctxs.errs == bits then [⟨st.i + 1, st.j, st.sp⟩] else []
  let takeT : List LState :=
    match b? with
    | none => []
    | some b =>
      if (match a? with | some a => decide (a.t1 < b.t0) | none => false) then []
      else [⟨st.i, st.j + 1, st.sp.step .interrupt⟩]
  takeE ++ takeT

/-- returns `none` if linearizable, else the largest number of events any order could place -/
def linCheck (es ts : Array LEv) : Option Nat := Id.run do
  let total := es.size + ts.size
  let mut frontier : List LState := [⟨0, 0, Spec.init⟩]
  for k in [0:total] do
    let next := dedup (frontier.flatMap (linExpand es ts))
    if next.isEmpty then return some k
    frontier := next
  return none

def linOpsValid (es : List LEv) : Bool :=
  opsValid 0 (es.filterMap (fun e => match e.op with | .op o => some o | .snap _ => none))

def linLine (t : String) : String :=
  match t.splitOn "|" with
  | [e, tt] =>
    match parseLEvs e, parseLEvs tt with
    | some es, some ts =>
      if !linOpsValid es then "BADOP op refers to a push that has not happened"
      else if ts.any (fun b => match b.op with | .op .interrupt => false | _ => true) then "BADOP T events must be interrupts"
      else match linCheck es.toArray ts.toArray with
        | none => "OK"
        | some k =>
          s!"PROPFAIL history is not linearizable against the specification: no admissible order places more than {k} of {es.length + ts.length} events"
    | _, _ => "BADOP events"
  | _ => "BADOP lin"

/-! ### run `copy`: output produced while the evaluation is cancelled

  `copy <method> <flat|nest> cs=<n> n=<n> k=<n>` TAB `c=<chunk lengths>;pre=<bytes in the sink when the
  cancellation was processed>;post=<bytes accepted after it>;err=<nil|canceled|…>;pfx=<0|1>`.
  Model: `copyLen` (= `Writer.copyFrom` on lengths, `copy_len_abstraction`) over the real writer chain
  and contexts, cancellation after `k` chunks. Methods whose `Write` calls are the source's chunks
  are compared with the model exactly (`pre` = model's `written`, `post` = 0, `err`); for the
  buffering ones (bufio) the chunks seen by the CtxWriter are not the source's: `pre` ≤ what the source
  had delivered, `post` = 0. Property predicate (independent of the model): nothing after the chunk
  in flight — `post` ≤ the largest chunk — and the sink holds a prefix of the source. -/

def copyExact : List String :=
  ["copy", "copybuf", "copyn", "copybits", "copybitsbuf", "readerfrom", "writestring", "fprintf",
   "stringwriter", "write"]
def copyBuffered : List String := ["bufio", "bufiocopy"]

def kv (pfx : String) (w : String) : Option Nat :=
  if w.startsWith pfx then (w.drop pfx.length).toNat? else none

def kvs (pfx : String) (w : String) : Option String :=
  if w.startsWith pfx then some (w.drop pfx.length).toString else none

def copyLine (method wr : String) (k : Nat) (obs : String) : String :=
  if obs.startsWith "panic:" then s!"PROPFAIL {obs}"
  else if obs.startsWith "invalid:" then s!"BADOP {obs}"
  else match obs.splitOn ";" with
  | [c, pre, post, err, pfx] =>
    match kvs "c=" c, kv "pre=" pre, kv "post=" post, kvs "err=" err, kv "pfx=" pfx with
    | some c, some pre, some post, some err, some pfx =>
      match (if c == "-" then some [] else (c.splitOn ",").mapM String.toNat?) with
      | none => "BADOP chunk list"
      | some chunks =>
        -- the writer chain and the contexts as the harness builds them
        let (cB, w, top) : Ctxs × Writer × Nat :=
          if wr == "nest" then
            ((Ctxs.empty.withCancel none).withCancel (some 0), Writer.ctx (some 1) (Writer.ctx (some 0) .sink), 1)
          else (Ctxs.empty.withCancel none, Writer.ctx (some 0) .sink, 0)
        let cA := cB.cancel top
        let (mw, merr) := copyLen (fun j => w.passes (ctxAt cB cA (some k) j)) 0 chunks 0
        let inflight := chunks.foldl max 0
        let delivered := (chunks.take k).foldl (· + ·) 0
        -- property predicate
        if pfx != 1 then "PROPFAIL the bytes in the sink are not a prefix of the source's bytes"
        else if post > inflight then
          s!"PROPFAIL {post} bytes reached the sink after the interrupt had cancelled the evaluation (largest chunk {inflight}): output continues after cancellation"
        else if copyExact.contains method then
          let merrS := if merr then "canceled" else "nil"
          if pre == mw && post == 0 && err == merrS then "OK"
          else s!"DIVERGE model=pre={mw};post=0;err={merrS}"
        else if copyBuffered.contains method then
          if post == 0 && pre ≤ delivered then "OK" else s!"DIVERGE model=pre<={delivered};post=0"
        else "BADOP method"
    | _, _, _, _, _ => "BADOP obs"
  | _ => "BADOP obs"

/-- bytes the sink may still accept after the interrupt was processed, end to end: one copy buffer
    (io.Copy 32 KiB, dump.go's buffer) with margin. Measured on the unchanged tree: 0. -/
def e2eBound : Nat := 65536

def e2eLine (obs : String) : String :=
  if obs.startsWith "invalid:" then s!"BADOP {obs}"
  else match obs.splitOn ";" with
  | [trig, pre, post, done] =>
    match kv "trig=" trig, kv "pre=" pre, kv "post=" post, kv "done=" done with
    | some trig, some _, some post, some done =>
      if done != 1 then "PROPFAIL Main did not return"
      else if trig != 1 then "BADOP the interrupt was never delivered (output shorter than K?)"
      else if post > e2eBound then
        s!"PROPFAIL {post} bytes were accepted by stdout after the interrupt had been processed (bound {e2eBound}): output continues after cancellation"
      else if post == 0 then "OK" else "DIVERGE model=post=0"
    | _, _, _, _ => "BADOP obs"
  | _ => "BADOP obs"


/-! ### rs: ctxreadseeker protocol -/

def parseRsEv (w : String) : Option CtxRS.Ev :=
  match w with
  | "c:r" => some (.call .read) | "c:s" => some (.call .seek) | "c:c" => some (.call .close)
  | "x" => some .cancel | "ok" => some (.ret true) | "er" => some (.ret false)
  | "Br" => some (.b .read) | "Bs" => some (.b .seek) | "Bc" => some (.b .close)
  | "Er" => some (.e .read) | "Es" => some (.e .seek) | "Ec" => some (.e .close)
  | _ => none

def rsLine (closer : String) (obs : String) : String :=
  match obs.splitOn "|" with
  | [tr, mx, cl] =>
    match kv "max=" mx, kv "closes=" cl with
    | some mx, some cl =>
      let ws := if tr == "-" then [] else tr.splitOn ","
      match ws.find? (fun w => w.startsWith "T:") with
      | some t => s!"PROPFAIL a wait of the schedule timed out ({t}): a call did not come back / an expected event did not occur"
      | none =>
      match ws.mapM parseRsEv with
      | none => "BADOP events"
      | some evs =>
        let m := CtxRS.monOf evs
        if closer != "0" && closer != "1" then "BADOP closer"
        else if mx > 1 then s!"PROPFAIL {mx} operations on the underlying reader in flight at once (Close/Read/Seek not exclusive)"
        else if m.overlap then "PROPFAIL an operation on the underlying reader began while another was in progress"
        else if m.bad then "BADOP end without begin"
        else if !m.ok then s!"PROPFAIL underlying Close called {m.closes} times for {m.callsClose} Reader.Close calls"
        else if cl < m.closes then s!"BADOP closes={cl} but {m.closes} Bc events"
        else match CtxRS.accepts .fixed (closer == "1") evs with
          | some i => s!"DIVERGE model=event {i} ({ws.getD i "?"}) is not possible in the model after the events before it"
          | none => "OK"
    | _, _ => "BADOP obs"
  | _ => "BADOP obs"

def stepC20 (op obs : String) : String :=
  match stripNotes (words op) with
  | ["seq", t] => seqLine t obs
  | ["interp", t] => seqLine t obs
  | ["lin", t] => linLine t
  | ["rs", c, _] => rsLine c obs
  | ["copy", m, wr, _, _, k] =>
    match kv "k=" k with
    | some k => if wr == "flat" || wr == "nest" then copyLine m wr k obs else "BADOP wr"
    | none => "BADOP k"
  | ["e2e", _, _] => e2eLine obs
  | _ => "BADOP op"

def main : IO Unit := run stepC20
