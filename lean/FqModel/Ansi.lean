/-
  C10 — colour: model of internal/ansi (Code.Wrap 159-164, Len 204-223, Slice 225-253, MakeCode 17-42)
  and of the hexpair/ascii writers with an arbitrary per-byte formatter (`fn` of
  hexpairwriter.New / asciiwriter.New; dump.go:279-280 passes `deco.ByteColor(b).Wrap(Pair(b))`).
  Core Lean only.
-/
import FqModel.Dump
namespace FqModel.Ansi
open FqModel.Dump

def ESC : Char := Char.ofNat 0x1b

/-- ansi.MakeCode: `ESC [ params m` (params = decimal numbers separated by `;`) -/
def code (params : List Char) : List Char := ESC :: '[' :: (params ++ ['m'])

/-- ansi.Code.Wrap with a non-empty reset string -/
def wrap (set reset s : List Char) : List Char := code set ++ s ++ code reset

/-- the scanner shared by ansi.Len and ansi.Slice: `inANSI` from an ESC up to the next `m` -/
def stripGo : Bool → List Char → List Char
  | _, [] => []
  | true, c :: cs => if c = 'm' then stripGo false cs else stripGo true cs
  | false, c :: cs => if c = ESC then stripGo true cs else c :: stripGo false cs

/-- the visible characters -/
def strip (s : List Char) : List Char := stripGo false s

/-- the scanner's state after `s` -/
def stateAfter : Bool → List Char → Bool
  | st, [] => st
  | true, c :: cs => if c = 'm' then stateAfter false cs else stateAfter true cs
  | false, c :: cs => if c = ESC then stateAfter true cs else stateAfter false cs

/-- no escape sequence is left open -/
def balanced (s : List Char) : Prop := stateAfter false s = false

/-- ansi.Len -/
def ansiLen (s : List Char) : Nat := (strip s).length

/-- ansi.Slice(s, 0, stop), second phase: from the first visible character on (`startByte` set),
    copy everything until the visible character number `stop`, then append the reset code -/
def sliceFrom (stop : Nat) : Nat → Bool → List Char → Option (List Char)
  | _, _, [] => none                                       -- loop ended: Slice returns s unchanged
  | l, true, c :: cs => (sliceFrom stop l (c != 'm') cs).map (c :: ·)
  | l, false, c :: cs =>
    if c = ESC then (sliceFrom stop l true cs).map (c :: ·)
    else if l = stop then some (code ['0'])
    else (sliceFrom stop (l + 1) false cs).map (c :: ·)

/-- first phase: skip to the first visible character (leading escape sequences are dropped — quirk kept) -/
def sliceSkip (stop : Nat) : Bool → List Char → Option (List Char)
  | _, [] => none
  | true, c :: cs => sliceSkip stop (c != 'm') cs
  | false, c :: cs => if c = ESC then sliceSkip stop true cs else
      (sliceFrom stop 1 false cs).map (c :: ·)              -- l == start == 0: startByte = i; l++

/-- ansi.Slice(s, 0, stop) for `stop ≥ 1` -/
def ansiSlice0 (stop : Nat) (s : List Char) : List Char := (sliceSkip stop false s).getD s

/-- MultiLineColumn.FlushLine with LenFn = ansi.Len, SliceFn = ansi.Slice (dump.go:360-365), for a
    column that is not the last one -/
def fitCellC (wd : Nat) (s : List Char) : List Char :=
  let s := if ansiLen s > wd then ansiSlice0 wd s else s
  s ++ List.replicate (wd - ansiLen s) ' '

/-! ### the writers with an arbitrary formatter -/

def hexLoopF (fn : UInt8 → List Char) (w : Nat) : Nat → List Char → List UInt8 → List Char
  | _, _, [] => []
  | _, buf, [b] => buf ++ fn b
  | off, buf, b :: b' :: rest =>
    if off % w = w - 1 then buf ++ fn b ++ ['\n'] ++ hexLoopF fn w (off + 1) [] (b' :: rest)
    else hexLoopF fn w (off + 1) (buf ++ fn b ++ [' ']) (b' :: rest)

def hexWriteF (fn : UInt8 → List Char) (w start off : Nat) (p : List UInt8) : List Char × Nat :=
  let pad := hexPadGo w (start - off) off
  let off1 := max off start
  let buf := if off1 > start then [if off1 % w = 0 then '\n' else ' '] else []
  (pad ++ hexLoopF fn w off1 buf p, off1 + p.length)

def hexRunF (fn : UInt8 → List Char) (w start : Nat) : Nat → List (List UInt8) → List Char
  | _, [] => []
  | off, p :: ps => (hexWriteF fn w start off p).1 ++ hexRunF fn w start (hexWriteF fn w start off p).2 ps

def hexBodyF (fn : UInt8 → List Char) (w : Nat) : Nat → List UInt8 → List Char
  | _, [] => []
  | _, [b] => fn b
  | k, b :: b' :: rest => fn b ++ [sepAt w k] ++ hexBodyF fn w (k + 1) (b' :: rest)

def hexSpecF (fn : UInt8 → List Char) (w start : Nat) (bs : List UInt8) : List Char :=
  hexPadGo w start 0 ++ hexBodyF fn w start bs

def asciiLoopF (fn : UInt8 → List Char) (w : Nat) : Nat → List Char → List UInt8 → List Char
  | _, _, [] => []
  | _, buf, [b] => buf ++ fn b
  | off, buf, b :: b' :: rest =>
    if off % w = w - 1 then buf ++ fn b ++ ['\n'] ++ asciiLoopF fn w (off + 1) [] (b' :: rest)
    else asciiLoopF fn w (off + 1) (buf ++ fn b) (b' :: rest)

def asciiWriteF (fn : UInt8 → List Char) (w start off : Nat) (p : List UInt8) : List Char × Nat :=
  let pad := asciiPadGo w (start - off) off
  let off1 := max off start
  let buf := if off1 > start ∧ off1 % w = 0 then ['\n'] else []
  (pad ++ asciiLoopF fn w off1 buf p, off1 + p.length)

def asciiRunF (fn : UInt8 → List Char) (w start : Nat) : Nat → List (List UInt8) → List Char
  | _, [] => []
  | off, p :: ps => (asciiWriteF fn w start off p).1 ++ asciiRunF fn w start (asciiWriteF fn w start off p).2 ps

def asciiBodyF (fn : UInt8 → List Char) (w : Nat) : Nat → List UInt8 → List Char
  | _, [] => []
  | _, [b] => fn b
  | k, b :: b' :: rest =>
    (fn b ++ (if k % w = w - 1 then ['\n'] else [])) ++ asciiBodyF fn w (k + 1) (b' :: rest)

def asciiSpecF (fn : UInt8 → List Char) (w start : Nat) (bs : List UInt8) : List Char :=
  asciiPadGo w start 0 ++ asciiBodyF fn w start bs

/-- dump.go:279 -/
def colourHex (set reset : UInt8 → List Char) (b : UInt8) : List Char := wrap (set b) (reset b) (hexPair b)
/-- dump.go:280 -/
def colourAscii (set reset : UInt8 → List Char) (b : UInt8) : List Char := wrap (set b) (reset b) [safeAscii b]

end FqModel.Ansi
