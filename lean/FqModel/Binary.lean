import FqModel.Bits
/-
  C09 — model of fq's binary values (pkg/interp/binary.go, pkg/interp/binary.jq) and of the
  part of gojq that routes `.[i]`, `.[a:b]`, `length`, `tonumber`, `tostring`, keys to them.

  Transliteration, quirks kept:
   * a number outside an array is the minimal big-endian bit string of its ABSOLUTE value
     (toBigInt + big.Int.Bytes/BitLen ignore the sign), `0` is ONE zero bit      binary.go:80-93
   * a number inside an array is one byte, anything outside 0..255 is byteRangeError  binary.go:71-78
   * `length`/slice bounds are floor(len/unit): the trailing (len mod unit) bits of a
     range that is not unit aligned are not reachable by index or slice          binary.go:349-379
   * JQValueSlice and `.bits`/`.bytes` (when the unit changes) drop `pad`       binary.go:370-391
   * toBitReaderEx / JQValueToGoJQ / tonumber ignore `pad`                      binary.go:62,428,463
   * `stop` rounds up, `start` and `size` round down                            binary.go:400-410

  A reader `br` is modelled by the list of ALL its bits (`src`); that section, multi and zero
  readers deliver exactly slice / concatenation / zeros is C01's subject and is an assumption here.
  Go `int`/`int64` are unbounded `Int`/`Nat` here: start, len, unit and pad are never negative
  (clampIndex guarantees 0 ≤ start ≤ end ≤ length, see `clampIndex`), sizes are < 2^63.
-/
namespace FqModel.Binary
open FqModel

inductive Err
  | byteRange   -- "byte in binary list must be bytes (0-255) got N"           binary.go:50
  | notBinary   -- "value can't be a binary"                                   binary.go:147
  | outside     -- bitiox.Range: "outside buffer"                              bitiox.go:45
  | offset      -- bitio.ErrOffset from a zero reader of negative size          zeroreadatseeker.go:31
  | jqType      -- a gojq type error (index/slice/key of a number, tonumber of an array, …)
  | synthetic   -- "synthetic value can't be a binary": a decode value not backed by input bits     decode.go:450-452
  | unsup       -- combination outside the modelled alphabet (the driver answers BADOP)
deriving Repr, DecidableEq, Inhabited

abbrev Outcome := Except Err

instance {α} [BEq α] : BEq (Outcome α) where
  beq
    | .ok a, .ok b => a == b
    | .error e, .error f => decide (e = f)
    | _, _ => false

/-- interp.Binary (binary.go:297-302): `src` = all bits of `br`, `start,len` = `r` -/
structure Bin where
  src : Bits
  start : Nat
  len : Nat
  unit : Nat
  pad : Nat
deriving Repr, DecidableEq, Inhabited

/-- the range lies inside the reader (what bitiox.Range checks, bitiox.go:45) -/
def Bin.WF (b : Bin) : Prop := b.start + b.len ≤ b.src.length

instance (b : Bin) : Decidable b.WF := by unfold Bin.WF; infer_instance

/-- the bits of the binary's range -/
def Bin.bits (b : Bin) : Bits := slice b.src b.start b.len

/-- the Go type that carries a jq integer: `int` or `*big.Int`.  gojq keeps them apart (normalize.go:18-34: a literal
    is `int` iff it fits; operator.go:477-487: int−int stays `int` unless it overflows, anything with a `*big.Int`
    operand is `*big.Int`, results are not normalised) and binary.go:104-119 has one fast-path branch per type. -/
inductive NumRep | int | big | flt    -- flt: a float64, the carried integer is its truncation toward zero (int(ev) / int64(v))
deriving Repr, DecidableEq, Inhabited

inductive Val
  | bin (b : Bin)
  | dv (b : Bin)                 -- a decode value: only its ToBinary() is modelled (decode.go:449)
  | dvSyn                        -- a SYNTHETIC decode value (scalar.FlagSynthetic): ToBinary() is an error
  | num (n : Int) (rep : NumRep)
  | str (bs : List UInt8)        -- a Go string: raw bytes, not necessarily valid UTF-8
  | arr (vs : List Val)
  | null
  | bool (b : Bool)
  | obj
deriving Repr, Inhabited

/-! ### readers -/

/-- bitiox.Range (bitiox.go:35-49) followed by reading everything: bits `[off, off+n)` of `src` -/
def rangeBits (src : Bits) (off n : Nat) : Outcome Bits :=
  if off + n > src.length then .error .outside else .ok (slice src off n)

/-- what `bitiox.CopyBits(bytes.Buffer, br)` / `bitio.NewIOReader` deliver: zero bits appended up to a byte -/
def padR8 (bs : Bits) : Bits := bs ++ List.replicate ((8 - bs.length % 8) % 8) false

/-- structural byte packing of a bit string whose length is a multiple of 8 (`fuel` ≥ number of bytes) -/
def packBytes : Nat → Bits → List UInt8
  | 0, _ => []
  | f+1, bs => if bs.isEmpty then [] else UInt8.ofNat (ofBitsBE (bs.take 8)) :: packBytes f (bs.drop 8)

/-- bytes read through an IOReader (right padded) -/
def toBytesR (bs : Bits) : List UInt8 := let p := padR8 bs; packBytes p.length p

/-- big.Int.BitLen of |n| -/
def bitLen (n : Nat) : Nat := if n = 0 then 0 else Nat.log2 n + 1

/-- number outside an array, binary.go:80-93 -/
def numBits (n : Int) : Outcome Bits :=
  let a := n.natAbs
  let bl := bitLen a
  if bl = 0 then .ok [false]                                  -- NewBitReader(z[:], 1)
  else
    let padBefore := (8 - bl % 8) % 8
    let bytesBits := toBitsBE (8 * ((bl + 7) / 8)) a           -- bits of bi.Bytes()
    rangeBits bytesBits padBefore bl

/-- number inside an array, binary.go:71-78 -/
def byteBits (n : Int) : Outcome Bits :=
  if n > 255 ∨ n < 0 then .error .byteRange else .ok (toBitsBE 8 n.toNat)

/-- the fast path of binary.go:97-129: `some bytes` iff every member is a 0..255 number or a string -/
def fastPath : List Val → Option (List UInt8)
  | [] => some []
  | .num n .int :: vs =>                                     -- case int: `ev >= 0 && ev <= 255`
    if 0 ≤ n ∧ n ≤ 255 then (fastPath vs).map (UInt8.ofNat n.toNat :: ·) else none
  | .num n .big :: vs =>                                     -- case *big.Int: `ev.Cmp(0) >= 0 && ev.Cmp(255) <= 0`
    if n ≥ 0 ∧ n ≤ 255 then (fastPath vs).map (UInt8.ofNat n.toNat :: ·) else none
  | .num n .flt :: vs =>                                     -- case float64: `b := int(ev); b >= 0 && b <= 255`, byte(ev)
    if n ≥ 0 ∧ n ≤ 255 then (fastPath vs).map (UInt8.ofNat n.toNat :: ·) else none
  | .str s :: vs => (fastPath vs).map (s ++ ·)
  | _ :: _ => none

mutual
/-- toBitReaderEx (binary.go:55-149), all bits of the resulting reader -/
def toBR (inArray : Bool) : Val → Outcome Bits
  | .bin b => rangeBits b.src b.start b.len                   -- :57-62 (pad ignored)
  | .dv b => rangeBits b.src b.start b.len
  | .dvSyn => .error .synthetic                               -- :57-61 ToBinary() fails
  | .str s => .ok (bytesToBits s)
  | .num n _ => if inArray then byteBits n else numBits n      -- toBigInt: both types
  | .arr vs =>
    match fastPath vs with
    | some bytes => .ok (bytesToBits bytes)
    | none => toBRList vs                                     -- :132-145 NewMultiReader
  | .null => .error .notBinary
  | .bool _ => .error .notBinary
  | .obj => .error .notBinary
def toBRList : List Val → Outcome Bits
  | [] => .ok []
  | v :: vs =>
    match toBR true v with
    | .error e => .error e
    | .ok a =>
      match toBRList vs with
      | .error e => .error e
      | .ok b => .ok (a ++ b)
end

/-- NewBinaryFromBitReader (binary.go:304-316) -/
def newBin (bits : Bits) (unit : Nat) : Bin := { src := bits, start := 0, len := bits.length, unit := unit, pad := 0 }

/-- toBinary (binary.go:31-42) -/
def toBinary : Val → Outcome Bin
  | .bin b => .ok b
  | .dv b => .ok b
  | .dvSyn => .error .synthetic
  | v => do let bits ← toBR false v; pure (newBin bits 8)

/-- Binary.toReader (binary.go:488-497), `pad` as the signed value computed by `_toBits` -/
def toReaderBits (src : Bits) (start len : Nat) (pad : Int) : Outcome Bits := do
  let bits ← rangeBits src start len
  if pad = 0 then pure bits
  else if pad < 0 then .error .offset      -- NewMultiReader → endPos(zero reader of negative size) → ErrOffset
  else pure (List.replicate pad.toNat false ++ bits)

/-- `_toBits` (binary.go:158-187); Go `%` is truncated division (`Int.tmod`) -/
def toBitsOp (unit : Nat) (keepRange : Bool) (padToUnits : Int) (c : Val) : Outcome Val := do
  let bv ← toBinary c
  let pad0 : Int := unit * padToUnits
  let pad : Int := if pad0 = 0 then unit else pad0
  let bvpad : Int := Int.tmod (pad - Int.tmod bv.len pad) pad
  if keepRange then
    pure (.bin { bv with unit := unit, pad := bvpad.toNat })
  else
    let bits ← toReaderBits bv.src bv.start bv.len bvpad
    pure (.bin (newBin bits unit))

/-- the granule (in bits) to which `_toBits` pads: `unit * pad_to_units`, or `unit` when that is 0 (binary.go:166-169) -/
def padUnit (unit n : Nat) : Nat := if unit * n = 0 then unit else unit * n

/-- values that are neither binary, string, number nor array (binary.go:146-147) -/
def NonConvertible (v : Val) : Prop := v = .null ∨ (∃ b, v = .bool b) ∨ v = .obj

/-! ### gojq routing (func.go funcIndex2 / sliceJQValue / clampIndex) -/

def clampIndex (i min max : Int) : Int :=
  let i := if i < 0 then i + max else i
  if i < min then min else if i < max then i else max

/-- JQValueLength (binary.go:349) -/
def Bin.length (b : Bin) : Nat := b.len / b.unit

/-- funcIndex2 (JQValue, number) + JQValueIndex (binary.go:356-369) -/
def Bin.index (b : Bin) (i : Int) : Outcome Val :=
  let l : Int := b.length
  let i1 := clampIndex i (-1) l
  let i2 : Int := if i1 < 0 then -2 else if i1 ≥ l then -1 else i1
  if i2 < 0 then .ok .null
  else do
    let bits ← rangeBits b.src (b.start + i2.toNat * b.unit) b.unit     -- toBytesBuffer
    let extraBits := (8 - b.unit % 8) % 8
    pure (.num ((ofBitsBE (padR8 bits) / 2 ^ extraBits : Nat)) .big)   -- new(big.Int).Rsh

/-- sliceJQValue + JQValueSlice (binary.go:370-379) -/
def Bin.slice (b : Bin) (s e : Option Int) : Bin :=
  let l : Int := b.length
  let st : Int := match s with | some i => clampIndex i 0 l | none => 0
  let en : Int := match e with | some i => clampIndex i st l | none => l
  { src := b.src, start := b.start + st.toNat * b.unit, len := (en - st).toNat * b.unit, unit := b.unit, pad := 0 }

inductive Key | bits | bytes | size | start | stop | unit
deriving Repr, DecidableEq, Inhabited

/-- JQValueKey (binary.go:380-415) -/
def Bin.key (b : Bin) : Key → Val
  | .bits => if b.unit = 1 then .bin b else .bin { src := b.src, start := b.start, len := b.len, unit := 1, pad := 0 }
  | .bytes => if b.unit = 8 then .bin b else .bin { src := b.src, start := b.start, len := b.len, unit := 8, pad := 0 }
  | .size => .num (b.len / b.unit : Nat) .big
  | .start => .num (b.start / b.unit : Nat) .big
  | .stop =>
    let stop := b.start + b.len
    let su := stop / b.unit
    .num ((if stop % b.unit ≠ 0 then su + 1 else su : Nat)) .big
  | .unit => .num b.unit .int

/-- JQValueToNumber (binary.go:428-435) -/
def Bin.toNumber (b : Bin) : Outcome Val := do
  let bits ← rangeBits b.src b.start b.len
  let extraBits := (8 - b.len % 8) % 8
  pure (.num ((ofBitsBE (padR8 bits) / 2 ^ extraBits : Nat)) .big)   -- new(big.Int).Rsh

/-- JQValueToGoJQ (binary.go:463-469), used by gojq's `tostring` -/
def Bin.toStr (b : Bin) : Outcome Val := do
  let bits ← rangeBits b.src b.start b.len
  pure (.str (toBytesR bits))

/-- binary.jq:31 `[.[range(.size)]]` -/
def Bin.explode (b : Bin) : Outcome Val := do
  let vs ← (List.range (b.len / b.unit)).mapM (fun (k : Nat) => b.index k)
  pure (.arr vs)

def hexDigitU8 (n : Nat) : UInt8 := if n < 10 then UInt8.ofNat (48 + n) else UInt8.ofNat (87 + n)

/-- `to_hex` (format/text/encoding.go:34-44): ToBitReader, read through an IOReader, hex -/
def toHexOp (c : Val) : Outcome Val := do
  let bits ← toBR false c
  pure (.str ((toBytesR bits).flatMap fun b => [hexDigitU8 (b.toNat / 16), hexDigitU8 (b.toNat % 16)]))

/-! ### the expression language of the property -/

def maxInt : Int := 9223372036854775807

/-- Go type of an integer literal `n` / `(-n)` (normalize.go:19; unary minus keeps the type) -/
def litRep (n : Int) : NumRep := if n.natAbs ≤ maxInt.toNat then .int else .big

/-- `l - r` (operator.go:477-487) -/
def subNum (l : Int) (lr : NumRep) (r : Int) (rr : NumRep) : Val :=
  match lr, rr with
  | .int, .int => if -maxInt - 1 ≤ l - r ∧ l - r ≤ maxInt then .num (l - r) .int else .num (l - r) .big
  | _, _ => .num (l - r) .big

inductive E
  | str (bs : List UInt8)
  | int (n : Int)
  | null
  | bool (b : Bool)
  | obj
  | arr (es : List E)
  | dv (src : Bits) (start len : Nat)
  | dvSyn
  | toBits (unit : Nat) (keepRange : Bool) (padToUnits : Int) (e : E)
  | index (i : Int) (e : E)
  | slice (s t : Option Int) (e : E)
  | key (k : Key) (e : E)
  | length (e : E)
  | toNumber (e : E)
  | toString (e : E)
  | explode (e : E)
  | toHex (e : E)
  | half (k : Int)               -- the float literal k/2 (0.5, -0.5, 255.5 …): only its truncation matters (interp.go:272)
  | sub (k : Int) (e : E)        -- `e - k`, k an integer literal: how fq's own numbers (`*big.Int`) become negative / small
deriving Repr, Inhabited

def onBin (v : Val) (f : Bin → Outcome Val) : Outcome Val :=
  match v with
  | .bin b => f b
  | _ => .error .unsup

mutual
def eval : E → Outcome Val
  | .str bs => .ok (.str bs)
  | .int n => .ok (.num n (litRep n))
  | .null => .ok .null
  | .bool b => .ok (.bool b)
  | .obj => .ok .obj
  | .arr es =>
    match evalList es with
    | .ok vs => .ok (.arr vs)
    | .error e => .error e
  | .dv src start len => .ok (.dv { src := src, start := start, len := len, unit := 8, pad := 0 })
  | .dvSyn => .ok .dvSyn
  | .toBits u k p e =>
    match eval e with
    | .ok v => toBitsOp u k p v
    | .error e => .error e
  | .index i e =>
    match eval e with
    | .ok v => onBin v (·.index i)
    | .error e => .error e
  | .slice s t e =>
    match eval e with
    | .ok v => onBin v (fun b => .ok (.bin (b.slice s t)))
    | .error e => .error e
  | .key k e =>
    match eval e with
    | .ok v => onBin v (fun b => .ok (b.key k))
    | .error e => .error e
  | .length e =>
    match eval e with
    | .ok v => onBin v (fun b => .ok (.num b.length .int))
    | .error e => .error e
  | .toNumber e =>
    match eval e with
    | .ok v => onBin v Bin.toNumber
    | .error e => .error e
  | .toString e =>
    match eval e with
    | .ok v => onBin v Bin.toStr
    | .error e => .error e
  | .explode e =>
    match eval e with
    | .ok v => onBin v Bin.explode
    | .error e => .error e
  | .toHex e =>
    match eval e with
    | .ok v => toHexOp v
    | .error e => .error e
  | .half k => .ok (.num (Int.tdiv k 2) .flt)
  | .sub k e =>
    match eval e with
    | .ok (.num _ .flt) => .error .unsup                     -- float arithmetic is outside the alphabet
    | .ok (.num n r) => .ok (subNum n r k (litRep k))
    | .ok .null => .error .jqType                            -- "cannot subtract: null and number"
    | .ok _ => .error .unsup
    | .error e => .error e
def evalList : List E → Outcome (List Val)
  | [] => .ok []
  | e :: es =>
    match eval e with
    | .error x => .error x
    | .ok v =>
      match evalList es with
      | .error x => .error x
      | .ok vs => .ok (v :: vs)
end

/-! ### well-formedness, used in the statements of Props/C09.lean -/

mutual
def Val.AllWF : Val → Prop
  | .bin b => b.WF
  | .dv b => b.WF
  | .dvSyn => True
  | .arr vs => Val.AllWFList vs
  | .num _ _ => True
  | .str _ => True
  | .null => True
  | .bool _ => True
  | .obj => True
def Val.AllWFList : List Val → Prop
  | [] => True
  | v :: vs => Val.AllWF v ∧ Val.AllWFList vs
end

mutual
def E.DvWF : E → Prop
  | .dv src start len => start + len ≤ src.length
  | .arr es => E.DvWFList es
  | .toBits _ _ _ e => E.DvWF e
  | .index _ e => E.DvWF e
  | .slice _ _ e => E.DvWF e
  | .key _ e => E.DvWF e
  | .length e => E.DvWF e
  | .toNumber e => E.DvWF e
  | .toString e => E.DvWF e
  | .explode e => E.DvWF e
  | .toHex e => E.DvWF e
  | .sub _ e => E.DvWF e
  | .half _ => True
  | .dvSyn => True
  | .str _ => True
  | .int _ => True
  | .null => True
  | .bool _ => True
  | .obj => True
def E.DvWFList : List E → Prop
  | [] => True
  | e :: es => E.DvWF e ∧ E.DvWFList es
end

/-! ### canonical observation (shared with harness/cmd/c09) -/

def hexOfBits (bs : Bits) : String :=
  let bytes := toBytesR bs
  if bytes.isEmpty then "-" else hexOfBytes bytes

def showErr : Err → String
  | .byteRange => "err:byterange"
  | .notBinary => "err:notbinary"
  | .outside => "err:outside"
  | .offset => "err:offset"
  | .jqType => "err:type"
  | .synthetic => "err:synthetic"
  | .unsup => "err:UNSUP"

mutual
def showVal : Val → String
  | .bin b =>
    match rangeBits b.src b.start b.len with
    | .ok bits => s!"b:{b.unit}:{b.start}:{b.len}:{hexOfBits bits}"
    | .error e => showErr e
  | .dv _ => "err:UNSUP"
  | .dvSyn => "err:UNSUP"
  | .num _ .flt => "err:UNSUP"                               -- a float is never observed on its own
  | .num n _ => s!"n:{n}"
  | .str s => "s:" ++ (if s.isEmpty then "-" else hexOfBytes s)
  | .arr vs => "a:[" ++ showVals vs ++ "]"
  | .null => "z"
  | .bool true => "t"
  | .bool false => "f"
  | .obj => "o"
def showVals : List Val → String
  | [] => ""
  | [v] => showVal v
  | v :: vs => showVal v ++ "," ++ showVals vs
end

def showOutcome : Outcome Val → String
  | .ok v => showVal v
  | .error e => showErr e

end FqModel.Binary
