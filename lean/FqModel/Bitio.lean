import FqModel.Bits
/-!
  C01 — model of pkg/bitio/readwrite64.go (Read64 / Write64), bitio.go:173-193 (copyBufBits)
  and buffer.go (Buffer), transliterated branch for branch.  Core Lean only.

  Conventions
  * Go integers are unbounded `Nat` here; `Props.C01.read64_lt` is the side lemma that the value
    accumulated by Read64 stays below 2^nBits ≤ 2^64, so the uint64 arithmetic of Go cannot wrap.
  * Go's bounds-checked indexing / slicing is the explicit outcome `fault` (a Go panic).
    A three-index slice `buf[a:b:b]` panics when `b > cap(buf)`; the model takes cap = len.
  * A loop that Go would never leave (a callback that keeps returning 0 bits and no error) is `hang`
    (the model runs on fuel; the fuel given is always enough for every terminating run).
-/
namespace FqModel.Bitio

inductive Outcome (α : Type) where
  | ok (a : α)
  | fault (why : String)
  | hang
  | unsupported (why : String)   -- the Go type has no such method (driver: BADOP)
deriving Repr, DecidableEq, Inhabited

namespace Outcome
@[inline] def bind {α β} (x : Outcome α) (f : α → Outcome β) : Outcome β :=
  match x with
  | ok a => f a
  | fault w => fault w
  | hang => hang
  | unsupported w => unsupported w
instance : Monad Outcome where
  pure := ok
  bind := bind
def isPanic {α} : Outcome α → Bool
  | fault _ => true
  | _ => false
end Outcome

open Outcome

/-- `buf[i]` with Go's bounds check -/
def idx (buf : List UInt8) (i : Nat) : Outcome Nat :=
  match buf[i]? with
  | some b => ok b.toNat
  | none => fault "index out of range"

/-- `buf[i] = byte(v)` with Go's bounds check; `byte(v)` truncates -/
def setIdx (buf : List UInt8) (i : Nat) (v : Nat) : Outcome (List UInt8) :=
  if i < buf.length then ok (buf.set i (UInt8.ofNat (v % 256))) else fault "index out of range"

/-- binary.BigEndian.Uint16(b[i:]) / Uint32 / Uint64 -/
def be16 (b : List UInt8) (i : Nat) : Outcome Nat := do
  let b0 ← idx b i
  let b1 ← idx b (i+1)
  pure (b0 <<< 8 ||| b1)

def be32 (b : List UInt8) (i : Nat) : Outcome Nat := do
  let b0 ← idx b i
  let b1 ← idx b (i+1)
  let b2 ← idx b (i+2)
  let b3 ← idx b (i+3)
  pure (b0 <<< 24 ||| b1 <<< 16 ||| b2 <<< 8 ||| b3)

def be64 (b : List UInt8) (i : Nat) : Outcome Nat := do
  let hi ← be32 b i
  let lo ← be32 b (i+4)
  pure (hi <<< 32 ||| lo)

/-- readwrite64.go:30-58 `switch bytesLeft - 1` of the aligned fast path of Read64 -/
def read64Fast (nBuf : List UInt8) (n bytesLeft : Nat) : Outcome Nat :=
  match bytesLeft - 1 with
  | 0 => do let b0 ← idx nBuf 0; pure (n <<< 8 ||| b0)
  | 1 => do let x ← be16 nBuf 0; pure (n <<< 16 ||| x)
  | 2 => do let x ← be16 nBuf 0; let b2 ← idx nBuf 2; pure (n <<< 24 ||| (x <<< 8 ||| b2))
  | 3 => do let x ← be32 nBuf 0; pure (n <<< 32 ||| x)
  | 4 => do let x ← be32 nBuf 0; let b4 ← idx nBuf 4; pure (n <<< 40 ||| (x <<< 8 ||| b4))
  | 5 => do let x ← be32 nBuf 0; let y ← be16 nBuf 4; pure (n <<< 48 ||| (x <<< 16 ||| y))
  | 6 => do
    let x ← be32 nBuf 0; let y ← be16 nBuf 4; let b6 ← idx nBuf 6
    pure (n <<< 56 ||| (x <<< 24 ||| y <<< 8 ||| b6))
  | 7 => be64 nBuf 0          -- :55 `n = be.Uint64(nBuf)` (the accumulated n is dropped; it is 0 here)
  | _ => pure n

/-- the loop of Read64 (readwrite64.go:20-95).  `fuel` = nBits+1 (every iteration that does not
    return consumes at least one bit). -/
def read64Loop (buf : List UInt8) : (fuel : Nat) → (n bitPos bitsLeft : Nat) → Outcome Nat
  | 0, n, _, bitsLeft => if bitsLeft = 0 then ok n else hang
  | fuel+1, n, bitPos, bitsLeft =>
    if bitsLeft = 0 then ok n else
    let bytePos := bitPos >>> 3
    let byteBitPos := bitPos &&& 7
    if byteBitPos = 0 ∧ bitsLeft &&& 7 = 0 then
      -- :23 aligned fast path
      let bytesLeft := bitsLeft >>> 3
      -- :26 nBuf := buf[bytePos : bytePos+bytesLeft : bytePos+bytesLeft]
      if bytePos + bytesLeft > buf.length then fault "slice bounds out of range" else
      let nBuf := slice buf bytePos bytesLeft
      read64Fast nBuf n bytesLeft
    else
    -- :61 b := buf[bytePos]
    match buf[bytePos]? with
    | none => fault "index out of range"
    | some b8 =>
      let b := b8.toNat
      if byteBitPos = 0 then
        if bitsLeft ≥ 8 then
          read64Loop buf fuel (n <<< 8 ||| b) (bitPos + 8) (bitsLeft - 8)
        else
          ok (n <<< bitsLeft ||| (b >>> (8 - bitsLeft)))
      else
        let byteBitsLeft := (8 - byteBitPos) &&& 7
        if bitsLeft ≥ byteBitsLeft then
          read64Loop buf fuel (n <<< byteBitsLeft ||| (b &&& ((1 <<< byteBitsLeft) - 1)))
            (bitPos + byteBitsLeft) (bitsLeft - byteBitsLeft)
        else
          ok (n <<< bitsLeft ||| ((b &&& ((1 <<< byteBitsLeft) - 1)) >>> (byteBitsLeft - bitsLeft)))

/-- bitio.Read64(buf, firstBit, nBits) for firstBit ≥ 0 -/
def read64 (buf : List UInt8) (firstBit nBits : Nat) : Outcome Nat :=
  if nBits > 64 then fault "nBits must be 0-64" else read64Loop buf (nBits + 1) 0 firstBit nBits

/-- Read64 with Go's signed firstBit: a negative bit position indexes `buf[-1]` as soon as a bit is read -/
def read64I (buf : List UInt8) (firstBit : Int) (nBits : Nat) : Outcome Nat :=
  if nBits > 64 then fault "nBits must be 0-64"
  else if firstBit < 0 then (if nBits = 0 then ok 0 else fault "index out of range [-1]")
  else read64 buf firstBit.toNat nBits

/-- `be.PutUintK(buf[pos:], uintK(x))` : k bytes of x, big endian -/
def putBE (buf : List UInt8) (pos : Nat) : (k : Nat) → (x : Nat) → Outcome (List UInt8)
  | 0, _ => ok buf
  | k+1, x => do
    let buf ← setIdx buf pos (x >>> (8 * k))
    putBE buf (pos + 1) k x

/-- readwrite64.go:120-142 `switch bytesLeft - 1` of the aligned fast path of Write64 -/
def write64Fast (v : Nat) (buf : List UInt8) (bytePos bytesLeft : Nat) : Outcome (List UInt8) :=
  match bytesLeft - 1 with
  | 0 => setIdx buf bytePos v
  | 1 => putBE buf bytePos 2 v
  | 2 => do let buf ← putBE buf bytePos 2 (v >>> 8); setIdx buf (bytePos + 2) v
  | 3 => putBE buf bytePos 4 v
  | 4 => do let buf ← putBE buf bytePos 4 (v >>> 8); setIdx buf (bytePos + 4) v
  | 5 => do let buf ← putBE buf bytePos 4 (v >>> 16); putBE buf (bytePos + 4) 2 v
  | 6 => do
    let buf ← putBE buf bytePos 4 (v >>> 24)
    let buf ← putBE buf (bytePos + 4) 2 (v >>> 8)
    setIdx buf (bytePos + 6) v
  | 7 => putBE buf bytePos 8 v
  | _ => ok buf

/-- the loop of Write64 (readwrite64.go:108-172) -/
def write64Loop (v : Nat) : (fuel : Nat) → (buf : List UInt8) → (bitPos bitsLeft : Nat) → Outcome (List UInt8)
  | 0, buf, _, bitsLeft => if bitsLeft = 0 then ok buf else hang
  | fuel+1, buf, bitPos, bitsLeft =>
    if bitsLeft = 0 then ok buf else
    let bytePos := bitPos >>> 3
    let byteBitPos := bitPos &&& 7
    if byteBitPos = 0 ∧ bitsLeft &&& 7 = 0 then
      let bytesLeft := bitsLeft >>> 3
      if bytePos + bytesLeft > buf.length then fault "slice bounds out of range" else
      write64Fast v buf bytePos bytesLeft
    else
    match buf[bytePos]? with
    | none => fault "index out of range"
    | some b8 =>
      let b := b8.toNat
      if byteBitPos = 0 then
        if bitsLeft ≥ 8 then do
          -- :147 buf[bytePos] = byte(v >> (bitsLeft - 8))
          let buf ← setIdx buf bytePos (v >>> (bitsLeft - 8))
          write64Loop v fuel buf (bitPos + 8) (bitsLeft - 8)
        else
          -- :151 buf[bytePos] = byte(v)<<extraBits | b&((1<<extraBits)-1)
          let extraBits := 8 - bitsLeft
          setIdx buf bytePos ((((v % 256) <<< extraBits) % 256) ||| (b &&& ((1 <<< extraBits) - 1)))
      else
        let byteBitsLeft := (8 - byteBitPos) &&& 7
        if bitsLeft ≥ byteBitsLeft then do
          -- :160 bMask := byte((1<<byteBitPos)-1) << (8 - byteBitPos)
          let bMask := ((((1 <<< byteBitPos) - 1) % 256) <<< (8 - byteBitPos)) % 256
          let buf ← setIdx buf bytePos ((b &&& bMask) ||| ((v >>> (bitsLeft - byteBitsLeft)) % 256))
          write64Loop v fuel buf (bitPos + byteBitsLeft) (bitsLeft - byteBitsLeft)
        else
          -- :166
          let extraBits := byteBitsLeft - bitsLeft
          let bMask := (((((1 <<< byteBitPos) - 1) <<< (8 - byteBitPos)) ||| ((1 <<< extraBits) - 1))) % 256
          setIdx buf bytePos ((b &&& bMask) ||| (((v % 256) <<< extraBits) % 256))

/-- bitio.Write64(v, nBits, buf, firstBit) -/
def write64 (v nBits : Nat) (buf : List UInt8) (firstBit : Nat) : Outcome (List UInt8) :=
  if nBits > 64 then fault "nBits must be 0-64" else write64Loop v (nBits + 1) buf firstBit nBits

/-- bitio.BitsByteCount -/
def bitsByteCount (nBits : Nat) : Nat := if nBits % 8 ≠ 0 then nBits / 8 + 1 else nBits / 8

/-- the chunk loop of copyBufBits (bitio.go:176-185) -/
def copyLoop (src : List UInt8) (srcStart dstStart : Nat) :
    (fuel : Nat) → (dst : List UInt8) → (off l : Nat) → Outcome (List UInt8)
  | 0, dst, _, l => if l = 0 then ok dst else hang
  | fuel+1, dst, off, l =>
    if l = 0 then ok dst else do
    let c := min l 64
    let u ← read64 src (srcStart + off) c
    let dst ← write64 u c dst (dstStart + off)
    copyLoop src srcStart dstStart fuel dst (off + c) (l - c)

/-- copyBufBits(dst, dstStart, src, srcStart, n, zero) (bitio.go:173-193) -/
def copyBufBits (dst : List UInt8) (dstStart : Nat) (src : List UInt8) (srcStart n : Nat) (zero : Bool) :
    Outcome (List UInt8) := do
  let dst ← copyLoop src srcStart dstStart (n / 64 + 2) dst 0 n
  let e := dstStart + n
  if zero ∧ e % 8 ≠ 0 then write64 0 (8 - e % 8) dst e else pure dst

/-! ### bitio.Buffer (buffer.go) -/

structure Buffer where
  buf : List UInt8 := []
  bufBits : Nat := 0
  bitsOff : Nat := 0
deriving Repr, DecidableEq, Inhabited

def Buffer.len (b : Buffer) : Nat := b.bufBits - b.bitsOff

def Buffer.reset (b : Buffer) : Buffer := { b with bufBits := 0, bitsOff := 0 }

/-- Buffer.WriteBits(p, nBits) (buffer.go:34-51).  Growing: bytes between the old length and the new
    one are overwritten completely by copyBufBits (+ zero fill), so fresh zero bytes are faithful. -/
def Buffer.writeBits (b : Buffer) (p : List UInt8) (nBits : Nat) : Outcome Buffer := do
  let tBytes := bitsByteCount (b.bufBits + nBits)
  let buf := if tBytes > b.buf.length then b.buf ++ List.replicate (tBytes - b.buf.length) 0 else b.buf
  let buf ← copyBufBits buf b.bufBits p 0 nBits true
  pure { b with buf := buf, bufBits := b.bufBits + nBits }

inductive Err | eof | offset | negNBits | seek | unexpectedEOF | other
deriving Repr, DecidableEq, Inhabited

/-- Buffer.ReadBits(p, nBits) with `p` = zeroed scratch of `bitsByteCount nBits` bytes (buffer.go:55-72);
    returns the buffer, the bytes written to p, the number of bits, the error -/
def Buffer.readBits (b : Buffer) (nBits : Nat) : Outcome (Buffer × List UInt8 × Nat × Option Err) :=
  if b.bufBits ≤ b.bitsOff then
    if nBits = 0 then ok (b.reset, [], 0, none) else ok (b.reset, [], 0, some .eof)
  else do
    let c := min nBits b.len
    let p ← copyBufBits (List.replicate (bitsByteCount c) 0) 0 b.buf b.bitsOff c true
    pure ({ b with bitsOff := b.bitsOff + c }, p, c, none)

end FqModel.Bitio
