/-
  Shared foundation: bit strings (most significant bit first), bytes <-> bits,
  big-endian value of a bit string.  Core Lean only (no Mathlib) so that drivers link.
-/
namespace FqModel

abbrev Bits := List Bool

/-- value of a bit string, most significant bit first -/
def ofBitsBE (bs : Bits) : Nat := bs.foldl (fun acc b => 2 * acc + (if b then 1 else 0)) 0

/-- the `w` low bits of `n`, most significant first -/
def toBitsBE : (w : Nat) → (n : Nat) → Bits
  | 0, _ => []
  | w+1, n => (n / 2^w % 2 == 1) :: toBitsBE w n

def byteToBits (b : UInt8) : Bits := toBitsBE 8 b.toNat

def bytesToBits (bs : List UInt8) : Bits := bs.flatMap byteToBits

/-- `slice bs off n` = bits `[off, off+n)` (clamped by the list) -/
def slice {α} (bs : List α) (off n : Nat) : List α := (bs.drop off).take n

/-- zero-pad on the right to a multiple of 8 and pack (IOReader / IOBitWriter.Flush) -/
def bitsToBytesPadR (bs : Bits) : List UInt8 :=
  if _h : bs.length = 0 then [] else
    let chunk := bs.take 8
    let v := ofBitsBE (chunk ++ List.replicate (8 - chunk.length) false)
    UInt8.ofNat v :: bitsToBytesPadR (bs.drop 8)
termination_by bs.length
decreasing_by simp; omega

/-- zero-pad on the left up to a multiple of `unit` bits -/
def padL (unit : Nat) (bs : Bits) : Bits :=
  if unit = 0 then bs else List.replicate ((unit - bs.length % unit) % unit) false ++ bs

theorem toBitsBE_length (w n : Nat) : (toBitsBE w n).length = w := by
  induction w with
  | zero => rfl
  | succ w ih => simp [toBitsBE, ih]

theorem byteToBits_length (b : UInt8) : (byteToBits b).length = 8 := toBitsBE_length 8 _

theorem bytesToBits_length (bs : List UInt8) : (bytesToBits bs).length = 8 * bs.length := by
  induction bs with
  | nil => rfl
  | cons b bs ih =>
    simp only [bytesToBits, List.flatMap_cons, List.length_append, byteToBits_length] at *
    simp only [List.length_cons]; omega

theorem ofBitsBE_append_bit (bs : Bits) (b : Bool) :
    ofBitsBE (bs ++ [b]) = 2 * ofBitsBE bs + (if b then 1 else 0) := by
  simp [ofBitsBE, List.foldl_append]

theorem foldl_bits_lt (bs : Bits) (acc k : Nat) (h : acc < 2 ^ k) :
    bs.foldl (fun acc b => 2 * acc + (if b then 1 else 0)) acc < 2 ^ (k + bs.length) := by
  induction bs generalizing acc k with
  | nil => simpa using h
  | cons b bs ih =>
    simp only [List.foldl_cons, List.length_cons]
    have := ih (2 * acc + (if b then 1 else 0)) (k + 1) (by rw [Nat.pow_succ]; split <;> omega)
    rwa [Nat.add_assoc, Nat.add_comm 1] at this

theorem ofBitsBE_lt (bs : Bits) : ofBitsBE bs < 2 ^ bs.length := by
  have := foldl_bits_lt bs 0 0 (by simp)
  simpa [ofBitsBE] using this

theorem slice_length_le {α} (bs : List α) (off n : Nat) : (slice bs off n).length ≤ n := by
  simp [slice, List.length_take]; omega

theorem slice_length {α} (bs : List α) (off n : Nat) (h : off + n ≤ bs.length) :
    (slice bs off n).length = n := by
  simp [slice, List.length_take]; omega

/-! hex helpers used by every driver -/

def hexDigit (n : Nat) : Char :=
  if n < 10 then Char.ofNat (48 + n) else Char.ofNat (87 + n)

def hexOfBytes (bs : List UInt8) : String :=
  String.ofList (bs.flatMap fun b => [hexDigit (b.toNat / 16), hexDigit (b.toNat % 16)])

def hexVal (c : Char) : Option Nat :=
  if '0' ≤ c ∧ c ≤ '9' then some (c.toNat - 48)
  else if 'a' ≤ c ∧ c ≤ 'f' then some (c.toNat - 87)
  else if 'A' ≤ c ∧ c ≤ 'F' then some (c.toNat - 55)
  else none

def bytesOfHexChars : List Char → Option (List UInt8)
  | [] => some []
  | [_] => none
  | a :: b :: rest => do
    let x ← hexVal a
    let y ← hexVal b
    let r ← bytesOfHexChars rest
    pure (UInt8.ofNat (16 * x + y) :: r)

def bytesOfHex (s : String) : Option (List UInt8) :=
  if s == "-" then some [] else bytesOfHexChars s.toList

/-- bits as a string of '0'/'1' ("-" when empty) -/
def bitsToStr (bs : Bits) : String :=
  if bs.isEmpty then "-" else String.ofList (bs.map fun b => if b then '1' else '0')

def bitsOfStr (s : String) : Option Bits :=
  if s == "-" then some [] else
  s.toList.mapM fun c => if c == '0' then some false else if c == '1' then some true else none

end FqModel
