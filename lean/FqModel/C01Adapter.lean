import FqModel.C01Spec
/-!
  C01 — bit → byte → bit ADAPTER nestings: `bitio.NewIOReadSeeker(r)` over a bit reader, `bitio.NewIOBitReadSeeker`
  over that, to any depth.  Specification side: seek policies, the interface a bit source must satisfy for
  `IOReadSeeker.Seek` (ioreadseeker.go:26-39) to be right, and the specification machines.

  What IOReadSeeker needs from its source (the "byte regular" side condition, `RegSrc`):
   * the source denotes a whole number of bytes (`len8`);
   * a ReadBits of a multiple of 8 bits at a byte aligned position returns a multiple of 8 bits (`read`) —
     so that IOReader's bit buffer `r.b` is EMPTY between calls and the source stands at 8·(bytes delivered);
   * SeekBits(8·o, w) lands on start/current/end + 8·o or is rejected leaving the cursor alone (`seek`).
  Under it Seek's comparison `n != r.sPos` of a BIT position with a BYTE position (ioreadseeker.go:30) is harmless: the
  buffer it fails to drop (or drops) is empty and `n/8` is exact.  Each of the three conditions is necessary:
  see the witnesses in Props/C01.lean (`ioReadSeeker_unaligned_len_witness`, `…_short_read_witness`,
  `…_stale_buffer_witness`) — the known finding `ioreadseeker-unaligned-seek`.
-/
namespace FqModel.Bitio
open Outcome

/-- seek policy of a source: the error class with which a seek to the absolute target T is rejected (none = accepted) -/
abbrev SeekPol := Int → Option Err

/-- bytes.Reader / os.File: only a negative target is rejected ("negative position" / EINVAL) -/
def stdPol : SeekPol := fun T => if T < 0 then some .seek else none
/-- SectionReader.SeekBits (sectiontreader.go:47-63): only a negative target is rejected, with ErrOffset -/
def sectPol : SeekPol := fun T => if T < 0 then some .offset else none
/-- MultiReader.SeekBits (multireader.go:86-104): a target outside [0, len] is rejected with ErrOffset -/
def multiPol (len : Nat) : SeekPol := fun T => if T < 0 ∨ (len : Int) < T then some .offset else none
/-- the byte view of a bit source: IOReadSeeker.Seek(o) = SeekBits(8·o) -/
def bytePolOf (p : SeekPol) : SeekPol := fun T => p (T * 8)

/-- every non-negative target is accepted (bytes.Reader, SectionReader and the byte view of a SectionReader) -/
def AcceptsNonneg (p : SeekPol) : Prop := ∀ T : Int, 0 ≤ T → p T = none

def seekResP (p : SeekPol) (T : Int) : Res :=
  match p T with
  | some e => { err := some e }
  | none => { n := T }

/-- `sub` behaves like an io.ReadSeeker over `data` whose Seek follows policy `p` (`ByteOK` = the case `stdPol`) -/
def ByteOKP (p : SeekPol) (sub : Sub) (data : List UInt8) (I : Rd → Nat → Prop) : Prop :=
  ReadsAt sub data I ∧
  ∀ s pos (o : Int) (w : Whence), I s pos →
    ∃ s', sub s (.seekB o w) = .ok (s', seekResP p (seekTarget data.length pos o w)) ∧
      I s' (if (p (seekTarget data.length pos o w)).isSome then pos else (seekTarget data.length pos o w).toNat)

/-- the interface IOReadSeeker needs: a byte regular, seekable, sequential bit reader over D (see the header) -/
structure RegSrc (p : SeekPol) (sub : Sub) (D : Bits) (I : Rd → Nat → Prop) : Prop where
  len8 : D.length % 8 = 0
  read : ∀ s pos n, 0 < n → n % 8 = 0 → pos % 8 = 0 → I s pos →
    ∃ s' res, sub s (.read n) = .ok (s', res) ∧ res.q = 0 ∧ res.bits = slice D pos res.bits.length ∧
      res.bits.length ≤ n ∧ res.bits.length % 8 = 0 ∧ I s' (pos + res.bits.length) ∧
      ((res.err = none ∧ res.bits ≠ [] ∧ pos + res.bits.length ≤ D.length) ∨
       (res.err = some .eof ∧ pos + res.bits.length = max pos D.length))
  seek : ∀ s pos (o : Int) (w : Whence), o % 8 = 0 → pos % 8 = 0 → I s pos →
    ∃ s', sub s (.seek o w) = .ok (s', seekResP p (seekTargetBits D.length pos o w)) ∧
      I s' (if (p (seekTargetBits D.length pos o w)).isSome then pos else (seekTargetBits D.length pos o w).toNat)

/-- state of an IOReadSeeker over a byte regular source after any history, standing at byte `j`: the bit buffer is
    empty, the source stands at bit 8·j, a pending error is EOF at / beyond the end.  (`sPos` is unconstrained: it is
    only compared with a bit position, and what depends on the comparison is the reset of an empty buffer.) -/
def IOSeekAt (D : Bits) (I : Rd → Nat → Prop) (s : Rd) (j : Nat) : Prop :=
  ∃ r rErr buf sPos, s = .ioBytes r true rErr buf sPos ∧ buf.WF ∧ buf.content = [] ∧ I r (8 * j) ∧
    (rErr = none ∨ (rErr = some .eof ∧ D.length ≤ 8 * j))

/-! ### specification machines -/

/-- byte cursor over `data` with seek policy `p`: what io.ReadFull / Seek histories must observe -/
def runByteSpecP (p : SeekPol) (data : List UInt8) : Nat → List BOp → List (Outcome (Int × List UInt8 × Option Err))
  | _, [] => []
  | pos, .readFull n :: ops =>
    .ok ((rawFullRes data pos n 0).n, (rawFullRes data pos n 0).bytes, (rawFullRes data pos n 0).err) ::
      runByteSpecP p data (pos + (slice data pos n).length) ops
  | pos, .seek o w :: ops =>
    .ok ((seekResP p (seekTarget data.length pos o w)).n, (seekResP p (seekTarget data.length pos o w)).bytes,
         (seekResP p (seekTarget data.length pos o w)).err) ::
      runByteSpecP p data
        (if (p (seekTarget data.length pos o w)).isSome then pos else (seekTarget data.length pos o w).toNat) ops

/-- `bitsSpecReadAt` with seek policy `p` of the byte source -/
def bitsSpecReadAtP (p : SeekPol) (data buf : List UInt8) (n : Nat) (off : Int) : Outcome (List UInt8 × Res) :=
  let T := off.tdiv 8
  let skip := off.tmod 8
  let W := bitsByteCountI (skip + n)
  let B0 := if W > buf.length then List.replicate W 0 else buf
  if (p T).isSome then .ok (B0, { err := p T })
  else
    let D := slice data T.toNat W
    (ioBitsFinish (D ++ B0.drop D.length) skip n D.length (rawFullRes data T.toNat W 0).err 0).bind
      fun res => .ok (D ++ B0.drop D.length, res)

def bitsSpecSeekP (p : SeekPol) (len : Nat) (bitPos : Int) (o : Int) (w : Whence) : Int × Res :=
  let o' := if w = .current then o + bitPos else o
  let w' := if w = .current then Whence.start else w
  let T := seekTarget len 0 (o'.tdiv 8) w'
  if (p T).isSome then (bitPos, { err := p T }) else (T * 8 + o'.tmod 8, { n := T * 8 + o'.tmod 8 })

def bitsSpecStepP (p : SeekPol) (data : List UInt8) (st : Int × List UInt8) : HOp → Outcome ((Int × List UInt8) × Res)
  | .readAt n off => (bitsSpecReadAtP p data st.2 n off).bind fun x => .ok ((st.1, x.1), x.2)
  | .read n => (bitsSpecReadAtP p data st.2 n st.1).bind fun x => .ok ((st.1 + x.2.n, x.1), x.2)
  | .seek o w => .ok (((bitsSpecSeekP p data.length st.1 o w).1, st.2), (bitsSpecSeekP p data.length st.1 o w).2)
  | .clone => .ok ((0, []), {})

/-- the observations of a history on IOBitReadSeeker over an ideal io.ReadSeeker over `data` with seek policy `p`
    (`runBitsSpecFrom` = the case `stdPol`) -/
def runBitsSpecFromP (p : SeekPol) (data : List UInt8) : (Int × List UInt8) → List HOp → List (HOp × Outcome Res)
  | _, [] => []
  | st, op :: ops =>
    match bitsSpecStepP p data st op with
    | .ok (st', res) => (op, .ok res) :: runBitsSpecFromP p data st' ops
    | .fault w => [(op, .fault w)]
    | .hang => [(op, .hang)]
    | .unsupported w => [(op, .unsupported w)]

/-! ### adapter towers: section → IOBitReadSeeker → IOReadSeeker → section → IOBitReadSeeker → … → byte stack -/

/-- one level: `NewIOReadSeeker(NewSectionReader(NewIOBitReadSeeker(below), base, len))` — e.g. the byte view of
    `NewBitReader(buf, -1)` (base 0) or of a `bitiox.Range` / `d.BitBufRange` of whole bytes -/
structure Level where
  base : Nat
  len : Nat
deriving Repr, DecidableEq

/-- the bytes a tower delivers: level by level the zero padded packing of the section of the bits below -/
def towerData (data : List UInt8) : List Level → List UInt8
  | [] => data
  | l :: ls => packR (slice (bytesToBits (towerData data ls)) l.base l.len)

/-- the levels fit: every section lies inside the bits below it and is a whole number of bytes long -/
def towerFits (data : List UInt8) : List Level → Prop
  | [] => True
  | l :: ls => towerFits data ls ∧ l.len % 8 = 0 ∧ l.base + l.len ≤ 8 * (towerData data ls).length

/-- the freshly constructed tower over the byte reader `b0` (the head of the list is the TOP level) -/
def towerInit (b0 : Rd) : List Level → Rd
  | [] => b0
  | l :: ls => .ioBytes (newSect (newIOBits (towerInit b0 ls)) l.base l.len) true none {} 0

/-- state relation of an IOBitReadSeeker (any cursor, any scratch buffer) over a source related by `I` -/
def IOBitsOver (I : Rd → Nat → Prop) (s : Rd) : Prop := ∃ b bp buf p, s = .ioBits b bp buf ∧ I b p

/-- state relation of the section [base, base+len) standing at `pos` over a reader satisfying `P` -/
def SectOver (P : Rd → Prop) (base len : Nat) (s : Rd) (pos : Nat) : Prop :=
  ∃ r, s = .sect r base (base + pos) (base + len) ∧ P r

/-- state relation of a tower standing at byte `pos` (by recursion over the levels) -/
def TowerAt (I0 : Rd → Nat → Prop) (data : List UInt8) : List Level → Rd → Nat → Prop
  | [] => I0
  | l :: ls => IOSeekAt (slice (bytesToBits (towerData data ls)) l.base l.len)
      (SectOver (IOBitsOver (TowerAt I0 data ls)) l.base l.len)

/-- seek policy of a tower: bytes.Reader's at the bottom, the byte view of a SectionReader above -/
def towerPol : List Level → SeekPol
  | [] => stdPol
  | _ :: _ => bytePolOf sectPol

end FqModel.Bitio
