import FqModel.C01Spec
/-!
  C01 — internal/bitiox/bitiox.go: Len, Range, CopyBits, CopyBitsBuffer (transliteration).

  Quirks kept:
   * Range (bitiox.go:35-48) checks `nBits < 0` and `firstBitOffset+nBits > l` but NOT `firstBitOffset < 0`:
     a negative offset with firstBitOffset+nBits ≤ l is ACCEPTED and yields a SectionReader with a negative
     bitBase (`RangeRes.okNegBase`: `Rd.sect` has a natural-number base, so that reader is an outcome of its
     own; see the witness theorem in Props/C01Bitiox.lean)
   * the error checks come AFTER Len: an error of Len (a failing SeekBits) is passed through, and Len has
     already moved / restored the argument's cursor when "negative nBits" / "outside buffer" is returned
   * Len returns 0 together with an error (multireader.go's endPos, the same three seeks, is modelled by
     `endPos`, which hands back the failing seek's result)
   * io.CopyBuffer panics on a non-nil buffer of length 0; a nil buffer is a 32 KiB buffer
  Out of scope: Go int64 overflow of firstBitOffset+nBits (Int is unbounded); a destination whose Write fails
  or is short (every fq call site writes to a bytes.Buffer, a hash, or an in-memory writer).
-/
namespace FqModel.Bitio
open Outcome

/-- bitiox.Len (bitiox.go:20-33): SeekBits(0, current); SeekBits(0, end); SeekBits(bPos, start) -/
def bxLen (sub : Sub) (r : Rd) : Out := do
  -- :21
  let (r, p) ← sub r (.seek 0 .current)
  -- :22-24 return 0, err
  if p.err.isSome then return (r, { err := p.err, q := p.q })
  -- :25
  let (r, e) ← sub r (.seek 0 .end_)
  -- :26-28
  if e.err.isSome then return (r, { err := e.err, q := p.q ||| e.q })
  -- :29
  let (r, b) ← sub r (.seek p.n .start)
  -- :29-31
  if b.err.isSome then return (r, { err := b.err, q := p.q ||| e.q ||| b.q })
  -- :32
  return (r, { n := e.n, q := p.q ||| e.q ||| b.q })

/-- what bitiox.Range returns -/
inductive RangeRes
  /-- :47 the new SectionReader (its inner reader is the argument object, in the state Len left it in) -/
  | ok (s : Rd)
  /-- :47 reached with firstBitOffset < 0: SectionReader{bitBase = off < 0, bitLimit = off + n} -/
  | okNegBase (off : Int) (n : Nat)
  /-- :37-39 the error of Len -/
  | lenErr (e : Err)
  /-- :41-43 errors.New("negative nBits") -/
  | negativeNBits
  /-- :44-46 errors.New("outside buffer") -/
  | outsideBuffer
deriving Inhabited

/-- bitiox.Range(br, firstBitOffset, nBits) (bitiox.go:35-48); returns the argument's state after the call
    (Len seeks on it) and the result; the flags of Len's seeks in the third component -/
def bxRange (sub : Sub) (r : Rd) (firstBitOffset nBits : Int) : Outcome (Rd × RangeRes × Nat) := do
  -- :36
  let (r, l) ← bxLen sub r
  match l.err with
  -- :37-39
  | some e => ok (r, .lenErr e, l.q)
  | none =>
    -- :41
    if nBits < 0 then ok (r, .negativeNBits, l.q)
    -- :44
    else if firstBitOffset + nBits > l.n then ok (r, .outsideBuffer, l.q)
    -- :47 (no check of firstBitOffset < 0)
    else if firstBitOffset < 0 then ok (r, .okNegBase firstBitOffset nBits.toNat, l.q)
    else ok (r, .ok (newSect r firstBitOffset.toNat nBits.toNat), l.q)

/-- result of a copy: bytes written to dst, the returned count, the returned error, quirk flags -/
structure CopyRes where
  bytes : List UInt8 := []
  n : Int := 0
  err : Option Err := none
  q : Nat := 0
deriving Repr, DecidableEq, Inhabited

/-- the copy loop of io.copyBuffer (io/io.go:428-455, go1.23) over a destination that accepts every Write
    (nw = nr, ew = nil), and equally the loop of bytes.Buffer.ReadFrom (bytes/buffer.go:208-224):
      for { nr, er := src.Read(buf); if nr > 0 { dst.Write(buf[0:nr]); written += nr };
            if er != nil { if er != EOF { err = er }; break } }
    `sizes` = len(buf) of the successive Read calls: constant for io.copyBuffer, cap-len ≥ 512 (whatever the
    allocator gave) for bytes.Buffer.ReadFrom; running out of `sizes` is `hang` (fuel) -/
def ioCopyLoop (sub : Sub) : (sizes : List Nat) → (s : Rd) → (acc : List UInt8) → (q : Nat) → Outcome (Rd × CopyRes)
  | [], _, _, _ => hang
  | n :: ns, s, acc, q => do
    let (s, r) ← sub s (.readB n)
    let acc := acc ++ r.bytes
    let q := q ||| r.q
    match r.err with
    | some e => ok (s, { bytes := acc, n := acc.length, err := if e = .eof then none else some e, q := q })
    | none => ioCopyLoop sub ns s acc q

/-- bitio.NewIOReader(src) (ioreader.go:18) -/
def newIOReader (src : Rd) : Rd := .ioBytes src false none {} 0

/-- the Read sizes of io.copyBuffer's own loop: `fuel` times len(buf) (32 KiB for a nil buf: io.go:417-427;
    IOReader is no *io.LimitedReader) -/
def copySizes (buf : Option Nat) (fuel : Nat) : List Nat :=
  List.replicate fuel (buf.getD (32 * 1024))

/-- bitiox.CopyBitsBuffer(dst, src, buf) (bitiox.go:12-14) = io.CopyBuffer(dst, bitio.NewIOReader(src), buf);
    `buf` = none for nil, some len(buf) otherwise; dst is a plain io.Writer (no ReadFrom) -/
def copyBitsBuffer (d : Nat) (src : Rd) (buf : Option Nat) (fuel : Nat) : Outcome (Rd × CopyRes) :=
  -- io.go:399
  if buf = some 0 then fault "empty buffer in CopyBuffer"
  else ioCopyLoop (step d) (copySizes buf fuel) (newIOReader src) [] 0

/-- bitiox.CopyBits(dst, src) (bitiox.go:16-18) = CopyBitsBuffer(dst, src, nil) -/
def copyBits (d : Nat) (src : Rd) (fuel : Nat) : Outcome (Rd × CopyRes) := copyBitsBuffer d src none fuel

/-- the same into a destination with a ReadFrom method (io.go:414: `dst.ReadFrom(src)`; *bytes.Buffer), which
    reads with buffer sizes `sizes` of its own choice (all > 0); `buf` only decides the panic of io.go:399 -/
def copyBitsReadFrom (d : Nat) (src : Rd) (buf : Option Nat) (sizes : List Nat) : Outcome (Rd × CopyRes) :=
  if buf = some 0 then fault "empty buffer in CopyBuffer"
  else ioCopyLoop (step d) sizes (newIOReader src) [] 0

/-- fuel that always suffices: one Read per byte, one for the final EOF, one spare -/
def copyFuel (src : Rd) : Nat := bitsByteCount (den src).length + 2

end FqModel.Bitio
