import FqModel.Bitio
/-!
  C01 — reader algebra and operational semantics of the bit / byte readers of fq.

  One state type `Rd` for every Go reader type (bit sources "Src": sect, multi, zero, limit, ioBits;
  byte sources "ByteSrc": raw, ahead, progress, ctx, ioBytes); the state of a composition is the tree
  of the states of its parts, exactly like the Go object graph (a clone shares its sub-readers with
  the original: the history continues on the clone, the sub-reader states are carried over).

  Every Go method is ONE Lean function that receives `sub : Rd → Op → Out`, the dynamic dispatch on the
  sub-reader's interface (`step d` below), so each type is modelled — and proved — against an abstract
  sub-reader, as the Go code is written against interfaces.

  Quirks kept (each confirmed against the real code by the correspondence run):
   * SectionReader.ReadBitsAt: EOF for `bitOff >= limit-base` even for 0 bits; SeekBits has no upper bound
   * MultiReader.ReadBitsAt reads from ONE sub-reader (short read at a boundary, EOF suppressed unless at
     the total end); a negative offset is passed on to readers[0]; no readers + negative offset = index panic
   * ZeroReadAtSeeker: ErrOffset (not EOF) beyond the end; a failed SeekBits returns the old position
   * LimitReader.CloneReader keeps the REMAINING budget
   * IOBitReadSeeker.ReadBitsAt on a short underlying read: `nBits = max(0, readBytes*8 - readSkipBits)`
     (fix 1cdda4cc; before it the skipped bits were counted and up to 7 stale bits were returned)
   * IOBitReadSeeker.SeekBits(off, current) = SeekBits(off + bitPos, start) (fix c87357c8; before it the
     seek was relative to the BYTE reader's position)
   * negative bit offsets are NOT checked below a SectionReader (IOBitReadSeeker.ReadBitsAt with an offset in
     (-8,0) indexes buf[-1], SeekBits(-3, start) succeeds with position -3, MultiReader passes a negative
     offset on to readers[0]); the model keeps this, the property does not quantify over negative offsets
   * IOReadSeeker.Seek compares the bit position with the byte position and drops buffered bits; on a
     source whose reads are not byte multiples the byte view is misaligned after seek current/end
     (known finding ioreadseeker-unaligned-seek; the branch raises the flag qIoSeek)
   * IOReader.Read(p) with len(p)=0 never returns while the source is not at EOF (`hang`)
   * progressreadseeker: partitionSize = max(1, …) (fix cb15cea3; before it totalSize 0 divided by zero in Read)
   * os.File.Read(p) with len(p)=0 returns (0,nil) at EOF, bytes.Reader returns (0,EOF)
-/
namespace FqModel.Bitio
open Outcome

inductive Whence | start | current | end_
deriving Repr, DecidableEq, Inhabited

inductive Op
  | readAt (n : Nat) (off : Int)     -- bitio.ReaderAt.ReadBitsAt(p, n, off)
  | read (n : Nat)                   -- bitio.Reader.ReadBits(p, n)
  | seek (off : Int) (w : Whence)    -- bitio.Seeker.SeekBits(off, whence)
  | clone                            -- CloneReader / CloneReaderAtSeeker / CloneReadAtSeeker
  | readB (n : Nat)                  -- io.Reader.Read(p), len(p) = n
  | seekB (off : Int) (w : Whence)   -- io.Seeker.Seek(off, whence)
deriving Repr, DecidableEq, Inhabited

/-- quirk flags (bit mask) raised by the branches listed in the header -/
def qIoSeek : Nat := 4

/-- result of one call: `n` = returned count (bits / bytes) or position; the first `n` bits of `p`
    (bit readers) or `p[0:n]` (byte readers); the error class -/
structure Res where
  n : Int := 0
  bits : Bits := []
  bytes : List UInt8 := []
  err : Option Err := none
  q : Nat := 0
deriving Repr, DecidableEq, Inhabited

/-- zero-pad to a byte and pack (structural twin of `bitsToBytesPadR`, kernel-reducible) -/
def packR : Bits → List UInt8
  | b0 :: b1 :: b2 :: b3 :: b4 :: b5 :: b6 :: b7 :: rest =>
    UInt8.ofNat (ofBitsBE [b0, b1, b2, b3, b4, b5, b6, b7]) :: packR rest
  | [] => []
  | bs => [UInt8.ofNat (ofBitsBE (bs ++ List.replicate (8 - bs.length) false))]

inductive Rd where
  /-- bitio.SectionReader{r, bitBase, bitOff, bitLimit} -/
  | sect (r : Rd) (base off limit : Nat)
  /-- bitio.MultiReader{pos, readers, readerEnds} -/
  | multi (rs : List Rd) (ends : List Nat) (pos : Nat)
  /-- bitiox.ZeroReadAtSeeker{pos, nBits} -/
  | zero (pos nBits : Nat)
  /-- bitio.LimitReader{r, n} -/
  | limit (r : Rd) (n : Nat)
  /-- bitio.IOBitReadSeeker{bitPos, rs, buf} -/
  | ioBits (b : Rd) (bitPos : Int) (buf : List UInt8)
  /-- bytes.Reader{s, i} (isFile = false) / *os.File on a regular file (isFile = true) -/
  | raw (data : List UInt8) (pos : Nat) (isFile : Bool)
  /-- aheadreadseeker.Reader{rs, minRead, offset, cache[0:cacheUsed], cacheOffset} -/
  | ahead (b : Rd) (minRead : Nat) (offset : Nat) (cache : List UInt8) (cacheOffset : Nat)
  /-- progressreadseeker.Reader (only partitionSize influences results) -/
  | progress (b : Rd) (partSize : Nat)
  /-- ctxreadseeker.Reader with a live context -/
  | ctx (b : Rd)
  /-- bitio.IOReader (seekable = false) / bitio.IOReadSeeker (seekable = true) {r, rErr, b, sPos} -/
  | ioBytes (r : Rd) (seekable : Bool) (rErr : Option Err) (buf : Buffer) (sPos : Int)
deriving Inhabited

abbrev Out := Outcome (Rd × Res)
abbrev Sub := Rd → Op → Out

/-! ### bytes.Reader / os.File -/

def rawStep (data : List UInt8) (pos : Nat) (isFile : Bool) : Op → Out
  | .readB n =>
    if isFile ∧ n = 0 then ok (.raw data pos isFile, {})                       -- internal/poll fd_unix.go: len(p)==0 → 0,nil
    else if pos ≥ data.length then ok (.raw data pos isFile, { err := some .eof })  -- bytes/reader.go:40
    else
      let d := slice data pos n
      ok (.raw data (pos + d.length) isFile, { n := d.length, bytes := d })
  | .seekB off w =>
    let abs : Int := match w with
      | .start => off
      | .current => (pos : Int) + off
      | .end_ => (data.length : Int) + off
    if abs < 0 then ok (.raw data pos isFile, { err := some .seek })         -- "negative position" / EINVAL
    else ok (.raw data abs.toNat isFile, { n := abs })
  | _ => unsupported "raw: not a bit reader"

/-! ### io.ReadFull = io.ReadAtLeast(r, buf, len(buf))  (io/io.go) -/

def ioReadFullLoop (sub : Sub) : (fuel : Nat) → (b : Rd) → (acc : List UInt8) → (q : Nat) → (min : Nat) → Out
  | 0, _, _, _, _ => hang
  | fuel+1, b, acc, q, min =>
    if acc.length ≥ min then ok (b, { n := acc.length, bytes := acc, q := q })
    else do
      let (b, r) ← sub b (.readB (min - acc.length))
      let acc := acc ++ r.bytes
      let q := q ||| r.q
      match r.err with
      | none => ioReadFullLoop sub fuel b acc q min
      | some e =>
        if acc.length ≥ min then ok (b, { n := acc.length, bytes := acc, q := q })
        else if acc.length > 0 ∧ e = .eof then ok (b, { n := acc.length, bytes := acc, err := some .unexpectedEOF, q := q })
        else ok (b, { n := acc.length, bytes := acc, err := some e, q := q })

def ioReadFull (sub : Sub) (b : Rd) (min : Nat) : Out := ioReadFullLoop sub (min + 2) b [] 0 min

/-! ### aheadreadseeker (aheadreadseeker.go:34-104, with the fix of commit 328451e9) -/

def aheadReadLoop (sub : Sub) (minRead n : Nat) :
    (fuel : Nat) → (b : Rd) → (offset : Nat) → (cache : List UInt8) → (cacheOffset : Nat) → (q : Nat) → Out
  | 0, _, _, _, _, _ => hang
  | fuel+1, b, offset, cache, cacheOffset, q =>
    if offset ≥ cacheOffset ∧ offset < cacheOffset + cache.length then
      -- :36 cache hit
      let d := offset - cacheOffset
      let copyLen := min (cache.length - d) n
      ok (.ahead b minRead (offset + copyLen) cache cacheOffset, { n := copyLen, bytes := slice cache d copyLen, q := q })
    else do
      -- :45 miss: fill the cache from the underlying reader (which must stand at `offset`)
      let readBytes := max n minRead
      let (b, r) ← ioReadFull sub b readBytes
      let q := q ||| r.q
      if r.bytes.length = 0 ∨ r.err = some .eof then
        ok (.ahead b minRead offset r.bytes offset, { err := r.err, q := q })
      else aheadReadLoop sub minRead n fuel b offset r.bytes offset q

/-- the part of Seek after `absOff` is known (:75-95); `fromEnd` = whence was io.SeekEnd -/
def aheadSeekTo (sub : Sub) (b : Rd) (minRead offset : Nat) (cache : List UInt8) (cacheOffset : Nat)
    (absOff : Int) (fromEnd : Bool) (q : Nat) : Out :=
  if absOff ≥ (cacheOffset : Int) ∧ absOff < (cacheOffset : Int) + cache.length then
    -- :75 target inside the cache
    if fromEnd then do
      -- :76-82 (the fix) move the underlying reader back to directly after the cached data
      let (b, r) ← sub b (.seekB ((cacheOffset : Int) + cache.length) .start)
      if r.err.isSome then ok (.ahead b minRead offset cache cacheOffset, { err := r.err, q := q ||| r.q })
      else ok (.ahead b minRead absOff.toNat cache cacheOffset, { n := absOff, q := q ||| r.q })
    else ok (.ahead b minRead absOff.toNat cache cacheOffset, { n := absOff, q := q })
  else do
    -- :87
    let (b, r) ← sub b (.seekB absOff .start)
    if r.err.isSome then ok (.ahead b minRead offset cache cacheOffset, { err := r.err, q := q ||| r.q })
    else ok (.ahead b minRead absOff.toNat [] 0, { n := absOff, q := q ||| r.q })

def aheadSeek (sub : Sub) (b : Rd) (minRead offset : Nat) (cache : List UInt8) (cacheOffset : Nat)
    (off : Int) (w : Whence) : Out :=
  -- :62-73
  match w with
  | .start => aheadSeekTo sub b minRead offset cache cacheOffset off false 0
  | .current => aheadSeekTo sub b minRead offset cache cacheOffset ((offset : Int) + off) false 0
  | .end_ => do
    let (b, r) ← sub b (.seekB off .end_)
    if r.err.isSome then ok (.ahead b minRead offset cache cacheOffset, { err := r.err, q := r.q })
    else aheadSeekTo sub b minRead offset cache cacheOffset r.n true r.q

/-! ### progressreadseeker / ctxreadseeker: results pass through -/

def progressStep (sub : Sub) (b : Rd) (partSize : Nat) : Op → Out
  | .readB n => do
    let (b, r) ← sub b (.readB n)
    -- progressreaderseeker.go:39 `prs.pos / prs.partitionSize`
    if partSize = 0 then fault "integer divide by zero" else ok (.progress b partSize, r)
  | .seekB off w => do
    let (b, r) ← sub b (.seekB off w)
    ok (.progress b partSize, r)
  | _ => unsupported "progress: not a bit reader"

def ctxStep (sub : Sub) (b : Rd) : Op → Out
  | .readB n => do let (b, r) ← sub b (.readB n); ok (.ctx b, r)
  | .seekB off w => do let (b, r) ← sub b (.seekB off w); ok (.ctx b, r)
  | _ => unsupported "ctx: not a bit reader"

/-! ### bitio.IOBitReadSeeker (iobitreadseeker.go) -/

/-- BitsByteCount on a possibly negative count (Go's truncated division) -/
def bitsByteCountI (x : Int) : Nat :=
  (if x.tmod 8 ≠ 0 then x.tdiv 8 + 1 else x.tdiv 8).toNat

/-- :57-60 `for i < nBytes { p[i] = byte(Read64(r.buf, readSkipBits+i*8, 8)) }` -/
def ioBitsBytes (buf : List UInt8) (skip : Int) : (nBytes : Nat) → (i : Nat) → Outcome Bits
  | 0, _ => ok []
  | k+1, i => do
    let v ← read64I buf (skip + (i : Int) * 8) 8
    let rest ← ioBitsBytes buf skip k (i + 1)
    pure (byteToBits (UInt8.ofNat (v % 256)) ++ rest)

/-- :54-65 the unaligned path: whole bytes through Read64, then the last partial byte -/
def ioBitsExtract (buf : List UInt8) (readSkipBits : Int) (nBits : Nat) : Outcome Bits := do
  let nBytes := nBits / 8
  let restBits := nBits % 8
  let head ← ioBitsBytes buf readSkipBits nBytes 0
  let tail ← (if restBits ≠ 0 then do
      let v ← read64I buf (readSkipBits + (nBytes : Int) * 8) restBits
      -- :62 p[nBytes] = byte(Read64(...)) << (8 - restBits)
      pure ((byteToBits (UInt8.ofNat (((v % 256) <<< (8 - restBits)) % 256))).take restBits)
    else pure [] : Outcome Bits)
  pure (head ++ tail)

/-- :43-68 what ReadBitsAt does with the outcome (readBytes, err) of io.ReadFull into r.buf -/
def ioBitsFinish (buf : List UInt8) (readSkipBits : Int) (nBits readBytes : Nat) (rerr : Option Err) (q : Nat) :
    Outcome Res :=
  -- :43-49
  if rerr.isSome ∧ rerr ≠ some .unexpectedEOF then ok { err := rerr, q := q } else
  let short := rerr = some .unexpectedEOF
  -- :47-50 short read: the skipped bits of the first byte are not part of what was read
  let nBits := if short then ((readBytes : Int) * 8 - readSkipBits).toNat else nBits
  let err := if short then some Err.eof else none
  if readSkipBits = 0 ∧ nBits % 8 = 0 then
    -- :51 copy(p[0:readBytes], r.buf[0:readBytes])
    ok { n := nBits, bits := (bytesToBits (buf.take readBytes)).take nBits, err := err, q := q }
  else do
    let bits ← ioBitsExtract buf readSkipBits nBits
    ok { n := nBits, bits := bits, err := err, q := q }

/-- ReadBitsAt (:23-68); returns (new rs state, new r.buf) -/
def ioBitsReadAt (sub : Sub) (b : Rd) (buf : List UInt8) (nBits : Nat) (bitOffset : Int) :
    Outcome ((Rd × List UInt8) × Res) := do
  let readBytePos := bitOffset.tdiv 8
  let readSkipBits := bitOffset.tmod 8
  let wantReadBits : Int := readSkipBits + nBits
  let wantReadBytes := bitsByteCountI wantReadBits
  -- :32 r.buf = make([]byte, wantReadBytes)
  let buf := if wantReadBytes > buf.length then List.replicate wantReadBytes 0 else buf
  let (b, sr) ← sub b (.seekB readBytePos .start)
  if sr.err.isSome then return ((b, buf), { err := sr.err, q := sr.q })
  let (b, rr) ← ioReadFull sub b wantReadBytes
  -- io.ReadFull wrote r.buf[0:readBytes]
  let buf := rr.bytes ++ buf.drop rr.bytes.length
  let res ← ioBitsFinish buf readSkipBits nBits rr.bytes.length rr.err (sr.q ||| rr.q)
  return ((b, buf), res)

def ioBitsSeek (sub : Sub) (b : Rd) (bitPos : Int) (buf : List UInt8) (bitOff : Int) (w : Whence) : Out := do
  -- :79-84 the underlying reader stands after the last whole byte read, not at bitPos: seek from start
  let (bitOff, w) := if w = .current then (bitOff + bitPos, Whence.start) else (bitOff, w)
  let (b, sr) ← sub b (.seekB (bitOff.tdiv 8) w)
  if sr.err.isSome then return (.ioBits b bitPos buf, { err := sr.err, q := sr.q })
  let seekBitPos := sr.n * 8 + bitOff.tmod 8
  return (.ioBits b seekBitPos buf, { n := seekBitPos, q := sr.q })

/-! ### bitio.SectionReader (sectiontreader.go) -/

/-- ReadBitsAt (:25-36); returns the new state of the inner reader `r.r` -/
def sectReadAt (sub : Sub) (r : Rd) (base limit : Nat) (nBits : Nat) (bitOff : Int) : Out :=
  -- :26
  if bitOff < 0 ∨ bitOff ≥ (limit : Int) - base then ok (r, { err := some .eof })
  else
    let bitOff := bitOff + base
    let maxBits := ((limit : Int) - bitOff).toNat
    let nBits := if nBits > maxBits then maxBits else nBits
    sub r (.readAt nBits bitOff)

def sectSeek (r : Rd) (base off limit : Nat) (bitOff : Int) (w : Whence) : Out :=
  let bitOff : Int := match w with
    | .start => bitOff + base
    | .current => bitOff + off
    | .end_ => bitOff + limit
  if bitOff < base then ok (.sect r base off limit, { err := some .offset })
  else ok (.sect r base bitOff.toNat limit, { n := bitOff - base })

/-! ### bitio.MultiReader (multireader.go) -/

/-- :56-62 the boundary lookup: first i with bitOff < ends[i]; prevAtEnd = ends[i-1] -/
def multiFind (bitOff : Int) : (ends : List Nat) → (i : Nat) → (prev : Nat) → Option (Nat × Nat)
  | [], _, _ => none
  | e :: es, i, prev => if bitOff < e then some (i, prev) else multiFind bitOff es (i + 1) e

def multiEnd (rs : List Rd) (ends : List Nat) : Outcome Nat :=
  if rs.length > 0 then
    match ends[rs.length - 1]? with
    | some e => ok e
    | none => fault "index out of range"
  else ok 0

/-- ReadBitsAt (:50-73); returns the new sub-reader list -/
def multiReadAt (sub : Sub) (rs : List Rd) (ends : List Nat) (nBits : Nat) (bitOff : Int) :
    Outcome (List Rd × Res) := do
  let end_ ← multiEnd rs ends
  if (end_ : Int) ≤ bitOff then return (rs, { err := some .eof })
  -- :55 readerAt := m.readers[0]
  if rs.length = 0 then fault "index out of range [0] with length 0" else
  let (i, prevAtEnd) := match multiFind bitOff ends 0 0 with
    | some x => x
    | none => (0, ends.getLastD 0)
  match rs[i]? with
  | none => fault "index out of range"
  | some r =>
    let (r, res) ← sub r (.readAt nBits (bitOff - prevAtEnd))
    -- :66-70 EOF of a sub-reader is not EOF of the whole unless at the total end
    let err := if res.err = some .eof ∧ bitOff + res.n < end_ then none else res.err
    return (rs.set i r, { res with err := err })

def multiSeek (rs : List Rd) (ends : List Nat) (pos : Nat) (bitOff : Int) (w : Whence) : Out := do
  let end_ ← multiEnd rs ends
  let p : Int := match w with
    | .start => bitOff
    | .current => (pos : Int) + bitOff
    | .end_ => (end_ : Int) + bitOff
  if p < 0 ∨ p > end_ then return (.multi rs ends pos, { err := some .offset })
  return (.multi rs ends p.toNat, { n := p })

/-! ### bitiox.ZeroReadAtSeeker (zeroreadatseeker.go) -/

def zeroReadAt (pos nBits : Nat) (n : Nat) (bitOff : Int) : Out :=
  if bitOff < 0 ∨ bitOff > nBits then ok (.zero pos nBits, { err := some .offset })
  else if bitOff = nBits then ok (.zero pos nBits, { err := some .eof })
  else
    let lBits := nBits - bitOff.toNat
    let rBits := min n lBits
    ok (.zero pos nBits, { n := rBits, bits := List.replicate rBits false })

def zeroSeek (pos nBits : Nat) (bitOff : Int) (w : Whence) : Out :=
  let p : Int := match w with
    | .start => bitOff
    | .current => (pos : Int) + bitOff
    | .end_ => (nBits : Int) + bitOff
  if p < 0 ∨ p > nBits then ok (.zero pos nBits, { n := pos, err := some .offset })   -- :33 returns z.pos
  else ok (.zero p.toNat nBits, { n := p })

/-! ### bitio.IOReader / IOReadSeeker (ioreader.go, ioreadseeker.go) -/

/-- ioreader.go:29-38: while no error is pending, read len(p)*8 bits from the source into the bit buffer -/
def ioFill (sub : Sub) (n : Nat) (r : Rd) (rErr : Option Err) (buf : Buffer) (q : Nat) :
    Outcome (Rd × Option Err × Buffer × Nat) :=
  if rErr = none then do
    let (r, res) ← sub r (.read (n * 8))
    let buf ← buf.writeBits (packR res.bits) res.bits.length
    pure (r, res.err, buf, q ||| res.q)
  else pure (r, rErr, buf, q)

/-- ioreader.go:40-70: deliver whole bytes, or the zero padded last partial byte / the pending error;
    `none` = neither (fewer than 8 bits buffered and no error): go round the loop again -/
def ioDrain (seekable : Bool) (sPos : Int) (n : Nat) (r : Rd) (rErr : Option Err) (buf : Buffer) (q : Nat) :
    Outcome (Option (Rd × Res)) :=
  if buf.len ≥ 8 then do
    -- :40-53 read whole bytes
    let bBits := buf.len
    let aBits := bBits - bBits % 8
    let rBits := if n * 8 > aBits then aBits else n * 8
    let (buf, p, rn, e) ← buf.readBits rBits
    let k := rn / 8
    pure (some (.ioBytes r seekable rErr buf (sPos + k), { n := k, bytes := p.take k, err := e, q := q }))
  else if rErr ≠ none then
    if rErr = some .eof ∧ buf.len > 0 then
      -- :55-66 the last partial byte, zero padded
      if n = 0 then pure (some (.ioBytes r seekable rErr buf sPos, { q := q })) else do
      let (buf, p, _, e) ← buf.readBits buf.len
      if e.isSome then pure (some (.ioBytes r seekable rErr buf sPos, { err := e, q := q }))
      else pure (some (.ioBytes r seekable rErr buf (sPos + 1), { n := 1, bytes := p.take 1, err := rErr, q := q }))
    else pure (some (.ioBytes r seekable rErr buf sPos, { err := rErr, q := q }))
  else pure none

/-- IOReader.Read (ioreader.go:24-72) -/
def ioBytesReadLoop (sub : Sub) (seekable : Bool) (sPos : Int) (n : Nat) :
    (fuel : Nat) → (r : Rd) → (rErr : Option Err) → (buf : Buffer) → (q : Nat) → Out
  | 0, _, _, _, _ => hang
  | fuel+1, r, rErr, buf, q => do
    let (r, rErr, buf, q) ← ioFill sub n r rErr buf q
    match ← ioDrain seekable sPos n r rErr buf q with
    | some x => ok x
    | none => ioBytesReadLoop sub seekable sPos n fuel r rErr buf q

def ioBytesSeek (sub : Sub) (r : Rd) (rErr : Option Err) (buf : Buffer) (sPos : Int) (off : Int) (w : Whence) : Out := do
  let _ := rErr
  let (r, sr) ← sub r (.seek (off * 8) w)
  let n := sr.n
  -- ioreadseeker.go:28-33: rErr = nil; if n != r.sPos { r.b.Reset(); r.sPos = n / 8 }
  let q := if n.tmod 8 ≠ 0 ∨ buf.len > 0 then sr.q ||| qIoSeek else sr.q
  let (buf, sPos) := if n ≠ sPos then (buf.reset, n.tdiv 8) else (buf, sPos)
  ok (.ioBytes r true none buf sPos, { n := n.tdiv 8, err := sr.err, q := q })

/-! ### dispatch -/

/-- `d` bounds the nesting depth of the composition (every call into a sub-reader uses `d-1`) -/
def step : (d : Nat) → Rd → Op → Out
  | 0, _, _ => unsupported "depth"
  | d+1, s, op =>
    let sub : Sub := step d
    match s, op with
    -- SectionReader
    | .sect r base off limit, .readAt n o => do
      let (r, res) ← sectReadAt sub r base limit n o
      ok (.sect r base off limit, res)
    | .sect r base off limit, .read n => do
      -- :39 ReadBits: ReadBitsAt(p, nBits, r.bitOff-r.bitBase); r.bitOff += rBits
      let (r, res) ← sectReadAt sub r base limit n ((off : Int) - base)
      ok (.sect r base (off + res.n.toNat) limit, res)
    | .sect r base off limit, .seek o w => sectSeek r base off limit o w
    | .sect r base _ limit, .clone => ok (.sect r base base limit, {})
    -- MultiReader
    | .multi rs ends pos, .readAt n o => do
      let (rs, res) ← multiReadAt sub rs ends n o
      ok (.multi rs ends pos, res)
    | .multi rs ends pos, .read n => do
      -- :76 ReadBits: ReadBitsAt(p, nBits, m.pos); m.pos += n
      let (rs, res) ← multiReadAt sub rs ends n pos
      ok (.multi rs ends (pos + res.n.toNat), res)
    | .multi rs ends pos, .seek o w => multiSeek rs ends pos o w
    | .multi rs ends _, .clone => ok (.multi rs ends 0, {})
    -- ZeroReadAtSeeker (no ReadBits method)
    | .zero pos nBits, .readAt n o => zeroReadAt pos nBits n o
    | .zero pos nBits, .seek o w => zeroSeek pos nBits o w
    | .zero _ nBits, .clone => ok (.zero 0 nBits, {})
    -- LimitReader (limitreader.go:18-28; only ReadBits and CloneReader)
    | .limit r n, .read nBits =>
      if n = 0 then ok (.limit r n, { err := some .eof }) else do
      let nBits := if nBits > n then n else nBits
      let (r, res) ← sub r (.read nBits)
      ok (.limit r (n - res.n.toNat), res)
    | .limit r n, .clone => do
      let (rc, _) ← sub r .clone
      ok (.limit rc n, {})
    -- IOBitReadSeeker
    | .ioBits b bitPos buf, .readAt n o => do
      let ((b, buf), res) ← ioBitsReadAt sub b buf n o
      ok (.ioBits b bitPos buf, res)
    | .ioBits b bitPos buf, .read n => do
      -- :70 ReadBits: ReadBitsAt(p, nBits, r.bitPos); r.bitPos += rBits
      let ((b, buf), res) ← ioBitsReadAt sub b buf n bitPos
      ok (.ioBits b (bitPos + res.n) buf, res)
    | .ioBits b bitPos buf, .seek o w => ioBitsSeek sub b bitPos buf o w
    | .ioBits b _ _, .clone => ok (.ioBits b 0 [], {})
    -- byte readers
    | .raw data pos isFile, op => rawStep data pos isFile op
    | .ahead b minRead offset cache cacheOffset, .readB n => aheadReadLoop sub minRead n 3 b offset cache cacheOffset 0
    | .ahead b minRead offset cache cacheOffset, .seekB o w => aheadSeek sub b minRead offset cache cacheOffset o w
    | .progress b partSize, op => progressStep sub b partSize op
    | .ctx b, op => ctxStep sub b op
    | .ioBytes r seekable rErr buf sPos, .readB n => ioBytesReadLoop sub seekable sPos n 12 r rErr buf 0
    | .ioBytes r true rErr buf sPos, .seekB o w => ioBytesSeek sub r rErr buf sPos o w
    | _, _ => unsupported "no such method"

/-! ### aliasing: an operation on a sub-reader that is still referenced from outside the composition

  Go readers are objects: the reader handed to NewSectionReader / NewMultiReader / NewLimitReader / NewIOReader …
  is the SAME object the caller still holds, so reading it directly moves the cursor the composition sees (if it
  uses the part's ReadBits: LimitReader, IOReader) or leaves the composition unaffected (if it only uses
  ReadBitsAt: SectionReader, MultiReader).  In the model the state of a part lives inside the state of the
  composition; `stepAt d path s op` performs `op` on the part at `path` (child indices from the top). -/

def stepAt (d : Nat) : List Nat → Rd → Op → Out
  | [], s, op => step d s op
  | i :: path, s, op =>
    match s, i with
    | .sect r base off limit, 0 => do let (r, res) ← stepAt d path r op; ok (.sect r base off limit, res)
    | .limit r n, 0 => do let (r, res) ← stepAt d path r op; ok (.limit r n, res)
    | .ioBits b bitPos buf, 0 => do let (b, res) ← stepAt d path b op; ok (.ioBits b bitPos buf, res)
    | .ahead b m off c co, 0 => do let (b, res) ← stepAt d path b op; ok (.ahead b m off c co, res)
    | .progress b ps, 0 => do let (b, res) ← stepAt d path b op; ok (.progress b ps, res)
    | .ctx b, 0 => do let (b, res) ← stepAt d path b op; ok (.ctx b, res)
    | .ioBytes r sk e buf sp, 0 => do let (r, res) ← stepAt d path r op; ok (.ioBytes r sk e buf sp, res)
    | .multi rs ends pos, i =>
      match rs[i]? with
      | some r => do let (r, res) ← stepAt d path r op; ok (.multi (rs.set i r) ends pos, res)
      | none => unsupported "no such part"
    | _, _ => unsupported "no such part"

/-! ### clones: a family of cursors over the same source

  Clone* returns a NEW reader object that shares the source with the original: SectionReader / MultiReader clones
  share the inner reader OBJECTS, an IOBitReadSeeker clone shares the io.ReadSeeker (iobitreadseeker.go:101
  `NewIOBitReadSeeker(r.rs)`), a LimitReader clone wraps a clone of its source.  A family is the list of the states of
  the original and its clones; they all have the same shape, and whatever an operation on one of them does to the
  SHARED part is seen by all the others: `adopt s' c` = cursor `c` with the shared part of `s'`. -/

def adopt : Rd → Rd → Rd
  | .ioBits b' _ _, .ioBits _ bitPos buf => .ioBits b' bitPos buf
  | .sect r' _ _ _, .sect _ base off limit => .sect r' base off limit
  | .multi rs' _ _, .multi _ ends pos => .multi rs' ends pos
  | .limit r' _, .limit r n => .limit (adopt r' r) n
  | _, c => c

/-- one operation on cursor k of the family (`clone` adds the clone as a new cursor and leaves the others alone) -/
def famStep (d : Nat) (cs : List Rd) (k : Nat) (op : Op) : Outcome (List Rd × Res) :=
  match cs[k]? with
  | none => unsupported "no such cursor"
  | some s => do
    let (s', res) ← step d s op
    if op = .clone then ok (cs ++ [s'], res)
    else ok ((cs.set k s').mapIdx (fun j c => if j = k then c else adopt s' c), res)

/-! ### constructors -/

/-- bitio.NewSectionReader(r, bitOff, nBits) -/
def newSect (r : Rd) (bitOff nBits : Nat) : Rd := .sect r bitOff bitOff (bitOff + nBits)

/-- bitio.NewIOBitReadSeeker(rs) -/
def newIOBits (b : Rd) : Rd := .ioBits b 0 []

/-- bitio.NewBitReader(buf, nBits) (bitio.go:84-93); nBits = none for -1 -/
def newBitReader (data : List UInt8) (nBits : Option Nat) : Rd :=
  newSect (newIOBits (.raw data 0 false)) 0 (nBits.getD (data.length * 8))

/-- multireader.go:10-24 endPos -/
def endPos (sub : Sub) (r : Rd) : Out := do
  let (r, c) ← sub r (.seek 0 .current)
  if c.err.isSome then return (r, c)
  let (r, e) ← sub r (.seek 0 .end_)
  if e.err.isSome then return (r, e)
  let (r, b) ← sub r (.seek c.n .start)
  if b.err.isSome then return (r, b)
  return (r, { e with q := c.q ||| e.q ||| b.q })

/-- bitio.NewMultiReader(rs...) (multireader.go:36-48); a failing endPos is `unsupported` (the harness
    never builds such a reader) -/
def newMultiLoop (sub : Sub) : (todo : List Rd) → (done : List Rd) → (ends : List Nat) → (sum : Int) → Outcome Rd
  | [], done, ends, _ => ok (.multi done.reverse ends.reverse 0)
  | r :: rest, done, ends, sum => do
    let (r, e) ← endPos sub r
    if e.err.isSome then unsupported "NewMultiReader: endPos failed" else
    let sum := sum + e.n
    newMultiLoop sub rest (r :: done) (sum.toNat :: ends) sum

/-- progressreadseeker.New(rs, precision, totalSize, fn) : partitionSize (progressreaderseeker.go:20-25) -/
def newProgress (b : Rd) (precision totalSize : Nat) : Rd :=
  -- :25 partitionSize = max(1, partitionSize)
  .progress b (max 1 (if totalSize % precision ≠ 0 then totalSize / precision + 1 else totalSize / precision))

/-- depth fuel used by the driver and by the theorems' instances -/
def depthFuel : Nat := 32

def newMulti (rs : List Rd) : Outcome Rd := newMultiLoop (step depthFuel) rs [] [] 0

/-! ### bitio.readFull (bitio.go:196-238): ReadFull / ReadAtFull -/

/-- `fn` is the callback (`r.ReadBits` ignoring the offset, or `r.ReadBitsAt`); `p` is the caller's buffer.
    Result: n = the returned count (bits LEFT when an error is returned), bits = the bits read into p. -/
def readFullLoop (fn : Rd → Nat → Int → Out) (nBits : Nat) (bitOff : Int) :
    (fuel : Nat) → (s : Rd) → (p : List UInt8) → (readBitOffset : Nat) → (q : Nat) → Out
  | 0, _, _, _, _ => hang
  | fuel+1, s, p, readBitOffset, q =>
    if ¬ (readBitOffset < nBits) then
      ok (s, { n := nBits, bits := (bytesToBits p).take nBits, q := q })
    else
    let byteOffset := readBitOffset / 8
    let byteBitsOffset := readBitOffset % 8
    let partialByteBitsLeft := (8 - byteBitsOffset) % 8
    let leftBits := nBits - readBitOffset
    if partialByteBitsLeft ≠ 0 ∨ leftBits < 8 then do
      let readBits := if partialByteBitsLeft = 0 ∨ leftBits < partialByteBitsLeft then leftBits else partialByteBitsLeft
      let (s, r) ← fn s readBits (bitOff + readBitOffset)
      let rBits := r.bits.length
      let pb0 := ((packR r.bits).headD 0).toNat
      -- :216 Write64(uint64(pb[0]>>(8-rBits)), rBits, p, readBitOffset)
      if rBits > 8 then fault "negative shift amount" else
      let p ← write64 (pb0 >>> (8 - rBits)) rBits p readBitOffset
      let readBitOffset := readBitOffset + rBits
      let q := q ||| r.q
      if r.err.isSome then
        ok (s, { n := (nBits : Int) - readBitOffset, bits := (bytesToBits p).take readBitOffset, err := r.err, q := q })
      else readFullLoop fn nBits bitOff fuel s p readBitOffset q
    else do
      let (s, r) ← fn s (nBits - readBitOffset) (bitOff + readBitOffset)
      let w := packR r.bits
      let p := p.take byteOffset ++ w ++ p.drop (byteOffset + w.length)
      let readBitOffset := readBitOffset + r.bits.length
      let q := q ||| r.q
      if r.err.isSome then
        ok (s, { n := (nBits : Int) - readBitOffset, bits := (bytesToBits p).take readBitOffset, err := r.err, q := q })
      else readFullLoop fn nBits bitOff fuel s p readBitOffset q

/-- bitio.ReadAtFull(r, p, nBits, bitOff) -/
def readAtFull (d : Nat) (s : Rd) (nBits : Nat) (bitOff : Int) : Out :=
  readFullLoop (fun s n o => step d s (.readAt n o)) nBits bitOff (nBits + 2) s
    (List.replicate (bitsByteCount nBits) 0) 0 0

/-- bitio.ReadFull(r, p, nBits) -/
def readFull (d : Nat) (s : Rd) (nBits : Nat) : Out :=
  readFullLoop (fun s n _ => step d s (.read n)) nBits 0 (nBits + 2) s
    (List.replicate (bitsByteCount nBits) 0) 0 0

/-! ### bitio.IOBitWriter over a bytes.Buffer (iobitwriter.go) -/

structure BitWriter where
  out : List UInt8 := []
  b : Buffer := {}
deriving Repr, DecidableEq, Inhabited

/-- WriteBits: :22-49.  The drain loop runs at most twice (32 KiB scratch buffer: one round drains
    min(l - l%8, 32Ki*8) bits; the model's scratch is as large as needed, chunks above 32 KiB are not modelled) -/
def BitWriter.writeBits (w : BitWriter) (p : List UInt8) (nBits : Nat) : Outcome BitWriter := do
  let b ← w.b.writeBits p nBits
  let l := b.len
  if l < 8 then return { w with b := b }
  let (b, bytes, n, _) ← b.readBits (l - l % 8)
  return { out := w.out ++ bytes.take (n / 8), b := b }

/-- Flush: :53-64 -/
def BitWriter.flush (w : BitWriter) : Outcome BitWriter :=
  if w.b.len = 0 then ok w else do
  let (b, bytes, _, e) ← w.b.readBits w.b.len
  if e.isSome then return { w with b := b }
  -- w.w.Write(buf[:]) with `var buf [1]byte`
  return { out := w.out ++ (bytes ++ [0]).take 1, b := b }

end FqModel.Bitio
