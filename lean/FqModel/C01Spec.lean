import FqModel.C01Readers
import FqModel.Gen.C01Consts
/-!
  C01 — denotation of a reader composition (the bit string it stands for) and the
  "cursor over a bit list" specification machine.
-/
namespace FqModel.Bitio
open Outcome

mutual
/-- the bit string a bit source stands for (at construction time) -/
def den : Rd → Bits
  | .sect r base _ limit => slice (den r) base (limit - base)
  | .multi rs _ _ => denList rs
  | .zero _ n => List.replicate n false
  | .limit r n => (den r).take n
  | .ioBits b _ _ => bytesToBits (denBy b)
  | .raw data _ _ => bytesToBits data
  | .ahead b _ _ _ _ => bytesToBits (denBy b)
  | .progress b _ => bytesToBits (denBy b)
  | .ctx b => bytesToBits (denBy b)
  | .ioBytes r _ _ _ _ => bytesToBits (packR (den r))
def denList : List Rd → Bits
  | [] => []
  | r :: rs => den r ++ denList rs
/-- the byte string a byte source stands for -/
def denBy : Rd → List UInt8
  | .raw data _ _ => data
  | .ahead b _ _ _ _ => denBy b
  | .progress b _ => denBy b
  | .ctx b => denBy b
  | .ioBytes r _ _ _ _ => packR (den r)
  | _ => []
end

/-! ### bitio.Buffer -/

/-- the unread bits of a bitio.Buffer -/
def Buffer.content (b : Buffer) : Bits := slice (bytesToBits b.buf) b.bitsOff (b.bufBits - b.bitsOff)

def Buffer.WF (b : Buffer) : Prop := b.bufBits ≤ 8 * b.buf.length ∧ b.bitsOff ≤ b.bufBits

/-! ### what a ReadBitsAt / ReadBits result must satisfy -/

/-- `r` is a correct answer to "read n bits at bit offset off" from the bit string `d`:
    the returned bits are exactly d[off, off+k) with k = r.n ≤ n, never beyond the logical end; EOF is
    reported only when the read ends at (or starts beyond) the logical end; without an error a non-empty
    request inside the data makes progress, and at / beyond the end a non-empty request reports an error
    (so a caller that loops until it has enough bits terminates), a non-empty request that lies completely
    inside the data reports no error; the only other error is ErrOffset beyond the end (zero reader) -/
structure SoundAt (d : Bits) (off n : Nat) (r : Res) : Prop where
  cnt : r.n = r.bits.length
  le : r.bits.length ≤ n
  bits : r.bits = slice d off r.bits.length
  inb : off + r.bits.length ≤ d.length ∨ r.bits = []
  eof : r.err = some .eof → d.length ≤ off + r.bits.length
  prog : r.err = none → 0 < n → off < d.length → r.bits ≠ []
  endErr : d.length ≤ off → 0 < n → r.err ≠ none
  inside : 0 < n → off + n ≤ d.length → r.err = none
  errs : r.err = none ∨ r.err = some .eof ∨ (r.err = some .offset ∧ d.length < off ∧ r.bits = [])
  noq : r.q = 0

/-! ### byte sources: what an io.ReadSeeker over `data` does -/

/-- closed form of io.ReadFull(r, buf[0:k]) on a byte source standing at `p` -/
def rawFullRes (data : List UInt8) (p k : Nat) (q : Nat) : Res :=
  { n := (slice data p k).length, bytes := slice data p k,
    err := if (slice data p k).length ≥ k then none
           else if (slice data p k).length = 0 then some .eof else some .unexpectedEOF,
    q := q }

/-- `sub` behaves like an io.Reader over `data`: a state related to byte position `pos` by `I` answers a
    Read of n > 0 bytes with EOF at the end, and otherwise with 1..n bytes of the data at `pos` -/
def ReadsAt (sub : Sub) (data : List UInt8) (I : Rd → Nat → Prop) : Prop :=
  ∀ s pos n, 0 < n → I s pos →
    ∃ s' r, sub s (.readB n) = .ok (s', r) ∧ r.q = 0 ∧
      ((data.length ≤ pos ∧ r.bytes = [] ∧ r.err = some .eof ∧ I s' pos) ∨
       (pos < data.length ∧ ∃ k, 0 < k ∧ k ≤ n ∧ r.bytes = slice data pos k ∧ pos + k ≤ data.length ∧
          r.err = none ∧ I s' (pos + k)))

/-- target of Seek(o, w) at byte position `pos` of a source of `len` bytes -/
def seekTarget (len pos : Nat) (o : Int) (w : Whence) : Int :=
  match w with
  | .start => o
  | .current => (pos : Int) + o
  | .end_ => (len : Int) + o

/-- result of Seek on bytes.Reader: an error for a negative target, else the target -/
def seekRes (T : Int) : Res := if T < 0 then { err := some .seek } else { n := T }

/-- `sub` behaves like an io.ReadSeeker over `data` (bytes.Reader semantics of Seek) -/
def ByteOK (sub : Sub) (data : List UInt8) (I : Rd → Nat → Prop) : Prop :=
  ReadsAt sub data I ∧
  ∀ s pos (o : Int) (w : Whence), I s pos →
    ∃ s', sub s (.seekB o w) = .ok (s', seekRes (seekTarget data.length pos o w)) ∧
      I s' (if seekTarget data.length pos o w < 0 then pos else (seekTarget data.length pos o w).toNat)

/-- the logical position of a byte reader -/
def bytePos : Rd → Nat
  | .raw _ pos _ => pos
  | .ahead _ _ off _ _ => off
  | .progress b _ => bytePos b
  | .ctx b => bytePos b
  | _ => 0

/-- invariant of aheadreadseeker.Reader over a source with content `data` standing at byte `p`:
    cacheUsed > 0 → underlyingPos = cacheOffset + cacheUsed ∧ cache = data[cacheOffset, +cacheUsed) (∧ the
    offset lies in or directly after the cache);  cacheUsed = 0 → underlyingPos = offset -/
def AheadInv (data : List UInt8) (p off : Nat) (cache : List UInt8) (co : Nat) : Prop :=
  (cache ≠ [] → p = co + cache.length ∧ cache = slice data co cache.length ∧ co ≤ off ∧ off ≤ co + cache.length) ∧
  (cache = [] → p = off)

/-- well-formed stack, of depth ≤ d, of the byte-side wrappers over a bytes.Reader / file: ctxreadseeker (live
    context), progressreadseeker (partition size > 0), aheadreadseeker (minRead > 0, cache invariant) -/
def ByteWF : Nat → Rd → Prop
  | _+1, .raw _ _ _ => True
  | d+1, .ctx b => ByteWF d b
  | d+1, .progress b ps => 0 < ps ∧ ByteWF d b
  | d+1, .ahead b m off cache co => 0 < m ∧ ByteWF d b ∧ AheadInv (denBy b) (bytePos b) off cache co
  | _, _ => False

def ByteAt (d : Nat) (data : List UInt8) (s : Rd) (pos : Nat) : Prop :=
  ByteWF d s ∧ denBy s = data ∧ bytePos s = pos

/-- the reader stack interp._open builds over a regular file (pkg/interp/binary.go:247-289), with the
    constants regenerated from the source -/
def openStackOn (leaf : Rd) (size : Nat) : Rd :=
  newIOBits (.ahead (newProgress (.ctx leaf) Gen.C01Consts.progressPrecision size)
    Gen.C01Consts.cacheReadAheadSize 0 [] 0)

def openStack (data : List UInt8) : Rd := openStackOn (.raw data 0 true) data.length

/-- readerEnds of NewMultiReader: the cumulative lengths of the sub-readers -/
def cumEnds : List Rd → Nat → List Nat
  | [], _ => []
  | r :: rs, acc => (acc + (den r).length) :: cumEnds rs (acc + (den r).length)

/-- well-formed composition, of nesting depth ≤ d, of the readers fq builds bit ranges from:
    NewIOBitReadSeeker over a bytes.Reader / file, possibly through the ahead cache / progress / ctx wrappers
    (NewBitReader = a section of it over a bytes.Reader; interp._open = the full stack), SectionReader inside
    its source, MultiReader whose readerEnds are the cumulative lengths, ZeroReadAtSeeker -/
def WFd : Nat → Rd → Prop
  | d+1, .sect r base off limit => WFd d r ∧ base ≤ off ∧ base ≤ limit ∧ limit ≤ (den r).length
  | d+1, .multi rs ends pos => (∀ r ∈ rs, WFd d r) ∧ ends = cumEnds rs 0 ∧ pos ≤ (denList rs).length
  | _+1, .zero pos n => pos ≤ n
  | d+1, .ioBits b bitPos _ => 0 ≤ bitPos ∧ ByteWF d b
  | _, _ => False

/-- `sub` answers every ReadBitsAt on `r` (at a non-negative offset) correctly w.r.t. `den r`, and leaves a
    reader with the same denotation that again satisfies `P` -/
def SubOK (sub : Sub) (P : Rd → Prop) (r : Rd) : Prop :=
  ∀ (n off : Nat), ∃ r' res, sub r (.readAt n (off : Int)) = .ok (r', res) ∧ SoundAt (den r) off n res ∧ P r' ∧ den r' = den r

/-- the read position (ReadBits / SeekBits cursor) of a bit reader -/
def posOf : Rd → Nat
  | .sect _ base off _ => off - base
  | .multi _ _ pos => pos
  | .zero pos _ => pos
  | .ioBits _ bitPos _ => bitPos.toNat
  | .limit r _ => posOf r
  | _ => 0

/-- the Go type has a ReadBits method (ZeroReadAtSeeker has not) -/
def isReader : Rd → Bool
  | .sect .. | .multi .. | .ioBits .. | .limit .. => true
  | _ => false

/-! ### byte view (IOReader) of a sequential bit reader -/

/-- `sub` behaves like a sequential bit reader over the bit string D: a state related to bit position `pos`
    by `I` answers ReadBits(n > 0) with 1..n bits of D at `pos`, or with EOF (possibly together with the last
    bits) exactly when the end of D is reached -/
def BitsAt (sub : Sub) (D : Bits) (I : Rd → Nat → Prop) : Prop :=
  ∀ s pos n, 0 < n → I s pos → pos ≤ D.length →
    ∃ s' res, sub s (.read n) = .ok (s', res) ∧ res.q = 0 ∧ res.bits = slice D pos res.bits.length ∧
      res.bits.length ≤ n ∧ pos + res.bits.length ≤ D.length ∧ I s' (pos + res.bits.length) ∧
      ((res.err = none ∧ res.bits ≠ []) ∨ (res.err = some .eof ∧ pos + res.bits.length = D.length))

/-- state of an IOReader over such a source after `j` bytes were delivered: the bit buffer holds exactly the
    bits between what was delivered and the source position, and a pending error is EOF at the end of D -/
def IOCore (D : Bits) (I : Rd → Nat → Prop) (j : Nat) (r : Rd) (rErr : Option Err) (buf : Buffer) : Prop :=
  ∃ pos, buf.WF ∧ I r pos ∧ pos ≤ D.length ∧ j ≤ bitsByteCount D.length ∧ min (8 * j) D.length ≤ pos ∧
    buf.content = slice D (min (8 * j) D.length) (pos - min (8 * j) D.length) ∧
    (rErr = none ∨ (rErr = some .eof ∧ pos = D.length))

def IOInv (D : Bits) (I : Rd → Nat → Prop) (j : Nat) : Rd → Prop
  | .ioBytes r _ rErr buf _ => IOCore D I j r rErr buf ∧ buf.content.length < 8
  | _ => False

/-- io.Reader.Read with the given buffer sizes, one after the other, until an error is reported:
    all bytes delivered, and that error -/
def readAll (d : Nat) : Rd → List Nat → List UInt8 × Option Err
  | _, [] => ([], none)
  | s, n :: ns =>
    match step d s (.readB n) with
    | .ok (s', res) =>
      if res.err.isSome then (res.bytes, res.err)
      else ((res.bytes ++ (readAll d s' ns).1), (readAll d s' ns).2)
    | _ => ([], some .other)

/-- a well-formed bit reader (see `WFd`) with a ReadBits method, denoting D, standing at position pos -/
def WFAt (d : Nat) (D : Bits) (s : Rd) (pos : Nat) : Prop :=
  WFd d s ∧ isReader s = true ∧ den s = D ∧ posOf s = pos

/-! ### histories: any sequence of reads, seeks and clones against a cursor over the denoted bits -/

inductive HOp
  | readAt (n off : Nat)
  | read (n : Nat)
  | seek (off : Int) (w : Whence)
  | clone
deriving Repr, DecidableEq

def HOp.toOp : HOp → Op
  | .readAt n off => .readAt n off
  | .read n => .read n
  | .seek off w => .seek off w
  | .clone => .clone

/-- SectionReader or MultiReader on top: what fq hands out (NewBitReader, bitiox.Range, Binary.toReader, gzip members) -/
def topSM : Rd → Bool
  | .sect .. | .multi .. => true
  | _ => false

def seekTargetBits (len pos : Nat) (off : Int) : Whence → Int
  | .start => off
  | .current => (pos : Int) + off
  | .end_ => (len : Int) + off

/-- what a cursor at `pos` over the bit string D allows as the result `res` of `op`; `pos'` = the cursor afterwards.
    A seek is rejected (ErrOffset, cursor unchanged) only for a target outside [0, len] and accepted only for a
    target ≥ 0 (SectionReader accepts targets beyond the end: reads there report EOF). -/
def CursorStep (D : Bits) (pos : Nat) (op : HOp) (res : Res) (pos' : Nat) : Prop :=
  match op with
  | .readAt n off => SoundAt D off n res ∧ pos' = pos
  | .read n => SoundAt D pos n res ∧ pos' = pos + res.bits.length
  | .seek off w =>
    (res.err = none ∧ res.n = seekTargetBits D.length pos off w ∧ 0 ≤ seekTargetBits D.length pos off w ∧
        (pos' : Int) = seekTargetBits D.length pos off w) ∨
    (res.err = some .offset ∧ pos' = pos ∧
        (seekTargetBits D.length pos off w < 0 ∨ (D.length : Int) < seekTargetBits D.length pos off w))
  | .clone => res.err = none ∧ pos' = 0

/-- run a history on the model (the state after `clone` is the clone); stops at the first outcome that is not ok -/
def runH (d : Nat) : Rd → List HOp → List (HOp × Outcome Res)
  | _, [] => []
  | s, op :: ops =>
    match step d s op.toOp with
    | .ok (s', res) => (op, .ok res) :: runH d s' ops
    | .fault w => [(op, .fault w)]
    | .hang => [(op, .hang)]
    | .unsupported w => [(op, .unsupported w)]

/-- every observation of the history is allowed by the cursor (in particular: no Go panic, no hang) -/
def HistOK (D : Bits) : Nat → List (HOp × Outcome Res) → Prop
  | _, [] => True
  | pos, (op, .ok res) :: rest => ∃ pos', CursorStep D pos op res pos' ∧ HistOK D pos' rest
  | _, _ :: _ => False

/-! ### specification machine for a bit reader directly over a byte string (no readers, no cache, no state but the
    cursor and IOBitReadSeeker's scratch buffer): what `NewIOBitReadSeeker(rs)` does when `rs` is an ideal
    io.ReadSeeker over `data` -/

/-- ReadBitsAt: (new scratch buffer, result) -/
def bitsSpecReadAt (data buf : List UInt8) (n : Nat) (off : Int) : Outcome (List UInt8 × Res) :=
  let T := off.tdiv 8
  let skip := off.tmod 8
  let W := bitsByteCountI (skip + n)
  let B0 := if W > buf.length then List.replicate W 0 else buf
  if T < 0 then .ok (B0, { err := some .seek })
  else
    let D := slice data T.toNat W
    (ioBitsFinish (D ++ B0.drop D.length) skip n D.length (rawFullRes data T.toNat W 0).err 0).bind
      fun res => .ok (D ++ B0.drop D.length, res)

/-- SeekBits: (new bit position, result) -/
def bitsSpecSeek (len : Nat) (bitPos : Int) (o : Int) (w : Whence) : Int × Res :=
  let o' := if w = .current then o + bitPos else o
  let w' := if w = .current then Whence.start else w
  let T := seekTarget len 0 (o'.tdiv 8) w'
  if T < 0 then (bitPos, { err := some .seek }) else (T * 8 + o'.tmod 8, { n := T * 8 + o'.tmod 8 })

/-- state = (bit position, scratch buffer) -/
def bitsSpecStep (data : List UInt8) (st : Int × List UInt8) : HOp → Outcome ((Int × List UInt8) × Res)
  | .readAt n off => (bitsSpecReadAt data st.2 n off).bind fun x => .ok ((st.1, x.1), x.2)
  | .read n => (bitsSpecReadAt data st.2 n st.1).bind fun x => .ok ((st.1 + x.2.n, x.1), x.2)
  | .seek o w => .ok (((bitsSpecSeek data.length st.1 o w).1, st.2), (bitsSpecSeek data.length st.1 o w).2)
  | .clone => .ok ((0, []), {})

def runBitsSpecFrom (data : List UInt8) : (Int × List UInt8) → List HOp → List (HOp × Outcome Res)
  | _, [] => []
  | st, op :: ops =>
    match bitsSpecStep data st op with
    | .ok (st', res) => (op, .ok res) :: runBitsSpecFrom data st' ops
    | .fault w => [(op, .fault w)]
    | .hang => [(op, .hang)]
    | .unsupported w => [(op, .unsupported w)]

/-- the observations of a history on a fresh bit reader over the byte string `data` -/
def runBitsSpec (data : List UInt8) (ops : List HOp) := runBitsSpecFrom data (0, []) ops

/-! ### LimitReader histories: a cursor with a budget -/

inductive LOp
  | read (n : Nat)
  | clone
deriving Repr, DecidableEq

def LOp.toOp : LOp → Op
  | .read n => .read n
  | .clone => .clone

def runL (d : Nat) : Rd → List LOp → List (LOp × Outcome Res)
  | _, [] => []
  | s, op :: ops =>
    match step d s op.toOp with
    | .ok (s', res) => (op, .ok res) :: runL d s' ops
    | .fault w => [(op, .fault w)]
    | .hang => [(op, .hang)]
    | .unsupported w => [(op, .unsupported w)]

/-- LimitReader over a reader denoting D: every ReadBits returns the bits at the inner cursor, at most the
    remaining budget `rem` (a short read of the inner reader — e.g. at a MultiReader boundary — consumes only
    what was returned); CloneReader resets the cursor but KEEPS the remaining budget (limitreader.go:35) -/
def LimitOK (D : Bits) : Nat → Nat → List (LOp × Outcome Res) → Prop
  | _, _, [] => True
  | pos, rem, (.read n, .ok res) :: rest =>
    SoundAt (D.take (pos + rem)) pos n res ∧ res.bits.length ≤ rem ∧
      LimitOK D (pos + res.bits.length) (rem - res.bits.length) rest
  | _, rem, (.clone, .ok res) :: rest => res.err = none ∧ LimitOK D 0 rem rest
  | _, _, _ :: _ => False

/-- number of bits returned by the reads of a history -/
def bitsReturned : List (LOp × Outcome Res) → Nat
  | [] => 0
  | (_, .ok res) :: rest => res.bits.length + bitsReturned rest
  | _ :: rest => bitsReturned rest

/-! ### bitio.Buffer as a FIFO of bits -/

inductive BufOp
  | write (p : List UInt8) (n : Nat)
  | read (k : Nat)
deriving Repr, DecidableEq

/-- observations: for a read the bits returned (the first n bits of p) and the error -/
def runBuf : Buffer → List BufOp → List (Outcome (Bits × Option Err))
  | _, [] => []
  | b, .write p n :: ops =>
    match b.writeBits p n with
    | .ok b' => .ok ([], none) :: runBuf b' ops
    | .fault w => [.fault w]
    | .hang => [.hang]
    | .unsupported w => [.unsupported w]
  | b, .read k :: ops =>
    match b.readBits k with
    | .ok (b', p, c, e) => .ok ((bytesToBits p).take c, e) :: runBuf b' ops
    | .fault w => [.fault w]
    | .hang => [.hang]
    | .unsupported w => [.unsupported w]

/-- the FIFO: `c` = the bits written and not yet read -/
def bufSpec : Bits → List BufOp → List (Outcome (Bits × Option Err))
  | _, [] => []
  | c, .write p n :: ops => .ok ([], none) :: bufSpec (c ++ slice (bytesToBits p) 0 n) ops
  | c, .read k :: ops =>
    if c = [] then .ok ([], if k = 0 then none else some .eof) :: bufSpec [] ops
    else .ok (c.take (min k c.length), none) :: bufSpec (c.drop (min k c.length)) ops

/-! ### aliasing: what a constructor does to the reader it is given -/

/-- a part NewMultiReader gets in fq: a well-formed section / multi reader or a zero reader, standing inside its data -/
def PartOK (d : Nat) (r : Rd) : Prop :=
  WFd d r ∧ (topSM r = true ∨ ∃ p n, r = .zero p n) ∧ posOf r ≤ (den r).length

/-- part by part: same cursor, same bits, still a good part -/
def PartsKept (d : Nat) : List Rd → List Rd → Prop
  | [], [] => True
  | r :: rs, r' :: rs' => (posOf r' = posOf r ∧ den r' = den r ∧ PartOK d r') ∧ PartsKept d rs rs'
  | _, _ => False

/-! ### clones of a bit reader over bytes: independent cursors -/

/-- an interleaved history over the family {original, clone 1, clone 2, …}: (cursor, operation) -/
def famRun (d : Nat) : List Rd → List (Nat × HOp) → List (Nat × HOp × Outcome Res)
  | _, [] => []
  | cs, (k, op) :: ops =>
    match famStep d cs k op.toOp with
    | .ok (cs', res) => (k, op, .ok res) :: famRun d cs' ops
    | .fault w => [(k, op, .fault w)]
    | .hang => [(k, op, .hang)]
    | .unsupported w => [(k, op, .unsupported w)]

/-- the specification: every cursor is a `bitsSpecStep` machine of its own over the byte string — there is NO
    shared component, so what one cursor answers cannot depend on what the others did; `clone` adds a fresh cursor -/
def famSpec (data : List UInt8) : List (Int × List UInt8) → List (Nat × HOp) → List (Nat × HOp × Outcome Res)
  | _, [] => []
  | sts, (k, op) :: ops =>
    match sts[k]? with
    | none => [(k, op, .unsupported "no such cursor")]
    | some st =>
      match bitsSpecStep data st op with
      | .ok (st', res) => (k, op, .ok res) :: famSpec data (if op = .clone then sts ++ [st'] else sts.set k st') ops
      | .fault w => [(k, op, .fault w)]
      | .hang => [(k, op, .hang)]
      | .unsupported w => [(k, op, .unsupported w)]

/-! ### aheadreadseeker against bytes.Reader -/

/-- byte-level operations whose results are determined by the data alone: io.ReadFull and Seek
    (a plain Read may legitimately return fewer bytes: see `ahead_read_prefix`) -/
inductive BOp
  | readFull (n : Nat)
  | seek (off : Int) (w : Whence)
deriving Repr, DecidableEq

/-- observations (n, bytes, error class) of a history of byte-level operations -/
def runBytes (d : Nat) : Rd → List BOp → List (Outcome (Int × List UInt8 × Option Err))
  | _, [] => []
  | s, op :: ops =>
    let o := match op with
      | .readFull n => ioReadFull (step d) s n
      | .seek off w => step d s (.seekB off w)
    match o with
    | .ok (s', r) => .ok (r.n, r.bytes, r.err) :: runBytes d s' ops
    | .fault w => [.fault w]
    | .hang => [.hang]
    | .unsupported w => [.unsupported w]

/-- aheadreadseeker.New(bytes.NewReader(data) | file, minRead) -/
def initAhead (data : List UInt8) (isFile : Bool) (minRead : Nat) : Rd := .ahead (.raw data 0 isFile) minRead 0 [] 0

def runAhead (data : List UInt8) (isFile : Bool) (minRead : Nat) (ops : List BOp) := runBytes depthFuel (initAhead data isFile minRead) ops

/-- the same history on bytes.NewReader(data) -/
def runBytesReader (data : List UInt8) (ops : List BOp) := runBytes depthFuel (.raw data 0 false) ops

/-! ### ill-fitting sections (round 6): `NewSectionReader(r, bitOff, nBits)` checks NOTHING (sectiontreader.go:17-24),
    so a section may reach past the end of the reader below it (bitOff+nBits > its length), start at or beyond its
    end, or be empty.  What the code defines for such a section: every read is clamped TWICE — by the section's own
    window (sectiontreader.go:30-34) and by the reader below, which stops at ITS logical end — so the section stands
    for `slice (den r) bitOff nBits` with `slice` clamping at the end of `den r` (this is what `den` says), never for
    a bit of anything below `r` that lies outside `r`'s range. -/

/-- `SoundAt`, except that ErrOffset may also be reported for a read AT the logical end (not only beyond it): a section
    that starts beyond the end of a ZeroReadAtSeeker is empty, a read at its offset 0 reaches the zero reader beyond its
    end and gets ErrOffset instead of EOF (zeroreadatseeker.go:46) — no bits in either case -/
structure SoundAtO (d : Bits) (off n : Nat) (r : Res) : Prop where
  cnt : r.n = r.bits.length
  le : r.bits.length ≤ n
  bits : r.bits = slice d off r.bits.length
  inb : off + r.bits.length ≤ d.length ∨ r.bits = []
  eof : r.err = some .eof → d.length ≤ off + r.bits.length
  prog : r.err = none → 0 < n → off < d.length → r.bits ≠ []
  endErr : d.length ≤ off → 0 < n → r.err ≠ none
  inside : 0 < n → off + n ≤ d.length → r.err = none
  errs : r.err = none ∨ r.err = some .eof ∨ (r.err = some .offset ∧ d.length ≤ off ∧ r.bits = [])
  noq : r.q = 0

/-- `WFd` without the demand that a section lies inside the reader below it: ANY window (overhanging by bits or bytes,
    starting at / beyond the end, empty), at every level of a nest of sections, over a byte buffer / file stack, a
    zero reader or a (well-formed) MultiReader.  `base ≤ off` and `base ≤ limit` hold for every SectionReader that
    NewSectionReader built with nBits ≥ 0 and that was only moved by accepted SeekBits calls.
    (The parts of a MultiReader stay `WFd`: NewMultiReader takes a part's length from SeekBits(0, end), which for an
    overhanging section is the NOMINAL length, so such a MultiReader has holes — outside this predicate.) -/
def WFo : Nat → Rd → Prop
  | d+1, .sect r base off limit => WFo d r ∧ base ≤ off ∧ base ≤ limit
  | d+1, .multi rs ends pos => WFd (d+1) (.multi rs ends pos)
  | _+1, .zero pos n => pos ≤ n
  | d+1, .ioBits b bitPos _ => 0 ≤ bitPos ∧ ByteWF d b
  | _, _ => False

def SubOKO (sub : Sub) (P : Rd → Prop) (r : Rd) : Prop :=
  ∀ (n off : Nat), ∃ r' res, sub r (.readAt n (off : Int)) = .ok (r', res) ∧ SoundAtO (den r) off n res ∧ P r' ∧ den r' = den r

/-- the seeded variant S6-C01-1 of NewSectionReader: a section of a section is built directly on the parent's
    underlying reader (r = sr.r; bitOff += sr.bitBase) — the parent's bitLimit is forgotten -/
def newSectCollapsed (r : Rd) (bitOff nBits : Nat) : Rd :=
  match r with
  | .sect r0 b0 _ _ => .sect r0 (bitOff + b0) (bitOff + b0) (bitOff + b0 + nBits)
  | r => newSect r bitOff nBits

end FqModel.Bitio
