import FqModel.Scalar
/-!
  C02 — the generated reader methods of pkg/decode/decode_gen.go:
    * what a method NAME says (`parseName`): layer (Try / plain / TryFieldScalar / FieldScalar /
      TryField / Field) and the core call it stands for (core function, width / endian / encoding
      arguments);
    * the shape of the regenerated fact table (`Entry`, written by /verif/extract/c02gen);
    * `entryOk`: a table entry agrees with its name;
    * the interpretation of a core call by the model functions of FqModel/Scalar.lean (`runCore`) and
      of the six layers (`applyLayer`) — used by the driver, so the harness' "method name" means
      exactly what `gen_table_ok` checks.
  Names are lists of ASCII codes so that the kernel evaluates everything on `Nat`.
-/
namespace FqModel.C02
open FqModel FqModel.Scalar

inductive Layer | try_ | plain | tryFieldScalar | fieldScalar | tryField | field
deriving DecidableEq, Repr, Inhabited

inductive CoreFn
  | tryUEndian | trySEndian | tryFEndian | tryFPEndian | tryBigIntEndianSign | tryBool | tryUnary
  | tryULEB128 | trySLEB128 | tryText | tryTextNull | tryTextNullLen | tryTextLenPrefixed | tryBitBuf
  | unknown
deriving DecidableEq, Repr, Inhabited

/-- an argument expression of a core call, as written in decode_gen.go -/
inductive Arg
  | lit (i : Int)        -- integer literal
  | param (k : Nat)      -- the k-th parameter of the method, not counting `name` and the variadic mappers
  | curEndian            -- d.Endian
  | be | le              -- BigEndian / LittleEndian
  | tt | ff              -- true / false
  | enc (e : Enc)        -- UTF8BOM / UTF16BOM / UTF16LE / UTF16BE
  | unknown
deriving DecidableEq, Repr, Inhabited

inductive Body
  | core (f : CoreFn) (args : List Arg)            -- the body calls exactly one d.try…(…) core function
  | deleg (target : List Nat) (passthrough : Bool)  -- the body calls exactly one other method of D, passing its own parameters in order
  | other
deriving DecidableEq, Repr, Inhabited

structure Entry where
  name : List Nat
  body : Body
deriving DecidableEq, Repr, Inhabited

/-! ### names -/

def kTry : List Nat := [84, 114, 121]
def kField : List Nat := [70, 105, 101, 108, 100]
def kScalar : List Nat := [83, 99, 97, 108, 97, 114]
def kLE : List Nat := [76, 69]
def kBE : List Nat := [66, 69]
def kE : List Nat := [69]
def kU : List Nat := [85]
def kS : List Nat := [83]
def kF : List Nat := [70]
def kFP : List Nat := [70, 80]
def kUBigInt : List Nat := [85, 66, 105, 103, 73, 110, 116]
def kSBigInt : List Nat := [83, 66, 105, 103, 73, 110, 116]
def kBool : List Nat := [66, 111, 111, 108]
def kUnary : List Nat := [85, 110, 97, 114, 121]
def kULEB128 : List Nat := [85, 76, 69, 66, 49, 50, 56]
def kSLEB128 : List Nat := [83, 76, 69, 66, 49, 50, 56]
def kUTF8 : List Nat := [85, 84, 70, 56]
def kUTF16 : List Nat := [85, 84, 70, 49, 54]
def kNull : List Nat := [78, 117, 108, 108]
def kNullFixedLen : List Nat := [78, 117, 108, 108, 70, 105, 120, 101, 100, 76, 101, 110]
def kShortString : List Nat := [83, 104, 111, 114, 116, 83, 116, 114, 105, 110, 103]
def kShortStringFixedLen : List Nat := [83, 104, 111, 114, 116, 83, 116, 114, 105, 110, 103, 70, 105, 120, 101, 100, 76, 101, 110]
def kStr : List Nat := [83, 116, 114]
def kRawLen : List Nat := [82, 97, 119, 76, 101, 110]

def stripPrefix (p s : List Nat) : Option (List Nat) :=
  if p.isPrefixOf s then some (s.drop p.length) else none

/-- Try? Field? Scalar? — `Scalar` only after `Field` -/
def splitLayer (n : List Nat) : Layer × List Nat :=
  let (t, r) := match stripPrefix kTry n with
    | some r => (true, r)
    | none => (false, n)
  match stripPrefix kField r with
  | none => (if t then .try_ else .plain, r)
  | some r2 =>
    match stripPrefix kScalar r2 with
    | some r3 => (if t then .tryFieldScalar else .fieldScalar, r3)
    | none => (if t then .tryField else .field, r2)

def isDigit (c : Nat) : Bool := 48 ≤ c && c ≤ 57
def digitsVal (ds : List Nat) : Nat := ds.foldl (fun a c => 10 * a + (c - 48)) 0

def endianOfSuffix (suf : List Nat) : Option Arg :=
  if suf = [] then some .curEndian else if suf = kLE then some .le else if suf = kBE then some .be else none

/-- `<pre><digits>?<suffix>`: U8, S13LE, F64BE, FP32, U, UE, FPE … ; FP<w> is w/2 . w/2 fixed point -/
def parseNumericWith (pre : List Nat) (fn : CoreFn) (isFP : Bool) (b : List Nat) : Option (CoreFn × List Arg) :=
  match stripPrefix pre b with
  | none => none
  | some rest =>
    let ds := rest.takeWhile isDigit
    let suf := rest.dropWhile isDigit
    if ds = [] then
      let wargs : List Arg := if isFP then [.param 0, .param 1] else [.param 0]
      if suf = [] then some (fn, wargs ++ [.curEndian])
      else if suf = kE then some (fn, wargs ++ [.param wargs.length])
      else none
    else if ds.head? = some 48 then none
    else
      let w := digitsVal ds
      match endianOfSuffix suf with
      | none => none
      | some e => some (fn, (if isFP then [Arg.lit w, Arg.lit (w / 2)] else [Arg.lit w]) ++ [e])

def bigIntArgs (suf : List Nat) (sign : Arg) : Option (List Arg) :=
  if suf = [] then some [.param 0, .curEndian, sign]
  else if suf = kE then some [.param 0, .param 1, sign]
  else if suf = kLE then some [.param 0, .le, sign]
  else if suf = kBE then some [.param 0, .be, sign]
  else none

def namedBases : List (List Nat × CoreFn × List Arg) := [
  (kBool, .tryBool, []),
  (kUnary, .tryUnary, [.param 0]),
  (kULEB128, .tryULEB128, []),
  (kSLEB128, .trySLEB128, []),
  (kUTF8, .tryText, [.param 0, .enc .utf8bom]),
  (kUTF16, .tryText, [.param 0, .enc .utf16bom]),
  (kUTF16 ++ kLE, .tryText, [.param 0, .enc .utf16le]),
  (kUTF16 ++ kBE, .tryText, [.param 0, .enc .utf16be]),
  (kUTF8 ++ kNull, .tryTextNull, [.lit 1, .enc .utf8bom]),
  (kUTF16 ++ kNull, .tryTextNull, [.lit 2, .enc .utf16bom]),
  (kUTF16 ++ kLE ++ kNull, .tryTextNull, [.lit 2, .enc .utf16le]),
  (kUTF16 ++ kBE ++ kNull, .tryTextNull, [.lit 2, .enc .utf16be]),
  (kUTF8 ++ kNullFixedLen, .tryTextNullLen, [.param 0, .enc .utf8bom]),
  (kUTF8 ++ kShortString, .tryTextLenPrefixed, [.lit 1, .lit (-1), .enc .utf8bom]),
  (kUTF8 ++ kShortStringFixedLen, .tryTextLenPrefixed, [.lit 1, .param 0, .enc .utf8bom]),
  (kStr, .tryText, [.param 0, .param 1]),
  (kRawLen, .tryBitBuf, [.param 0])]

def parseBase (b : List Nat) : Option (CoreFn × List Arg) :=
  (parseNumericWith kFP .tryFPEndian true b)
  <|> (parseNumericWith kU .tryUEndian false b)
  <|> (parseNumericWith kS .trySEndian false b)
  <|> (parseNumericWith kF .tryFEndian false b)
  <|> ((stripPrefix kUBigInt b).bind fun suf => (bigIntArgs suf .ff).map fun a => (CoreFn.tryBigIntEndianSign, a))
  <|> ((stripPrefix kSBigInt b).bind fun suf => (bigIntArgs suf .tt).map fun a => (CoreFn.tryBigIntEndianSign, a))
  <|> ((namedBases.find? fun e => e.1 = b).map fun e => e.2)

/-- what the name of a generated reader says -/
def parseName (n : List Nat) : Option (Layer × CoreFn × List Arg) :=
  let (layer, base) := splitLayer n
  (parseBase base).map fun c => (layer, c)

/-- delegation may only go "down": Field → FieldScalar → TryFieldScalar, TryField → TryFieldScalar -/
def Layer.rank : Layer → Nat
  | .try_ => 0 | .plain => 0 | .tryFieldScalar => 1 | .fieldScalar => 2 | .tryField => 2 | .field => 3

/-- a table entry agrees with its name: either it calls the core function the name stands for, with
    the width / endian / encoding the name stands for, or it passes its parameters on to a method
    of strictly lower layer rank whose name stands for the same core call.  Entries whose name is
    not a reader name (helpers such as FieldUintFn, UintAssert) are not constrained. -/
def entryOk (e : Entry) : Bool :=
  match parseName e.name with
  | none => true
  | some (layer, fn, args) =>
    match e.body with
    | .core f a => f = fn && a = args
    | .deleg t pass =>
      pass && (match parseName t with
        | some (l2, fn2, args2) => decide (l2.rank < layer.rank) && fn2 = fn && args2 = args
        | none => false)
    | .other => false

def isReader (e : Entry) : Bool := (parseName e.name).isSome

/-! ### interpretation of a core call by the model -/

inductive Val
  | u (n : Nat) | s (i : Int) | big (i : Int) | f (bits : Nat) | b (v : Bool)
  | t (utf8 : List Nat) | bits (n : Nat) (bytes : List Nat)
deriving DecidableEq, Repr, Inhabited

inductive ArgVal | int (i : Int) | endian (e : Endian) | enc (e : Enc)
deriving DecidableEq, Repr, Inhabited

def resolveArg (cur : Endian) (actual : List ArgVal) : Arg → Option ArgVal
  | .lit i => some (.int i)
  | .param k => actual[k]?
  | .curEndian => some (.endian cur)
  | .be => some (.endian .be)
  | .le => some (.endian .le)
  | .tt => some (.int 1)
  | .ff => some (.int 0)
  | .enc e => some (.enc e)
  | .unknown => none

def textVal (e : Enc) (r : Res (List Nat)) : Res Val :=
  r.map fun frame => .t (decodeText e frame)

def runCore (bs : Bits) (pos : Nat) : CoreFn → List ArgVal → Option (Res Val)
  | .tryUEndian, [.int n, .endian e] => some ((tryUEndianI bs pos n e).map .u)
  | .trySEndian, [.int n, .endian e] => some ((trySEndianI bs pos n e).map .s)
  | .tryFEndian, [.int n, .endian e] => some ((tryFEndianI bs pos n e).map .f)
  | .tryFPEndian, [.int n, .int f, .endian e] => some ((tryFPEndianI bs pos n f e).map .f)
  | .tryBigIntEndianSign, [.int n, .endian e, .int sg] => some ((tryBigIntEndianSignI bs pos n e (sg ≠ 0)).map .big)
  | .tryBool, [] => some ((tryBool bs pos).map .b)
  | .tryUnary, [.int ov] => some ((tryUnary bs pos ov.toNat).map .u)
  | .tryULEB128, [] => some ((tryULEB128 bs pos).map .u)
  | .trySLEB128, [] => some ((trySLEB128 bs pos).map .s)
  | .tryText, [.int n, .enc e] => some (textVal e (tryTextFrame bs pos n))
  | .tryTextNull, [.int cb, .enc e] => some (textVal e (tryTextNullFrame bs pos cb.toNat))
  | .tryTextNullLen, [.int n, .enc e] => some (textVal e (tryTextNullLenFrame bs pos n))
  | .tryTextLenPrefixed, [.int p, .int fx, .enc e] => some (textVal e (tryTextLenPrefixedFrame bs pos p fx))
  | _, _ => none

/-- what the harness observes: outcome + (for Field layers) the range of the field added -/
structure Obs where
  res : Res Val
  field : Option (Option (Nat × Nat))   -- none: not a Field method; some none: no field added
deriving DecidableEq, Repr, Inhabited

/-- the six layers of decode_gen.go around a core call made at position `pos0`:
      Try…            the core result
      plain           an error becomes d.IOPanic(err, …)
      TryFieldScalar… TryFieldValue: on success a field [pos0, pos') is added; on error none
      FieldScalar…    = TryFieldScalar… + IOPanic on error
      TryField…       `s, err := d.TryFieldScalar…(…); if err != nil { return <zero>, err }; return s.Actual, err`
                      (before fix 8eb2aeb2 the error branch was missing and `s.Actual` dereferenced nil:
                      finding tryfield-nil-deref, fixed)
      Field…          = FieldScalar…(…).Actual -/
def applyLayer (layer : Layer) (pos0 : Nat) (r : Res Val) : Obs :=
  let fieldOf : Res Val → Option (Nat × Nat)
    | .ok _ p => some (pos0, p - pos0)
    | _ => none
  let panicOnErr : Res Val → Res Val
    | .err e p => .ioerr e p
    | r => r
  match layer with
  | .try_ => ⟨r, none⟩
  | .plain => ⟨panicOnErr r, none⟩
  | .tryFieldScalar => ⟨r, some (fieldOf r)⟩
  | .fieldScalar => ⟨panicOnErr r, some (fieldOf r)⟩
  | .tryField => ⟨r, some (fieldOf r)⟩
  | .field => ⟨panicOnErr r, some (fieldOf r)⟩

/-- a reader call by method name -/
def call (bs : Bits) (pos : Nat) (cur : Endian) (method : List Nat) (actual : List ArgVal) : Option Obs :=
  match parseName method with
  | none => none
  | some (layer, fn, args) =>
    match args.mapM (resolveArg cur actual) with
    | none => none
    | some av => (runCore bs pos fn av).map (applyLayer layer pos)

end FqModel.C02

/-! ### read histories on ONE decoder (decode.go: the read path between two reads)

  The decoder's state in the model is `(den, pos)`: the denotation of its buffer and the bit position.
  Nothing else survives a read — in particular not the contents of the shared read buffer
  (decode.go:317 SharedReadBuf, which TryBits fills and the little-endian readers byte-reverse in
  place, and which `fieldDecoder` (decode.go:241) hands to every child decoder).  `execStep` threads
  `pos` through the steps exactly as the Go methods do (seek, read, peek = read + seek back, child
  decoders on the same or on a range-limited buffer); `stepObs` is the SINGLE-READ description of a
  step, a function of `(den, step)` only.  Props.C02 `read_history_stateless`: they agree on every
  history.  The harness' `histories` run replays 2..6-step histories on one real decoder. -/
namespace FqModel.C02
open FqModel FqModel.Scalar

def kTryUintBits : List Nat := [84, 114, 121, 85, 105, 110, 116, 66, 105, 116, 115]
def kTryBits : List Nat := [84, 114, 121, 66, 105, 116, 115]

/-- the two readers of decode.go without a generated wrapper: TryUintBits (:418), TryBits (:389) -/
def rawCall (bs : Bits) (pos : Nat) (method : List Nat) (av : List ArgVal) : Option Obs :=
  match av with
  | [.int n] =>
    if method = kTryUintBits then
      some ⟨if n < 0 then .err .other pos else (tryUintBits bs pos n.toNat).map .u, none⟩
    else if method = kTryBits then
      some ⟨if n < 0 then .err .other pos else (tryBits bs pos n.toNat).map fun b => .bits n.toNat (byteVals b), none⟩
    else none
  | _ => none

/-- a reader: current endian of the decoder, method name, arguments -/
structure Reader where
  cur : Endian
  method : List Nat
  args : List ArgVal
deriving DecidableEq, Repr, Inhabited

def posOfRes {α} : Res α → Nat
  | .ok _ p => p
  | .err _ p => p
  | .ioerr _ p => p
  | .panic _ p => p

def Res.withPos {α} (q : Nat) : Res α → Res α
  | .ok v _ => .ok v q
  | .err e _ => .err e q
  | .ioerr e _ => .ioerr e q
  | .panic w _ => .panic w q

/-- ONE read by reader `rd` at position `pos` of a buffer with denotation `den` — what every case
    of the `readers` run checks.  `none`: the method is not modelled. -/
def readAt (den : Bits) (pos : Nat) (rd : Reader) : Option Obs :=
  match rawCall den pos rd.method rd.args with
  | some o => some o
  | none => call den pos rd.cur rd.method rd.args

/-- the decoder's position after a read -/
def posAfter (pos : Nat) : Option Obs → Nat
  | some o => posOfRes o.res
  | none => pos

/-- child decoders: FieldStruct / FieldArray (decode.go:872,886: same bitBuf), FramedFn / LimitedFn /
    RangeFn (:963-1003: a SectionReader [0, pos+n) of the buffer), SeekAbs(pos, fn) called with the
    decoder at `back` (:763: same decoder, position restored afterwards) -/
inductive ChildKind
  | struct | array | framed (n : Nat) | limited (n : Nat) | range (n : Nat) | seekFn (back : Nat)
deriving DecidableEq, Repr, Inhabited

inductive Step
  | read (pos : Nat) (rd : Reader)                 -- SeekAbs(pos); M
  | relRead (pos n : Nat) (rd : Reader)            -- SeekAbs(pos+n); SeekRel(-n); M
  | peek (pos : Nat) (n : Int)                     -- SeekAbs(pos); TryPeekBits(n)
  | peekFind (pos : Nat) (cur : Endian) (nBits : Nat) (maxLen : Int) (target : Nat)
                                                   -- SeekAbs(pos); TryPeekFind(nBits, nBits, maxLen, v == target)
  | bitsLeft (pos : Nat)                           -- SeekAbs(pos); BitsLeft()
  | getPos (pos : Nat)                             -- SeekAbs(pos); Pos()
  | child (k : ChildKind) (pos : Nat) (rd : Reader) -- SeekAbs(pos); M inside a child decoder
deriving DecidableEq, Repr, Inhabited

inductive SObs
  | seekErr                                  -- IOPanic of SeekAbs / SeekRel
  | rangeErr                                 -- IOPanic of BitBufRange (range beyond the buffer)
  | rd (o : Option Obs)
  | peek (r : Res Nat)
  | find (r : Res (Option (Nat × Nat)))      -- (count, value) of the unit found
  | num (v : Int) (pos : Nat)
  | child (o : Option Obs) (parentPos : Nat)
deriving DecidableEq, Repr, Inhabited

/-- decode.go:763 trySeekAbs: positions beyond the end are rejected, the position is unchanged -/
def seekAbs (den : Bits) (p : Nat) : Option Nat := if p > den.length then none else some p

/-- decode.go:795 TrySeekRel = trySeekAbs(d.Pos()+delta); a negative target is the bit reader's error -/
def seekRel (den : Bits) (cur : Nat) (delta : Int) : Option Nat :=
  let t : Int := (cur : Int) + delta
  if t < 0 then none else seekAbs den t.toNat

/-- decode.go:490 TryPeekBits: `start := pos; n, err := TryUintBits(nBits); seek(start)` -/
def peekBits (den : Bits) (pos : Nat) (n : Int) : Res Nat :=
  Res.withPos pos (if n < 0 then .err .other pos else tryUintBits den pos n.toNat)

/-- decode.go:502 TryPeekFind with seekBits = nBits > 0: the loop `for !(maxLen > 0 && count >= maxLen)
    { v = TryU(nBits); if fn(v) break; count += seekBits; seek(start+count) }`, every exit seeks back -/
def peekFindLoop (den : Bits) (cur : Endian) (start nBits : Nat) (maxLen : Int) (target : Nat) :
    Nat → Nat → Res (Option (Nat × Nat))
  | 0, _ => .ok none start
  | fuel+1, count =>
    if maxLen > 0 ∧ (count : Int) ≥ maxLen then .ok none start
    else match tryUEndian den (start + count) nBits cur with
      | .ok v _ => if v = target then .ok (some (count, v)) start
                   else peekFindLoop den cur start nBits maxLen target fuel (count + nBits)
      | .err e _ => .err e start
      | .ioerr e _ => .ioerr e start
      | .panic w p => .panic w p

def peekFind (den : Bits) (cur : Endian) (start nBits : Nat) (maxLen : Int) (target : Nat) : Res (Option (Nat × Nat)) :=
  peekFindLoop den cur start nBits maxLen target (den.length + 2) 0

/-- one step on the decoder in state `st` (its position): observation and new position -/
def execStep (den : Bits) (st : Nat) : Step → SObs × Nat
  | .read p rd =>
    match seekAbs den p with
    | none => (.seekErr, st)
    | some q => let o := readAt den q rd; (.rd o, posAfter q o)
  | .relRead p n rd =>
    match seekAbs den (p + n) with
    | none => (.seekErr, st)
    | some q =>
      match seekRel den q (-(n : Int)) with
      | none => (.seekErr, q)
      | some q2 => let o := readAt den q2 rd; (.rd o, posAfter q2 o)
  | .peek p n =>
    match seekAbs den p with
    | none => (.seekErr, st)
    | some q => let r := peekBits den q n; (.peek r, posOfRes r)
  | .peekFind p cur nBits maxLen target =>
    match seekAbs den p with
    | none => (.seekErr, st)
    | some q => let r := peekFind den cur q nBits maxLen target; (.find r, posOfRes r)
  | .bitsLeft p =>
    match seekAbs den p with
    | none => (.seekErr, st)
    | some q => (.num ((den.length : Int) - q) q, q)
  | .getPos p =>
    match seekAbs den p with
    | none => (.seekErr, st)
    | some q => (.num q q, q)
  | .child .struct p rd | .child .array p rd =>
    match seekAbs den p with
    | none => (.seekErr, st)
    | some q =>
      -- the child reads the parent's bitBuf: the parent's position moves with it
      let o := readAt den q rd
      (.child o (posAfter q o), posAfter q o)
  | .child (.range n) p rd =>
    match seekAbs den p with
    | none => (.seekErr, st)
    | some q =>
      if q + n > den.length then (.rangeErr, q)
      else (.child (readAt (den.take (q + n)) q rd) q, q)
  | .child (.framed n) p rd =>
    match seekAbs den p with
    | none => (.seekErr, st)
    | some q =>
      if q + n > den.length then (.rangeErr, q)
      else
        let o := readAt (den.take (q + n)) q rd
        match seekRel den q n with               -- d.SeekRel(nBits)
        | none => (.seekErr, q)
        | some q2 => (.child o q2, q2)
  | .child (.limited n) p rd =>
    match seekAbs den p with
    | none => (.seekErr, st)
    | some q =>
      if q + n > den.length then (.rangeErr, q)
      else
        let o := readAt (den.take (q + n)) q rd
        let decodeLen : Int := (posAfter q o : Int) - q   -- endPos - startPos
        match seekRel den q decodeLen with       -- d.SeekRel(decodeLen)
        | none => (.seekErr, q)
        | some q2 => (.child o q2, q2)
  | .child (.seekFn back) p rd =>
    match seekAbs den back with
    | none => (.seekErr, st)
    | some b =>
      -- SeekAbs(p, fn): oldPos := Pos(); seek p; fn(d); seek oldPos
      match seekAbs den p with
      | none => (.seekErr, b)
      | some q =>
        let o := readAt den q rd
        match seekAbs den b with
        | none => (.seekErr, posAfter q o)
        | some b2 => (.child o b2, b2)

/-- a history on one decoder that starts at position `st` -/
def runHistory (den : Bits) : Nat → List Step → List SObs
  | _, [] => []
  | st, s :: rest => let (o, st') := execStep den st s; o :: runHistory den st' rest

/-- the SINGLE-READ description of a step: a function of the denotation and the step alone -/
def stepObs (den : Bits) : Step → SObs
  | .read p rd => if p > den.length then .seekErr else .rd (readAt den p rd)
  | .relRead p n rd => if p + n > den.length then .seekErr else .rd (readAt den p rd)
  | .peek p n => if p > den.length then .seekErr else .peek (peekBits den p n)
  | .peekFind p cur nBits maxLen target =>
    if p > den.length then .seekErr else .find (peekFind den cur p nBits maxLen target)
  | .bitsLeft p => if p > den.length then .seekErr else .num ((den.length : Int) - p) p
  | .getPos p => if p > den.length then .seekErr else .num p p
  | .child .struct p rd | .child .array p rd =>
    if p > den.length then .seekErr else .child (readAt den p rd) (posAfter p (readAt den p rd))
  | .child (.range n) p rd =>
    if p > den.length then .seekErr else if p + n > den.length then .rangeErr
    else .child (readAt (den.take (p + n)) p rd) p
  | .child (.framed n) p rd =>
    if p > den.length then .seekErr else if p + n > den.length then .rangeErr
    else .child (readAt (den.take (p + n)) p rd) (p + n)
  | .child (.limited n) p rd =>
    if p > den.length then .seekErr else if p + n > den.length then .rangeErr
    else
      let o := readAt (den.take (p + n)) p rd
      if posAfter p o > den.length then .seekErr else .child o (posAfter p o)
  | .child (.seekFn back) p rd =>
    if back > den.length then .seekErr else if p > den.length then .seekErr
    else .child (readAt den p rd) back

end FqModel.C02
