/-
  C05 — executable MD5, written from RFC 1321 (sections 3.1-3.5), NOT from Go's crypto/md5.
  Core Lean only.  All recursion is structural (or on explicit fuel) so that the kernel can
  evaluate the RFC's test suite (appendix A.5) by `decide`.

  Words are `Nat` reduced mod 2^32 after every addition (the RFC's "+" is addition modulo 2^32);
  bitwise operations on values < 2^32 stay < 2^32, NOT is `2^32 - 1 - x`.
-/
namespace FqModel.C05Md5

def W : Nat := 4294967296  -- 2^32

@[inline] def add32 (a b : Nat) : Nat := (a + b) % W
@[inline] def not32 (x : Nat) : Nat := (W - 1) - (x % W)
/-- circular left shift of a 32-bit word by `s` (0 < s < 32), RFC 3.4 "X <<< s" -/
@[inline] def rotl32 (x s : Nat) : Nat := ((x <<< s) % W) ||| (x >>> (32 - s))

/- RFC 1321 3.4: the four auxiliary functions -/
@[inline] def F (x y z : Nat) : Nat := (x &&& y) ||| (not32 x &&& z)
@[inline] def G (x y z : Nat) : Nat := (x &&& z) ||| (y &&& not32 z)
@[inline] def H (x y z : Nat) : Nat := x ^^^ y ^^^ z
@[inline] def I (x y z : Nat) : Nat := y ^^^ (x ||| not32 z)

/-- RFC 3.4: T[i] = integer part of 4294967296 * abs(sin(i)), i in radians, i = 1..64
    (the values as listed in the RFC's reference code, appendix A.3) -/
def T : List Nat := [
  0xd76aa478, 0xe8c7b756, 0x242070db, 0xc1bdceee, 0xf57c0faf, 0x4787c62a, 0xa8304613, 0xfd469501,
  0x698098d8, 0x8b44f7af, 0xffff5bb1, 0x895cd7be, 0x6b901122, 0xfd987193, 0xa679438e, 0x49b40821,
  0xf61e2562, 0xc040b340, 0x265e5a51, 0xe9b6c7aa, 0xd62f105d, 0x02441453, 0xd8a1e681, 0xe7d3fbc8,
  0x21e1cde6, 0xc33707d6, 0xf4d50d87, 0x455a14ed, 0xa9e3e905, 0xfcefa3f8, 0x676f02d9, 0x8d2a4c8a,
  0xfffa3942, 0x8771f681, 0x6d9d6122, 0xfde5380c, 0xa4beea44, 0x4bdecfa9, 0xf6bb4b60, 0xbebfbc70,
  0x289b7ec6, 0xeaa127fa, 0xd4ef3085, 0x04881d05, 0xd9d4d039, 0xe6db99e5, 0x1fa27cf8, 0xc4ac5665,
  0xf4292244, 0x432aff97, 0xab9423a7, 0xfc93a039, 0x655b59c3, 0x8f0ccc92, 0xffeff47d, 0x85845dd1,
  0x6fa87e4f, 0xfe2ce6e0, 0xa3014314, 0x4e0811a1, 0xf7537e82, 0xbd3af235, 0x2ad7d2bb, 0xeb86d391]

/-- per-round shift amounts (RFC 3.4, rounds 1-4: 7 12 17 22 / 5 9 14 20 / 4 11 16 23 / 6 10 15 21) -/
def S : List Nat := [
  7, 12, 17, 22, 7, 12, 17, 22, 7, 12, 17, 22, 7, 12, 17, 22,
  5,  9, 14, 20, 5,  9, 14, 20, 5,  9, 14, 20, 5,  9, 14, 20,
  4, 11, 16, 23, 4, 11, 16, 23, 4, 11, 16, 23, 4, 11, 16, 23,
  6, 10, 15, 21, 6, 10, 15, 21, 6, 10, 15, 21, 6, 10, 15, 21]

/-- index k of the message word X[k] used in step i (0-based):
    round 1: i, round 2: (1+5i) mod 16, round 3: (5+3i) mod 16, round 4: 7i mod 16 -/
def xIndex (i : Nat) : Nat :=
  if i < 16 then i else if i < 32 then (1 + 5 * i) % 16 else if i < 48 then (5 + 3 * i) % 16 else (7 * i) % 16

def aux (i : Nat) (x y z : Nat) : Nat :=
  if i < 16 then F x y z else if i < 32 then G x y z else if i < 48 then H x y z else I x y z

structure St where
  a : Nat
  b : Nat
  c : Nat
  d : Nat
deriving Repr, DecidableEq

/-- RFC 3.3 -/
def init : St := ⟨0x67452301, 0xefcdab89, 0x98badcfe, 0x10325476⟩

/-- one step "a = b + ((a + f(b,c,d) + X[k] + T[i]) <<< s)" followed by the rotation of the
    roles (a b c d) -> (d a b c) that the RFC writes out as [ABCD] [DABC] [CDAB] [BCDA] -/
def step (x : List Nat) (st : St) (e : Nat × Nat × Nat × Nat) : St :=
  let (i, ti, si, k) := e
  let t := add32 (add32 (add32 st.a (aux i st.b st.c st.d)) (x.getD k 0)) ti
  let nb := add32 st.b (rotl32 t si)
  ⟨st.d, nb, st.b, st.c⟩

/-- the 64 steps: (i, T[i+1], s, k) — the table of RFC 3.4 rounds 1-4, built once -/
def steps : List (Nat × Nat × Nat × Nat) :=
  (List.range 64).map fun i => (i, T.getD i 0, S.getD i 0, xIndex i)

/-- little-endian word of 4 bytes (RFC 2: "a sequence of bytes is a 32-bit word, low-order first") -/
def wordLE : List UInt8 → Nat
  | [b0, b1, b2, b3] => b0.toNat + 256 * b1.toNat + 65536 * b2.toNat + 16777216 * b3.toNat
  | _ => 0

/-- the 16 words of a 64-byte block -/
def blockWords : (n : Nat) → List UInt8 → List Nat
  | 0, _ => []
  | n+1, bs => wordLE (bs.take 4) :: blockWords n (bs.drop 4)

/-- RFC 3.4: process one 16-word block -/
def processBlock (st : St) (block : List UInt8) : St :=
  let x := blockWords 16 block
  let r := steps.foldl (step x) st
  ⟨add32 st.a r.a, add32 st.b r.b, add32 st.c r.c, add32 st.d r.d⟩

def leBytes : (n : Nat) → Nat → List UInt8
  | 0, _ => []
  | n+1, v => UInt8.ofNat (v % 256) :: leBytes n (v / 256)

/-- RFC 3.1 + 3.2: a single 1 bit, zero bits up to 448 mod 512, then the 64-bit length
    (in bits, low-order word first = little endian; only the low 64 bits are used) -/
def pad (msg : List UInt8) : List UInt8 :=
  let n := msg.length
  let zeros := (119 - n % 64) % 64   -- (55 - n) mod 64
  msg ++ [0x80] ++ List.replicate zeros 0 ++ leBytes 8 ((8 * n) % 18446744073709551616)

def blocks : (fuel : Nat) → St → List UInt8 → St
  | 0, st, _ => st
  | f+1, st, bs => if bs.isEmpty then st else blocks f (processBlock st (bs.take 64)) (bs.drop 64)

/-- RFC 3.5: output A, B, C, D, low-order byte of A first -/
def digest (msg : List UInt8) : List UInt8 :=
  let p := pad msg
  let st := blocks (p.length / 64 + 1) init p
  leBytes 4 st.a ++ leBytes 4 st.b ++ leBytes 4 st.c ++ leBytes 4 st.d

end FqModel.C05Md5
