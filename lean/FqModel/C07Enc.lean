import FqModel.JsonStr
import FqModel.C10Json
/-!
  C07 — the JSON TEXT layer on both sides of the agreement, transliterated.

  fq does not use the reference engine's encoder: every value the CLI prints, `tojson`, `@json`, `tostring` … goes
  through fq's own `internal/colorjson` (a copy of the encoder of gojq's *command*, cli/encoder.go), while the
  reference engine (the gojq LIBRARY: `gojq.Marshal`, `funcToJSON`) uses its own `encoder.go`, and the reference
  COMMAND (`gojq`, `--indent n`, `--tab`) uses cli/encoder.go. Three encoders; this file models all three:

    `Gojq`     /root/go/pkg/mod/github.com/wader/gojq@…/encoder.go:52-190        (library, compact only)
    `Fq`       /repo/internal/colorjson/encoder.go:88-309, colours off             (Tab, Indent)
    `GojqCli`  …/gojq@…/cli/encoder.go:45-253, colours off                        (tab, indent)

  REUSED by import (not forked): the string escaping loop and its tables read off both ASTs
  (FqModel/JsonStr.lean + Gen.Encoder.fq / .gojq), the integer formatting `C10Json.encInt`
  (strconv.AppendInt / big.Int.Append) and the indentation writer `C10Json.writeIndentBuf` (the loop that doubles
  the indentation by copying the tail of the buffer, proved = replicate in Proofs/C10Json.lean). The tree walk is
  written here because C07's values are Go values as the engines see them: strings are BYTE strings (invalid
  UTF-8 included), object keys are ordered bytewise, `int` and `*big.Int` are distinct, floats are bit patterns.

  Shared standard-library parameters (the same function called by both sides, not modelled):
    `af bits e`   strconv.AppendFloat(buf, f, 'e' if e else 'f', -1, 64)
  `utf8.DecodeRuneInString` IS modelled (`decodeMulti`, `units`) and checked by the correspondence run on every
  byte string of length ≤ 2 and every boundary class.

  Second part (namespace `Num`): the number-token decision of `fromjson` (gojq normalize.go:18-36, which fq calls
  through `gojq.NormalizeNumbers`, format/json/json.go:74) over an inductive grammar of JSON number tokens, and
  the framing (`one value, then only white space`) that fq and the reference implement DIFFERENTLY
  (format/json/json.go:39-70 vs func.go:906-921).
-/
namespace FqModel.C07Enc
open FqModel.JsonStr
open FqModel.Gen.Encoder (Esc)

/-- a Go value a gojq iterator can emit -/
inductive JV where
  | null
  | bool (b : Bool)
  | int (i : Int)                      -- Go `int`
  | big (i : Int)                      -- `*big.Int`
  | float (bits : Nat)                 -- `float64`, by bit pattern
  | str (s : List Nat)                 -- Go `string`: any bytes
  | arr (xs : List JV)
  | obj (kvs : List (List Nat × JV))   -- `map[string]any`: the entries in ITERATION order (keys distinct)
deriving Repr, Inhabited

/-! ### UTF-8 as `utf8.DecodeRuneInString` reads it (unicode/utf8: `first`, `acceptRanges`) -/

def isCont (b : Nat) : Bool := 0x80 ≤ b && b ≤ 0xBF

/-- first byte `b0 ≥ 0x80`: `some (code point, number of continuation bytes)`, `none` = `(RuneError, 1)` -/
def decodeMulti (b0 : Nat) (rest : List Nat) : Option (Nat × Nat) :=
  if 0xC2 ≤ b0 && b0 ≤ 0xDF then
    match rest with
    | b1 :: _ => if isCont b1 then some ((b0 - 0xC0) * 64 + (b1 - 0x80), 1) else none
    | _ => none
  else if 0xE0 ≤ b0 && b0 ≤ 0xEF then
    match rest with
    | b1 :: b2 :: _ =>
      let lo := if b0 = 0xE0 then 0xA0 else 0x80
      let hi := if b0 = 0xED then 0x9F else 0xBF
      if lo ≤ b1 && b1 ≤ hi && isCont b2 then
        some (((b0 - 0xE0) * 64 + (b1 - 0x80)) * 64 + (b2 - 0x80), 2)
      else none
    | _ => none
  else if 0xF0 ≤ b0 && b0 ≤ 0xF4 then
    match rest with
    | b1 :: b2 :: b3 :: _ =>
      let lo := if b0 = 0xF0 then 0x90 else 0x80
      let hi := if b0 = 0xF4 then 0x8F else 0xBF
      if lo ≤ b1 && b1 ≤ hi && isCont b2 && isCont b3 then
        some ((((b0 - 0xF0) * 64 + (b1 - 0x80)) * 64 + (b2 - 0x80)) * 64 + (b3 - 0x80), 3)
      else none
    | _ => none
  else none

/-- the units the escaping loop sees (encoder.go:104-147 on both sides); fuel = length -/
def unitsF : Nat → List Nat → List Ch
  | 0, _ => []
  | _ + 1, [] => []
  | f + 1, b0 :: rest =>
    if b0 < 0x80 then .ascii b0 :: unitsF f rest
    else match decodeMulti b0 rest with
      | some (c, n) => .rune c :: unitsF f (rest.drop n)
      | none => .bad :: unitsF f rest

def units (s : List Nat) : List Ch := unitsF s.length s

/-- the bytes of a valid rune (`s[start:i]` copies them unchanged) -/
def utf8Enc (c : Nat) : List Nat :=
  if c < 0x80 then [c]
  else if c < 0x800 then [0xC0 + c / 64, 0x80 + c % 64]
  else if c < 0x10000 then [0xE0 + c / 4096, 0x80 + c / 64 % 64, 0x80 + c % 64]
  else [0xF0 + c / 262144, 0x80 + c / 4096 % 64, 0x80 + c / 64 % 64, 0x80 + c % 64]

/-- `encodeString` as BYTES: quote, the escaped body of FqModel.JsonStr (`encode t`, table `t` read off the
    encoder's AST), quote -/
def strText (t : Esc) (s : List Nat) : List Nat := 34 :: ((encode t (units s)).flatMap utf8Enc ++ [34])

/-! ### scalars -/

def nullT : List Nat := [110, 117, 108, 108]
def trueT : List Nat := [116, 114, 117, 101]
def falseT : List Nat := [102, 97, 108, 115, 101]

/-- strconv.AppendInt(buf, int64(v), 10) and (*big.Int).Append(buf, 10): decimal, `-` for negatives
    (C10Json.encInt, reused) -/
def intText (i : Int) : List Nat := (C10Json.encInt i).map Char.toNat

/-! ### float64 by bit pattern: only what the two `encodeFloat64` do THEMSELVES -/

def isNaN (bits : Nat) : Bool := (bits / 2 ^ 52) % 2048 == 2047 && bits % 2 ^ 52 != 0
/-- the order of non-NaN floats: sign-magnitude (−0 and +0 both 0) -/
def key (bits : Nat) : Int := if bits < 2 ^ 63 then (bits : Int) else -((bits - 2 ^ 63 : Nat) : Int)
def posMax : Nat := 0x7FEFFFFFFFFFFFFF   -- math.MaxFloat64
def negMax : Nat := 0xFFEFFFFFFFFFFFFF   -- -math.MaxFloat64
def posZero : Nat := 0
def negZero : Nat := 2 ^ 63
/-- Go's builtin `max` on non-NaN floats (spec: −0 is lower than +0) -/
def fmax (x y : Nat) : Nat :=
  if key x > key y then x else if key x < key y then y else if x = y then x else posZero
def fmin (x y : Nat) : Nat :=
  if key x < key y then x else if key x > key y then y else if x = y then x else negZero

/-- fq, internal/colorjson/encoder.go:140-144:
    `if f >= math.MaxFloat64 { f = math.MaxFloat64 } else if f <= -math.MaxFloat64 { f = -math.MaxFloat64 }` -/
def Fq.clamp (f : Nat) : Nat :=
  if key f ≥ key posMax then posMax else if key f ≤ key negMax then negMax else f
/-- gojq, encoder.go:85 (and cli/encoder.go:90): `f = min(max(f, -math.MaxFloat64), math.MaxFloat64)` -/
def Gojq.clamp (f : Nat) : Nat := fmin (fmax f negMax) posMax

/-- `if n := len(buf); n >= 4 && buf[n-4] == 'e' && buf[n-3] == '-' && buf[n-2] == '0' { buf[n-2] = buf[n-1]; buf = buf[:n-1] }` -/
def cleanExp (buf : List Nat) : List Nat :=
  match buf.reverse with
  | d :: 48 :: 45 :: 101 :: r => (d :: 45 :: 101 :: r).reverse
  | _ => buf

/-- the tail of `encodeFloat64` after the clamp — the same statements in all three encoders (fq 145-157,
    gojq 86-98, cli 91-103): format choice `x != 0 && x < 1e-6 || x >= 1e21` on `x = math.Abs(f)`, AppendFloat,
    `e-09` clean-up -/
def floatTail (af : Nat → Bool → List Nat) (f : Nat) : List Nat :=
  let x := f % 2 ^ 63
  let e := (x != 0 && x < 0x3EB0C6F7A0B5ED8D) || x ≥ 0x444B1AE4D6E2EF50
  if e then cleanExp (af f true) else af f false

def Fq.floatText (af : Nat → Bool → List Nat) (f : Nat) : List Nat :=
  if isNaN f then nullT else floatTail af (Fq.clamp f)
def Gojq.floatText (af : Nat → Bool → List Nat) (f : Nat) : List Nat :=
  if isNaN f then nullT else floatTail af (Gojq.clamp f)

/-! ### key order and the sort -/

/-- Go string `<` (`cmp.Compare(a.key, b.key) < 0` and `kvs[i].key < kvs[j].key`): bytewise -/
def ltBytes : List Nat → List Nat → Bool
  | [], [] => false
  | [], _ :: _ => true
  | _ :: _, [] => false
  | a :: as, b :: bs => if a < b then true else if b < a then false else ltBytes as bs

def insertKey (kv : List Nat × JV) : List (List Nat × JV) → List (List Nat × JV)
  | [] => [kv]
  | x :: xs => if ltBytes kv.1 x.1 then kv :: x :: xs else x :: insertKey kv xs

/-- `slices.SortFunc(kvs, cmp.Compare on key)` (fq 258-260) and `sort.Slice(kvs, key <)` (gojq 173-175, cli
    202-204): two different standard-library sorts; on DISTINCT keys (a Go map) every correct sort returns the
    one strictly increasing arrangement (`Props.C07.sorted_perm_unique`), which is this one -/
def sortKeys : List (List Nat × JV) → List (List Nat × JV)
  | [] => []
  | x :: xs => insertKey x (sortKeys xs)

mutual
/-- sort the entries of every object (what `for k, v := range vs` + sort does at each level) -/
def normalize : JV → JV
  | .arr xs => .arr (normalizeList xs)
  | .obj kvs => .obj (sortKeys (normalizeKvs kvs))
  | v => v
def normalizeList : List JV → List JV
  | [] => []
  | x :: xs => normalize x :: normalizeList xs
def normalizeKvs : List (List Nat × JV) → List (List Nat × JV)
  | [] => []
  | (k, v) :: kvs => (k, normalize v) :: normalizeKvs kvs
end

/-! ### the reference LIBRARY: gojq encoder.go -/
namespace Gojq
mutual
/-- encoder.go:52-79 -/
def encode (t : Esc) (af : Nat → Bool → List Nat) : JV → List Nat
  | .null => nullT
  | .bool true => trueT
  | .bool false => falseT
  | .int i => intText i
  | .float f => floatText af f
  | .big i => intText i
  | .str s => strText t s
  | .arr xs => 91 :: (encodeArray t af true xs ++ [93])             -- 156-165
  | .obj kvs => 123 :: (encodeObject t af true kvs ++ [125])        -- 167-190 (entries sorted: `normalize`)
def encodeArray (t : Esc) (af : Nat → Bool → List Nat) (first : Bool) : List JV → List Nat
  | [] => []
  | v :: vs => (if first then [] else [44]) ++ encode t af v ++ encodeArray t af false vs
def encodeObject (t : Esc) (af : Nat → Bool → List Nat) (first : Bool) : List (List Nat × JV) → List Nat
  | [] => []
  | (k, v) :: kvs =>
    (if first then [] else [44]) ++ strText t k ++ [58] ++ encode t af v ++ encodeObject t af false kvs
end
/-- `gojq.Marshal(v)` / `tojson` of the reference -/
def marshal (t : Esc) (af : Nat → Bool → List Nat) (v : JV) : List Nat := encode t af (normalize v)
end Gojq

/-- `writeIndent` (fq 286-295 = cli 230-239): line feed, then `depth` tabs or spaces written by
    `writeIndentInternal` (C10Json.writeIndentBuf, reused; independent of the buffer: Proofs.C10Json.writeIndentBuf_spec) -/
def nl (tab : Bool) (depth : Nat) : List Nat := (C10Json.writeIndentBuf tab [] depth).map Char.toNat

/-! ### fq: internal/colorjson/encoder.go (Options.Color = false) -/
namespace Fq
mutual
/-- encoder.go:88-131; `depth` is `e.depth` -/
def encode (t : Esc) (af : Nat → Bool → List Nat) (tab : Bool) (indent depth : Nat) : JV → List Nat
  | .null => nullT
  | .bool true => trueT
  | .bool false => falseT
  | .int i => intText i
  | .float f => floatText af f
  | .big i => intText i
  | .str s => strText t s
  | .arr xs =>                                                        -- 224-244
    91 :: (encodeArray t af tab indent (depth + indent) true xs
      ++ (if !xs.isEmpty && indent != 0 then nl tab depth else []) ++ [93])
  | .obj kvs =>                                                       -- 246-284
    123 :: (encodeMap t af tab indent (depth + indent) true kvs
      ++ (if !kvs.isEmpty && indent != 0 then nl tab depth else []) ++ [125])
def encodeArray (t : Esc) (af : Nat → Bool → List Nat) (tab : Bool) (indent depth : Nat) (first : Bool) : List JV → List Nat
  | [] => []
  | v :: vs =>
    (if first then [] else [44]) ++ (if indent != 0 then nl tab depth else [])
      ++ encode t af tab indent depth v ++ encodeArray t af tab indent depth false vs
def encodeMap (t : Esc) (af : Nat → Bool → List Nat) (tab : Bool) (indent depth : Nat) (first : Bool) :
    List (List Nat × JV) → List Nat
  | [] => []
  | (k, v) :: kvs =>
    (if first then [] else [44]) ++ (if indent != 0 then nl tab depth else [])
      ++ strText t k ++ [58] ++ (if indent != 0 then [32] else [])
      ++ encode t af tab indent depth v ++ encodeMap t af tab indent depth false kvs
end
/-- `colorjson.NewEncoder(Options{Tab, Indent}).Marshal(v)` -/
def marshal (t : Esc) (af : Nat → Bool → List Nat) (tab : Bool) (indent : Nat) (v : JV) : List Nat :=
  encode t af tab indent 0 (normalize v)
end Fq

/-! ### the reference COMMAND: gojq cli/encoder.go (colours off) -/
namespace GojqCli
mutual
/-- cli/encoder.go:45-83 -/
def encode (t : Esc) (af : Nat → Bool → List Nat) (tab : Bool) (indent depth : Nat) : JV → List Nat
  | .null => nullT
  | .bool true => trueT
  | .bool false => falseT
  | .int i => intText i
  | .float f => Gojq.floatText af f                                   -- 85-104 (clamp by min/max)
  | .big i => intText i
  | .str s => strText t s                                             -- 107-166
  | .arr xs =>                                                        -- 168-188
    [91] ++ encodeArray t af tab indent (depth + indent) true xs
      ++ (if xs.length > 0 && indent != 0 then nl tab depth else []) ++ [93]
  | .obj kvs =>                                                       -- 190-228
    [123] ++ encodeObject t af tab indent (depth + indent) true kvs
      ++ (if kvs.length > 0 && indent != 0 then nl tab depth else []) ++ [125]
def encodeArray (t : Esc) (af : Nat → Bool → List Nat) (tab : Bool) (indent depth : Nat) (first : Bool) : List JV → List Nat
  | [] => []
  | v :: vs =>
    (if first then [] else [44]) ++ (if indent != 0 then nl tab depth else [])
      ++ encode t af tab indent depth v ++ encodeArray t af tab indent depth false vs
def encodeObject (t : Esc) (af : Nat → Bool → List Nat) (tab : Bool) (indent depth : Nat) (first : Bool) :
    List (List Nat × JV) → List Nat
  | [] => []
  | (k, v) :: kvs =>
    (if first then [] else [44]) ++ (if indent != 0 then nl tab depth else [])
      ++ strText t k ++ [58] ++ (if indent != 0 then [32] else [])
      ++ encode t af tab indent depth v ++ encodeObject t af tab indent depth false kvs
end
/-- what `gojq --indent n` / `--tab` / `-c` prints for one value (cli.go:399-407: default 2, `-c` 0, `--tab` 1 with tabs) -/
def marshal (t : Esc) (af : Nat → Bool → List Nat) (tab : Bool) (indent : Nat) (v : JV) : List Nat :=
  encode t af tab indent 0 (normalize v)
end GojqCli

/-! ### "insignificant white space" (RFC 8259 §2): outside strings only -/

def isWs (c : Nat) : Bool := c == 32 || c == 10 || c == 13 || c == 9

/-- drop white space outside JSON strings; `inStr`/`esc` = inside a string / after a backslash -/
def strip : Bool → Bool → List Nat → List Nat
  | _, _, [] => []
  | false, _, c :: r =>
    if c = 34 then c :: strip true false r else if isWs c then strip false false r else c :: strip false false r
  | true, true, c :: r => c :: strip true false r
  | true, false, c :: r =>
    if c = 92 then c :: strip true true r else if c = 34 then c :: strip false false r else c :: strip true false r

def stripWs (s : List Nat) : List Nat := strip false false s

/-! ## `fromjson`: the number token decision and the framing -/
namespace Num

/-- a number token of the JSON grammar (RFC 8259 §6): `-? (0 | [1-9][0-9]*) (. [0-9]+)? ([eE] [+-]? [0-9]+)?`;
    digits as values 0..9 -/
structure Tok where
  neg : Bool
  int : List Nat
  frac : Option (List Nat)
  /-- (upper-case E, sign: 0 none / 1 `+` / 2 `-`, digits) -/
  exp : Option (Bool × Nat × List Nat)
deriving Repr, DecidableEq

def digitsOk (ds : List Nat) : Bool := !ds.isEmpty && ds.all (· < 10)

def Tok.wf (t : Tok) : Bool :=
  digitsOk t.int && (t.int.length == 1 || t.int.head? != some 0) &&
  (match t.frac with | none => true | some ds => digitsOk ds) &&
  (match t.exp with | none => true | some (_, s, ds) => s < 3 && digitsOk ds)

def digitBytes (ds : List Nat) : List Nat := ds.map (· + 48)

def Tok.text (t : Tok) : List Nat :=
  (if t.neg then [45] else []) ++ digitBytes t.int
  ++ (match t.frac with | none => [] | some ds => 46 :: digitBytes ds)
  ++ (match t.exp with
      | none => []
      | some (up, s, ds) => (if up then 69 else 101) :: ((if s = 1 then [43] else if s = 2 then [45] else []) ++ digitBytes ds))

/-- the reader of the grammar (what encoding/json's scanner accepts as ONE number literal), for the driver -/
def takeDigits : List Nat → List Nat × List Nat
  | [] => ([], [])
  | c :: r => if 48 ≤ c && c ≤ 57 then let (ds, r') := takeDigits r; ((c - 48) :: ds, r') else ([], c :: r)

def splitSign : List Nat → Bool × List Nat
  | 45 :: r => (true, r)
  | s => (false, s)

def parseFrac : List Nat → Option (Option (List Nat) × List Nat)
  | 46 :: r => let p := takeDigits r; if p.1.isEmpty then none else some (some p.1, p.2)
  | s => some (none, s)

def splitExpSign : List Nat → Nat × List Nat
  | 43 :: r => (1, r)
  | 45 :: r => (2, r)
  | r => (0, r)

def parseExp : List Nat → Option (Option (Bool × Nat × List Nat))
  | [] => some none
  | c :: r =>
    if c = 101 || c = 69 then
      let p := splitExpSign r
      let q := takeDigits p.2
      if q.1.isEmpty || !q.2.isEmpty then none else some (some (c == 69, p.1, q.1))
    else none

def parse (s : List Nat) : Option Tok :=
  let p := splitSign s
  let q := takeDigits p.2
  if !(digitsOk q.1 && (q.1.length == 1 || q.1.head? != some 0)) then none else
  match parseFrac q.2 with
  | none => none
  | some (frac, r) => (parseExp r).map fun e => ⟨p.1, q.1, frac, e⟩

def natOf (ds : List Nat) : Nat := ds.foldl (fun a d => a * 10 + d) 0

/-- the integer a token without fraction and exponent denotes -/
def Tok.intVal (t : Tok) : Int := if t.neg then -(natOf t.int : Int) else (natOf t.int : Int)

def Tok.isInt (t : Tok) : Bool := t.frac.isNone && t.exp.isNone

/-- what `normalizeNumber` returns (normalize.go:18-36) -/
inductive Norm where
  | int (i : Int)     -- Go `int`
  | float             -- `v.Float64()` of the token (strconv.ParseFloat, shared)
  | big (i : Int)     -- `*big.Int`
  | posInf
  | negInf
deriving Repr, DecidableEq

/-- gojq normalize.go:18-36, on a token of the grammar. Standard-library facts used, for tokens of the grammar:
    `json.Number.Int64` = strconv.ParseInt(s, 10, 64) succeeds iff the token has neither fraction nor exponent and
    its value is in [-2^63, 2^63-1] (then `math.MinInt <= i <= math.MaxInt` holds on 64-bit); `Float64` =
    strconv.ParseFloat(s, 64) fails only with ErrRange, i.e. iff the value rounds to ±Inf (`ovf`, shared
    parameter; underflow to 0 is not an error); `new(big.Int).SetString(s, 0)` succeeds iff the token is an
    integer literal (base 0: `.`/`e` are not digits; the grammar has no leading zeros, so no octal/hex prefix) -/
def normalizeNumber (ovf : Tok → Bool) (t : Tok) : Norm :=
  if t.isInt && decide (-(2 : Int) ^ 63 ≤ t.intVal) && decide (t.intVal < (2 : Int) ^ 63) then .int t.intVal   -- :19-21
  else
    let viaFloat := !t.isInt && !ovf t        -- :22-26 `strings.ContainsAny(v.String(), ".eE")` and no error
    if viaFloat then .float
    else if t.isInt then .big t.intVal         -- :27-29
    else if t.neg then .negInf else .posInf    -- :30-33 `strings.HasPrefix(v.String(), "-")`

/-- the reference: func.go:906-921 `funcFromJSON` = `normalizeNumbers(w)`; on a number token that is
    `normalizeNumber(json.Number)` (normalize.go:44-45) -/
def gojqFromJSONNumber (ovf : Tok → Bool) (t : Tok) : Norm := normalizeNumber ovf t
/-- fq: format/json/json.go:74 `s.Actual = gojq.NormalizeNumbers(vs[0])` → normalize.go:38-45: the SAME function;
    fq owns only the call and the decoder set-up (`UseNumber`, json.go:42) -/
def fqFromJSONNumber (ovf : Tok → Bool) (t : Tok) : Norm := normalizeNumber ovf t

/-! ### framing: which texts are ONE value -/

/-- outcome of one `(*json.Decoder).Decode` call -/
inductive Dec where
  | value (v : Nat)   -- a value (abstract id)
  | eof               -- io.EOF: nothing but white space left
  | err               -- a syntax error / unexpected EOF
deriving Repr, DecidableEq

inductive Res where
  | ok (v : Nat)
  | fail
deriving Repr, DecidableEq

/-- fq, format/json/json.go:39-66 with `lines = false`: Decode in a loop, collecting values; stop at the first
    error; at io.EOF set `foundEOF` and stop; succeed iff exactly one value and `foundEOF`.
    `ds` = the successive results of `jd.Decode` (the stream ends with `eof` or `err`, after which the list is
    irrelevant); fuel = `ds.length` -/
def fqLoop : List Dec → List Nat → List Nat × Bool
  | [], vs => (vs, false)
  | .value v :: rest, vs => fqLoop rest (vs ++ [v])       -- :64 `vs = append(vs, v)`
  | .eof :: _, vs => (vs, true)                            -- :49-55 both arms `break`
  | .err :: _, vs => (vs, false)                           -- :56-59 (`lines` false) `break`

def fqFromJSON (ds : List Dec) : Res :=
  match fqLoop ds [] with
  | ([v], true) => .ok v                                   -- :67 `!lines && (len(vs) != 1 || !foundEOF)` → Fatalf
  | _ => .fail

/-- gojq, func.go:911-920: one Decode, then `dec.Token()` must return io.EOF. `tokenEOF` = that second call
    returned io.EOF -/
def gojqFromJSON (first : Dec) (tokenEOF : Bool) : Res :=
  match first with
  | .value v => if tokenEOF then .ok v else .fail
  | _ => .fail

end Num
end FqModel.C07Enc
