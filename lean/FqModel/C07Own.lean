/-!
  C07 — fq's OWN jq value types (internal/gojqx/types.go) under the reference engine's dispatch.

  The top-level result of fq's `fromjson` (format/json/json.jq:6 → decode("json")) is a decode value whose
  gojq.JQValue is gojqx.String / Array / Object / Number / Boolean / Null (pkg/interp/decode.go:372-425).
  The embedded gojq calls the JQValue* methods of such a value where it would work on the plain Go value
  otherwise (gojq func.go:1062-1264).  Transliterated here, for strings and arrays:

    reference, plain Go string   func.go:1148-1159 indexString, 1197-1237 sliceString
    reference, plain []any       func.go:1140-1146 index,       1176-1195 slice
    dispatch on a JQValue        func.go:1085-1100 (index),     1239-1264 sliceJQValue
    clampIndex                   func.go:1266-1277
    gojqx.String  ([]rune)       types.go:412-423
    gojqx.Array   ([]any)        types.go:221-231

  A Go string is modelled as its list of code points (`List Nat`) together with an arbitrary encoder
  `enc : Nat → List α` (UTF-8: 1..4 bytes per code point); its BYTES are `bytes enc s`.  Byte strings that are
  not valid UTF-8 are outside this model (fq's JSON decoder and gojq's produce valid UTF-8 only).
  Core Lean only.
-/
namespace FqModel.C07Own

/-- func.go:1266-1277 -/
def clampIndex (i mn mx : Int) : Int :=
  let i := if i < 0 then i + mx else i
  if i < mn then mn else if i < mx then i else mx

/-- Go `v[s:e]` on a slice or string of length `l.length`; `none` = runtime panic (slice bounds out of range) -/
def goSlice {β : Type} (l : List β) (s e : Int) : Option (List β) :=
  if 0 ≤ s ∧ s ≤ e ∧ e ≤ (l.length : Int) then some ((l.drop s.toNat).take (e.toNat - s.toNat)) else none

/-- Go `v[i]`; `none` = runtime panic (index out of range) -/
def goIndex {β : Type} (l : List β) (i : Int) : Option β :=
  if 0 ≤ i ∧ i < (l.length : Int) then l[i.toNat]? else none

/-- the bounds both `sliceString`/`slice` (func.go:1178-1193, 1199-1214) and `sliceJQValue` (1246-1262) compute
    from the optional jq bounds `.[a:b]` (`none` = null / omitted) and the length -/
def bounds (len : Nat) (a b : Option Int) : Int × Int :=
  let l : Int := len
  let start := match a with | none => 0 | some i => clampIndex i 0 l
  let stop := match b with | none => l | some i => clampIndex i start l
  (start, stop)

def bytes {α : Type} (enc : Nat → List α) (s : List Nat) : List α := s.flatMap enc

/-- `for i := range v { if n--; n < 0 { n = i; break } }` (func.go:1215-1222, 1226-1233): the byte offset at which
    the loop breaks; `none` = it ran to the end without breaking -/
def rangeFind {α : Type} (enc : Nat → List α) : List Nat → Int → Nat → Option Nat
  | [], _, _ => none
  | c :: cs, n, i => if n - 1 < 0 then some i else rangeFind enc cs (n - 1) (i + (enc c).length)

/-- func.go:1215-1236: code point index → byte offset -/
def byteOff {α : Type} (enc : Nat → List α) (s : List Nat) (k : Int) : Option Nat :=
  if k < (s.length : Int) then rangeFind enc s k 0 else some (bytes enc s).length

/-- REFERENCE: `.[a:b]` on a plain Go string, result as bytes (func.go:1197-1237) -/
def refStringSlice {α : Type} (enc : Nat → List α) (s : List Nat) (a b : Option Int) : Option (List α) :=
  let (start, stop) := bounds s.length a b
  match byteOff enc s start, byteOff enc s stop with
  | some so, some eo => goSlice (bytes enc s) so eo
  | _, _ => none

/-- fq: gojqx.String is `[]rune`; JQValueSliceLen = len(v) (types.go:415), JQValueSlice = string(v[start:end])
    (types.go:423) called by sliceJQValue with the clamped bounds -/
def fqStringSlice {α : Type} (enc : Nat → List α) (s : List Nat) (a b : Option Int) : Option (List α) :=
  let (start, stop) := bounds s.length a b
  (goSlice s start stop).map (bytes enc)

/-- REFERENCE `.[i]` on a plain string (func.go:1148-1159): `none` = null, `some c` = the one-code-point string -/
def refStringIndex (s : List Nat) (i : Int) : Option Nat :=
  let l : Int := s.length
  let i := clampIndex i (-1) l
  if 0 ≤ i ∧ i < l then s[i.toNat]? else none

/-- outcome of fq's JQValueIndex on a string -/
inductive IdxOut | null | empty | char (c : Nat) | panic
  deriving DecidableEq, Repr

/-- fq `.[i]`: func.go:1085-1100 (clamp, −2 before / −1 after) then types.go:416-422 (`""` for a negative index,
    `fmt.Sprintf("%c", v[index])` otherwise) -/
def fqStringIndex (s : List Nat) (i : Int) : IdxOut :=
  let l : Int := s.length
  let i := clampIndex i (-1) l
  let i := if i < 0 then -2 else if i ≥ l then -1 else i
  if i < 0 then .empty else
    match goIndex s i with
    | some c => .char c
    | none => .panic

def refIdxOut (s : List Nat) (i : Int) : IdxOut :=
  match refStringIndex s i with | some c => .char c | none => .null

/-- REFERENCE `.[a:b]` on a plain array (func.go:1176-1195) -/
def refArraySlice {β : Type} (v : List β) (a b : Option Int) : Option (List β) :=
  let (start, stop) := bounds v.length a b
  goSlice v start stop

/-- fq: gojqx.Array JQValueSliceLen = len(v), JQValueSlice = v[start:end] (types.go:224, 231) under sliceJQValue.
    (The Go TYPE of the result is gojqx.Array, not []any — known finding c07-gojqx-array-slice-type; the
    elements are what is modelled.) -/
def fqArraySlice {β : Type} (v : List β) (a b : Option Int) : Option (List β) :=
  let (start, stop) := bounds v.length a b
  goSlice v start stop

/-- REFERENCE `.[i]` on a plain array (func.go:1140-1146): `none` = null -/
def refArrayIndex {β : Type} (v : List β) (i : Int) : Option (Option β) :=
  let l : Int := v.length
  let i := clampIndex i (-1) l
  if 0 ≤ i ∧ i < l then some v[i.toNat]? else some none

/-- fq `.[i]` on gojqx.Array: func.go:1085-1100 then types.go:225-230 (`nil` for a negative index, `v[index]`);
    outer `none` = panic -/
def fqArrayIndex {β : Type} (v : List β) (i : Int) : Option (Option β) :=
  let l : Int := v.length
  let i := clampIndex i (-1) l
  let i := if i < 0 then -2 else if i ≥ l then -1 else i
  if i < 0 then some none else
    match goIndex v i with
    | some c => some (some c)
    | none => none

/-! ### the seeded variant S6-C07-1 (string kept as bytes, end offset measured from the start of the string) -/

/-- `runeOffset(s, n)`: byte offset of code point n, or len(s) past the end -/
def runeOffset {α : Type} (enc : Nat → List α) : List Nat → Nat → Nat → Nat
  | [], _, i => i
  | c :: cs, n, i => if n = 0 then i else runeOffset enc cs (n - 1) (i + (enc c).length)

def seedStringSlice {α : Type} (enc : Nat → List α) (s : List Nat) (a b : Option Int) : Option (List α) :=
  let (start, stop) := bounds s.length a b
  let so := runeOffset enc s start.toNat 0
  goSlice (bytes enc s) so (so + runeOffset enc s (stop - start).toNat 0)

/-- UTF-8 width of a code point, and an encoder whose "bytes" are (code point, position) pairs -/
def utf8Width (c : Nat) : Nat := if c < 0x80 then 1 else if c < 0x800 then 2 else if c < 0x10000 then 3 else 4
def utf8Tag (c : Nat) : List (Nat × Nat) := (List.range (utf8Width c)).map (fun i => (c, i))

end FqModel.C07Own
