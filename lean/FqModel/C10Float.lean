/-
  C10 — FLOAT-valued JSON numbers: when is a printed number text a TRUE rendering of a binary64?

  fq prints floats with strconv's shortest formatting (internal/colorjson/encoder.go:137-160,
  `encodeFloat64`): NaN is printed as `null`, ±Inf (and anything ≥ MaxFloat64) as ±MaxFloat64, the
  rest with `strconv.AppendFloat(buf, f, 'f' | 'e', -1, 64)`.  The digit choice of strconv is NOT
  modelled.  What is modelled is the READER: the JSON number grammar read into an exact decimal
  (sign, integer mantissa, power of ten) and the exact test "the binary64 nearest to that decimal
  (round to nearest, ties to even) has this bit pattern" — jq's / JSON's notion of a true float
  text: reading it back gives the same float.  Integer arithmetic only.

  Kept in its own file (not appended to C10Json.lean) so that other properties importing
  FqModel.C10Json are not rebuilt.
-/
import FqModel.C10Json
namespace FqModel.C10Json
open FqModel.Dump

/-! ### exact reader of the JSON number grammar (RFC 8259 §6) -/

/-- `.digits+` or nothing: (fraction digits, rest) -/
def parseFrac : List Char → Option (List Char × List Char)
  | '.' :: r =>
    let f := r.takeWhile isDigit
    if f.isEmpty then none else some (f, r.dropWhile isDigit)
  | r => some ([], r)

/-- `[eE][+-]?digits+` up to the end of the text, or nothing -/
def parseExp : List Char → Option Int
  | [] => some 0
  | c :: r =>
    if c = 'e' ∨ c = 'E' then
      let (neg, ds) := match r with
        | '-' :: ds => (true, ds)
        | '+' :: ds => (false, ds)
        | ds => (false, ds)
      if ds.isEmpty ∨ !ds.all isDigit then none
      else (parseBaseGo 10 0 ds).map fun n => if neg then -(n : Int) else (n : Int)
    else none

/-- (`0` | [1-9][0-9]*) (`.`[0-9]+)? ([eE][+-]?[0-9]+)? and nothing else: `(m, e)`, value m · 10^e -/
def parseUnsignedNumber (body : List Char) : Option (Nat × Int) :=
  let ip := body.takeWhile isDigit
  let r1 := body.dropWhile isDigit
  if ip.isEmpty then none
  else if ip.length > 1 ∧ ip.head? = some '0' then none
  else match parseFrac r1 with
    | none => none
    | some (fp, r2) =>
      match parseExp r2, parseBaseGo 10 0 (ip ++ fp) with
      | some ex, some m => some (m, ex - (fp.length : Int))
      | _, _ => none

/-- The whole text as a JSON number: `(neg, m, e)` with exact value (−1)^neg · m · 10^e.
    `-`? (`0` | [1-9][0-9]*) (`.`[0-9]+)? ([eE][+-]?[0-9]+)? and nothing else. -/
def parseJsonNumberExact : List Char → Option (Bool × Nat × Int)
  | '-' :: body => (parseUnsignedNumber body).map fun (m, e) => (true, m, e)
  | cs => (parseUnsignedNumber cs).map fun (m, e) => (false, m, e)

/-! ### binary64 magnitudes as integers -/

/-- magnitude of the binary64 with magnitude bits `b` (sign bit clear, `b ≤ 0x7FF0000000000000`) in
    units of 2^-1074 (the smallest subnormal): subnormals `frac`, normals `(2^52+frac)·2^(ex-1)`.
    At `b = 0x7FF0000000000000` (the pattern of +Inf) this is 2^1024·2^1074, the value the pattern
    would have as a finite number — exactly IEEE 754's overflow threshold rule. -/
def magS (b : Nat) : Nat :=
  let ex := b / 2 ^ 52
  let fr := b % 2 ^ 52
  if ex = 0 then fr else (2 ^ 52 + fr) * 2 ^ (ex - 1)

def infBits : Nat := 0x7FF0000000000000
def maxFloatBits : Nat := 0x7FEFFFFFFFFFFFFF

/-- (v, lo, hi) scaled to common integer units: v = m·10^e against bounds given in units of
    2^-1075 -/
def scaled (m : Nat) (e : Int) (lo hi : Nat) : Nat × Nat × Nat :=
  if e ≥ 0 then (m * 10 ^ e.toNat * 2 ^ 1075, lo, hi)
  else (m * 2 ^ 1075, lo * 10 ^ (-e).toNat, hi * 10 ^ (-e).toNat)

/-- the decimal (−1)^neg · m · 10^e rounds (nearest, ties to even) to the binary64 `bits`:
    it lies between the midpoints to the two neighbouring floats, midpoints included iff the
    significand of `bits` is even.  `bits` must be finite. -/
def decRoundsTo (bits : Nat) (neg : Bool) (m : Nat) (e : Int) : Bool :=
  let b := bits % 2 ^ 63
  let (v, lo, hi) := scaled m e (magS (b - 1) + magS b) (magS b + magS (b + 1))
  decide (bits < 2 ^ 64) && decide (b < infBits) && (neg == decide (bits ≥ 2 ^ 63))
    && (decide (lo < v) || (decide (b % 2 = 0) && decide (lo = v)))
    && (decide (v < hi) || (decide (b % 2 = 0) && decide (v = hi)))

/-- THE PREDICATE: `text` is a JSON number that reads back to the binary64 `bits` -/
def floatTextTrue (bits : Nat) (text : List Char) : Bool :=
  match parseJsonNumberExact text with
  | none => false
  | some (neg, m, e) => decRoundsTo bits neg m e

def isNaNBits (bits : Nat) : Bool := decide (bits % 2 ^ 63 > infBits)

/-- what fq documents to print for a float (encoder.go:138-146): NaN → `null`; ±Inf → ±MaxFloat64 -/
def floatSubst (bits : Nat) : Option Nat :=
  if isNaNBits bits then none
  else if bits % 2 ^ 63 = infBits then some (bits - 1)
  else some bits

/-- the text shown for the float `bits` is true: `null` for NaN, else it reads back to the float
    (to ±MaxFloat64 for ±Inf) -/
def floatShownTrue (bits : Nat) (text : List Char) : Bool :=
  match floatSubst bits with
  | none => text == "null".toList
  | some b => floatTextTrue b text

/-- exact integer value of a finite binary64, if it is an integer -/
def floatIntValue (bits : Nat) : Option Int :=
  let b := bits % 2 ^ 63
  if b ≥ infBits then none
  else if magS b % 2 ^ 1074 = 0 then
    some (if bits ≥ 2 ^ 63 then -((magS b / 2 ^ 1074 : Nat) : Int) else ((magS b / 2 ^ 1074 : Nat) : Int))
  else none

end FqModel.C10Json
