/-
  C10 — model of internal/colorjson/encoder.go (colour off; the harness strips ANSI sequences)
  for null, bool, integers of any size (`int` and `*big.Int`, encoder.go:100-105), strings
  (encodeString, 163-222), arrays (224-244) and objects (246-284, keys sorted bytewise),
  compact (`Indent == 0`) and indented, plus a parser for the same JSON fragment.

  Strings are lists of code points, i.e. valid UTF-8 (the `�` branch for invalid UTF-8,
  encoder.go:203-211, is not modelled).  Floats are not modelled (strconv, trusted).
-/
import FqModel.Dump
namespace FqModel.C10Json
open FqModel.Dump

inductive JV where
  | null
  | bool (b : Bool)
  | int (n : Int)
  | str (s : List Char)
  | arr (xs : List JV)
  | obj (kvs : List (List Char × JV))
deriving Repr, Inhabited

/-! ### encoder -/

/-- strconv.AppendInt(v, 10) / big.Int.Append(buf, 10) -/
def encInt (n : Int) : List Char :=
  if n < 0 then '-' :: formatBase 10 n.natAbs else formatBase 10 n.natAbs

/-- the two-character escapes of encoder.go:178-192 -/
def shortEsc (c : Char) : Option Char :=
  if c = '"' then some '"' else if c = '\\' then some '\\'
  else if c = '\x08' then some 'b' else if c = '\x0c' then some 'f'
  else if c = '\n' then some 'n' else if c = '\r' then some 'r' else if c = '\t' then some 't'
  else none

/-- encoder.go:170-214 for one code point -/
def escapeChar (c : Char) : List Char :=
  if c.toNat < 0x80 then
    if 0x20 ≤ c.toNat ∧ c.toNat ≤ 0x7e ∧ c ≠ '"' ∧ c ≠ '\\' then [c]
    else match shortEsc c with
      | some e => ['\\', e]
      | none => ['\\', 'u', '0', '0', digitChar (c.toNat / 16), digitChar (c.toNat % 16)]
  else [c]

def encStringBody : List Char → List Char
  | [] => []
  | c :: cs => escapeChar c ++ encStringBody cs

def encString (s : List Char) : List Char := '"' :: (encStringBody s ++ ['"'])

/-- bytewise order of the UTF-8 encodings = lexicographic order of the code points -/
def ltChars : List Char → List Char → Bool
  | [], [] => false
  | [], _ :: _ => true
  | _ :: _, [] => false
  | a :: as, b :: bs => if a.toNat < b.toNat then true else if b.toNat < a.toNat then false else ltChars as bs

def insertKey (kv : List Char × JV) : List (List Char × JV) → List (List Char × JV)
  | [] => [kv]
  | x :: xs => if ltChars kv.1 x.1 then kv :: x :: xs else x :: insertKey kv xs

def sortKeys : List (List Char × JV) → List (List Char × JV)
  | [] => []
  | x :: xs => insertKey x (sortKeys xs)

/-- the last `n` bytes of the buffer: `e.w.Bytes()[e.w.Len()-n:]` -/
def lastN (n : Nat) (buf : List Char) : List Char := buf.drop (buf.length - n)

/-- encoder.go:302-307: `for n -= l; n > 0; n, l = n-l, l*2 { if n < l { l = n }; e.w.Write(e.w.Bytes()[e.w.Len()-l:]) }`
    — the indentation is doubled by copying the tail of the buffer; fuel = n -/
def indentLoop : Nat → List Char → Nat → Nat → List Char
  | 0, buf, _, _ => buf
  | f + 1, buf, n, l =>
    if n = 0 then buf else
    let l' := if n < l then n else l
    indentLoop f (buf ++ lastN l' buf) (n - l') (l' * 2)

/-- encoder.go:297-309 `writeIndentInternal(n, spaces)` on the buffer `buf`; `L = len(spaces)` -/
def writeIndentInternal (buf : List Char) (n : Nat) (ch : Char) (L : Nat) : List Char :=
  if n ≤ L then buf ++ List.replicate n ch
  else indentLoop (n - L) (buf ++ List.replicate L ch) (n - L) L

/-- encoder.go:286-295 `writeIndent` on the buffer `buf` (32 spaces / 16 tabs constants) -/
def writeIndentBuf (tab : Bool) (buf : List Char) (depth : Nat) : List Char :=
  let buf := buf ++ ['\n']
  if depth > 0 then
    (if tab then writeIndentInternal buf depth '\t' 16 else writeIndentInternal buf depth ' ' 32)
  else buf

/-- what `writeIndent` appends (`Tab == false`, as fq configures it); independent of the buffer by
    `indent_exact` -/
def nl (depth : Nat) : List Char := writeIndentBuf false [] depth

mutual
/-- `encode indent depth v`; `indent = 0` is compact -/
def encode (indent depth : Nat) : JV → List Char
  | .null => "null".toList
  | .bool true => "true".toList
  | .bool false => "false".toList
  | .int n => encInt n
  | .str s => encString s
  | .arr xs =>
    '[' :: (encodeElems indent (depth + indent) true xs
      ++ (if !xs.isEmpty ∧ indent ≠ 0 then nl depth else []) ++ [']'])
  | .obj kvs =>
    '{' :: (encodeMembers indent (depth + indent) true kvs
      ++ (if !kvs.isEmpty ∧ indent ≠ 0 then nl depth else []) ++ ['}'])
def encodeElems (indent depth : Nat) (first : Bool) : List JV → List Char
  | [] => []
  | x :: xs =>
    (if first then [] else [',']) ++ (if indent ≠ 0 then nl depth else [])
      ++ encode indent depth x ++ encodeElems indent depth false xs
/-- members in the order given: `encodeJson` sorts first -/
def encodeMembers (indent depth : Nat) (first : Bool) : List (List Char × JV) → List Char
  | [] => []
  | (k, v) :: kvs =>
    (if first then [] else [',']) ++ (if indent ≠ 0 then nl depth else [])
      ++ encString k ++ [':'] ++ (if indent ≠ 0 then [' '] else [])
      ++ encode indent depth v ++ encodeMembers indent depth false kvs
end

mutual
/-- sort the keys of every object (what ranging over a Go map + SortFunc does) -/
def normalize : JV → JV
  | .arr xs => .arr (normalizeList xs)
  | .obj kvs => .obj (sortKeys (normalizeKvs kvs))
  | v => v
def normalizeList : List JV → List JV
  | [] => []
  | x :: xs => normalize x :: normalizeList xs
def normalizeKvs : List (List Char × JV) → List (List Char × JV)
  | [] => []
  | (k, v) :: kvs => (k, normalize v) :: normalizeKvs kvs
end

/-- what `colorjson.Encoder.Marshal` writes for `v` -/
def encodeJson (indent : Nat) (v : JV) : List Char := encode indent 0 (normalize v)

/-! ### parser -/

def isWs (c : Char) : Bool := c = ' ' ∨ c = '\n' ∨ c = '\r' ∨ c = '\t'

def skipWs : List Char → List Char
  | [] => []
  | c :: cs => if isWs c then skipWs cs else c :: cs

def isDigit (c : Char) : Bool := 48 ≤ c.toNat ∧ c.toNat ≤ 57

/-- JSON `int` without fraction/exponent: digits, no leading zero -/
def parseNat (cs : List Char) : Option (Nat × List Char) :=
  let ds := cs.takeWhile isDigit
  let rest := cs.dropWhile isDigit
  if ds.isEmpty then none
  else if ds.length > 1 ∧ ds.head? = some '0' then none
  else match rest with
    | '.' :: _ => none
    | 'e' :: _ => none
    | 'E' :: _ => none
    | _ => (parseBaseGo 10 0 ds).map (·, rest)

def hexVal4 (a b c d : Char) : Option Nat :=
  match FqModel.hexVal a, FqModel.hexVal b, FqModel.hexVal c, FqModel.hexVal d with
  | some w, some x, some y, some z => some (((w * 16 + x) * 16 + y) * 16 + z)
  | _, _, _, _ => none

def unShort (e : Char) : Option Char :=
  if e = '"' then some '"' else if e = '\\' then some '\\' else if e = '/' then some '/'
  else if e = 'b' then some '\x08' else if e = 'f' then some '\x0c'
  else if e = 'n' then some '\n' else if e = 'r' then some '\r' else if e = 't' then some '\t'
  else none

/-- one character or escape from the front of a string body -/
def unescape1 : List Char → Option (Char × List Char)
  | [] => none
  | c :: rest =>
    if c = '\\' then
      match rest with
      | 'u' :: a :: b :: x :: y :: rest' =>
        match hexVal4 a b x y with
        | none => none
        | some v =>
          if 0xD800 ≤ v ∧ v < 0xDC00 then
            match rest' with
            | '\\' :: 'u' :: a2 :: b2 :: x2 :: y2 :: rest'' =>
              match hexVal4 a2 b2 x2 y2 with
              | some v2 =>
                if 0xDC00 ≤ v2 ∧ v2 < 0xE000 then
                  some (Char.ofNat (0x10000 + (v - 0xD800) * 0x400 + (v2 - 0xDC00)), rest'')
                else none
              | none => none
            | _ => none
          else if 0xDC00 ≤ v ∧ v < 0xE000 then none
          else some (Char.ofNat v, rest')
      | e :: rest' => (unShort e).map (·, rest')
      | [] => none
    else if c = '"' ∨ c.toNat < 0x20 then none
    else some (c, rest)

/-- string body up to the closing quote; fuel = remaining length -/
def parseStrBody : Nat → List Char → Option (List Char × List Char)
  | 0, _ => none
  | _ + 1, [] => none
  | f + 1, c :: cs =>
    if c = '"' then some ([], cs) else
    match unescape1 (c :: cs) with
    | none => none
    | some (ch, rest) => (parseStrBody f rest).map fun (s, r) => (ch :: s, r)

def parseString (cs : List Char) : Option (List Char × List Char) :=
  match cs with
  | '"' :: rest => parseStrBody (rest.length + 1) rest
  | _ => none

def dropPrefix (p cs : List Char) : Option (List Char) :=
  if cs.take p.length = p then some (cs.drop p.length) else none

mutual
def parseValue : Nat → List Char → Option (JV × List Char)
  | 0, _ => none
  | f + 1, cs =>
    match skipWs cs with
    | [] => none
    | c :: rest =>
      if c = 'n' then (dropPrefix "null".toList (c :: rest)).map (JV.null, ·)
      else if c = 't' then (dropPrefix "true".toList (c :: rest)).map (JV.bool true, ·)
      else if c = 'f' then (dropPrefix "false".toList (c :: rest)).map (JV.bool false, ·)
      else if c = '"' then (parseString (c :: rest)).map fun (s, r) => (JV.str s, r)
      else if c = '-' then (parseNat rest).map fun (n, r) => (JV.int (-(n : Int)), r)
      else if isDigit c then (parseNat (c :: rest)).map fun (n, r) => (JV.int n, r)
      else if c = '[' then
        match skipWs rest with
        | ']' :: r => some (JV.arr [], r)
        | _ => (parseElems f rest).map fun (xs, r) => (JV.arr xs, r)
      else if c = '{' then
        match skipWs rest with
        | '}' :: r => some (JV.obj [], r)
        | _ => (parseMembers f rest).map fun (kvs, r) => (JV.obj kvs, r)
      else none
def parseElems : Nat → List Char → Option (List JV × List Char)
  | 0, _ => none
  | f + 1, cs =>
    match parseValue f cs with
    | none => none
    | some (v, r) =>
      match skipWs r with
      | ',' :: r' => (parseElems f r').map fun (xs, r'') => (v :: xs, r'')
      | ']' :: r' => some ([v], r')
      | _ => none
def parseMembers : Nat → List Char → Option (List (List Char × JV) × List Char)
  | 0, _ => none
  | f + 1, cs =>
    match parseString (skipWs cs) with
    | none => none
    | some (k, r) =>
      match skipWs r with
      | ':' :: r1 =>
        match parseValue f r1 with
        | none => none
        | some (v, r2) =>
          match skipWs r2 with
          | ',' :: r3 => (parseMembers f r3).map fun (kvs, r4) => ((k, v) :: kvs, r4)
          | '}' :: r3 => some ([(k, v)], r3)
          | _ => none
      | _ => none
end

/-- a complete JSON text -/
def parseJson (cs : List Char) : Option JV :=
  match parseValue (cs.length + 1) cs with
  | some (v, rest) => if (skipWs rest).isEmpty then some v else none
  | none => none

/-! ### equality (run time only) -/

mutual
def JV.beq : JV → JV → Bool
  | .null, .null => true
  | .bool a, .bool b => a == b
  | .int a, .int b => a == b
  | .str a, .str b => a == b
  | .arr a, .arr b => beqList a b
  | .obj a, .obj b => beqKvs a b
  | _, _ => false
def beqList : List JV → List JV → Bool
  | [], [] => true
  | x :: xs, y :: ys => JV.beq x y && beqList xs ys
  | _, _ => false
def beqKvs : List (List Char × JV) → List (List Char × JV) → Bool
  | [], [] => true
  | (k, x) :: xs, (l, y) :: ys => k == l && JV.beq x y && beqKvs xs ys
  | _, _ => false
end

end FqModel.C10Json
