import FqModel.C11Full
/-!
  C11 — directives: `module CONSTOBJECT ;`, `import "path" as NAME [CONSTOBJECT] ;`, `include "path" [CONSTOBJECT] ;`
  in front of a query (parser.go.y:56-100 program/header/imports/import/meta, 560-646 constterm/constobject/constarray),
  over the tokens of FqModel/C11Full.lean.  Printer = Query.writeTo / Import.writeTo / ConstObject.writeTo of the fork.
  Not modelled: a trailing comma in a constant object; a program of definitions only.
  Core Lean only.
-/
namespace FqModel.C11.Dir
open FqModel.C11.Full

/-- constterm -/
inductive C where
  | num (s : String) | str (s : String) | lit (k : Kw)
  | arr (xs : List C)
  | obj (kvs : List (Tok × C))
deriving Repr, Inhabited

/-- key of a constant object entry: identifier, keyword or plain string (parser.go.y:614-626) -/
def isCKey : Tok → Bool
  | .ident _ => true | .kw _ => true | .op .and => true | .op .or => true | .str _ => true | _ => false

mutual
  def printC : C → List Tok
    | .num s => [.num s]
    | .str s => [.str s]
    | .lit k => [.kw k]
    | .arr xs => .lbrack :: printCs xs ++ [.rbrack]
    | .obj kvs => .lbrace :: printKVs kvs ++ [.rbrace]
  def printCs : List C → List Tok
    | [] => []
    | [x] => printC x
    | x :: y :: rest => printC x ++ .op .comma :: printCs (y :: rest)
  def printKVs : List (Tok × C) → List Tok
    | [] => []
    | [(k, v)] => k :: .colon :: printC v
    | (k, v) :: kv2 :: rest => k :: .colon :: printC v ++ .op .comma :: printKVs (kv2 :: rest)
end

mutual
  def wfC : C → Bool
    | .num _ => true | .str _ => true
    | .lit k => isLitKw k
    | .arr xs => wfCs xs
    | .obj kvs => wfKVs kvs
  def wfCs : List C → Bool
    | [] => true
    | x :: rest => wfC x && wfCs rest
  def wfKVs : List (Tok × C) → Bool
    | [] => true
    | (k, v) :: rest => isCKey k && wfC v && wfKVs rest
end

mutual
  def parseC : Nat → List Tok → PR C
    | 0, _ => none
    | _ + 1, [] => none
    | f + 1, t :: r =>
      match t with
      | .num s => some (.num s, r)
      | .str s => some (.str s, r)
      | .kw .null => some (.lit .null, r)
      | .kw .true_ => some (.lit .true_, r)
      | .kw .false_ => some (.lit .false_, r)
      | .lbrack => onTok .rbrack r (fun r' => some (.arr [], r')) (bnd (parseCs f r) fun xs r' => some (.arr xs, r'))
      | .lbrace => onTok .rbrace r (fun r' => some (.obj [], r')) (bnd (parseKVs f r) fun kvs r' => some (.obj kvs, r'))
      | _ => none
  /-- elements separated by `,`, then `]` -/
  def parseCs : Nat → List Tok → PR (List C)
    | 0, _ => none
    | f + 1, ts =>
      bnd (parseC f ts) fun x r =>
        onTok (.op .comma) r (fun r' => bnd (parseCs f r') fun xs r'' => some (x :: xs, r''))
          (expect .rbrack r fun r' => some ([x], r'))
  /-- `key : constterm` separated by `,`, then `}` -/
  def parseKVs : Nat → List Tok → PR (List (Tok × C))
    | 0, _ => none
    | _ + 1, [] => none
    | f + 1, k :: ts =>
      if isCKey k then
        expect .colon ts fun r0 =>
          bnd (parseC f r0) fun v r =>
            onTok (.op .comma) r (fun r' => bnd (parseKVs f r') fun kvs r'' => some ((k, v) :: kvs, r''))
              (expect .rbrace r fun r' => some ([(k, v)], r'))
      else none
end

/-- an import or include directive -/
structure Imp where
  isImport : Bool
  path : String
  alias : Tok          -- identifier or variable (imports only; `.dot` placeholder for includes)
  dmeta : Option C
deriving Repr, Inhabited

def isAlias : Tok → Bool
  | .ident _ => true | .var _ => true | _ => false

def isObj : C → Bool
  | .obj _ => true | _ => false

def wfMeta : Option C → Bool
  | none => true
  | some c => wfC c && isObj c

def wfImp (i : Imp) : Bool :=
  wfMeta i.dmeta && (if i.isImport then isAlias i.alias else i.alias == .dot)

def printMeta : Option C → List Tok
  | none => []
  | some c => printC c

def printImp (i : Imp) : List Tok :=
  if i.isImport then .kw .import_ :: .str i.path :: .kw .as_ :: i.alias :: printMeta i.dmeta ++ [.semi]
  else .kw .include :: .str i.path :: printMeta i.dmeta ++ [.semi]

def printImps : List Imp → List Tok
  | [] => []
  | i :: rest => printImp i ++ printImps rest

/-- optional constant object, then `;` -/
def parseMetaSemi (f : Nat) (ts : List Tok) : PR (Option C) :=
  onTok .semi ts (fun r => some (none, r))
    (match ts with
     | .lbrace :: _ => bnd (parseC f ts) fun c r => expect .semi r fun r' => some (some c, r')
     | _ => none)

/-- imports (`fuel` bounds their number) -/
def parseImps : Nat → List Tok → PR (List Imp)
  | 0, _ => none
  | f + 1, ts =>
    match ts with
    | .kw .import_ :: .str p :: .kw .as_ :: a :: r =>
      if isAlias a then
        bnd (parseMetaSemi f r) fun m r' => bnd (parseImps f r') fun is r'' => some (⟨true, p, a, m⟩ :: is, r'')
      else none
    | .kw .include :: .str p :: r =>
      bnd (parseMetaSemi f r) fun m r' => bnd (parseImps f r') fun is r'' => some (⟨false, p, .dot, m⟩ :: is, r'')
    | _ => some ([], ts)

structure Prog where
  pmeta : Option C
  imports : List Imp
  body : E
deriving Repr, Inhabited

def wfProg (p : Prog) : Bool :=
  wfMeta p.pmeta && p.imports.all wfImp && wf p.body && cat p.body == .query

def printHeader : Option C → List Tok
  | none => []
  | some c => .kw .module :: printC c ++ [.semi]

def printProg (p : Prog) : List Tok := printHeader p.pmeta ++ printImps p.imports ++ print p.body

def parseHeader (f : Nat) (ts : List Tok) : PR (Option C) :=
  match ts with
  | .kw .module :: .lbrace :: r => bnd (parseC f (.lbrace :: r)) fun c r' => expect .semi r' fun r'' => some (some c, r'')
  | _ => some (none, ts)

def parseProg (ts : List Tok) : Option Prog :=
  let fuel := 8 * ts.length + 8
  bnd (parseHeader fuel ts) fun m r =>
    bnd (parseImps fuel r) fun is r' =>
      match Full.parse r' with
      | some b => some ⟨m, is, b⟩
      | none => none

end FqModel.C11.Dir
