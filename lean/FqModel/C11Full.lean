import FqModel.C11Print
/-!
  C11 — printer and parser of (almost) the whole term/query grammar of the fork, over tokens.

  This widens FqModel/C11Print.lean (operator core) to the productions of github.com/wader/gojq parser.go.y
  (the version pinned by /repo's go.sum):
    query  143-168  funcdef query | query '|' query | term as bindpatterns '|' query | label $v '|' query
                    | query ',' query | expr
    expr   170-214  expr OP expr | term                   (precedence table: lines 41-52, see C11Print.lean)
    bindpatterns/pattern/arraypatterns/objectpatterns/objectpattern  216-276
    term   278-419  . | .. | .foo | '.' suffix | '.' string | null/true/false | f | f(args) | $v | {…} | […]
                    | number | '+' term | '-' term | @fmt | @fmt string | string | if…end | try expr trycatch
                    | reduce/foreach | break $v | '(' query ')' | term .foo | term suffix | term '?' | term '.' string
    string 421-444  tokString | tokStringStart stringparts tokStringEnd
    suffix 454-474  [] | [q] | [q:] | [:q] | [q:q]
    args 476-484, ifelifs/ifelse 486-504, trycatch 506-514, objectkeyvals/objectkeyval/objectkey/objectval 516-558
  Not modelled (the harness keeps such token sequences out of the `pp` cases): `term '.' suffix` (`a.[0]`, which
  prints without the dot), a trailing comma in an object, a program consisting only of definitions, directives
  (module/import/include: see FqModel/C11Dir.lean).
  The `try` body and handler are `expr` in the grammar, but the precedences (tokTry/tokCatch above every operator)
  make the parser reduce before any binary operator: they are terms.

  One type `E` holds every syntactic category (query/term, string part, object entry, elif, bracket suffix body,
  pattern, pattern entry); `wf` checks that each position holds the right category — the parser only builds such
  trees.  Printer = the fork's `writeTo` methods (query.go of the fork): no parenthesis is ever added.
  Core Lean only.
-/
namespace FqModel.C11.Full
open FqModel.C11.Print (Op Assoc)

inductive Kw where
  | null | true_ | false_ | if_ | then_ | elif_ | else_ | end_ | try_ | catch_ | reduce | foreach | as_ | label
  | break_ | def_ | import_ | include | module
deriving DecidableEq, Repr, Inhabited

inductive Tok where
  | num (s : String) | str (s : String) | ident (s : String) | var (s : String) | field (s : String) | fmt (s : String)
  | dot | dotdot
  | kw (k : Kw)
  | op (o : Op)
  | quest | destalt
  | lparen | rparen | lbrack | rbrack | lbrace | rbrace | colon | semi
  | strStart | strQuery | strEnd
deriving DecidableEq, Repr, Inhabited

inductive E where
  -- terms
  | num (s : String) | strl (s : String) | istr (parts : List E)
  | ident (s : String) | var (s : String) | call (s : String) (args : List E)
  | field (s : String) | dot | dotdot | dotStr (s : E) | dotIdx (b : E)
  | lit (k : Kw)
  | fmt (s : String) | fmtS (s : String) (str : E)
  | arr (q : Option E) | obj (kvs : List E)
  | neg (e : E) | pos (e : E)
  | ite (c t : E) (elifs : List E) (els : Option E)
  | try_ (b : E) (c : Option E)
  | reduce (src pat init upd : E) | foreach (src pat init upd : E) (ext : Option E)
  | brk (s : String)
  | paren (e : E)
  | opt (t : E) | sfxField (t : E) (s : String) | sfxStr (t s : E) | sfxBr (t b : E)
  -- queries
  | bin (o : Op) (l r : E)
  | bind (t : E) (pats : List E) (body : E)
  | label (s : String) (body : E)
  | def_ (name : String) (params : List Tok) (fbody rest : E)
  -- string parts
  | piece (s : String) | interp (q : E)
  -- object entries
  | kvKey (k : Tok) (v : Option E) | kvStr (s : E) (v : Option E) | kvQ (q v : E)
  -- elif
  | elif (c t : E)
  -- bracket suffix bodies
  | bIter | bIdx (e : E) | bSliceL (e : E) | bSliceR (e : E) | bSlice (a b : E)
  -- patterns and pattern entries
  | pvar (s : String) | parr (ps : List E) | pobj (es : List E)
  | peVar (s : String) | peKey (k : Tok) (p : E) | peStr (s p : E) | peQ (q p : E)
deriving Repr, Inhabited

/-- objectkey (parser.go.y:548-551, 648-669): identifier, variable or keyword (`and`/`or` are keywords too) -/
def isKeyTok : Tok → Bool
  | .ident _ => true | .var _ => true | .kw _ => true | .op .and => true | .op .or => true | _ => false

def isParamTok : Tok → Bool
  | .ident _ => true | .var _ => true | _ => false

/-! ### printer -/

mutual
  def print : E → List Tok
    | .num s => [.num s]
    | .strl s => [.str s]
    | .istr ps => .strStart :: printCat ps ++ [.strEnd]
    | .ident s => [.ident s]
    | .var s => [.var s]
    | .call s as => .ident s :: .lparen :: printSep .semi as ++ [.rparen]
    | .field s => [.field s]
    | .dot => [.dot]
    | .dotdot => [.dotdot]
    | .dotStr s => .dot :: print s
    | .dotIdx b => .dot :: .lbrack :: print b
    | .lit k => [.kw k]
    | .fmt s => [.fmt s]
    | .fmtS s str => .fmt s :: print str
    | .arr none => [.lbrack, .rbrack]
    | .arr (some q) => .lbrack :: print q ++ [.rbrack]
    | .obj kvs => .lbrace :: printSep (.op .comma) kvs ++ [.rbrace]
    | .neg e => .op .sub :: print e
    | .pos e => .op .add :: print e
    | .ite c t es none => .kw .if_ :: print c ++ .kw .then_ :: print t ++ printCat es ++ [.kw .end_]
    | .ite c t es (some e) => .kw .if_ :: print c ++ .kw .then_ :: print t ++ printCat es ++ .kw .else_ :: print e ++ [.kw .end_]
    | .try_ b none => .kw .try_ :: print b
    | .try_ b (some c) => .kw .try_ :: print b ++ .kw .catch_ :: print c
    | .reduce src p a b =>
      .kw .reduce :: print src ++ .kw .as_ :: print p ++ .lparen :: print a ++ .semi :: print b ++ [.rparen]
    | .foreach src p a b none =>
      .kw .foreach :: print src ++ .kw .as_ :: print p ++ .lparen :: print a ++ .semi :: print b ++ [.rparen]
    | .foreach src p a b (some c) =>
      .kw .foreach :: print src ++ .kw .as_ :: print p ++ .lparen :: print a ++ .semi :: print b ++ .semi :: print c ++ [.rparen]
    | .brk s => [.kw .break_, .var s]
    | .paren e => .lparen :: print e ++ [.rparen]
    | .opt t => print t ++ [.quest]
    | .sfxField t s => print t ++ [.field s]
    | .sfxStr t s => print t ++ .dot :: print s
    | .sfxBr t b => print t ++ .lbrack :: print b
    | .bin o l r => print l ++ .op o :: print r
    | .bind t ps b => print t ++ .kw .as_ :: printSep .destalt ps ++ .op .pipe :: print b
    | .label s b => .kw .label :: .var s :: .op .pipe :: print b
    | .def_ n [] fb rest => .kw .def_ :: .ident n :: .colon :: print fb ++ .semi :: print rest
    | .def_ n (p :: ps) fb rest =>
      .kw .def_ :: .ident n :: .lparen :: (p :: ps).intersperse .semi ++ .rparen :: .colon :: print fb ++ .semi :: print rest
    | .piece s => [.str s]
    | .interp q => .strQuery :: print q ++ [.rparen]
    | .kvKey k none => [k]
    | .kvKey k (some v) => k :: .colon :: print v
    | .kvStr s none => print s
    | .kvStr s (some v) => print s ++ .colon :: print v
    | .kvQ q v => .lparen :: print q ++ .rparen :: .colon :: print v
    | .elif c t => .kw .elif_ :: print c ++ .kw .then_ :: print t
    | .bIter => [.rbrack]
    | .bIdx e => print e ++ [.rbrack]
    | .bSliceL e => print e ++ [.colon, .rbrack]
    | .bSliceR e => .colon :: print e ++ [.rbrack]
    | .bSlice a b => print a ++ .colon :: print b ++ [.rbrack]
    | .pvar s => [.var s]
    | .parr ps => .lbrack :: printSep (.op .comma) ps ++ [.rbrack]
    | .pobj es => .lbrace :: printSep (.op .comma) es ++ [.rbrace]
    | .peVar s => [.var s]
    | .peKey k p => k :: .colon :: print p
    | .peStr s p => print s ++ .colon :: print p
    | .peQ q p => .lparen :: print q ++ .rparen :: .colon :: print p
  /-- elements one after the other -/
  def printCat : List E → List Tok
    | [] => []
    | x :: rest => print x ++ printCat rest
  /-- elements separated by `sep` -/
  def printSep (sep : Tok) : List E → List Tok
    | [] => []
    | [x] => print x
    | x :: y :: rest => print x ++ sep :: printSep sep (y :: rest)
end

/-! ### categories and well-formedness -/

inductive Cat where
  | query | part | entry | elifC | bracket | pattern | patEntry
deriving DecidableEq, Repr

def cat : E → Cat
  | .piece _ => .part | .interp _ => .part
  | .kvKey _ _ => .entry | .kvStr _ _ => .entry | .kvQ _ _ => .entry
  | .elif _ _ => .elifC
  | .bIter => .bracket | .bIdx _ => .bracket | .bSliceL _ => .bracket | .bSliceR _ => .bracket | .bSlice _ _ => .bracket
  | .pvar _ => .pattern | .parr _ => .pattern | .pobj _ => .pattern
  | .peVar _ => .patEntry | .peKey _ _ => .patEntry | .peStr _ _ => .patEntry | .peQ _ _ => .patEntry
  | _ => .query

def isStr : E → Bool
  | .strl _ => true | .istr _ => true | _ => false

/-- terms that take postfix operators -/
def isPostfixable : E → Bool
  | .num _ => true | .strl _ => true | .istr _ => true | .ident _ => true | .var _ => true | .call _ _ => true
  | .field _ => true | .dot => true | .dotdot => true | .dotStr _ => true | .dotIdx _ => true | .lit _ => true
  | .fmt _ => true | .fmtS _ _ => true | .arr _ => true | .obj _ => true | .ite _ _ _ _ => true
  | .reduce _ _ _ _ => true | .foreach _ _ _ _ _ => true | .brk _ => true | .paren _ => true
  | .opt _ => true | .sfxField _ _ => true | .sfxStr _ _ => true | .sfxBr _ _ => true
  | _ => false

def isTerm : E → Bool
  | .neg _ => true | .pos _ => true | .try_ _ _ => true
  | e => isPostfixable e

/-- query-level prefix forms: everything to their right belongs to them -/
def isOpen : E → Bool
  | .bind _ _ _ => true | .label _ _ => true | .def_ _ _ _ _ => true | _ => false

def openRight : E → Bool
  | .bind _ _ _ => true | .label _ _ => true | .def_ _ _ _ _ => true
  | .bin _ _ r => openRight r
  | _ => false

def level : E → Nat
  | .bin o _ _ => o.prec
  | .bind _ _ _ => 0 | .label _ _ => 0 | .def_ _ _ _ _ => 0
  | _ => 10

/-- a `try` without `catch` at the right edge of a term would take a following `catch` -/
def danglingTry : E → Bool
  | .try_ _ none => true
  | .try_ _ (some c) => danglingTry c
  | .neg e => danglingTry e
  | .pos e => danglingTry e
  | _ => false

/-- objectval (parser.go.y:553-558): exprs joined by right-nested `|` -/
def isObjVal : E → Bool
  | .bin .pipe l r => cat l == .query && !isOpen l && Nat.ble 3 (level l) && isObjVal r
  | e => cat e == .query && !isOpen e && Nat.ble 3 (level e)

def notDot : E → Bool
  | .dot => false
  | _ => true

def isLitKw : Kw → Bool
  | .null => true | .true_ => true | .false_ => true | _ => false

def isQ (e : E) : Bool := cat e == .query

mutual
  def wf : E → Bool
    | .num _ => true | .strl _ => true | .ident _ => true | .var _ => true | .field _ => true
    | .dot => true | .dotdot => true | .fmt _ => true | .brk _ => true
    | .lit k => isLitKw k
    | .istr ps => wfAll .part ps
    | .call _ as => !as.isEmpty && wfAll .query as
    | .dotStr s => wf s && isStr s
    | .dotIdx b => wf b && cat b == .bracket
    | .fmtS _ s => wf s && isStr s
    | .arr none => true
    | .arr (some q) => wf q && isQ q
    | .obj kvs => wfAll .entry kvs
    | .neg e => wf e && isTerm e
    | .pos e => wf e && isTerm e
    | .ite c t es none => wf c && isQ c && wf t && isQ t && wfAll .elifC es
    | .ite c t es (some e) => wf c && isQ c && wf t && isQ t && wfAll .elifC es && wf e && isQ e
    | .try_ b none => wf b && isTerm b
    | .try_ b (some c) => wf b && isTerm b && !danglingTry b && wf c && isTerm c
    | .reduce src p a b =>
      wf src && isQ src && !isOpen src && Nat.ble 3 (level src) && wf p && cat p == .pattern && wf a && isQ a && wf b && isQ b
    | .foreach src p a b none =>
      wf src && isQ src && !isOpen src && Nat.ble 3 (level src) && wf p && cat p == .pattern && wf a && isQ a && wf b && isQ b
    | .foreach src p a b (some c) =>
      wf src && isQ src && !isOpen src && Nat.ble 3 (level src) && wf p && cat p == .pattern && wf a && isQ a && wf b && isQ b
        && wf c && isQ c
    | .paren e => wf e && isQ e
    | .opt t => wf t && isPostfixable t
    | .sfxField t _ => wf t && isPostfixable t
    | .sfxStr t s => wf t && isPostfixable t && wf s && isStr s
    | .sfxBr t b => wf t && isPostfixable t && notDot t && wf b && cat b == .bracket
    | .bin o l r =>
      wf l && wf r && isQ l && isQ r && !openRight l && Nat.ble o.lmin (level l) &&
      (if isOpen r then o.queryLevel else Nat.ble o.rmin (level r))
    | .bind t ps b => wf t && isTerm t && !ps.isEmpty && wfAll .pattern ps && wf b && isQ b
    | .label _ b => wf b && isQ b
    | .def_ _ ps fb rest => ps.all isParamTok && wf fb && isQ fb && wf rest && isQ rest
    | .piece _ => true
    | .interp q => wf q && isQ q
    | .kvKey k none => isKeyTok k
    | .kvKey k (some v) => isKeyTok k && wf v && isObjVal v
    | .kvStr s none => wf s && isStr s
    | .kvStr s (some v) => wf s && isStr s && wf v && isObjVal v
    | .kvQ q v => wf q && isQ q && wf v && isObjVal v
    | .elif c t => wf c && isQ c && wf t && isQ t
    | .bIter => true
    | .bIdx e => wf e && isQ e
    | .bSliceL e => wf e && isQ e
    | .bSliceR e => wf e && isQ e
    | .bSlice a b => wf a && isQ a && wf b && isQ b
    | .pvar _ => true
    | .parr ps => !ps.isEmpty && wfAll .pattern ps
    | .pobj es => !es.isEmpty && wfAll .patEntry es
    | .peVar _ => true
    | .peKey k p => isKeyTok k && wf p && cat p == .pattern
    | .peStr s p => wf s && isStr s && wf p && cat p == .pattern
    | .peQ q p => wf q && isQ q && wf p && cat p == .pattern
  def wfAll (c : Cat) : List E → Bool
    | [] => true
    | x :: rest => wf x && cat x == c && wfAll c rest
end

/-! ### parser (fuel = call depth) -/

abbrev PR (α : Type) := Option (α × List Tok)

def bnd {α β : Type} (r : PR α) (k : α → List Tok → Option β) : Option β :=
  match r with
  | some (a, ts) => k a ts
  | none => none

def expect {β : Type} (t : Tok) (ts : List Tok) (k : List Tok → Option β) : Option β :=
  match ts with
  | t' :: r => if t' = t then k r else none
  | [] => none

/-- `kYes rest` when the head is `t`, else `kNo` -/
def onTok {β : Type} (t : Tok) (ts : List Tok) (kYes : List Tok → β) (kNo : β) : β :=
  match ts with
  | t' :: r => if t' = t then kYes r else kNo
  | [] => kNo

def onOp {β : Type} (ts : List Tok) (kOp : Op → List Tok → β) (kNo : β) : β :=
  match ts with
  | .op o :: r => kOp o r
  | _ => kNo

/-- a plain or interpolated string at the head: `.str s` or `.strStart` -/
inductive StrHead where
  | plain (s : String) (r : List Tok)
  | start (r : List Tok)
  | no

def strHead : List Tok → StrHead
  | .str s :: r => .plain s r
  | .strStart :: r => .start r
  | _ => .no

/-- `kStr h` when a string starts at the head, else `kNo` -/
def onStr {β : Type} (ts : List Tok) (kNo : β) (kStr : StrHead → β) : β :=
  match strHead ts with
  | .no => kNo
  | h => kStr h

mutual
  /-- string (after its first token has been classified) -/
  def parseStrTail : Nat → StrHead → PR E
    | 0, _ => none
    | _ + 1, .plain s r => some (.strl s, r)
    | f + 1, .start r => bnd (parseParts f r) fun ps r' => some (.istr ps, r')
    | _ + 1, .no => none
  /-- stringparts … tokStringEnd -/
  def parseParts : Nat → List Tok → PR (List E)
    | 0, _ => none
    | _ + 1, [] => none
    | f + 1, t :: r =>
      match t with
      | .strEnd => some ([], r)
      | .str s => bnd (parseParts f r) fun ps r' => some (.piece s :: ps, r')
      | .strQuery =>
        bnd (parseExpr f 1 true r) fun q r1 => expect .rparen r1 fun r2 =>
          bnd (parseParts f r2) fun ps r3 => some (.interp q :: ps, r3)
      | _ => none
  /-- term: primary with its postfix operators; unary operators and `try` take a whole term -/
  def parseTerm : Nat → List Tok → PR E
    | 0, _ => none
    | _ + 1, [] => none
    | f + 1, t :: ts =>
      match t with
      | .num s => parsePostfix f (.num s) ts
      | .str s => parsePostfix f (.strl s) ts
      | .strStart => bnd (parseParts f ts) fun ps r => parsePostfix f (.istr ps) r
      | .ident s =>
        onTok .lparen ts (fun r => bnd (parseArgs f r) fun as r' => parsePostfix f (.call s as) r')
          (parsePostfix f (.ident s) ts)
      | .var s => parsePostfix f (.var s) ts
      | .field s => parsePostfix f (.field s) ts
      | .dotdot => parsePostfix f .dotdot ts
      | .dot =>
        onTok .lbrack ts (fun r => bnd (parseBracket f r) fun b r' => parsePostfix f (.dotIdx b) r')
          (onStr ts (parsePostfix f .dot ts) fun h => bnd (parseStrTail f h) fun s r => parsePostfix f (.dotStr s) r)
      | .kw k =>
        match k with
        | .null => parsePostfix f (.lit .null) ts
        | .true_ => parsePostfix f (.lit .true_) ts
        | .false_ => parsePostfix f (.lit .false_) ts
        | .if_ =>
          bnd (parseExpr f 1 true ts) fun c r => expect (.kw .then_) r fun r1 =>
            bnd (parseExpr f 1 true r1) fun t r2 => bnd (parseElifs f r2) fun ee r3 =>
              parsePostfix f (.ite c t ee.1 ee.2) r3
        | .try_ =>
          bnd (parseTerm f ts) fun b r =>
            onTok (.kw .catch_) r (fun r' => bnd (parseTerm f r') fun c r'' => some (.try_ b (some c), r''))
              (some (.try_ b none, r))
        | .reduce =>
          bnd (parseExpr f 3 false ts) fun src r => expect (.kw .as_) r fun r1 =>
            bnd (parsePattern f r1) fun p r2 => expect .lparen r2 fun r3 =>
              bnd (parseExpr f 1 true r3) fun a r4 => expect .semi r4 fun r5 =>
                bnd (parseExpr f 1 true r5) fun b r6 => expect .rparen r6 fun r7 =>
                  parsePostfix f (.reduce src p a b) r7
        | .foreach =>
          bnd (parseExpr f 3 false ts) fun src r => expect (.kw .as_) r fun r1 =>
            bnd (parsePattern f r1) fun p r2 => expect .lparen r2 fun r3 =>
              bnd (parseExpr f 1 true r3) fun a r4 => expect .semi r4 fun r5 =>
                bnd (parseExpr f 1 true r5) fun b r6 =>
                  onTok .semi r6
                    (fun r7 => bnd (parseExpr f 1 true r7) fun c r8 => expect .rparen r8 fun r9 =>
                      parsePostfix f (.foreach src p a b (some c)) r9)
                    (expect .rparen r6 fun r7 => parsePostfix f (.foreach src p a b none) r7)
        | .break_ =>
          match ts with
          | .var s :: r => parsePostfix f (.brk s) r
          | _ => none
        | _ => none
      | .fmt s =>
        onStr ts (parsePostfix f (.fmt s) ts) fun h => bnd (parseStrTail f h) fun str r => parsePostfix f (.fmtS s str) r
      | .lbrack =>
        onTok .rbrack ts (fun r => parsePostfix f (.arr none) r)
          (bnd (parseExpr f 1 true ts) fun q r => expect .rbrack r fun r' => parsePostfix f (.arr (some q)) r')
      | .lbrace =>
        onTok .rbrace ts (fun r => parsePostfix f (.obj []) r)
          (bnd (parseSep f .entry (.op .comma) .rbrace ts) fun kvs r => parsePostfix f (.obj kvs) r)
      | .op o =>
        match o with
        | .sub => bnd (parseTerm f ts) fun e r => some (.neg e, r)
        | .add => bnd (parseTerm f ts) fun e r => some (.pos e, r)
        | _ => none
      | .lparen => bnd (parseExpr f 1 true ts) fun e r => expect .rparen r fun r' => parsePostfix f (.paren e) r'
      | _ => none
  /-- postfix operators: `?`, `.foo`, `."str"`, `[…]` -/
  def parsePostfix : Nat → E → List Tok → PR E
    | 0, _, _ => none
    | _ + 1, t, [] => some (t, [])
    | f + 1, t, tk :: r =>
      match tk with
      | .quest => parsePostfix f (.opt t) r
      | .field s => parsePostfix f (.sfxField t s) r
      | .dot =>
        onStr r (some (t, tk :: r)) fun h => bnd (parseStrTail f h) fun s r' => parsePostfix f (.sfxStr t s) r'
      | .lbrack => bnd (parseBracket f r) fun b r' => parsePostfix f (.sfxBr t b) r'
      | _ => some (t, tk :: r)
  /-- suffix after `[` (parser.go.y:454-474) -/
  def parseBracket : Nat → List Tok → PR E
    | 0, _ => none
    | f + 1, ts =>
      onTok .rbrack ts (fun r => some (.bIter, r))
        (onTok .colon ts (fun r => bnd (parseExpr f 1 true r) fun e r' => expect .rbrack r' fun r'' => some (.bSliceR e, r''))
          (bnd (parseExpr f 1 true ts) fun a r =>
            onTok .rbrack r (fun r' => some (.bIdx a, r'))
              (expect .colon r fun r1 =>
                onTok .rbrack r1 (fun r2 => some (.bSliceL a, r2))
                  (bnd (parseExpr f 1 true r1) fun b r2 => expect .rbrack r2 fun r3 => some (.bSlice a b, r3)))))
  /-- args after `(`: queries separated by `;`, then `)` -/
  def parseArgs : Nat → List Tok → PR (List E)
    | 0, _ => none
    | f + 1, ts =>
      bnd (parseExpr f 1 true ts) fun a r =>
        onTok .semi r (fun r' => bnd (parseArgs f r') fun as r'' => some (a :: as, r''))
          (expect .rparen r fun r' => some ([a], r'))
  /-- elif … then … / else … end / end -/
  def parseElifs : Nat → List Tok → PR (List E × Option E)
    | 0, _ => none
    | f + 1, ts =>
      onTok (.kw .elif_) ts
        (fun r => bnd (parseExpr f 1 true r) fun c r1 => expect (.kw .then_) r1 fun r2 =>
          bnd (parseExpr f 1 true r2) fun t r3 => bnd (parseElifs f r3) fun ee r4 => some ((.elif c t :: ee.1, ee.2), r4))
        (onTok (.kw .else_) ts
          (fun r => bnd (parseExpr f 1 true r) fun e r1 => expect (.kw .end_) r1 fun r2 => some (([], some e), r2))
          (expect (.kw .end_) ts fun r => some (([], none), r)))
  /-- one element of a separated list -/
  def parseElem : Nat → Cat → List Tok → PR E
    | 0, _, _ => none
    | f + 1, c, ts =>
      match c with
      | .entry => parseEntry f ts
      | .pattern => parsePattern f ts
      | .patEntry => parsePatEntry f ts
      | _ => none
  /-- elements separated by `sep`, closed by `close` (at least one element) -/
  def parseSep : Nat → Cat → Tok → Tok → List Tok → PR (List E)
    | 0, _, _, _, _ => none
    | f + 1, c, sep, close, ts =>
      bnd (parseElem f c ts) fun x r =>
        onTok sep r (fun r' => bnd (parseSep f c sep close r') fun xs r'' => some (x :: xs, r''))
          (expect close r fun r' => some ([x], r'))
  /-- objectval: expr ('|' objectval)? -/
  def parseObjVal : Nat → List Tok → PR E
    | 0, _ => none
    | f + 1, ts =>
      bnd (parseExpr f 3 false ts) fun e r =>
        onTok (.op .pipe) r (fun r' => bnd (parseObjVal f r') fun v r'' => some (.bin .pipe e v, r'')) (some (e, r))
  /-- objectkeyval (parser.go.y:526-546) -/
  def parseEntry : Nat → List Tok → PR E
    | 0, _ => none
    | _ + 1, [] => none
    | f + 1, t :: r =>
      match t with
      | .lparen =>
        bnd (parseExpr f 1 true r) fun q r1 => expect .rparen r1 fun r2 => expect .colon r2 fun r3 =>
          bnd (parseObjVal f r3) fun v r4 => some (.kvQ q v, r4)
      | _ =>
        onStr (t :: r)
          (if isKeyTok t then
            onTok .colon r (fun r' => bnd (parseObjVal f r') fun v r'' => some (.kvKey t (some v), r'')) (some (.kvKey t none, r))
          else none)
          fun h =>
            bnd (parseStrTail f h) fun s r1 =>
              onTok .colon r1 (fun r' => bnd (parseObjVal f r') fun v r'' => some (.kvStr s (some v), r'')) (some (.kvStr s none, r1))
  /-- pattern (parser.go.y:226-238) -/
  def parsePattern : Nat → List Tok → PR E
    | 0, _ => none
    | _ + 1, [] => none
    | f + 1, t :: r =>
      match t with
      | .var s => some (.pvar s, r)
      | .lbrack => bnd (parseSep f .pattern (.op .comma) .rbrack r) fun ps r' => some (.parr ps, r')
      | .lbrace => bnd (parseSep f .patEntry (.op .comma) .rbrace r) fun es r' => some (.pobj es, r')
      | _ => none
  /-- objectpattern (parser.go.y:260-276) -/
  def parsePatEntry : Nat → List Tok → PR E
    | 0, _ => none
    | _ + 1, [] => none
    | f + 1, t :: r =>
      match t with
      | .lparen =>
        bnd (parseExpr f 1 true r) fun q r1 => expect .rparen r1 fun r2 => expect .colon r2 fun r3 =>
          bnd (parsePattern f r3) fun p r4 => some (.peQ q p, r4)
      | .var s =>
        onTok .colon r (fun r' => bnd (parsePattern f r') fun p r'' => some (.peKey (.var s) p, r'')) (some (.peVar s, r))
      | _ =>
        onStr (t :: r)
          (if isKeyTok t then expect .colon r fun r' => bnd (parsePattern f r') fun p r'' => some (.peKey t p, r'')
          else none)
          fun h => bnd (parseStrTail f h) fun s r1 => expect .colon r1 fun r' => bnd (parsePattern f r') fun p r'' => some (.peStr s p, r'')
  /-- bindpatterns: patterns separated by `?//` -/
  def parsePats : Nat → List Tok → PR (List E)
    | 0, _ => none
    | f + 1, ts =>
      bnd (parsePattern f ts) fun p r =>
        onTok .destalt r (fun r' => bnd (parsePats f r') fun ps r'' => some (p :: ps, r'')) (some ([p], r))
  /-- parameters of a definition after `(`: identifiers/variables separated by `;`, then `)` -/
  def parseParams : Nat → List Tok → PR (List Tok)
    | 0, _ => none
    | _ + 1, [] => none
    | f + 1, t :: r =>
      if isParamTok t then
        onTok .semi r (fun r' => bnd (parseParams f r') fun ps r'' => some (t :: ps, r''))
          (expect .rparen r fun r' => some ([t], r'))
      else none
  /-- an operand; in a query position `label`, `def`, or a term followed by `as`, start a form that extends as far
      to the right as possible -/
  def parseOperand : Nat → Bool → List Tok → PR E
    | 0, _, _ => none
    | f + 1, q, ts =>
      onTok (.kw .label) ts
        (fun r =>
          if q then
            match r with
            | .var s :: .op .pipe :: r' => bnd (parseExpr f 1 true r') fun b r'' => some (.label s b, r'')
            | _ => none
          else none)
        (onTok (.kw .def_) ts
          (fun r =>
            if q then
              match r with
              | .ident n :: r1 =>
                onTok .lparen r1
                  (fun r2 => bnd (parseParams f r2) fun ps r3 => expect .colon r3 fun r4 =>
                    bnd (parseExpr f 1 true r4) fun fb r5 => expect .semi r5 fun r6 =>
                      bnd (parseExpr f 1 true r6) fun rest r7 => some (.def_ n ps fb rest, r7))
                  (expect .colon r1 fun r4 =>
                    bnd (parseExpr f 1 true r4) fun fb r5 => expect .semi r5 fun r6 =>
                      bnd (parseExpr f 1 true r6) fun rest r7 => some (.def_ n [] fb rest, r7))
              | _ => none
            else none)
          (bnd (parseTerm f ts) fun t r =>
            onTok (.kw .as_) r
              (fun r' =>
                if q then
                  bnd (parsePats f r') fun ps r1 => expect (.op .pipe) r1 fun r2 =>
                    bnd (parseExpr f 1 true r2) fun b r3 => some (.bind t ps b, r3)
                else some (t, r))
              (some (t, r))))
  /-- an expression of level ≥ `m` -/
  def parseExpr : Nat → Nat → Bool → List Tok → PR E
    | 0, _, _, _ => none
    | f + 1, m, q, ts => bnd (parseOperand f q ts) fun lhs r => climb f m lhs 0 r
  /-- the climbing loop (see C11Print.lean) -/
  def climb : Nat → Nat → E → Nat → List Tok → PR E
    | 0, _, _, _, _ => none
    | f + 1, m, lhs, prev, ts =>
      onOp ts
        (fun o r =>
          if m ≤ o.prec then
            if o.assoc = .non ∧ o.prec = prev then none
            else bnd (parseExpr f o.rmin o.queryLevel r) fun rhs r' => climb f m (.bin o lhs rhs) o.prec r'
          else some (lhs, ts))
        (some (lhs, ts))
end

def parseFuel (fuel : Nat) (ts : List Tok) : Option E :=
  match parseExpr fuel 1 true ts with
  | some (e, []) => some e
  | _ => none

def parse (ts : List Tok) : Option E := parseFuel (8 * ts.length + 8) ts

end FqModel.C11.Full
