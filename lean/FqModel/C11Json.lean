/-!
  C11 — JSON values for the query AST (`_query_fromstring` yields `json.Marshal(gojq.Query)` decoded into
  jq values, pkg/interp/query.go:14-36) and the jq primitives the rewrite code uses on them.

  A jq object is a Go map: no key order, no duplicate keys.  The values of the domain are the CANONICAL
  `JV`s: object keys strictly increasing (`JV.set` keeps that; the parser builds objects with `set`).
  `encoding/json` writes map keys sorted, so the harness' observation text is canonical as well.
  Numbers do not occur in a query AST (number literals are kept as strings); `num` exists so that
  option records (`line`, `column`) parse.  Core Lean only.
-/
namespace FqModel.C11

inductive JV where
  | null
  | bool (b : Bool)
  | num (n : Int)
  | str (s : String)
  | arr (xs : List JV)
  | obj (kvs : List (String × JV))
deriving Inhabited, Repr

namespace JV

/-! ### structural equality (Bool) -/
mutual
  def beq : JV → JV → Bool
    | .null, .null => true
    | .bool a, .bool b => a == b
    | .num a, .num b => a == b
    | .str a, .str b => a == b
    | .arr a, .arr b => beqL a b
    | .obj a, .obj b => beqKV a b
    | _, _ => false
  def beqL : List JV → List JV → Bool
    | [], [] => true
    | x :: xs, y :: ys => beq x y && beqL xs ys
    | _, _ => false
  def beqKV : List (String × JV) → List (String × JV) → Bool
    | [], [] => true
    | (k, x) :: xs, (l, y) :: ys => k == l && beq x y && beqKV xs ys
    | _, _ => false
end

instance : BEq JV := ⟨beq⟩

/-! ### jq primitives -/

/-- jq truthiness: everything except `null` and `false` -/
def truthy : JV → Bool
  | .null => false
  | .bool false => false
  | _ => true

def getKV (k : String) : List (String × JV) → JV
  | [] => .null
  | (l, v) :: rest => if l == k then v else getKV k rest

/-- `.k` : null on null and on a missing key (jq raises on other types; the model returns null there and the
    driver never reaches it: the ASTs are objects) -/
def get (j : JV) (k : String) : JV :=
  match j with
  | .obj kvs => getKV k kvs
  | _ => .null

def hasKey (j : JV) (k : String) : Bool :=
  match j with
  | .obj kvs => kvs.any (·.1 == k)
  | _ => false

def setKV (k : String) (v : JV) : List (String × JV) → List (String × JV)
  | [] => [(k, v)]
  | (l, w) :: rest =>
    if l == k then (k, v) :: rest
    else if k < l then (k, v) :: (l, w) :: rest
    else (l, w) :: setKV k v rest

/-- `.k = v` on an object or on null (jq: `null | .k = v` is `{k: v}`) -/
def set (j : JV) (k : String) (v : JV) : JV :=
  match j with
  | .obj kvs => .obj (setKV k v kvs)
  | .null => .obj [(k, v)]
  | other => other

def delKV (k : String) : List (String × JV) → List (String × JV)
  | [] => []
  | (l, w) :: rest => if l == k then delKV k rest else (l, w) :: delKV k rest

/-- `del(.k)` -/
def del (j : JV) (k : String) : JV :=
  match j with
  | .obj kvs => .obj (delKV k kvs)
  | other => other

/-- object literal from unsorted pairs (later duplicates win, as in jq) -/
def mkObj (kvs : List (String × JV)) : JV :=
  kvs.foldl (fun acc kv => acc.set kv.1 kv.2) (.obj [])

/-- `a + b` on objects: keys of `b` win -/
def merge (a b : JV) : JV :=
  match a, b with
  | .obj _, .obj kb => kb.foldl (fun acc kv => acc.set kv.1 kv.2) a
  | .null, x => x
  | x, .null => x
  | x, _ => x

/-- `.[-1]` on an array (null when empty / not an array) -/
def last (j : JV) : JV :=
  match j with
  | .arr xs => xs.getLast?.getD .null
  | _ => .null

/-- `.[-1] |= f` on an array -/
def updLast (f : JV → JV) : List JV → List JV
  | [] => []
  | [x] => [f x]
  | x :: rest => x :: updLast f rest

end JV

/-! ### text: encoder (compact, keys in stored order) and parser -/

def hexDigit (n : Nat) : Char := if n < 10 then Char.ofNat (48 + n) else Char.ofNat (87 + n)

def escapeChar (c : Char) : String :=
  if c == '"' then "\\\"" else if c == '\\' then "\\\\"
  else if c == '\n' then "\\n" else if c == '\t' then "\\t" else if c == '\r' then "\\r"
  else if c.toNat < 0x20 then
    "\\u00" ++ String.singleton (hexDigit (c.toNat / 16)) ++ String.singleton (hexDigit (c.toNat % 16))
  else String.singleton c

def encodeString (s : String) : String :=
  "\"" ++ s.foldl (fun acc c => acc ++ escapeChar c) "" ++ "\""

mutual
  def JV.encode : JV → String
    | .null => "null"
    | .bool true => "true"
    | .bool false => "false"
    | .num n => toString n
    | .str s => encodeString s
    | .arr xs => "[" ++ JV.encodeL xs ++ "]"
    | .obj kvs => "{" ++ JV.encodeKV kvs ++ "}"
  def JV.encodeL : List JV → String
    | [] => ""
    | [x] => x.encode
    | x :: rest => x.encode ++ "," ++ JV.encodeL rest
  def JV.encodeKV : List (String × JV) → String
    | [] => ""
    | [(k, v)] => encodeString k ++ ":" ++ v.encode
    | (k, v) :: rest => encodeString k ++ ":" ++ v.encode ++ "," ++ JV.encodeKV rest
end

/-! parser over `List Char` with fuel (the driver only; not used in theorems) -/

def skipWs : List Char → List Char
  | c :: rest => if c == ' ' || c == '\n' || c == '\t' || c == '\r' then skipWs rest else c :: rest
  | [] => []

def hexVal (c : Char) : Option Nat :=
  if '0' ≤ c && c ≤ '9' then some (c.toNat - 48)
  else if 'a' ≤ c && c ≤ 'f' then some (c.toNat - 87)
  else if 'A' ≤ c && c ≤ 'F' then some (c.toNat - 55)
  else none

def hex4 : List Char → Option (Nat × List Char)
  | a :: b :: c :: d :: rest => do
    let a ← hexVal a; let b ← hexVal b; let c ← hexVal c; let d ← hexVal d
    pure (((a * 16 + b) * 16 + c) * 16 + d, rest)
  | _ => none

/-- string body after the opening quote -/
def parseStrBody : Nat → List Char → String → Option (String × List Char)
  | 0, _, _ => none
  | _ + 1, [], _ => none
  | fuel + 1, c :: rest, acc =>
    if c == '"' then some (acc, rest)
    else if c == '\\' then
      match rest with
      | 'n' :: r => parseStrBody fuel r (acc.push '\n')
      | 't' :: r => parseStrBody fuel r (acc.push '\t')
      | 'r' :: r => parseStrBody fuel r (acc.push '\r')
      | 'b' :: r => parseStrBody fuel r (acc.push (Char.ofNat 8))
      | 'f' :: r => parseStrBody fuel r (acc.push (Char.ofNat 12))
      | '/' :: r => parseStrBody fuel r (acc.push '/')
      | '\\' :: r => parseStrBody fuel r (acc.push '\\')
      | '"' :: r => parseStrBody fuel r (acc.push '"')
      | 'u' :: r =>
        match hex4 r with
        | some (hi, r2) =>
          if 0xD800 ≤ hi && hi < 0xDC00 then
            match r2 with
            | '\\' :: 'u' :: r3 =>
              match hex4 r3 with
              | some (lo, r4) =>
                if 0xDC00 ≤ lo && lo < 0xE000 then
                  parseStrBody fuel r4 (acc.push (Char.ofNat (0x10000 + (hi - 0xD800) * 0x400 + (lo - 0xDC00))))
                else none
              | none => none
            | _ => none
          else parseStrBody fuel r2 (acc.push (Char.ofNat hi))
        | none => none
      | _ => none
    else parseStrBody fuel rest (acc.push c)

def parseDigits : List Char → Nat → Nat → (Nat × Nat × List Char)
  | c :: rest, acc, n => if '0' ≤ c && c ≤ '9' then parseDigits rest (acc * 10 + (c.toNat - 48)) (n + 1) else (acc, n, c :: rest)
  | [], acc, n => (acc, n, [])

mutual
  def parseValue : Nat → List Char → Option (JV × List Char)
    | 0, _ => none
    | fuel + 1, cs =>
      match skipWs cs with
      | 'n' :: 'u' :: 'l' :: 'l' :: rest => some (.null, rest)
      | 't' :: 'r' :: 'u' :: 'e' :: rest => some (.bool true, rest)
      | 'f' :: 'a' :: 'l' :: 's' :: 'e' :: rest => some (.bool false, rest)
      | '"' :: rest => do
        let (s, rest) ← parseStrBody (rest.length + 1) rest ""
        pure (.str s, rest)
      | '[' :: rest =>
        match skipWs rest with
        | ']' :: rest => some (.arr [], rest)
        | rest => parseElems fuel rest []
      | '{' :: rest =>
        match skipWs rest with
        | '}' :: rest => some (.obj [], rest)
        | rest => parseMembers fuel rest (.obj [])
      | '-' :: rest =>
        let (n, k, rest) := parseDigits rest 0 0
        if k == 0 then none else
        match rest with
        | '.' :: _ => none | 'e' :: _ => none | 'E' :: _ => none
        | _ => some (.num (-(n : Int)), rest)
      | c :: rest =>
        if '0' ≤ c && c ≤ '9' then
          let (n, _, rest) := parseDigits (c :: rest) 0 0
          match rest with
          | '.' :: _ => none | 'e' :: _ => none | 'E' :: _ => none
          | _ => some (.num n, rest)
        else none
      | [] => none
  def parseElems : Nat → List Char → List JV → Option (JV × List Char)
    | 0, _, _ => none
    | fuel + 1, cs, acc => do
      let (v, rest) ← parseValue fuel cs
      match skipWs rest with
      | ',' :: rest => parseElems fuel rest (v :: acc)
      | ']' :: rest => some (.arr (v :: acc).reverse, rest)
      | _ => none
  def parseMembers : Nat → List Char → JV → Option (JV × List Char)
    | 0, _, _ => none
    | fuel + 1, cs, acc =>
      match skipWs cs with
      | '"' :: rest => do
        let (k, rest) ← parseStrBody (rest.length + 1) rest ""
        match skipWs rest with
        | ':' :: rest => do
          let (v, rest) ← parseValue fuel rest
          match skipWs rest with
          | ',' :: rest => parseMembers fuel rest (acc.set k v)
          | '}' :: rest => some (acc.set k v, rest)
          | _ => none
        | _ => none
      | _ => none
end

def parseJson (s : String) : Option JV :=
  let cs := s.toList
  match parseValue (cs.length + 1) cs with
  | some (v, rest) => if (skipWs rest).isEmpty then some v else none
  | none => none

end FqModel.C11
