import FqModel.C11Dir
/-!
  C11 — the LEXICAL layer of the gojq fork (github.com/wader/gojq, the version pinned by /repo's go.sum):
  lexer.go (Lex 48-262, next 264-277, skipComment 279-302, scanIdent/scanIdentOrModule 311-336, scanNumber 352-412,
  scanString 442-540, scanRawString 542-556, quoteAndEscape 558-585), encoder.go encodeString 101-154
  (= jsonEncodeString, what the printer uses for string literals) and the white space that query.go's `writeTo`
  methods put between the tokens (Index.writeTo 521-531: "a blank before `.x` when the text so far ends in `.` or a
  digit" is the only context-sensitive rule; everything else is fixed text).

  Text is a `List Char` (a sequence of Unicode scalar values).  The Go lexer works on bytes; on valid UTF-8 every
  byte it tests individually is ASCII and every byte ≥ 0x80 is treated alike (passed through inside strings, an
  invalid token outside), so the Char-level and the byte-level automaton coincide.  Program text that is NOT valid
  UTF-8 is outside the model (Go replaces such bytes by U+FFFD at the first JSON marshalling in `_query_fromstring`).

  Tokens are the token classes of FqModel/C11Full.lean plus the exact spelling of update / comparison operators
  (`LTok`).  The lexer's `inString` flag is set by the PARSER when it reduces `stringparts tokStringQuery query ')'`
  (parser.go.y:440-444); the standalone lexer below keeps a stack of parenthesis depths instead — identical on
  every viable prefix because all parenthesised productions of the grammar are balanced.
  Module identifiers (`a::b`, tokModuleIdent / tokModuleVariable) are outside the model: `lexOne` answers `err`.
  Core Lean only.
-/
namespace FqModel.C11.Lex
open FqModel.C11.Full
open FqModel.C11.Print (Op)

abbrev Text := List Char

/-! ### character classes (lexer.go:609-651) -/
def isDigit (c : Char) : Bool := decide (48 ≤ c.toNat) && decide (c.toNat ≤ 57)
def isIdStart (c : Char) : Bool :=
  (decide (97 ≤ c.toNat) && decide (c.toNat ≤ 122)) || (decide (65 ≤ c.toNat) && decide (c.toNat ≤ 90)) || decide (c.toNat = 95)
def isIdTail (c : Char) : Bool := isIdStart c || isDigit c
def isHex (c : Char) : Bool :=
  (decide (97 ≤ c.toNat) && decide (c.toNat ≤ 102)) || (decide (65 ≤ c.toNat) && decide (c.toNat ≤ 70)) || isDigit c
def isWhite (c : Char) : Bool := decide (c.toNat = 9) || decide (c.toNat = 10) || decide (c.toNat = 13) || decide (c.toNat = 32)
/-- isInteger(base, ch) (lexer.go:637-651): digits of the base and `_` -/
def isBaseDigit (base : Char) (c : Char) : Bool :=
  decide (c.toNat = 95) ||
  (if base.toNat = 98 then decide (c.toNat = 48) || decide (c.toNat = 49)
   else if base.toNat = 111 then decide (48 ≤ c.toNat) && decide (c.toNat ≤ 55)
   else isHex c)
def isBaseChar (c : Char) : Bool := decide (c.toNat = 98) || decide (c.toNat = 111) || decide (c.toNat = 120)

/-! ### tokens with exact spelling -/
inductive UpdOp where
  | assign | modify | add | sub | mul | div | mod | alt
deriving DecidableEq, Repr, Inhabited
inductive CmpOp where
  | eq | ne | lt | le | gt | ge
deriving DecidableEq, Repr, Inhabited

/-- a lexical token: a token class of C11Full whose spelling is determined by the class and its payload, or an
    update / comparison operator with its spelling -/
inductive LTok where
  | tok (t : Tok) | upd (u : UpdOp) | cmp (c : CmpOp)
deriving DecidableEq, Repr, Inhabited

def LTok.cls : LTok → Tok
  | .tok t => t | .upd _ => .op .upd | .cmp _ => .op .cmp

def UpdOp.text : UpdOp → Text
  | .assign => ['='] | .modify => ['|', '='] | .add => ['+', '='] | .sub => ['-', '='] | .mul => ['*', '=']
  | .div => ['/', '='] | .mod => ['%', '='] | .alt => ['/', '/', '=']
def CmpOp.text : CmpOp → Text
  | .eq => ['=', '='] | .ne => ['!', '='] | .lt => ['<'] | .le => ['<', '='] | .gt => ['>'] | .ge => ['>', '=']

/-- lexer.go:24-46 -/
def kwOf (s : String) : Option Tok :=
  if s = "or" then some (.op .or) else if s = "and" then some (.op .and)
  else if s = "module" then some (.kw .module) else if s = "import" then some (.kw .import_)
  else if s = "include" then some (.kw .include) else if s = "def" then some (.kw .def_)
  else if s = "as" then some (.kw .as_) else if s = "label" then some (.kw .label)
  else if s = "break" then some (.kw .break_) else if s = "null" then some (.kw .null)
  else if s = "true" then some (.kw .true_) else if s = "false" then some (.kw .false_)
  else if s = "if" then some (.kw .if_) else if s = "then" then some (.kw .then_)
  else if s = "elif" then some (.kw .elif_) else if s = "else" then some (.kw .else_)
  else if s = "end" then some (.kw .end_) else if s = "try" then some (.kw .try_)
  else if s = "catch" then some (.kw .catch_) else if s = "reduce" then some (.kw .reduce)
  else if s = "foreach" then some (.kw .foreach) else none

def kwText : Kw → String
  | .null => "null" | .true_ => "true" | .false_ => "false" | .if_ => "if" | .then_ => "then" | .elif_ => "elif"
  | .else_ => "else" | .end_ => "end" | .try_ => "try" | .catch_ => "catch" | .reduce => "reduce" | .foreach => "foreach"
  | .as_ => "as" | .label => "label" | .break_ => "break" | .def_ => "def" | .import_ => "import" | .include => "include"
  | .module => "module"

/-! ### white space and comments (next 264-277, skipComment 279-302) -/

inductive WS where
  | code | comment | bs | bsCR
deriving DecidableEq, Repr

/-- `next`: the first significant character and what follows it; `none` = end of input.  In a comment a NUL
    character ends the INPUT (peek() answers 0 at the end of the source and for a NUL alike), a backslash takes the
    next `\`, LF, CR or CR LF with it (`bs`, `bsCR`: after the backslash / after backslash CR). -/
def nextAux : WS → Text → Option (Char × Text)
  | _, [] => none
  | .code, c :: r => if c.toNat = 35 then nextAux .comment r else if isWhite c then nextAux .code r else some (c, r)
  | .comment, c :: r =>
    if c.toNat = 0 then none
    else if c.toNat = 92 then nextAux .bs r
    else if c.toNat = 10 || c.toNat = 13 then nextAux .code r
    else nextAux .comment r
  | .bs, d :: r =>
    if d.toNat = 92 || d.toNat = 10 then nextAux .comment r
    else if d.toNat = 13 then nextAux .bsCR r
    else if d.toNat = 0 then none
    else nextAux .comment r
  | .bsCR, e :: r =>
    if e.toNat = 10 then nextAux .comment r
    else if e.toNat = 0 then none
    else if e.toNat = 92 then nextAux .bs r
    else if e.toNat = 13 then nextAux .code r
    else nextAux .comment r

/-! ### identifiers (scanIdent 304-309, scanIdentOrModule 311-330) -/
def scanId : Text → Text × Text
  | [] => ([], [])
  | c :: r => if isIdTail c then ((c :: (scanId r).1), (scanId r).2) else ([], c :: r)

def isModuleTail : Text → Bool
  | a :: b :: c :: _ => decide (a.toNat = 58) && decide (b.toNat = 58) && isIdStart c
  | _ => false

/-! ### numbers (Lex 73-99, 110-119; scanNumber 352-412) -/
inductive NS where
  | lead | float | expSign | expLead | exp
deriving DecidableEq, Repr

def isSign (c : Char) : Bool := decide (c.toNat = 43) || decide (c.toNat = 45)
def isE (c : Char) : Bool := decide (c.toNat = 101) || decide (c.toNat = 69)

def consFst (c : Char) : Option (Text × Text) → Option (Text × Text)
  | some (a, b) => some (c :: a, b)
  | none => none

/-- the characters of the number after the ones already consumed, and the rest; `none` = tokInvalid.
    `expSign` = numberStateExpLead right after the `e` (a sign is taken, lexer.go:372-376) -/
def scanNumber : NS → Text → Option (Text × Text)
  | .lead, [] => some ([], [])
  | .float, [] => some ([], [])
  | .expSign, [] => none
  | .expLead, [] => none
  | .exp, [] => some ([], [])
  | .lead, c :: r =>
    if isDigit c then consFst c (scanNumber .lead r)
    else if c.toNat = 46 then consFst c (scanNumber .float r)
    else if isE c then consFst c (scanNumber .expSign r)
    else if isIdStart c then none else some ([], c :: r)
  | .float, c :: r =>
    if isDigit c then consFst c (scanNumber .float r)
    else if c.toNat = 46 then none
    else if isE c then consFst c (scanNumber .expSign r)
    else if isIdStart c then none else some ([], c :: r)
  | .expSign, c :: r =>
    if isSign c then consFst c (scanNumber .expLead r)
    else if isDigit c then consFst c (scanNumber .exp r) else none
  | .expLead, c :: r =>
    if isDigit c then consFst c (scanNumber .exp r) else none
  | .exp, c :: r =>
    if isDigit c then consFst c (scanNumber .exp r) else if isIdStart c then none else some ([], c :: r)

def scanBase (base : Char) : Text → Text × Text
  | [] => ([], [])
  | c :: r => if isBaseDigit base c then ((c :: (scanBase base r).1), (scanBase base r).2) else ([], c :: r)

/-! ### strings -/

def hexDigit (n : Nat) : Char := Char.ofNat (if n < 10 then 48 + n else 87 + n)

/-- encodeString (encoder.go:101-154) without the quotes: printable ASCII except `"` and `\` as is, the seven short
    escapes, other ASCII (controls and DEL) as `\u00XX`, everything else as is -/
def encChar (c : Char) : Text :=
  let n := c.toNat
  if n < 128 then
    if 32 ≤ n && n ≤ 126 && n ≠ 34 && n ≠ 92 then [c]
    else if n = 34 then ['\\', '"'] else if n = 92 then ['\\', '\\']
    else if n = 8 then ['\\', 'b'] else if n = 12 then ['\\', 'f'] else if n = 10 then ['\\', 'n']
    else if n = 13 then ['\\', 'r'] else if n = 9 then ['\\', 't']
    else ['\\', 'u', '0', '0', hexDigit (n / 16), hexDigit (n % 16)]
  else [c]

def encBody : Text → Text
  | [] => []
  | c :: r => encChar c ++ encBody r

def encodeString (s : Text) : Text := '"' :: encBody s ++ ['"']

def hexVal (c : Char) : Nat :=
  let n := c.toNat
  if 48 ≤ n && n ≤ 57 then n - 48 else if 97 ≤ n && n ≤ 102 then n - 87 else n - 55

def isSimpleEsc (c : Char) : Bool :=
  let n := c.toNat
  n = 34 || n = 47 || n = 92 || n = 98 || n = 102 || n = 110 || n = 114 || n = 116

/-- the scanning loop of scanString up to the first unescaped `"` or `\(`: raw body, the `decode` flag, and the
    rest starting AT the terminator; `none` = unterminated string or invalid escape sequence.  The first argument
    is the number of hex digits still required after `\u` (lexer.go:469-477). -/
def scanBody : Nat → Text → Option (Text × Bool × Text)
  | _, [] => none
  | k + 1, c :: r =>
    if isHex c then
      match scanBody k r with
      | some (b, _, rest) => some (c :: b, true, rest)
      | none => none
    else none
  | 0, c :: r =>
    if c.toNat = 34 then some ([], false, c :: r)
    else if c.toNat = 92 then
      match r with
      | [] => none
      | e :: r' =>
        if e.toNat = 40 then some ([], false, c :: r)
        else if e.toNat = 117 then
          match scanBody 4 r' with
          | some (b, _, rest) => some (c :: e :: b, true, rest)
          | none => none
        else if isSimpleEsc e then
          match scanBody 0 r' with
          | some (b, _, rest) => some (c :: e :: b, true, rest)
          | none => none
        else none
    else
      match scanBody 0 r with
      | some (b, d, rest) => some (c :: b, d || decide (126 < c.toNat), rest)
      | none => none

def escChar (e : Char) : Char :=
  let n := e.toNat
  if n = 98 then Char.ofNat 8 else if n = 102 then Char.ofNat 12 else if n = 110 then Char.ofNat 10
  else if n = 114 then Char.ofNat 13 else if n = 116 then Char.ofNat 9 else e

def u4 (h1 h2 h3 h4 : Char) : Nat := ((hexVal h1 * 16 + hexVal h2) * 16 + hexVal h3) * 16 + hexVal h4

/-- `\uXXXX` at the head -/
def getU4 : Text → Option (Nat × Text)
  | b :: u :: h1 :: h2 :: h3 :: h4 :: r =>
    if b.toNat = 92 && u.toNat = 117 && isHex h1 && isHex h2 && isHex h3 && isHex h4 then some (u4 h1 h2 h3 h4, r) else none
  | _ => none

def replacement : Char := Char.ofNat 0xFFFD

/-- what json.Unmarshal makes of the (quoted, control characters escaped by quoteAndEscape) body: escapes decoded —
    a high surrogate followed by an escaped low surrogate is one code point, any other surrogate is U+FFFD
    (encoding/json unquoteBytes) —, everything else, raw control characters included, unchanged -/
def jsonDecode : Nat → Text → Text
  | 0, _ => []
  | _ + 1, [] => []
  | f + 1, c :: r =>
    if c.toNat = 92 then
      match r with
      | [] => []
      | e :: r' =>
        if e.toNat = 117 then
          match getU4 (c :: r) with
          | some (v, rest) =>
            if 0xD800 ≤ v && v < 0xE000 then
              match getU4 rest with
              | some (v2, rest2) =>
                if v < 0xDC00 && 0xDC00 ≤ v2 && v2 < 0xE000 then
                  Char.ofNat (0x10000 + (v - 0xD800) * 1024 + (v2 - 0xDC00)) :: jsonDecode f rest2
                else replacement :: jsonDecode f rest
              | none => replacement :: jsonDecode f rest
            else Char.ofNat v :: jsonDecode f rest
          | none => []
        else escChar e :: jsonDecode f r'
    else c :: jsonDecode f r

/-- `unquote` (scanString 445-463): without an escape and without a byte above `~` the source text is the value -/
def unquote (decode : Bool) (body : Text) : Text :=
  if decode then jsonDecode (body.length + 1) body else body

def scanRaw : Text → Option (Text × Text)
  | [] => none
  | c :: r => if c.toNat = 96 then some ([], r) else consFst c (scanRaw r)

/-! ### one token (Lex 48-262) -/
inductive R where
  | eof | err | tok (t : LTok) (rest : Text)
deriving Repr, Inhabited

def tk (t : Tok) (rest : Text) : R := .tok (.tok t) rest

/-- inside a string: a literal piece, `\(`, or the closing quote (scanString with l.inString) -/
def lexInStr (cs : Text) : R :=
  match cs with
  | [] => .eof
  | _ =>
    match scanBody 0 cs with
    | none => .err
    | some (body, dec, rest) =>
      match body, rest with
      | [], q :: r =>
        if q.toNat = 34 then tk .strEnd r
        else match r with
          | _ :: r' => tk .strQuery r'
          | [] => .err
      | [], [] => .err
      | _ :: _, _ => tk (.str (String.ofList (unquote dec body))) rest

/-- after the opening quote: a whole plain string, or the start of an interpolated one (then the body is scanned
    again from its first character, in string mode) -/
def lexQuote (cs : Text) : R :=
  match scanBody 0 cs with
  | none => .err
  | some (body, dec, rest) =>
    match rest with
    | q :: r => if q.toNat = 34 then tk (.str (String.ofList (unquote dec body))) r else tk .strStart cs
    | [] => .err

def lexWord (c : Char) (r : Text) : R :=
  let p := scanId r
  if isModuleTail p.2 then .err
  else
    let s := String.ofList (c :: p.1)
    match kwOf s with
    | some t => tk t p.2
    | none => tk (.ident s) p.2

def lexNumber (c : Char) (r : Text) : R :=
  match (if c.toNat = 48 then (match r with | b :: r' => if isBaseChar b then some (b, r') else none | [] => none) else none) with
  | some (b, r') => let p := scanBase b r'; tk (.num (String.ofList (c :: b :: p.1))) p.2
  | none =>
    match scanNumber .lead r with
    | some (ds, rest) => tk (.num (String.ofList (c :: ds))) rest
    | none => .err

def headIs (n : Nat) : Text → Bool
  | c :: _ => decide (c.toNat = n)
  | [] => false

def lexNormal (c : Char) (r : Text) : R :=
  if isIdStart c then lexWord c r
  else if isDigit c then lexNumber c r
  else
    let n := c.toNat
    if n = 46 then                                  -- '.'
      match r with
      | d :: r' =>
        if d.toNat = 46 then tk .dotdot r'
        else if isIdStart d then let p := scanId r; tk (.field (String.ofList p.1)) p.2
        else if isDigit d then
          match scanNumber .float r with
          | some (ds, rest) => tk (.num (String.ofList (c :: ds))) rest
          | none => .err
        else tk .dot r
      | [] => tk .dot r
    else if n = 36 then                             -- '$'
      match r with
      | d :: r' =>
        if isIdStart d then
          let p := scanId r'
          if isModuleTail p.2 then .err else tk (.var (String.ofList (c :: d :: p.1))) p.2
        else .err
      | [] => .err
    else if n = 124 then if headIs 61 r then .tok (.upd .modify) r.tail else tk (.op .pipe) r
    else if n = 63 then                             -- '?'
      match r with
      | a :: b :: r' => if a.toNat = 47 && b.toNat = 47 then tk .destalt r' else tk .quest r
      | _ => tk .quest r
    else if n = 43 then if headIs 61 r then .tok (.upd .add) r.tail else tk (.op .add) r
    else if n = 45 then if headIs 61 r then .tok (.upd .sub) r.tail else tk (.op .sub) r
    else if n = 42 then if headIs 61 r then .tok (.upd .mul) r.tail else tk (.op .mul) r
    else if n = 47 then                             -- '/'
      if headIs 61 r then .tok (.upd .div) r.tail
      else if headIs 47 r then (if headIs 61 r.tail then .tok (.upd .alt) r.tail.tail else tk (.op .alt) r.tail)
      else tk (.op .div) r
    else if n = 37 then if headIs 61 r then .tok (.upd .mod) r.tail else tk (.op .mod) r
    else if n = 61 then if headIs 61 r then .tok (.cmp .eq) r.tail else .tok (.upd .assign) r
    else if n = 33 then if headIs 61 r then .tok (.cmp .ne) r.tail else .err
    else if n = 62 then if headIs 61 r then .tok (.cmp .ge) r.tail else .tok (.cmp .gt) r
    else if n = 60 then if headIs 61 r then .tok (.cmp .le) r.tail else .tok (.cmp .lt) r
    else if n = 64 then                             -- '@'
      match r with
      | d :: _ => if isIdTail d then let p := scanId r; tk (.fmt (String.ofList (c :: p.1))) p.2 else .err
      | [] => .err
    else if n = 34 then lexQuote r
    else if n = 96 then
      match scanRaw r with
      | some (b, rest) => tk (.str (String.ofList b)) rest
      | none => .err
    else if n = 44 then tk (.op .comma) r
    else if n = 40 then tk .lparen r else if n = 41 then tk .rparen r
    else if n = 91 then tk .lbrack r else if n = 93 then tk .rbrack r
    else if n = 123 then tk .lbrace r else if n = 125 then tk .rbrace r
    else if n = 58 then tk .colon r else if n = 59 then tk .semi r
    else if n = 0 then .eof       -- Lex returns int(ch) = 0, which is yacc's end marker: a NUL character ends the program
    else .err

def lexOne (inStr : Bool) (cs : Text) : R :=
  if inStr then lexInStr cs
  else
    match nextAux .code cs with
    | none => .eof
    | some (c, r) => lexNormal c r

/-! ### the whole text -/

/-- the lexer's string flag and, per open interpolation, the number of open parentheses -/
structure St where
  inStr : Bool
  stk : List Nat
deriving DecidableEq, Repr, Inhabited

def St.init : St := ⟨false, []⟩

def St.next (st : St) (t : Tok) : St :=
  if st.inStr then
    match t with
    | .strQuery => ⟨false, 0 :: st.stk⟩
    | .strEnd => ⟨false, st.stk⟩
    | _ => st
  else
    match t with
    | .strStart => ⟨true, st.stk⟩
    | .lparen => match st.stk with | d :: r => ⟨false, (d + 1) :: r⟩ | [] => st
    | .rparen => match st.stk with | 0 :: r => ⟨true, r⟩ | (d + 1) :: r => ⟨false, d :: r⟩ | [] => st
    | _ => st

def lexAll : Nat → St → Text → Option (List LTok)
  | 0, _, _ => none
  | f + 1, st, cs =>
    match lexOne st.inStr cs with
    | .eof => some []
    | .err => none
    | .tok t rest =>
      match lexAll f (st.next t.cls) rest with
      | some ts => some (t :: ts)
      | none => none

def lex (cs : Text) : Option (List LTok) := lexAll (cs.length + 1) St.init cs

/-! ### rendering tokens -/
inductive Sep where
  | tight | sp | nl
deriving DecidableEq, Repr, Inhabited

def Sep.text : Sep → Text
  | .tight => [] | .sp => [' '] | .nl => ['\n']

def opText : Op → Text
  | .pipe => ['|'] | .comma => [','] | .alt => ['/', '/'] | .upd => ['='] | .or => ['o', 'r'] | .and => ['a', 'n', 'd']
  | .cmp => ['=', '='] | .add => ['+'] | .sub => ['-'] | .mul => ['*'] | .div => ['/'] | .mod => ['%']

def tokTextN : Tok → Text
  | .num s => s.toList | .str s => encodeString s.toList | .ident s => s.toList | .var s => s.toList
  | .field s => '.' :: s.toList | .fmt s => s.toList | .dot => ['.'] | .dotdot => ['.', '.']
  | .kw k => (kwText k).toList | .op o => opText o | .quest => ['?'] | .destalt => ['?', '/', '/']
  | .lparen => ['('] | .rparen => [')'] | .lbrack => ['['] | .rbrack => [']'] | .lbrace => ['{'] | .rbrace => ['}']
  | .colon => [':'] | .semi => [';'] | .strStart => ['"'] | .strQuery => ['\\', '('] | .strEnd => ['"']

/-- in string mode a `.str` token is a literal piece: its encoding without the quotes -/
def tokText (inStr : Bool) : LTok → Text
  | .tok (.str s) => if inStr then encBody s.toList else encodeString s.toList
  | .tok t => tokTextN t
  | .upd u => u.text
  | .cmp c => c.text

def render : St → List (Sep × LTok) → Text
  | _, [] => []
  | st, (s, t) :: l => s.text ++ tokText st.inStr t ++ render (st.next t.cls) l

/-! ### the printer's white space (query.go writeTo methods)

  `printS e` = the tokens of `Full.print e`, each with the separator written in front of it.  The separator of the
  first token is set by the context (`spc`). -/

def spc : List (Sep × Tok) → List (Sep × Tok)
  | [] => []
  | (_, t) :: l => (.sp, t) :: l

def T (t : Tok) : Sep × Tok := (.tight, t)
def S (t : Tok) : Sep × Tok := (.sp, t)

def lastIsDigitOrDot : Text → Bool
  | [] => false
  | [c] => isDigit c || decide (c.toNat = 46)
  | _ :: r => lastIsDigitOrDot r

/-- Index.writeTo 521-531: a blank when the text written so far ends in `.` or a digit -/
def endsDD : List (Sep × Tok) → Bool
  | [] => false
  | [(_, t)] => lastIsDigitOrDot (tokTextN t)
  | _ :: r => endsDD r

def idxSep (before : List (Sep × Tok)) : Sep := if endsDD before then .sp else .tight

mutual
  def printS : E → List (Sep × Tok)
    | .num s => [T (.num s)]
    | .strl s => [T (.str s)]
    | .istr ps => T .strStart :: printCatS ps ++ [T .strEnd]
    | .ident s => [T (.ident s)]
    | .var s => [T (.var s)]
    | .call s as => T (.ident s) :: T .lparen :: printSepS (T .semi) as ++ [T .rparen]
    | .field s => [T (.field s)]
    | .dot => [T .dot]
    | .dotdot => [T .dotdot]
    | .dotStr s => T .dot :: printS s
    | .dotIdx b => T .dot :: T .lbrack :: printS b
    | .lit k => [T (.kw k)]
    | .fmt s => [T (.fmt s)]
    | .fmtS s str => T (.fmt s) :: spc (printS str)
    | .arr none => [T .lbrack, T .rbrack]
    | .arr (some q) => T .lbrack :: printS q ++ [T .rbrack]
    | .obj [] => [T .lbrace, T .rbrace]
    | .obj (kv :: kvs) => T .lbrace :: spc (printSepS (T (.op .comma)) (kv :: kvs)) ++ [S .rbrace]
    | .neg e => T (.op .sub) :: printS e
    | .pos e => T (.op .add) :: printS e
    | .ite c t es none => T (.kw .if_) :: spc (printS c) ++ S (.kw .then_) :: spc (printS t) ++ printCatS es ++ [S (.kw .end_)]
    | .ite c t es (some e) =>
      T (.kw .if_) :: spc (printS c) ++ S (.kw .then_) :: spc (printS t) ++ printCatS es ++ S (.kw .else_) :: spc (printS e) ++ [S (.kw .end_)]
    | .try_ b none => T (.kw .try_) :: spc (printS b)
    | .try_ b (some c) => T (.kw .try_) :: spc (printS b) ++ S (.kw .catch_) :: spc (printS c)
    | .reduce src p a b =>
      T (.kw .reduce) :: spc (printS src) ++ S (.kw .as_) :: spc (printS p) ++ S .lparen :: printS a ++ T .semi :: spc (printS b) ++ [T .rparen]
    | .foreach src p a b none =>
      T (.kw .foreach) :: spc (printS src) ++ S (.kw .as_) :: spc (printS p) ++ S .lparen :: printS a ++ T .semi :: spc (printS b) ++ [T .rparen]
    | .foreach src p a b (some c) =>
      T (.kw .foreach) :: spc (printS src) ++ S (.kw .as_) :: spc (printS p) ++ S .lparen :: printS a ++ T .semi :: spc (printS b)
        ++ T .semi :: spc (printS c) ++ [T .rparen]
    | .brk s => [T (.kw .break_), S (.var s)]
    | .paren e => T .lparen :: printS e ++ [T .rparen]
    | .opt t => printS t ++ [T .quest]
    | .sfxField t s => printS t ++ [(idxSep (printS t), .field s)]
    | .sfxStr t s => printS t ++ (idxSep (printS t), .dot) :: printS s
    | .sfxBr t b => printS t ++ T .lbrack :: printS b
    | .bin o l r => if o = .comma then printS l ++ T (.op o) :: spc (printS r) else printS l ++ S (.op o) :: spc (printS r)
    | .bind t ps b => printS t ++ S (.kw .as_) :: spc (printSepS (S .destalt) ps) ++ S (.op .pipe) :: spc (printS b)
    | .label s b => T (.kw .label) :: S (.var s) :: S (.op .pipe) :: spc (printS b)
    | .def_ n [] fb rest => T (.kw .def_) :: S (.ident n) :: T .colon :: spc (printS fb) ++ T .semi :: spc (printS rest)
    | .def_ n (p :: ps) fb rest =>
      T (.kw .def_) :: S (.ident n) :: T .lparen :: T p :: (ps.flatMap fun q => [T .semi, S q]) ++ T .rparen :: T .colon :: spc (printS fb)
        ++ T .semi :: spc (printS rest)
    | .piece s => [T (.str s)]
    | .interp q => T .strQuery :: printS q ++ [T .rparen]
    | .kvKey k none => [T k]
    | .kvKey k (some v) => T k :: T .colon :: spc (printS v)
    | .kvStr s none => printS s
    | .kvStr s (some v) => printS s ++ T .colon :: spc (printS v)
    | .kvQ q v => T .lparen :: printS q ++ T .rparen :: T .colon :: spc (printS v)
    | .elif c t => S (.kw .elif_) :: spc (printS c) ++ S (.kw .then_) :: spc (printS t)
    | .bIter => [T .rbrack]
    | .bIdx e => printS e ++ [T .rbrack]
    | .bSliceL e => printS e ++ [T .colon, T .rbrack]
    | .bSliceR e => T .colon :: printS e ++ [T .rbrack]
    | .bSlice a b => printS a ++ T .colon :: printS b ++ [T .rbrack]
    | .pvar s => [T (.var s)]
    | .parr ps => T .lbrack :: printSepS (T (.op .comma)) ps ++ [T .rbrack]
    | .pobj es => T .lbrace :: printSepS (T (.op .comma)) es ++ [T .rbrace]
    | .peVar s => [T (.var s)]
    | .peKey k p => T k :: T .colon :: spc (printS p)
    | .peStr s p => printS s ++ T .colon :: spc (printS p)
    | .peQ q p => T .lparen :: printS q ++ T .rparen :: T .colon :: spc (printS p)
  /-- elements one after the other (string parts: tight; elifs carry their own blank) -/
  def printCatS : List E → List (Sep × Tok)
    | [] => []
    | x :: rest => printS x ++ printCatS rest
  /-- elements separated by `sep`, a blank after it -/
  def printSepS (sep : Sep × Tok) : List E → List (Sep × Tok)
    | [] => []
    | [x] => printS x
    | x :: y :: rest => printS x ++ sep :: spc (printSepS sep (y :: rest))
end

/-- attach the separators to the spelled tokens -/
def zipSeps : List (Sep × Tok) → List LTok → List (Sep × LTok)
  | (s, _) :: l, t :: ts => (s, t) :: zipSeps l ts
  | _, _ => []

/-- the printed TEXT of a query tree whose tokens are spelled `lt` (`lt.map cls = print e`): Query.String() -/
def printText (e : E) (lt : List LTok) : Text := render St.init (zipSeps (printS e) lt)

/-- a spelling of a class token: the canonical one (`=` for update, `==` for comparison operators) -/
def spell : Tok → LTok
  | .op .upd => .upd .assign
  | .op .cmp => .cmp .eq
  | t => .tok t

/-- text → tree: the fork's lexer, then the parser of C11Full on the token classes -/
def parseText (cs : Text) : Option E :=
  match lex cs with
  | some lt => Full.parse (lt.map LTok.cls)
  | none => none

end FqModel.C11.Lex
