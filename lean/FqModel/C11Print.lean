/-!
  C11 — printer and parser of the operator core of the fork's jq grammar (over tokens).

  Grammar (github.com/wader/gojq parser.go.y, the version pinned by /repo's go.sum):
    lines 41-52   %right '|'  %left ','  %right tokAltOp  %nonassoc tokUpdateOp  %left tokOrOp  %left tokAndOp
                  %nonassoc tokCompareOp  %left '+' '-'  %left '*' '/' '%'  (terms and postfix above all of them)
    lines 143-168 query : query '|' query | term tokAs bindpatterns '|' query | tokLabel tokVariable '|' query
                        | query ',' query | expr          (two tiers: a binding or a label is a QUERY, not an expr)
    lines 170-214 expr  : expr OP expr | term
    lines 352-358 term  : '-' term        line 396-399 '(' query ')'      line 408-411 term '?'
  Printer (query.go of the fork, Query.writeTo 57-85, Term.writeTo 212-265, Unary 382-385, Bind 800-814,
  Label 997-1002): operands are written one after the other, NO parenthesis is ever added; the parentheses of the
  source are `TermTypeQuery` nodes of the AST and print as themselves.

  Bracketed constructs (`if … then … end`, `reduce … ( … ; … )`, `[ … ]`, `{…}` …) are represented by `brack`:
  an opening token, two queries separated by a separator token, a closing token.
  Core Lean only.
-/
namespace FqModel.C11.Print

inductive Op where
  | pipe | comma | alt | upd | or | and | cmp | add | sub | mul | div | mod
deriving DecidableEq, Repr, Inhabited

inductive Assoc where
  | left | right | non
deriving DecidableEq, Repr

/-- parser.go.y:42-50, lowest first -/
def Op.prec : Op → Nat
  | .pipe => 1 | .comma => 2 | .alt => 3 | .upd => 4 | .or => 5 | .and => 6 | .cmp => 7
  | .add => 8 | .sub => 8 | .mul => 9 | .div => 9 | .mod => 9

def Op.assoc : Op → Assoc
  | .pipe => .right | .comma => .left | .alt => .right | .upd => .non | .or => .left | .and => .left | .cmp => .non
  | _ => .left

/-- the operands of `|` and `,` are queries (bindings and labels allowed), those of the others are exprs -/
def Op.queryLevel : Op → Bool
  | .pipe => true | .comma => true | _ => false

/-- minimal level of a right operand / of what the loop may continue with -/
def Op.rmin (o : Op) : Nat := match o.assoc with | .right => o.prec | _ => o.prec + 1
def Op.lmin (o : Op) : Nat := match o.assoc with | .left => o.prec | _ => o.prec + 1

inductive Tok where
  | atom (s : String)       -- identifier, variable, literal: any primary without inner structure
  | op (o : Op)             -- '-' is this token both as binary and as unary minus (as in the lexer)
  | quest                   -- '?'
  | lparen | rparen
  | as_ (pat : String)      -- `as PATTERN |`
  | label (name : String)   -- `label $name |`
  | bopen (kw : String) | bsep | bclose
deriving DecidableEq, Repr, Inhabited

inductive E where
  | atom (s : String)
  | paren (e : E)
  | brack (kw : String) (a b : E)
  | opt (e : E)
  | neg (e : E)
  | bin (o : Op) (l r : E)
  | bind (t : E) (pat : String) (body : E)
  | label (name : String) (body : E)
deriving DecidableEq, Repr, Inhabited

/-- the fork's printer: no parentheses are added -/
def print : E → List Tok
  | .atom s => [.atom s]
  | .paren e => .lparen :: print e ++ [.rparen]
  | .brack kw a b => .bopen kw :: print a ++ .bsep :: print b ++ [.bclose]
  | .opt e => print e ++ [.quest]
  | .neg e => .op .sub :: print e
  | .bin o l r => print l ++ .op o :: print r
  | .bind t p b => print t ++ .as_ p :: print b
  | .label n b => .label n :: print b

/-! ### well-formed trees: what the grammar can derive without the help of parentheses -/

def isPostfixable : E → Bool
  | .atom _ => true | .paren _ => true | .brack _ _ _ => true | .opt _ => true | _ => false

def isTerm : E → Bool
  | .neg _ => true
  | e => isPostfixable e

def isOpen : E → Bool
  | .bind _ _ _ => true | .label _ _ => true | _ => false

/-- the right edge is a binding or label body: everything that follows would be absorbed by it -/
def openRight : E → Bool
  | .bind _ _ _ => true
  | .label _ _ => true
  | .bin _ _ r => openRight r
  | _ => false

def level : E → Nat
  | .bin o _ _ => o.prec
  | .bind _ _ _ => 0
  | .label _ _ => 0
  | _ => 10

def wf : E → Bool
  | .atom _ => true
  | .paren e => wf e
  | .brack _ a b => wf a && wf b
  | .opt e => wf e && isPostfixable e
  | .neg e => wf e && isTerm e
  | .bin o l r =>
    wf l && wf r && !openRight l && Nat.ble o.lmin (level l) &&
    (if isOpen r then o.queryLevel else Nat.ble o.rmin (level r))
  | .bind t _ b => wf t && isTerm t && wf b
  | .label _ b => wf b

/-! ### precedence-climbing parser (fuel = call depth) -/

/-- postfix `?`s -/
def postfixQ (e : E) : List Tok → E × List Tok
  | .quest :: ts => postfixQ (.opt e) ts
  | ts => (e, ts)

abbrev PR := Option (E × List Tok)

/-- sequencing of parser results -/
def andThen (r : PR) (k : E → List Tok → PR) : PR :=
  match r with
  | some (e, ts) => k e ts
  | none => none

/-- the next token must be `t` -/
def expect (t : Tok) (ts : List Tok) (k : List Tok → PR) : PR :=
  match ts with
  | t' :: r => if t' = t then k r else none
  | [] => none

/-- `as PATTERN |` at the head -/
def onAs (ts : List Tok) (kAs : String → List Tok → PR) (kNo : PR) : PR :=
  match ts with
  | .as_ p :: r => kAs p r
  | _ => kNo

/-- a binary operator at the head -/
def onOp (ts : List Tok) (kOp : Op → List Tok → PR) (kNo : PR) : PR :=
  match ts with
  | .op o :: r => kOp o r
  | _ => kNo

/-- `label $name |` at the head -/
def onLabel (ts : List Tok) (kLabel : String → List Tok → PR) (kNo : PR) : PR :=
  match ts with
  | .label n :: r => kLabel n r
  | _ => kNo

mutual
  /-- term: primary with its postfix operators; unary minus applies to the whole term that follows -/
  def parseTerm : Nat → List Tok → PR
    | 0, _ => none
    | _ + 1, [] => none
    | f + 1, t :: ts =>
      match t with
      | .atom s => some (postfixQ (.atom s) ts)
      | .lparen => andThen (parseExpr f 1 true ts) fun e ts' => expect .rparen ts' fun ts'' => some (postfixQ (.paren e) ts'')
      | .bopen kw =>
        andThen (parseExpr f 1 true ts) fun a ts1 => expect .bsep ts1 fun ts1' =>
          andThen (parseExpr f 1 true ts1') fun b ts2 => expect .bclose ts2 fun ts2' => some (postfixQ (.brack kw a b) ts2')
      | .op .sub => andThen (parseTerm f ts) fun e ts' => some (.neg e, ts')
      | _ => none
  /-- an operand; in a query position a label, or a term followed by `as`, starts a binding that extends as far
      to the right as possible -/
  def parseOperand : Nat → Bool → List Tok → PR
    | 0, _, _ => none
    | f + 1, q, ts =>
      onLabel ts
        (fun n ts' => if q then andThen (parseExpr f 1 true ts') fun b r => some (.label n b, r) else none)
        (andThen (parseTerm f ts) fun t r =>
          onAs r
            (fun p r' => if q then andThen (parseExpr f 1 true r') fun b r'' => some (.bind t p b, r'') else some (t, r))
            (some (t, r)))
  /-- an expression of level ≥ `m` -/
  def parseExpr : Nat → Nat → Bool → List Tok → PR
    | 0, _, _, _ => none
    | f + 1, m, q, ts => andThen (parseOperand f q ts) fun lhs r => climb f m lhs 0 r
  /-- the climbing loop; `prev` is the level of the operator combined last (0: none) — a second operator of a
      non-associative level is a syntax error -/
  def climb : Nat → Nat → E → Nat → List Tok → PR
    | 0, _, _, _, _ => none
    | f + 1, m, lhs, prev, ts =>
      onOp ts
        (fun o r =>
          if m ≤ o.prec then
            if o.assoc = .non ∧ o.prec = prev then none
            else andThen (parseExpr f o.rmin o.queryLevel r) fun rhs r' => climb f m (.bin o lhs rhs) o.prec r'
          else some (lhs, ts))
        (some (lhs, ts))
end

/-- a whole query: everything must be consumed -/
def parseFuel (fuel : Nat) (ts : List Tok) : Option E :=
  match parseExpr fuel 1 true ts with
  | some (e, []) => some e
  | _ => none

def parse (ts : List Tok) : Option E := parseFuel (4 * ts.length + 4) ts

end FqModel.C11.Print
