import FqModel.C14Xml
/-!
  C14 — CSV: `to_csv` / `from_csv` as fq configures encoding/csv (format/csv/csv.go):
    Writer: Comma ',', UseCRLF false (csv.go:100-103)
    Reader: Comma ',', Comment '#', LazyQuotes, TrimLeadingSpace, FieldsPerRecord 0 (csv.go:52-62)
  Text is a `List Char` (valid UTF-8; ',' '#' '"' are ASCII and unicode.IsSpace works on runes).

  The Go reader works line by line (readLine / readRecord).  The model is the equivalent character
  stream machine; lines matter in exactly these places, all kept:
    * readLine turns the "\r\n" that ends a line into "\n" and drops a '\r' that ends the input
      (`normCRLF`, a pre-pass: a line ends at the first '\n', so every "\r\n" ends a line — also
      inside a quoted field, which is why a CR LF in a field is read back as LF);
    * comment lines (first rune '#') and empty lines are skipped only where a record starts;
    * TrimLeadingSpace drops Unicode white space at the start of a field but never beyond the end
      of the line; an unquoted field ends at ',' or at the end of the line;
    * a quoted field runs over line ends; `""` is a quote, `",` ends the field, `"` + end of line
      ends the record, any other `"` is a literal quote (LazyQuotes); end of input inside a quoted
      field ends the field without error (LazyQuotes);
    * the first record fixes the number of fields, a later record with another number is
      ErrFieldCount, which fq reports as an error (csv.go:66-69, since /repo 9e1007fc).
  Core Lean only.
-/
namespace FqModel.Csv
open FqModel.Xml (uniSpace)

abbrev Field := List Char
abbrev Row := List Field

/-! ### writer (encoding/csv Writer.Write, fieldNeedsQuotes) -/

/-- `d` is the delimiter (Writer.Comma / Reader.Comma), ',' unless the `comma` option names another -/
def isSpecial (d : Char) (c : Char) : Bool := c == '\n' || c == '\r' || c == '"' || c == d

def needsQuotes (d : Char) (f : Field) : Bool :=
  match f with
  | [] => false
  | c :: _ => f == ['\\', '.'] || f.any (isSpecial d) || uniSpace c

def escQuote (c : Char) : List Char := if c == '"' then ['"', '"'] else [c]

def writeField (d : Char) (f : Field) : List Char :=
  if needsQuotes d f then '"' :: f.flatMap escQuote ++ ['"'] else f

def writeFields (d : Char) : Row → List Char
  | [] => []
  | [f] => writeField d f
  | f :: rest => writeField d f ++ d :: writeFields d rest

def writeRow (d : Char) (r : Row) : List Char := writeFields d r ++ ['\n']

def toCsvWith (d : Char) (rows : List Row) : List Char := rows.flatMap (writeRow d)

/-- `to_csv` with the default delimiter -/
def toCsv (rows : List Row) : List Char := toCsvWith ',' rows

/-! ### reader -/

/-- readLine's normalisation over the whole input -/
def normCRLF : List Char → List Char
  | [] => []
  | c :: r =>
    if c == '\r' then
      match r with
      | [] => []                                        -- a '\r' that ends the input is dropped
      | d :: r' => if d == '\n' then '\n' :: normCRLF r' -- "\r\n" ends a line: "\n"
                   else c :: normCRLF (d :: r')
    else c :: normCRLF r
termination_by t => t.length

/-- a field's text, the rest of the input, and whether the record ended with it -/
structure FieldEnd where
  field : Field
  rest : List Char
  last : Bool

/-- non-quoted field: up to ',' or the end of the line -/
def readUnquoted (d : Char) : List Char → FieldEnd
  | [] => ⟨[], [], true⟩
  | c :: r =>
    if c == d then ⟨[], r, false⟩
    else if c == '\n' then ⟨[], r, true⟩
    else let e := readUnquoted d r; ⟨c :: e.field, e.rest, e.last⟩

/-- after the opening quote (`acc` reversed) -/
def readQuoted (d : Char) : List Char → List Char → FieldEnd
  | [], acc => ⟨acc.reverse, [], true⟩
  | c :: r, acc =>
    if c == '"' then
      match r with
      | [] => ⟨acc.reverse, [], true⟩
      | e :: r' =>
        if e == '"' then readQuoted d r' ('"' :: acc)
        else if e == d then ⟨acc.reverse, r', false⟩
        else if e == '\n' then ⟨acc.reverse, r', true⟩
        else readQuoted d r' (e :: '"' :: acc)
    else readQuoted d r (c :: acc)

/-- TrimLeadingSpace: white space other than the line end -/
def trimLead : List Char → List Char
  | [] => []
  | c :: r => if uniSpace c && c != '\n' then trimLead r else c :: r

/-- `trim` = Reader.TrimLeadingSpace: true, except that fq switches it off when the delimiter
    itself is white space (csv.go:56-60, since /repo 4cd46826 — before, a tab or space delimiter in
    front of an empty field was trimmed away and the field was lost) -/
def trimOf (d : Char) : Bool := !uniSpace d

def readField (d : Char) (t : List Char) : FieldEnd :=
  match (if trimOf d then trimLead t else t) with
  | [] => ⟨[], [], true⟩
  | c :: r => if c == '"' then readQuoted d r [] else readUnquoted d (c :: r)

/-- the fields of one record (fuel: a field consumes at least one character unless it ends the record) -/
def readRecord (d : Char) : Nat → List Char → Row → Row × List Char
  | 0, t, acc => (acc.reverse, t)
  | fuel + 1, t, acc =>
    let e := readField d t
    if e.last then ((e.field :: acc).reverse, e.rest) else readRecord d fuel e.rest (e.field :: acc)

def skipLine : List Char → List Char
  | [] => []
  | c :: r => if c == '\n' then r else skipLine r

/-- all records; `n` = the number of fields fixed by the first record -/
def readAll (d : Char) : Nat → List Char → Option Nat → List Row → Option (List Row)
  | 0, _, _, _ => none
  | fuel + 1, t, n, acc =>
    match t with
    | [] => some acc.reverse
    | c :: r =>
      if c == '#' then readAll d fuel (skipLine r) n acc
      else if c == '\n' then readAll d fuel r n acc
      else
        let (row, rest) := readRecord d (t.length + 1) t []
        match n with
        | none => readAll d fuel rest (some row.length) (row :: acc)
        | some k => if row.length == k then readAll d fuel rest n (row :: acc) else none

/-- `from_csv({comma: …})` with delimiter d (comment character '#') -/
def fromCsvWith (d : Char) (t : List Char) : Option (List Row) :=
  let t := normCRLF t
  readAll d (t.length + 1) t none []

/-- `from_csv` -/
def fromCsv (t : List Char) : Option (List Row) := fromCsvWith ',' t

/-- REGRESSION MODEL (before /repo 4cd46826): always trimming -/
def readFieldTrimAlways (d : Char) (t : List Char) : FieldEnd :=
  match trimLead t with
  | [] => ⟨[], [], true⟩
  | c :: r => if c == '"' then readQuoted d r [] else readUnquoted d (c :: r)


/-! ### the `comma` option (format/csv/csv.go:56-58 decodeCSV, :83-85 toCSV): BOTH directions take the
    first BYTE of the option string as the delimiter rune (`rune(opts.Comma[0])`), so for a
    multi-byte character such as "§" (C2 A7) the delimiter is U+00C2 on both sides — odd, but the
    pair agrees; an empty option keeps ','.  encoding/csv rejects a delimiter that is NUL, '"', CR
    or LF (validDelim); the reader also rejects a delimiter equal to the comment character. -/

def delimOfOption (opt : List UInt8) : Char :=
  match opt with
  | [] => ','
  | b :: _ => Char.ofNat b.toNat

def validDelim (c : Char) : Bool := c.toNat != 0 && c != '"' && c != '\r' && c != '\n'

/-- the delimiter `to_csv({comma: opt})` writes with -/
def toCsvDelim (opt : List UInt8) : Option Char :=
  let c := delimOfOption opt
  if validDelim c then some c else none

/-- the delimiter `from_csv({comma: opt})` splits at (comment character '#') -/
def fromCsvDelim (opt : List UInt8) : Option Char :=
  let c := delimOfOption opt
  if validDelim c && c != '#' then some c else none

/-- REGRESSION MODEL (seeded change S3-C14-1): to_csv decoding the first UTF-8 rune instead -/
def toCsvDelimRune (optChars : List Char) : Option Char :=
  match optChars with
  | [] => some ','
  | c :: _ => if validDelim c then some c else none

end FqModel.Csv
