/-!
  C14 — reference hash functions, written from the specification texts (NOT from Go):
    MD5      RFC 1321  (§3.1-3.4; table T[i] = ⌊2^32·|sin i|⌋ as listed in the RFC's appendix)
    SHA-1    FIPS 180-4 §5.1.1, §6.1
    SHA-256  FIPS 180-4 §5.1.1, §4.1.2, §6.2
    SHA-512  FIPS 180-4 §5.1.2, §4.1.3, §6.4
  The SHA-2 constants are COMPUTED as the standard defines them (fractional parts of the square /
  cube roots of the first primes) by integer root extraction, not copied.
  fq's `to_md5`, `to_sha1`, `to_sha256`, `to_sha512` (format/crypto/hash.go) are compared with these
  on every generated input; known-answer `example`s are in Props/C14.lean.
  Core Lean only.
-/
namespace FqModel.Hash

abbrev Bytes := List UInt8

/-! ### shared helpers -/

/-- consecutive pieces of length n (fuel-bounded: structural, so that the kernel can evaluate it) -/
def chunksAux (n : Nat) : Nat → List α → List (List α)
  | 0, _ => []
  | fuel + 1, l => if l.isEmpty then [] else l.take n :: chunksAux n fuel (l.drop n)

def chunks (n : Nat) (l : List α) : List (List α) := if n = 0 then [] else chunksAux n l.length l

def natToBytesBE (width n : Nat) : Bytes := (List.range width).reverse.map (fun i => UInt8.ofNat (n / 256 ^ i % 256))
def natToBytesLE (width n : Nat) : Bytes := (List.range width).map (fun i => UInt8.ofNat (n / 256 ^ i % 256))
def bytesToNatBE (bs : Bytes) : Nat := bs.foldl (fun acc b => acc * 256 + b.toNat) 0
def bytesToNatLE (bs : Bytes) : Nat := bytesToNatBE bs.reverse

/-- Merkle–Damgård padding: a 1 bit, zero bits up to `block - lenBytes` (mod block), then the
    message length in bits as a `lenBytes`-byte integer -/
def mdPad (block lenBytes : Nat) (lenEnc : Nat → Nat → Bytes) (m : Bytes) : Bytes :=
  let zeros := (block - (m.length + 1 + lenBytes) % block) % block
  m ++ [0x80] ++ List.replicate zeros 0 ++ lenEnc lenBytes (8 * m.length)

/-! ### integer roots, primes (for the SHA-2 constants) -/

/-- ⌊n^(1/k)⌋ by bisection on [lo, hi) -/
def irootAux (k n : Nat) : Nat → Nat → Nat → Nat
  | 0, lo, _ => lo
  | fuel + 1, lo, hi =>
    if hi ≤ lo + 1 then lo
    else
      let mid := (lo + hi) / 2
      if mid ^ k ≤ n then irootAux k n fuel mid hi else irootAux k n fuel lo mid

def iroot (k n : Nat) : Nat := irootAux k n (n.log2 + 2) 0 (2 ^ (n.log2 / k + 1))

def isPrime (n : Nat) : Bool := n ≥ 2 && (List.range (n - 2)).all (fun i => n % (i + 2) != 0)

def firstPrimes (k : Nat) : List Nat := ((List.range 420).filter isPrime).take k

/-- first `bits` bits of the fractional part of the k-th root of p -/
def fracRoot (k bits p : Nat) : Nat := iroot k (p * 2 ^ (k * bits)) % 2 ^ bits

/-! ### 32-bit -/

def rotl32 (x : UInt32) (n : UInt32) : UInt32 := (x <<< n) ||| (x >>> (32 - n))
def rotr32 (x : UInt32) (n : UInt32) : UInt32 := (x >>> n) ||| (x <<< (32 - n))

/-! ### MD5 (RFC 1321) -/

def md5T : Array UInt32 := #[
  0xd76aa478, 0xe8c7b756, 0x242070db, 0xc1bdceee, 0xf57c0faf, 0x4787c62a, 0xa8304613, 0xfd469501,
  0x698098d8, 0x8b44f7af, 0xffff5bb1, 0x895cd7be, 0x6b901122, 0xfd987193, 0xa679438e, 0x49b40821,
  0xf61e2562, 0xc040b340, 0x265e5a51, 0xe9b6c7aa, 0xd62f105d, 0x02441453, 0xd8a1e681, 0xe7d3fbc8,
  0x21e1cde6, 0xc33707d6, 0xf4d50d87, 0x455a14ed, 0xa9e3e905, 0xfcefa3f8, 0x676f02d9, 0x8d2a4c8a,
  0xfffa3942, 0x8771f681, 0x6d9d6122, 0xfde5380c, 0xa4beea44, 0x4bdecfa9, 0xf6bb4b60, 0xbebfbc70,
  0x289b7ec6, 0xeaa127fa, 0xd4ef3085, 0x04881d05, 0xd9d4d039, 0xe6db99e5, 0x1fa27cf8, 0xc4ac5665,
  0xf4292244, 0x432aff97, 0xab9423a7, 0xfc93a039, 0x655b59c3, 0x8f0ccc92, 0xffeff47d, 0x85845dd1,
  0x6fa87e4f, 0xfe2ce6e0, 0xa3014314, 0x4e0811a1, 0xf7537e82, 0xbd3af235, 0x2ad7d2bb, 0xeb86d391]

def md5S : Array UInt32 := #[
  7, 12, 17, 22, 7, 12, 17, 22, 7, 12, 17, 22, 7, 12, 17, 22,
  5, 9, 14, 20, 5, 9, 14, 20, 5, 9, 14, 20, 5, 9, 14, 20,
  4, 11, 16, 23, 4, 11, 16, 23, 4, 11, 16, 23, 4, 11, 16, 23,
  6, 10, 15, 21, 6, 10, 15, 21, 6, 10, 15, 21, 6, 10, 15, 21]

structure St4 where
  a : UInt32
  b : UInt32
  c : UInt32
  d : UInt32

/-- one step of RFC 1321 §3.4: a = b + ((a + F(b,c,d) + X[k] + T[i]) <<< s), then rotate the roles -/
def md5Step (x : Array UInt32) (st : St4) (i : Nat) : St4 :=
  let (f, g) :=
    if i < 16 then ((st.b &&& st.c) ||| (~~~st.b &&& st.d), i)
    else if i < 32 then ((st.b &&& st.d) ||| (st.c &&& ~~~st.d), (5 * i + 1) % 16)
    else if i < 48 then (st.b ^^^ st.c ^^^ st.d, (3 * i + 5) % 16)
    else (st.c ^^^ (st.b ||| ~~~st.d), (7 * i) % 16)
  let t := st.a + f + x[g]! + md5T[i]!
  { a := st.d, b := st.b + rotl32 t md5S[i]!, c := st.b, d := st.c }

def md5Block (st : St4) (block : Bytes) : St4 :=
  let x : Array UInt32 := ((chunks 4 block).map (fun w => UInt32.ofNat (bytesToNatLE w))).toArray
  let r := (List.range 64).foldl (md5Step x) st
  { a := st.a + r.a, b := st.b + r.b, c := st.c + r.c, d := st.d + r.d }

def md5 (m : Bytes) : Bytes :=
  let st := (chunks 64 (mdPad 64 8 natToBytesLE m)).foldl md5Block ⟨0x67452301, 0xefcdab89, 0x98badcfe, 0x10325476⟩
  [st.a, st.b, st.c, st.d].flatMap (fun w => natToBytesLE 4 w.toNat)

/-! ### SHA-1 (FIPS 180-4 §6.1) -/

def sha1Sched (w : Array UInt32) (t : Nat) : Array UInt32 :=
  w.push (rotl32 (w[t - 3]! ^^^ w[t - 8]! ^^^ w[t - 14]! ^^^ w[t - 16]!) 1)

structure St5 where
  a : UInt32
  b : UInt32
  c : UInt32
  d : UInt32
  e : UInt32

def sha1Step (w : Array UInt32) (s : St5) (t : Nat) : St5 :=
  let (f, k) : UInt32 × UInt32 :=
    if t < 20 then ((s.b &&& s.c) ^^^ (~~~s.b &&& s.d), 0x5a827999)
    else if t < 40 then (s.b ^^^ s.c ^^^ s.d, 0x6ed9eba1)
    else if t < 60 then ((s.b &&& s.c) ^^^ (s.b &&& s.d) ^^^ (s.c &&& s.d), 0x8f1bbcdc)
    else (s.b ^^^ s.c ^^^ s.d, 0xca62c1d6)
  let tmp := rotl32 s.a 5 + f + s.e + k + w[t]!
  { a := tmp, b := s.a, c := rotl32 s.b 30, d := s.c, e := s.d }

def sha1Block (h : St5) (block : Bytes) : St5 :=
  let w0 : Array UInt32 := ((chunks 4 block).map (fun w => UInt32.ofNat (bytesToNatBE w))).toArray
  let w := (List.range 64).foldl (fun w i => sha1Sched w (i + 16)) w0
  let r := (List.range 80).foldl (sha1Step w) h
  { a := h.a + r.a, b := h.b + r.b, c := h.c + r.c, d := h.d + r.d, e := h.e + r.e }

def sha1 (m : Bytes) : Bytes :=
  let st := (chunks 64 (mdPad 64 8 natToBytesBE m)).foldl sha1Block
    ⟨0x67452301, 0xefcdab89, 0x98badcfe, 0x10325476, 0xc3d2e1f0⟩
  [st.a, st.b, st.c, st.d, st.e].flatMap (fun w => natToBytesBE 4 w.toNat)

/-! ### SHA-256 (FIPS 180-4 §6.2) -/

/-- §4.2.2: first 32 bits of the fractional parts of the cube roots of the first 64 primes -/
def sha256K : Array UInt32 := ((firstPrimes 64).map (fun p => UInt32.ofNat (fracRoot 3 32 p))).toArray
/-- §5.3.3: … of the square roots of the first 8 primes -/
def sha256H0 : Array UInt32 := ((firstPrimes 8).map (fun p => UInt32.ofNat (fracRoot 2 32 p))).toArray

def sha256Sched (w : Array UInt32) (t : Nat) : Array UInt32 :=
  let s0 := fun (x : UInt32) => rotr32 x 7 ^^^ rotr32 x 18 ^^^ (x >>> 3)
  let s1 := fun (x : UInt32) => rotr32 x 17 ^^^ rotr32 x 19 ^^^ (x >>> 10)
  w.push (s1 w[t - 2]! + w[t - 7]! + s0 w[t - 15]! + w[t - 16]!)

/-- working variables a..h as an array of 8 -/
def sha256Step (k w : Array UInt32) (v : Array UInt32) (t : Nat) : Array UInt32 :=
  let a := v[0]!; let b := v[1]!; let c := v[2]!; let d := v[3]!
  let e := v[4]!; let f := v[5]!; let g := v[6]!; let h := v[7]!
  let S1 := rotr32 e 6 ^^^ rotr32 e 11 ^^^ rotr32 e 25
  let ch := (e &&& f) ^^^ (~~~e &&& g)
  let t1 := h + S1 + ch + k[t]! + w[t]!
  let S0 := rotr32 a 2 ^^^ rotr32 a 13 ^^^ rotr32 a 22
  let maj := (a &&& b) ^^^ (a &&& c) ^^^ (b &&& c)
  let t2 := S0 + maj
  #[t1 + t2, a, b, c, d + t1, e, f, g]

def sha256Block (k : Array UInt32) (h : Array UInt32) (block : Bytes) : Array UInt32 :=
  let w0 : Array UInt32 := ((chunks 4 block).map (fun w => UInt32.ofNat (bytesToNatBE w))).toArray
  let w := (List.range 48).foldl (fun w i => sha256Sched w (i + 16)) w0
  let r := (List.range 64).foldl (sha256Step k w) h
  (Array.range 8).map (fun i => h[i]! + r[i]!)

def sha256 (m : Bytes) : Bytes :=
  let k := sha256K
  let st := (chunks 64 (mdPad 64 8 natToBytesBE m)).foldl (sha256Block k) sha256H0
  st.toList.flatMap (fun w => natToBytesBE 4 w.toNat)

/-! ### SHA-512 (FIPS 180-4 §6.4) -/

def rotr64 (x : UInt64) (n : UInt64) : UInt64 := (x >>> n) ||| (x <<< (64 - n))

def sha512K : Array UInt64 := ((firstPrimes 80).map (fun p => UInt64.ofNat (fracRoot 3 64 p))).toArray
def sha512H0 : Array UInt64 := ((firstPrimes 8).map (fun p => UInt64.ofNat (fracRoot 2 64 p))).toArray

def sha512Sched (w : Array UInt64) (t : Nat) : Array UInt64 :=
  let s0 := fun (x : UInt64) => rotr64 x 1 ^^^ rotr64 x 8 ^^^ (x >>> 7)
  let s1 := fun (x : UInt64) => rotr64 x 19 ^^^ rotr64 x 61 ^^^ (x >>> 6)
  w.push (s1 w[t - 2]! + w[t - 7]! + s0 w[t - 15]! + w[t - 16]!)

def sha512Step (k w : Array UInt64) (v : Array UInt64) (t : Nat) : Array UInt64 :=
  let a := v[0]!; let b := v[1]!; let c := v[2]!; let d := v[3]!
  let e := v[4]!; let f := v[5]!; let g := v[6]!; let h := v[7]!
  let S1 := rotr64 e 14 ^^^ rotr64 e 18 ^^^ rotr64 e 41
  let ch := (e &&& f) ^^^ (~~~e &&& g)
  let t1 := h + S1 + ch + k[t]! + w[t]!
  let S0 := rotr64 a 28 ^^^ rotr64 a 34 ^^^ rotr64 a 39
  let maj := (a &&& b) ^^^ (a &&& c) ^^^ (b &&& c)
  let t2 := S0 + maj
  #[t1 + t2, a, b, c, d + t1, e, f, g]

def sha512Block (k : Array UInt64) (h : Array UInt64) (block : Bytes) : Array UInt64 :=
  let w0 : Array UInt64 := ((chunks 8 block).map (fun w => UInt64.ofNat (bytesToNatBE w))).toArray
  let w := (List.range 64).foldl (fun w i => sha512Sched w (i + 16)) w0
  let r := (List.range 80).foldl (sha512Step k w) h
  (Array.range 8).map (fun i => h[i]! + r[i]!)

def sha512 (m : Bytes) : Bytes :=
  let k := sha512K
  let st := (chunks 128 (mdPad 128 16 natToBytesBE m)).foldl (sha512Block k) sha512H0
  st.toList.flatMap (fun w => natToBytesBE 8 w.toNat)


/-! ### MD4 (RFC 1320 §3): three rounds of 16 steps, `a = (a + f(b,c,d) + X[k] + const) <<< s` -/

def md4K : Array Nat := #[
  0, 1, 2, 3, 4, 5, 6, 7, 8, 9, 10, 11, 12, 13, 14, 15,
  0, 4, 8, 12, 1, 5, 9, 13, 2, 6, 10, 14, 3, 7, 11, 15,
  0, 8, 4, 12, 2, 10, 6, 14, 1, 9, 5, 13, 3, 11, 7, 15]

def md4S : Array UInt32 := #[
  3, 7, 11, 19, 3, 7, 11, 19, 3, 7, 11, 19, 3, 7, 11, 19,
  3, 5, 9, 13, 3, 5, 9, 13, 3, 5, 9, 13, 3, 5, 9, 13,
  3, 9, 11, 15, 3, 9, 11, 15, 3, 9, 11, 15, 3, 9, 11, 15]

def md4Step (x : Array UInt32) (st : St4) (i : Nat) : St4 :=
  let (f, c) : UInt32 × UInt32 :=
    if i < 16 then ((st.b &&& st.c) ||| (~~~st.b &&& st.d), 0)
    else if i < 32 then ((st.b &&& st.c) ||| (st.b &&& st.d) ||| (st.c &&& st.d), 0x5a827999)
    else (st.b ^^^ st.c ^^^ st.d, 0x6ed9eba1)
  let t := rotl32 (st.a + f + x[md4K[i]!]! + c) md4S[i]!
  -- [abcd] -> [dabc]: the new value takes the place of a, then the roles rotate
  { a := st.d, b := t, c := st.b, d := st.c }

def md4Block (st : St4) (block : Bytes) : St4 :=
  let x : Array UInt32 := ((chunks 4 block).map (fun w => UInt32.ofNat (bytesToNatLE w))).toArray
  let r := (List.range 48).foldl (md4Step x) st
  { a := st.a + r.a, b := st.b + r.b, c := st.c + r.c, d := st.d + r.d }

def md4 (m : Bytes) : Bytes :=
  let st := (chunks 64 (mdPad 64 8 natToBytesLE m)).foldl md4Block ⟨0x67452301, 0xefcdab89, 0x98badcfe, 0x10325476⟩
  [st.a, st.b, st.c, st.d].flatMap (fun w => natToBytesLE 4 w.toNat)

/-! ### SHA-3 (FIPS 202): Keccak-p[1600, 24], sponge with pad10*1 and domain suffix 01.
    The state is 25 lanes of 64 bits, lane (x, y) at index x + 5y; a byte string maps to lanes
    little endian (§3.1.2, B.1).  Rotation offsets (§3.2.2) and round constants (§3.2.5, the LFSR
    rc(t)) are computed as the standard defines them. -/

def rotl64 (x : UInt64) (n : Nat) : UInt64 :=
  if n % 64 = 0 then x else (x <<< UInt64.ofNat (n % 64)) ||| (x >>> UInt64.ofNat (64 - n % 64))

/-- §3.2.2 ρ: lane (1,0) gets offset 1·2/2, then (x,y) ← (y, 2x+3y) for t = 0..23 with offset (t+1)(t+2)/2 -/
def keccakRho : Array Nat :=
  let step := fun (acc : Array Nat × Nat × Nat) (t : Nat) =>
    let (a, x, y) := acc
    (a.set! (x + 5 * y) ((t + 1) * (t + 2) / 2 % 64), y, (2 * x + 3 * y) % 5)
  ((List.range 24).foldl step (Array.replicate 25 0, 1, 0)).1

/-- §3.2.5 Algorithm 5: rc(t), an LFSR over 8 bits (R as a number, R[0] = least significant bit) -/
def keccakRcBit (t : Nat) : Bool :=
  let step := fun (r : Nat) (_ : Nat) =>
    -- R = 0 || R; R[0] ^= R[8]; R[4] ^= R[8]; R[5] ^= R[8]; R[6] ^= R[8]; R = Trunc8[R]
    let r := r * 2
    let r := if r / 256 % 2 == 1 then r ^^^ 0b01110001 else r
    r % 256
  (List.range (t % 255)).foldl step 1 % 2 == 1

/-- RC[ir]: bit 2^j − 1 is rc(j + 7·ir), j = 0..6 -/
def keccakRC (ir : Nat) : UInt64 :=
  (List.range 7).foldl (fun acc j => if keccakRcBit (j + 7 * ir) then acc ||| ((1 : UInt64) <<< UInt64.ofNat (2 ^ j - 1)) else acc) 0

def keccakRCs : Array UInt64 := (Array.range 24).map keccakRC

def keccakRound (a : Array UInt64) (ir : Nat) : Array UInt64 :=
  -- θ
  let c := (Array.range 5).map (fun x => a[x]! ^^^ a[x + 5]! ^^^ a[x + 10]! ^^^ a[x + 15]! ^^^ a[x + 20]!)
  let d := (Array.range 5).map (fun x => c[(x + 4) % 5]! ^^^ rotl64 c[(x + 1) % 5]! 1)
  let a := (Array.range 25).map (fun i => a[i]! ^^^ d[i % 5]!)
  -- ρ and π:  A'[y, 2x+3y] = rot(A[x, y])
  let b := (List.range 25).foldl (fun (b : Array UInt64) i =>
    let x := i % 5; let y := i / 5
    b.set! (y + 5 * ((2 * x + 3 * y) % 5)) (rotl64 a[i]! keccakRho[i]!)) (Array.replicate 25 0)
  -- χ
  let a := (Array.range 25).map (fun i =>
    let x := i % 5; let y := i / 5
    b[i]! ^^^ (~~~ b[(x + 1) % 5 + 5 * y]! &&& b[(x + 2) % 5 + 5 * y]!))
  -- ι
  a.set! 0 (a[0]! ^^^ keccakRCs[ir]!)

def keccakF (a : Array UInt64) : Array UInt64 := (List.range 24).foldl keccakRound a

/-- absorb one rate-sized block -/
def keccakAbsorb (st : Array UInt64) (block : Bytes) : Array UInt64 :=
  let lanes := (chunks 8 block).map (fun w => UInt64.ofNat (bytesToNatLE w))
  let st := (lanes.zipIdx).foldl (fun (st : Array UInt64) (p : UInt64 × Nat) => st.set! p.2 (st[p.2]! ^^^ p.1)) st
  keccakF st

/-- SHA3-d: capacity 2d, rate 1600 − 2d bits; message ‖ 01 ‖ pad10*1, byte-wise: 0x06 … 0x80 -/
def sha3 (dBytes : Nat) (m : Bytes) : Bytes :=
  let rate := 200 - 2 * dBytes
  let padLen := rate - m.length % rate
  let padded := if padLen = 1 then m ++ [0x86]
    else m ++ [0x06] ++ List.replicate (padLen - 2) 0 ++ [0x80]
  let st := (chunks rate padded).foldl keccakAbsorb (Array.replicate 25 0)
  (st.toList.flatMap (fun w => natToBytesLE 8 w.toNat)).take dBytes

def sha3_224 := sha3 28
def sha3_256 := sha3 32
def sha3_384 := sha3 48
def sha3_512 := sha3 64

end FqModel.Hash
