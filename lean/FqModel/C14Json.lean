/-!
  C14 — JSON text encoder and parser for the null/bool/integer/string/array/object fragment.

  encoder  = internal/colorjson/encoder.go with Indent 0, no colours (what `tojson` = `_to_json(null)`
             uses, format/json/json.go:97-122): keys sorted (Go string order = code point order),
             no spaces, integers in decimal (int and *big.Int alike), strings escaped as
             encodeString does: printable ASCII except `"` `\` verbatim, \b \f \n \r \t, other bytes
             < 0x20 and 0x7f as \u00XX, everything ≥ 0x80 verbatim.
  parser   = `fromjson` = decode("json") (format/json/json.go:36-90): encoding/json Decoder with
             UseNumber, exactly one top-level value then only white space, then gojq.NormalizeNumbers
             (an integer literal of any size becomes int / *big.Int exactly).  Numbers with a
             fraction or exponent are outside the fragment (`unmodelled`).
  A Go map has no key order and no duplicate keys: the JSON values of the domain are the
  CANONICAL `JV`s (object keys strictly increasing); the parser builds canonical objects
  (later duplicate wins, as a Go map does).
  Core Lean only.
-/
namespace FqModel.Json

inductive JV where
  | null
  | bool (b : Bool)
  | num (i : Int)
  /-- a syntactically valid number with a fraction or exponent: outside the modelled fragment, kept
      only so that the rest of the text is still checked for syntax -/
  | float
  | str (s : List Char)
  | arr (l : List JV)
  | obj (kvs : List (List Char × JV))
deriving Repr, Inhabited, BEq

/-! ### encoder -/

def hexDigitLower (n : Nat) : Char := if n < 10 then Char.ofNat (48 + n) else Char.ofNat (87 + n)

/-- encoder.go:151-207 encodeString, one (valid) code point -/
def escapeChar (c : Char) : List Char :=
  if c == '"' then ['\\', '"']
  else if c == '\\' then ['\\', '\\']
  else if c.toNat == 8 then ['\\', 'b']
  else if c.toNat == 12 then ['\\', 'f']
  else if c.toNat == 10 then ['\\', 'n']
  else if c.toNat == 13 then ['\\', 'r']
  else if c.toNat == 9 then ['\\', 't']
  else if c.toNat < 0x20 || c.toNat == 0x7f then
    ['\\', 'u', '0', '0', hexDigitLower (c.toNat / 16), hexDigitLower (c.toNat % 16)]
  else [c]

def encodeString (s : List Char) : List Char := '"' :: s.flatMap escapeChar ++ ['"']

def natDigits : Nat → Nat → List Char
  | 0, _ => []
  | fuel + 1, n => if n < 10 then [Char.ofNat (48 + n)] else natDigits fuel (n / 10) ++ [Char.ofNat (48 + n % 10)]

def encodeInt (i : Int) : List Char :=
  match i with
  | .ofNat n => natDigits (n + 1) n
  | .negSucc n => '-' :: natDigits (n + 2) (n + 1)

/-! jq-literal flavour (`to_jq`, format/json/jq.jq:2-45 with the default, compact options): exactly
    the JSON text, except that an object key matching `^[a-zA-Z_][a-zA-Z_0-9]*$` is written
    without quotes (`_key`).  `jq = false`: JSON (`tojson`), `jq = true`: `to_jq`. -/

def isIdentStart (c : Char) : Bool := ('a' ≤ c && c ≤ 'z') || ('A' ≤ c && c ≤ 'Z') || c == '_'
def isIdentChar (c : Char) : Bool := isIdentStart c || ('0' ≤ c && c ≤ '9')

def isIdent : List Char → Bool
  | [] => false
  | c :: cs => isIdentStart c && cs.all isIdentChar

def keyText (jq : Bool) (k : List Char) : List Char := if jq && isIdent k then k else encodeString k

/-! Layout.  `ind = 0` is the compact text (`tojson`, `to_jq`); `ind = n > 0` is
    `tojson({indent:n})` (colorjson encodeArray/encodeMap/writeIndent with Indent n) and
    `to_jq({indent:n})` (jq.jq: compound_newline "\n", separators ",\n", key_sep ": ", indent n
    spaces per level): after `[`/`{` and after every `,` a line feed and depth·n spaces, before the
    closing bracket a line feed and (depth−1)·n spaces, one space after `:`; empty containers
    stay `[]` / `{}`. -/

/-- line feed + indentation at nesting depth d -/
def nl (ind d : Nat) : List Char := if ind = 0 then [] else '\n' :: List.replicate (d * ind) ' '

def ksep (ind : Nat) : List Char := if ind = 0 then [] else [' ']

mutual
  /-- `encodeI jq ind d v`: the text of v whose children sit at nesting depth d + 1 -/
  def encodeI (jq : Bool) (ind : Nat) : Nat → JV → List Char
    | _, .null => ['n', 'u', 'l', 'l']
    | _, .bool true => ['t', 'r', 'u', 'e']
    | _, .bool false => ['f', 'a', 'l', 's', 'e']
    | _, .num i => encodeInt i
    | _, .float => ['0', '.', '5']
    | _, .str s => encodeString s
    | _, .arr [] => ['[', ']']
    | d, .arr (v :: l) => '[' :: nl ind (d + 1) ++ encodeElems jq ind (d + 1) (v :: l) ++ nl ind d ++ [']']
    | _, .obj [] => ['{', '}']
    | d, .obj (kv :: kvs) => '{' :: nl ind (d + 1) ++ encodeMembers jq ind (d + 1) (kv :: kvs) ++ nl ind d ++ ['}']
  def encodeElems (jq : Bool) (ind : Nat) : Nat → List JV → List Char
    | _, [] => []
    | d, [v] => encodeI jq ind d v
    | d, v :: rest => encodeI jq ind d v ++ ',' :: nl ind d ++ encodeElems jq ind d rest
  def encodeMembers (jq : Bool) (ind : Nat) : Nat → List (List Char × JV) → List Char
    | _, [] => []
    | d, [(k, v)] => keyText jq k ++ ':' :: ksep ind ++ encodeI jq ind d v
    | d, (k, v) :: rest => keyText jq k ++ ':' :: ksep ind ++ encodeI jq ind d v ++ ',' :: nl ind d ++ encodeMembers jq ind d rest
end

/-- compact text -/
def encode (jq : Bool) (v : JV) : List Char := encodeI jq 0 0 v

/-! ### canonical objects -/

/-- Go string comparison of two valid strings = lexicographic by code point -/
def ltKey : List Char → List Char → Bool
  | [], [] => false
  | [], _ :: _ => true
  | _ :: _, [] => false
  | a :: as, b :: bs => if a.toNat < b.toNat then true else if b.toNat < a.toNat then false else ltKey as bs

/-- insert into a key-sorted association list; an existing key is overwritten (Go map assignment) -/
def insertKV (k : List Char) (v : JV) : List (List Char × JV) → List (List Char × JV)
  | [] => [(k, v)]
  | (k', v') :: rest =>
    if ltKey k k' then (k, v) :: (k', v') :: rest
    else if ltKey k' k then (k', v') :: insertKV k v rest
    else (k, v) :: rest

/-! ### parser -/

inductive PR (α : Type) where
  | ok (v : α) (rest : List Char)
  | err
  | unmodelled
deriving Repr

def isWS (c : Char) : Bool := c == ' ' || c == '\t' || c == '\n' || c == '\r'

def skipWS : List Char → List Char
  | [] => []
  | c :: cs => if isWS c then skipWS cs else c :: cs

def hexVal (c : Char) : Option Nat :=
  if '0' ≤ c ∧ c ≤ '9' then some (c.toNat - 48)
  else if 'a' ≤ c ∧ c ≤ 'f' then some (c.toNat - 87)
  else if 'A' ≤ c ∧ c ≤ 'F' then some (c.toNat - 55)
  else none

/-- `getu4` of encoding/json: the 16-bit value of a leading `\uXXXX` -/
def getu4 : List Char → Option (Nat × List Char)
  | '\\' :: 'u' :: a :: b :: c :: d :: rest =>
    match hexVal a, hexVal b, hexVal c, hexVal d with
    | some a, some b, some c, some d => some (((a * 16 + b) * 16 + c) * 16 + d, rest)
    | _, _, _, _ => none
  | _ => none

def replC : Char := Char.ofNat 0xFFFD

/-- the characters after the opening quote; `acc` reversed.  encoding/json scanner + unquote:
    raw characters < 0x20 are errors; escapes `\" \\ \/ \b \f \n \r \t \uXXXX`; a `\u` surrogate
    that is not the first half of a valid `\uD8xx\uDCxx` pair becomes U+FFFD (only it is consumed) -/
def parseStringBody : Nat → List Char → List Char → PR (List Char)
  | 0, _, _ => .err
  | _ + 1, [], _ => .err
  | fuel + 1, c :: rest, acc =>
    if c == '"' then .ok acc.reverse rest
    else if c.toNat < 0x20 then .err
    else if c == '\\' then
      match rest with
      | [] => .err
      | e :: rest' =>
        if e == '"' then parseStringBody fuel rest' ('"' :: acc)
        else if e == '\\' then parseStringBody fuel rest' ('\\' :: acc)
        else if e == '/' then parseStringBody fuel rest' ('/' :: acc)
        else if e == 'b' then parseStringBody fuel rest' (Char.ofNat 8 :: acc)
        else if e == 'f' then parseStringBody fuel rest' (Char.ofNat 12 :: acc)
        else if e == 'n' then parseStringBody fuel rest' ('\n' :: acc)
        else if e == 'r' then parseStringBody fuel rest' ('\r' :: acc)
        else if e == 't' then parseStringBody fuel rest' ('\t' :: acc)
        else if e == 'u' then
          match getu4 (c :: e :: rest') with
          | none => .err
          | some (x, after) =>
            if 0xD800 ≤ x ∧ x ≤ 0xDFFF then
              match getu4 after with
              | some (y, after2) =>
                if x ≤ 0xDBFF ∧ 0xDC00 ≤ y ∧ y ≤ 0xDFFF then
                  parseStringBody fuel after2 (Char.ofNat (0x10000 + (x - 0xD800) * 1024 + (y - 0xDC00)) :: acc)
                else parseStringBody fuel after (replC :: acc)
              | none => parseStringBody fuel after (replC :: acc)
            else parseStringBody fuel after (Char.ofNat x :: acc)
        else .err
    else parseStringBody fuel rest (c :: acc)

def isDigit (c : Char) : Bool := '0' ≤ c && c ≤ '9'

def takeDigits : List Char → Nat → Nat × List Char
  | [], acc => (acc, [])
  | c :: cs, acc => if isDigit c then takeDigits cs (acc * 10 + (c.toNat - 48)) else (acc, c :: cs)

def skipDigits : List Char → List Char
  | [] => []
  | c :: cs => if isDigit c then skipDigits cs else c :: cs

/-- the optional `frac` and `exp` parts of the JSON number grammar after the integer part:
    `some rest` if well formed, `none` if malformed (e.g. "1." or "1e") -/
def skipFracExp (cs : List Char) : Option (List Char) :=
  let afterFrac : Option (List Char) :=
    match cs with
    | '.' :: d :: r => if isDigit d then some (skipDigits r) else none
    | '.' :: [] => none
    | _ => some cs
  match afterFrac with
  | none => none
  | some cs =>
    match cs with
    | e :: r =>
      if e == 'e' || e == 'E' then
        let r := match r with
          | '+' :: r' => r'
          | '-' :: r' => r'
          | _ => r
        match r with
        | d :: r' => if isDigit d then some (skipDigits r') else none
        | [] => none
      else some cs
    | [] => some []

/-- JSON number grammar: `-`? ( `0` | [1-9][0-9]* ) frac? exp?; `none` value = a well-formed
    number with a fraction or exponent (outside the fragment: `JV.float`) -/
def signed (neg : Bool) (n : Nat) : Int := if neg then -(Int.ofNat n) else Int.ofNat n

def parseNumberBody (neg : Bool) (cs : List Char) : PR (Option Int) :=
  match cs with
  | [] => .err
  | d :: r =>
    if !isDigit d then .err
    else
      let nr := if d == '0' then (0, r) else takeDigits (d :: r) 0
      match nr.2 with
      | c :: _ =>
        if c == '.' || c == 'e' || c == 'E' then
          match skipFracExp nr.2 with
          | some rest' => .ok none rest'
          | none => .err
        else .ok (some (signed neg nr.1)) nr.2
      | [] => .ok (some (signed neg nr.1)) nr.2

def parseNumber (cs : List Char) : PR (Option Int) :=
  match cs with
  | [] => .err
  | c :: r => if c == '-' then parseNumberBody true r else parseNumberBody false (c :: r)

def takeIdent : List Char → List Char × List Char
  | [] => ([], [])
  | c :: cs => if isIdentChar c then let (a, b) := takeIdent cs; (c :: a, b) else ([], c :: cs)

mutual
  def parseValue (jq : Bool) : Nat → List Char → PR JV
    | 0, _ => .err
    | fuel + 1, cs =>
      match skipWS cs with
      | [] => .err
      | c :: r =>
        if c == '-' || isDigit c then
          match parseNumber (c :: r) with
          | .ok (some i) rest => .ok (.num i) rest
          | .ok none rest => .ok .float rest
          | .err => .err
          | .unmodelled => .unmodelled
        else if c == '"' then
          match parseStringBody (r.length + 1) r [] with
          | .ok s rest => .ok (.str s) rest
          | .err => .err
          | .unmodelled => .unmodelled
        else if c == '[' then
          match skipWS r with
          | c2 :: r' => if c2 == ']' then .ok (.arr []) r' else parseElems jq fuel r []
          | [] => parseElems jq fuel r []
        else if c == '{' then
          match skipWS r with
          | c2 :: r' => if c2 == '}' then .ok (.obj []) r' else parseMembers jq fuel r []
          | [] => parseMembers jq fuel r []
        else if c == 'n' then
          match r with
          | 'u' :: 'l' :: 'l' :: r' => .ok .null r'
          | _ => .err
        else if c == 't' then
          match r with
          | 'r' :: 'u' :: 'e' :: r' => .ok (.bool true) r'
          | _ => .err
        else if c == 'f' then
          match r with
          | 'a' :: 'l' :: 's' :: 'e' :: r' => .ok (.bool false) r'
          | _ => .err
        else .err
  /-- after `[` or `,`: a value, then `,` or `]` -/
  def parseElems (jq : Bool) : Nat → List Char → List JV → PR JV
    | 0, _, _ => .err
    | fuel + 1, cs, acc =>
      match parseValue jq fuel cs with
      | .ok v rest =>
        match skipWS rest with
        | ',' :: r => parseElems jq fuel r (v :: acc)
        | ']' :: r => .ok (.arr (v :: acc).reverse) r
        | _ => .err
      | .err => .err
      | .unmodelled => .unmodelled
  /-- after `{` or `,`: a key (a string literal; for jq also a bare identifier), `:`, a value,
      then `,` or `}` -/
  def parseMembers (jq : Bool) : Nat → List Char → List (List Char × JV) → PR JV
    | 0, _, _ => .err
    | fuel + 1, cs, acc =>
      match skipWS cs with
      | [] => .err
      | c :: r =>
        let key : PR (List Char) :=
          if c == '"' then parseStringBody (r.length + 1) r []
          else if jq && isIdentStart c then .ok (takeIdent (c :: r)).1 (takeIdent (c :: r)).2
          else .err
        match key with
        | .ok k rest =>
          match skipWS rest with
          | ':' :: r2 =>
            match parseValue jq fuel r2 with
            | .ok v rest2 =>
              match skipWS rest2 with
              | ',' :: r3 => parseMembers jq fuel r3 (insertKV k v acc)
              | '}' :: r3 => .ok (.obj (insertKV k v acc)) r3
              | _ => .err
            | .err => .err
            | .unmodelled => .unmodelled
          | _ => .err
        | .err => .err
        | .unmodelled => .unmodelled
end

/-- `fromjson`: one value, then only white space (json.go:44-70) -/
def parseWith (jq : Bool) (cs : List Char) : PR JV :=
  match parseValue jq (cs.length + 1) cs with
  | .ok v rest => if (skipWS rest).isEmpty then .ok v [] else .err
  | .err => .err
  | .unmodelled => .unmodelled

def parse (cs : List Char) : PR JV := parseWith false cs

/-- `from_jq` (format/json/jq.jq:47-90) restricted to the part of jq's grammar that `to_jq` emits:
    constant literals written as JSON, with bare identifier object keys.  (The real function runs
    gojq's full parser; only `to_jq | from_jq` is compared, never from_jq on arbitrary programs.) -/
def parseJq (cs : List Char) : PR JV := parseWith true cs

/-! ### compact wire syntax of the line protocol (no spaces):
    n | t | f | i<decimal> | s<hex of UTF-8, - for empty> | [v,v,…] | {s<hex>:v,…}   -/

def showHexByte (b : UInt8) : List Char := [hexDigitLower (b.toNat / 16), hexDigitLower (b.toNat % 16)]

def wireStr (s : List Char) : List Char :=
  let bs := (String.ofList s).toUTF8.toList
  's' :: (if bs.isEmpty then ['-'] else bs.flatMap showHexByte)

mutual
  def wire : JV → List Char
    | .null => ['n']
    | .bool true => ['t']
    | .bool false => ['f']
    | .num i => 'i' :: encodeInt i
    | .float => ['d']
    | .str s => wireStr s
    | .arr l => '[' :: wireElems l ++ [']']
    | .obj kvs => '{' :: wireMembers kvs ++ ['}']
  def wireElems : List JV → List Char
    | [] => []
    | [v] => wire v
    | v :: rest => wire v ++ ',' :: wireElems rest
  def wireMembers : List (List Char × JV) → List Char
    | [] => []
    | [(k, v)] => wireStr k ++ ':' :: wire v
    | (k, v) :: rest => wireStr k ++ ':' :: wire v ++ ',' :: wireMembers rest
end

def hexStrToChars (hs : List Char) : Option (List Char) :=
  if hs == ['-'] then some [] else
  let rec go : List Char → List UInt8 → Option (List UInt8)
    | [], acc => some acc.reverse
    | [_], _ => none
    | a :: b :: r, acc =>
      match hexVal a, hexVal b with
      | some x, some y => go r (UInt8.ofNat (16 * x + y) :: acc)
      | _, _ => none
  match go hs [] with
  | some bs => (String.fromUTF8? (ByteArray.mk bs.toArray)).map String.toList
  | none => none

def spanHex : List Char → List Char × List Char
  | [] => ([], [])
  | c :: cs => if (hexVal c).isSome || c == '-' then let (a, b) := spanHex cs; (c :: a, b) else ([], c :: cs)

mutual
  def unwire : Nat → List Char → Option (JV × List Char)
    | 0, _ => none
    | fuel + 1, cs =>
      match cs with
      | 'n' :: r => some (.null, r)
      | 't' :: r => some (.bool true, r)
      | 'f' :: r => some (.bool false, r)
      | 'i' :: r =>
        let (neg, r) := match r with
          | '-' :: r' => (true, r')
          | _ => (false, r)
        match r with
        | d :: _ =>
          if isDigit d then
            let (n, rest) := takeDigits r 0
            some (.num (if neg then -(Int.ofNat n) else Int.ofNat n), rest)
          else none
        | [] => none
      | 's' :: r =>
        let (h, rest) := spanHex r
        (hexStrToChars h).map (fun s => (.str s, rest))
      | '[' :: ']' :: r => some (.arr [], r)
      | '[' :: r => unwireElems fuel r []
      | '{' :: '}' :: r => some (.obj [], r)
      | '{' :: r => unwireMembers fuel r []
      | _ => none
  def unwireElems : Nat → List Char → List JV → Option (JV × List Char)
    | 0, _, _ => none
    | fuel + 1, cs, acc =>
      match unwire fuel cs with
      | some (v, ',' :: r) => unwireElems fuel r (v :: acc)
      | some (v, ']' :: r) => some (.arr (v :: acc).reverse, r)
      | _ => none
  def unwireMembers : Nat → List Char → List (List Char × JV) → Option (JV × List Char)
    | 0, _, _ => none
    | fuel + 1, cs, acc =>
      match cs with
      | 's' :: r =>
        let (h, rest) := spanHex r
        match hexStrToChars h, rest with
        | some k, ':' :: r2 =>
          match unwire fuel r2 with
          | some (v, ',' :: r3) => unwireMembers fuel r3 (insertKV k v acc)
          | some (v, '}' :: r3) => some (.obj (insertKV k v acc), r3)
          | _ => none
        | _, _ => none
      | _ => none
end

mutual
  def hasFloat : JV → Bool
    | .float => true
    | .arr l => hasFloatL l
    | .obj kvs => hasFloatM kvs
    | _ => false
  def hasFloatL : List JV → Bool
    | [] => false
    | v :: r => hasFloat v || hasFloatL r
  def hasFloatM : List (List Char × JV) → Bool
    | [] => false
    | (_, v) :: r => hasFloat v || hasFloatM r
end

def unwireAll (s : String) : Option JV :=
  match unwire (s.length + 1) s.toList with
  | some (v, []) => some v
  | _ => none

end FqModel.Json
