import FqModel.Codec
import FqModel.LargeObs
/-!
  C14 — large and composite inputs (ops `lrt`, `lhash`).

  fq's to_hex / to_base64 / to_<hash> / from_<string encoding> read their input through
  `io.Copy(<encoder>, bitio.NewIOReader(br))` (format/text/encoding.go:38-43, 78-90, 227-236;
  format/crypto/hash.go:63-70): the encoder sees the input in CHUNKS whose sizes depend on the
  copy buffer (32 KiB) and on the pieces the binary is made of (an array binary is a
  `bitio.MultiReader`, whose reads stop at piece boundaries).  The property says the result is a
  function of the BIT STRING alone.  The list encoders of `FqModel.Codec` are that function; this file
  adds what is needed to evaluate them on inputs of hundreds of KiB (structural recursion over a
  200 000-element list is too deep for the driver's stack): the input is cut into chunks of 3072 bytes,
  each chunk is encoded with the list definition and the results are concatenated.  `Props.C14` proves
  that this is the list definition itself (`hex_chunk_independent`, `b64_chunk_independent`: for every chunk
  size that is a multiple of 3 — and `b64_chunk_not_multiple_of_3_witness` that it is false otherwise, which
  is what a per-chunk encoder in the implementation would compute).
-/
namespace FqModel.C14Large
open FqModel FqModel.Codec

/-- cut into chunks of `k` elements (the last one shorter); `fuel` ≥ number of chunks -/
def chunksOf (k : Nat) : Nat → Bytes → List Bytes
  | 0, _ => []
  | fuel + 1, bs => if bs.isEmpty then [] else bs.take k :: chunksOf k fuel (bs.drop k)

/-- encode chunk by chunk -/
def encChunked (enc : Bytes → Bytes) (k : Nat) (bs : Bytes) : Bytes :=
  (chunksOf k (bs.length + 1) bs).flatMap enc

def chunk : Nat := 3072

/-- the bytes of the first `8 * n - trim` bits of `d`, zero padded to a byte: the last byte loses its
    `trim` low bits (`bitsToBytesPadR (bits.take (8*n - trim))`, evaluated on the array) -/
def trimmed (d : ByteArray) (trim : Nat) : ByteArray :=
  if d.size == 0 || trim == 0 then d
  else
    let last := d.get! (d.size - 1)
    d.set! (d.size - 1) (last &&& (0xff <<< trim.toUInt8))

/-- the list-level statement of `trimmed` (used by the driver's self check on small cases) -/
def trimmedSpec (bs : Bytes) (trim : Nat) : Bytes :=
  bitsToBytesPadR ((bytesToBits bs).take (8 * bs.length - trim))

end FqModel.C14Large
