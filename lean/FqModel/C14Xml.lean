import FqModel.C14Json
/-!
  C14 — XML: the element-tree ⇄ jq-value mapping of format/xml/xml.go, on an abstract element tree.

  encoding/xml (Marshal of the `xmlNode` tree, Unmarshal back) is NOT modelled: it is taken as a
  bijection between element trees and XML text for names that are plain identifiers, up to the
  text normalisation stated in `cleanText` (x/xml escaping; fq drops white-space-only character
  data and trims the rest).  Modelled is fq's own code:

    array form   `["name", {attrs…, "#text": t} | null, [children…]]`
                 toXMLFromArray (xml.go:473-560) = `fromArr`,  fromXMLToArray (xml.go:196-255) = `toArr`
    object form with `seq:true`: children are grouped by name (a name that occurs several times
                 becomes an array) and every child of an element with ≥ 2 children carries its
                 position as `#seq` (fromXMLToObject, xml.go:119-194); `to_xml` flattens the groups
                 and, if ANY child carries `#seq`, sorts the children by it (toXMLFromObject,
                 xml.go:372-471; sortx.ProxyStable since /repo 2017971e — on the distinct #seq keys any sort gives the same result)
                 = `groupChildren` / `ungroup` / `sortBySeq`.
  Core Lean only.
-/
namespace FqModel.Xml
open FqModel.Json

inductive XNode where
  | mk (name : List Char) (attrs : List (List Char × List Char)) (text : Option (List Char)) (children : List XNode)
deriving Repr, Inhabited, BEq

def textKey : List Char := ['#', 't', 'e', 'x', 't']
def commentKey : List Char := ['#', 'c', 'o', 'm', 'm', 'e', 'n', 't']

/-! ### array form -/

/-- the attribute object of fromXMLToArray: attributes, plus `#text` when there is text; `null`
    when there is neither (xml.go:243-249) -/
def attrsJV (attrs : List (List Char × List Char)) (text : Option (List Char)) : JV :=
  if attrs.isEmpty && text.isNone then .null
  else
    let m := (attrs.map (fun kv => (kv.1, JV.str kv.2))).foldl (fun a kv => insertKV kv.1 kv.2 a) []
    match text with
    | none => .obj m
    | some t => .obj (insertKV textKey (.str t) m)

mutual
  def toArr : XNode → JV
    | .mk n a t cs => .arr [.str n, attrsJV a t, .arr (toArrL cs)]
  def toArrL : List XNode → List JV
    | [] => []
    | c :: r => toArr c :: toArrL r
end

/-- gojqx.NormalizeToStrings on a scalar: strings as is, null "", others their JSON text -/
def scalarStr : JV → Option (List Char)
  | .str s => some s
  | .null => some []
  | .num i => some (encodeInt i)
  | .bool true => some ['t', 'r', 'u', 'e']
  | .bool false => some ['f', 'a', 'l', 's', 'e']
  | _ => none

/-- `s, _ := v.(string)`: a container is the empty string -/
def strOrEmpty (v : JV) : List Char := (scalarStr v).getD []

def attrsOf : List (List Char × JV) → List (List Char × List Char)
  | [] => []
  | (k, v) :: r => if k == textKey || k == commentKey then attrsOf r else (k, strOrEmpty v) :: attrsOf r

def textOf : List (List Char × JV) → Option (List Char)
  | [] => none
  | (k, v) :: r => if k == textKey then some (strOrEmpty v) else textOf r

/-- what the scan over the elements of `elm` has found so far (xml.go:480-499): the first
    non-empty string, the first object, the first array (already converted) -/
structure Scan where
  name : List Char := []
  attrs : Option (List (List Char × JV)) := none
  children : Option (List XNode) := none

mutual
  /-- toXMLFromArray.f: `none` = "not ok" (no name) -/
  def fromArr : JV → Option XNode
    | .arr elems =>
      let s := scanElems elems {}
      if s.name.isEmpty then none
      else some (.mk s.name (attrsOf (s.attrs.getD [])) (textOf (s.attrs.getD [])) (s.children.getD []))
    | _ => none
  def scanElems : List JV → Scan → Scan
    | [], s => s
    | .obj kvs :: r, s => scanElems r (if s.attrs.isNone then { s with attrs := some kvs } else s)
    | .arr cs :: r, s => scanElems r (if s.children.isNone then { s with children := some (fromArrL cs) } else s)
    | v :: r, s =>
      match scalarStr v with
      | some str => scanElems r (if s.name.isEmpty then { s with name := str } else s)
      | none => scanElems r s
  /-- children that are not arrays, or have no name, are skipped (xml.go:528-536) -/
  def fromArrL : List JV → List XNode
    | [] => []
    | c :: r =>
      match fromArr c with
      | some n => n :: fromArrL r
      | none => fromArrL r
end

/-! ### what encoding/xml + fromXMLToArray do to character data (assumed, checked by correspondence) -/

/-- the `Char` production of XML 1.0 (xml.go isInCharacterRange); other code points are written
    as U+FFFD by encoding/xml's EscapeText -/
def xmlChar (c : Char) : Char :=
  let n := c.toNat
  if n == 0x9 || n == 0xA || n == 0xD || (0x20 ≤ n && n ≤ 0xD7FF) || (0xE000 ≤ n && n ≤ 0xFFFD) || 0x10000 ≤ n then c
  else Char.ofNat 0xFFFD

/-- regexp `\s` -/
def reSpace (c : Char) : Bool := c == '\t' || c == '\n' || c.toNat == 12 || c == '\r' || c == ' '

/-- unicode.IsSpace -/
def uniSpace (c : Char) : Bool :=
  let n := c.toNat
  (0x9 ≤ n && n ≤ 0xD) || n == 0x20 || n == 0x85 || n == 0xA0 || n == 0x1680 || (0x2000 ≤ n && n ≤ 0x200A)
    || n == 0x2028 || n == 0x2029 || n == 0x202F || n == 0x205F || n == 0x3000

def dropWhileSpace : List Char → List Char
  | [] => []
  | c :: cs => if uniSpace c then dropWhileSpace cs else c :: cs

def trimSpace (s : List Char) : List Char := (dropWhileSpace (dropWhileSpace s).reverse).reverse

/-- character data: `^\s*$` (regexp white space) is no text at all, anything else is
    strings.TrimSpace'd (xml.go:233-235).  QUIRK kept: TrimSpace removes Unicode white space, the
    regexp only ASCII white space, so a text of e.g. only U+00A0 comes back as `"#text": ""`. -/
def cleanText (t : Option (List Char)) : Option (List Char) :=
  match t with
  | none => none
  | some s =>
    let s := s.map xmlChar
    if s.all reSpace then none else some (trimSpace s)

mutual
  def cleanNode : XNode → XNode
    | .mk n a t cs => .mk n (cleanAttrs a) (cleanText t) (cleanNodes cs)
  def cleanNodes : List XNode → List XNode
    | [] => []
    | c :: r => cleanNode c :: cleanNodes r
  def cleanAttrs : List (List Char × List Char) → List (List Char × List Char)
    | [] => []
    | (k, v) :: r => (k, v.map xmlChar) :: cleanAttrs r
end

/-- the names for which encoding/xml is taken to be transparent: `[A-Za-z_][A-Za-z0-9_.-]*`, not
    starting with "xml" in any case (namespace machinery, reserved names) -/
def safeName (n : List Char) : Bool :=
  match n with
  | [] => false
  | c :: cs =>
    isIdentStart c && cs.all (fun d => isIdentChar d || d == '.' || d == '-') &&
      !((n.take 3).map Char.toLower == ['x', 'm', 'l'])

mutual
  def safeNode : XNode → Bool
    | .mk n a _ cs => safeName n && a.all (fun kv => safeName kv.1) && safeNodes cs
  def safeNodes : List XNode → Bool
    | [] => true
    | c :: r => safeNode c && safeNodes r
end

/-! ### object form: grouping by name and the `#seq` ordering rule, on the children of one element -/

/-- `attrs[nname] = naddrs` / `append(ea, naddrs)` on a name-sorted association list -/
def groupInsert {α : Type} (k : List Char) (v : α) : List (List Char × List α) → List (List Char × List α)
  | [] => [(k, [v])]
  | (k', vs) :: rest =>
    if k == k' then (k', vs ++ [v]) :: rest
    else if ltKey k k' then (k, [v]) :: (k', vs) :: rest
    else (k', vs) :: groupInsert k v rest

/-- fromXMLToObject: child i of m children gets `#seq` i (none when m = 1: `nSeq = -1`), and
    children are collected per name -/
def groupChildren {α : Type} (cs : List (List Char × α)) : List (List Char × List (Nat × α)) :=
  (cs.zipIdx).foldl (fun m (p : (List Char × α) × Nat) => groupInsert p.1.1 (p.2, p.1.2) m) []

/-- toXMLFromObject: every key's values in array order — (seq, name, child) -/
def ungroup {α : Type} (m : List (List Char × List (Nat × α))) : List (Nat × List Char × α) :=
  m.flatMap (fun kv => kv.2.map (fun sv => (sv.1, kv.1, sv.2)))

def sortBySeq {α : Type} (l : List (Nat × List Char × α)) : List (Nat × List Char × α) :=
  l.mergeSort (fun a b => decide (a.1 ≤ b.1))

/-- without any `#seq` the children are sorted by name, STABLY (sortx.ProxyStable; `List.mergeSort`
    is stable too): interleaving of different names is lost, the order within one name is kept -/
def sortByName {α : Type} (l : List (Nat × List Char × α)) : List (Nat × List Char × α) :=
  l.mergeSort (fun a b => !ltKey b.2.1 a.2.1)

/-- from_xml({seq:true}) | to_xml on the children of one element -/
def seqRoundTrip {α : Type} (cs : List (List Char × α)) : List (List Char × α) :=
  (sortBySeq (ungroup (groupChildren cs))).map (fun t => (t.2.1, t.2.2))

end FqModel.Xml
