/-
  C17 — model of fq's command line: argument parser, option evaluation, input loop, exit status.

  Transliterated from (line numbers of /repo at the time of writing):
    pkg/interp/args.jq:4-109      `_args_parse` (`_parse`, `_parse_with_arg`, `_parse_without_arg`, `_flagmap`)
    pkg/interp/options.jq:117-233 `_opt_eval`, :236-371 `_opt_to_*`, `_opt_cli_arg_to_options`
    pkg/interp/init.jq:184-195    the option merge `_opt_build_default_fixed + $parsed_args + (-o …) | . + _opt_eval($rest)`
    pkg/interp/init.jq:197-241    help / version / usage, include paths, named arguments (`_slurps`)
    pkg/interp/init.jq:20-115     `input` (`_input`, `_input_string`), `inputs`
    pkg/interp/init.jq:120-131    `_cli_eval_on_expr_error`
    pkg/interp/init.jq:167-290    `_main`
  (init.jq as of /repo commit c7862ea9, i.e. WITH the two fixes this property led to:
   465c459f "input: an input following one that failed to open was decoded twice" and
   c7862ea9 "raw input of empty input should output nothing"; the behaviour before the fixes is
   kept below as `loopOld` / `rawLinesOld`, for the negation witnesses in Props/C17.lean)
    pkg/interp/binary.go:213-300  `_open` on the facts the OS reports about a path (`OsFile`, `openModel`); `loopO` = the input
                                  loop with the third outcome of `open` (a binary that cannot be used: init.jq:43 is then true)
    pkg/interp/internal.jq:29, 39-43, 92-100   `_fatal_error`, `_exit_code_*`, `_finally`
    pkg/interp/interp.go:377-439  `Main` (halt error ⇒ returned, exit code from `Exiter`)
    pkg/cli/cli.go:273-280        exit status 0 / `ExitCode()` / 1

  The option table (`_opt_cli_opts`) and the exit code constants (`_exit_code_*`) are DATA: the
  harness evaluates these jq definitions inside fq on every run and passes them to the driver
  on the header line.  The PARSER, `_opt_eval`, the input loop and the `_finally` chain are
  hand-written below and tied to the code by the correspondence run.

  Strings are `List Char` (code points): gojq's `index`, string slices and `test` all work on
  code points for the inputs that matter here (checked by correspondence with non-ASCII flags).
-/
namespace FqModel.Cli

abbrev Str := List Char

/-! ## option table (data) -/

/-- one entry of `_opt_cli_opts` (options.jq:381-527); the Bool fields are jq truthiness of the
    entry's `bool` / `string` / `array` / `object` / `pairs` / `optional` members -/
structure Opt where
  name : Str
  short : Option Str
  long : Option Str
  aliases : List Str
  bool : Bool
  string : Bool
  array : Bool
  object : Bool
  pairs : Bool
  optional : Bool
deriving Repr, DecidableEq, Inhabited

/-- `$opts | to_entries` — gojq objects iterate in key order; the harness sends the entries in
    exactly that order -/
abbrev Table := List Opt

/-- args.jq:84-97 `_flagmap`: per option `[short] + [long] + aliases`, `from_entries`, then `add` -/
def Opt.flagKeys (o : Opt) : List Str := o.short.toList ++ o.long.toList ++ o.aliases

def flagmap (t : Table) : List (Str × Str) :=
  t.flatMap (fun o => o.flagKeys.map (fun k => (k, o.name)))

/-- `$flagmap[$arg]`: `add` of objects lets the LAST entry win -/
def lookupFlag (t : Table) (arg : Str) : Option Str :=
  ((flagmap t).reverse.find? (fun kv => kv.1 = arg)).map (·.2)

/-- `$opts[$optname]? // null` -/
def findOpt (t : Table) (name : Str) : Option Opt := t.find? (fun o => o.name = name)

/-- `$flagmap[$arg] as $optname | ($opts[$optname]? // null) as $opt` -/
def lookup (t : Table) (arg : Str) : Option (Str × Opt) :=
  match lookupFlag t arg with
  | none => none
  | some n => (findOpt t n).map (fun o => (n, o))

/-! ## parse result -/

/-- values `_parse_with_arg` / `_parse_without_arg` store in `.parsed` -/
inductive PV
  | flag                              -- `true`
  | str (s : Str)
  | arr (xs : List Str)               -- `+= [$value]`, array kind
  | pairs (xs : List (Str × Str))     -- `+= [$value]`, pairs kind, `$value = [$args[1], $args[2]]`
  | obj (kvs : List (Str × Str))      -- `.parsed[$optname][$key] |= $value`
deriving DecidableEq, Repr, Inhabited

/-- byte/code point order of jq object keys -/
def strLt : Str → Str → Bool
  | [], [] => false
  | [], _ :: _ => true
  | _ :: _, [] => false
  | a :: as, b :: bs => if a.toNat < b.toNat then true else if b.toNat < a.toNat then false else strLt as bs

/-- update of a jq object kept in key order (gojq's canonical order) -/
def setKey {α} (k : Str) (f : Option α → α) : List (Str × α) → List (Str × α)
  | [] => [(k, f none)]
  | (k', v) :: m =>
    if k = k' then (k, f (some v)) :: m
    else if strLt k k' then (k, f none) :: (k', v) :: m
    else (k', v) :: setKey k f m

def getKey {α} (k : Str) (m : List (Str × α)) : Option α := (m.find? (fun kv => kv.1 = k)).map (·.2)

/-- `{parsed: …, rest: […]}`; `parsed = []` stands for jq `null` (`_defaults` of a table without
    defaults, args.jq:98-104) — it can never be `{}` -/
structure R where
  parsed : List (Str × PV)
  rest : List Str
deriving DecidableEq, Repr, Inhabited

inductive Err
  | noSuch (arg : Str)      -- "\($arg): no such argument"
  | needsArg (arg : Str)    -- "\($arg): needs an argument"
  | needsTwo (arg : Str)    -- "\($arg): needs two argument"
  | takesNo (arg : Str)     -- "\($arg): takes no argument"
  | keyValue (v : Str)      -- "\($value): should be key=value"
  | typeErr                 -- a jq type error (`true + [..]`, capture on an array): impossible with the shipped table
  | fuel                    -- never returned by `parseArgs` (Proofs.C17Parse.parseArgs_ne_fuel)
deriving DecidableEq, Repr, Inhabited

abbrev Res := Except Err R

instance : DecidableEq Res := fun a b =>
  match a, b with
  | .ok x, .ok y => if h : x = y then isTrue (by rw [h]) else isFalse (fun e => by cases e; exact h rfl)
  | .error x, .error y => if h : x = y then isTrue (by rw [h]) else isFalse (fun e => by cases e; exact h rfl)
  | .ok _, .error _ => isFalse (fun e => by cases e)
  | .error _, .ok _ => isFalse (fun e => by cases e)

/-- the value handed to `_parse_with_arg` -/
inductive Val
  | str (s : Str)
  | pair (a b : Str)
deriving DecidableEq, Repr

/-! ## the regular expressions of args.jq -/

/-- `test("^--?[^-\\d]")` (args.jq:38): `-x…` or `--x…` where x is neither `-` nor an ASCII digit
    (RE2: a negated class matches any other code point, newline included) -/
def looksLikeFlag : Str → Bool
  | '-' :: '-' :: c :: _ => c != '-' && !c.isDigit
  | '-' :: c :: _ => c != '-' && !c.isDigit
  | _ => false

/-- `test("^-[^-]")` (args.jq:42) -/
def shortLike : Str → Bool
  | '-' :: c :: _ => c != '-'
  | _ => false

/-- `$args[0] | index("=")` (args.jq:27) -/
def idxEq : Str → Option Nat
  | [] => none
  | c :: cs => if c = '=' then some 0 else (idxEq cs).map (· + 1)

/-- `capture("^(?<key>.*?)=(?<value>.*)$")` (args.jq:9): `.` does not match a newline and the
    pattern is anchored at both ends, so a value containing a newline never matches; otherwise the
    lazy key stops at the first `=` -/
def captureKV (v : Str) : Option (Str × Str) :=
  if v.contains '\n' then none
  else match idxEq v with
    | none => none
    | some i => some (v.take i, v.drop (i + 1))

/-! ## `_parse` (args.jq:5-82), open recursion: `k` is the recursive call `_parse(…; $flagmap; …)` -/

def updParsed (name : Str) (f : Option PV → Except Err PV) (r : R) : Res :=
  match f (getKey name r.parsed) with
  | .error e => .error e
  | .ok v => .ok { r with parsed := setKey name (fun _ => v) r.parsed }

/-- args.jq:6-22 `_parse_with_arg($new_args; $optname; $value; $opt)` -/
def withArg (k : List Str → R → Res) (newArgs : List Str) (optname : Str) (value : Val) (o : Opt) (r : R) : Res :=
  if o.object then
    match value with
    | .pair _ _ => .error .typeErr
    | .str v =>
      match captureKV v with
      | none => .error (.keyValue v)
      | some (key, val) =>
        match updParsed optname (fun old => match old with
            | none => .ok (.obj [(key, val)])
            | some (.obj kvs) => .ok (.obj (setKey key (fun _ => val) kvs))
            | some _ => .error .typeErr) r with
        | .error e => .error e
        | .ok r' => k newArgs r'
  else if o.array then
    match updParsed optname (fun old => match old, value with
        | none, .str v => .ok (.arr [v])
        | some (.arr xs), .str v => .ok (.arr (xs ++ [v]))
        | _, _ => .error .typeErr) r with
    | .error e => .error e
    | .ok r' => k newArgs r'
  else if o.pairs then
    match updParsed optname (fun old => match old, value with
        | none, .pair a b => .ok (.pairs [(a, b)])
        | some (.pairs xs), .pair a b => .ok (.pairs (xs ++ [(a, b)]))
        | _, _ => .error .typeErr) r with
    | .error e => .error e
    | .ok r' => k newArgs r'
  else
    match value with
    | .str v => k newArgs { r with parsed := setKey optname (fun _ => PV.str v) r.parsed }
    | .pair _ _ => .error .typeErr

/-- args.jq:23-24 `_parse_without_arg($new_args; $optname)` -/
def withoutArg (k : List Str → R → Res) (newArgs : List Str) (optname : Str) (r : R) : Res :=
  k newArgs { r with parsed := setKey optname (fun _ => PV.flag) r.parsed }

/-- `$arg`: the part of `$args[0]` before the first `=` (args.jq:27-31, "to support --arg=VALUE") -/
def argOf (a0 : Str) : Str :=
  match idxEq a0 with
  | some i => a0.take i
  | none => a0

/-- one unfolding of `_parse($args; $flagmap; $r)` (args.jq:26-82) -/
def step (t : Table) (k : List Str → R → Res) (args : List Str) (r : R) : Res :=
  match args with
  | [] => .ok r                                                        -- `$arg == null` :32
  | a0 :: tl =>
    let assignI := idxEq a0
    let arg := argOf a0
    if arg = ['-', '-'] then .ok { r with rest := r.rest ++ tl }        -- :35-36
    else if looksLikeFlag arg then                                      -- :38
      match lookup t arg with
      | none =>                                                         -- `$opt == null` :41
        if shortLike arg then                                           -- :42  combined short flags
          let arg2 := arg.take 2                                        -- `$arg[0:2]`
          match lookup t arg2 with
          | none => .error (.noSuch arg2)                               -- :46-47
          | some (optname, o) =>
            if o.bool then withoutArg k (('-' :: a0.drop 2) :: tl) optname r   -- :48-49 `["-"+$args[0][2:]]+$args[1:]`
            else .error (.needsArg arg2)                                -- :50-51
        else .error (.noSuch arg)                                       -- :54-55
      | some (optname, o) =>
        if o.string || o.array || o.object then                         -- :57
          match assignI with
          | some i => withArg k tl optname (.str (a0.drop (i + 1))) o r -- :58-59
          | none =>
            match tl with
            | [] =>                                                     -- `($args | length) < 2` :60
              if o.optional then withoutArg k tl optname r              -- :61-62
              else .error (.needsArg arg)                               -- :63-64
            | a1 :: tl2 => withArg k tl2 optname (.str a1) o r          -- :66-67
        else if o.pairs then                                            -- :69
          match tl with
          | a1 :: a2 :: tl3 => withArg k tl3 optname (.pair a1 a2) o r  -- :70-71 (an `=value` part is ignored)
          | _ => .error (.needsTwo arg)                                 -- :72-73
        else
          match assignI with
          | some _ => .error (.takesNo arg)                             -- :76
          | none => withoutArg k tl optname r                           -- :77
    else k tl { r with rest := r.rest ++ [a0] }                         -- :81

/-- fuel-indexed fixpoint of `step` -/
def parseF (t : Table) : Nat → List Str → R → Res
  | 0, _, _ => .error .fuel
  | n + 1, args, r => step t (parseF t n) args r

/-- every recursive call of `step` is on a list of strictly smaller measure -/
def meas (args : List Str) : Nat := (args.map (fun a => a.length + 1)).sum

/-- `_parse($args; _flagmap; $r)`; `Proofs.C17Parse.parseArgs_eq` shows it is the fixpoint of `step`:
    `parseArgs t args r = step t (parseArgs t) args r` -/
def parseArgs (t : Table) (args : List Str) (r : R) : Res := parseF t (meas args + 1) args r

/-- `_args_parse($args; $opts)` (args.jq:105) for a table without `default` members -/
def argsParse (t : Table) (argv : List Str) : Res := parseArgs t argv { parsed := [], rest := [] }

/-! ## exit status (internal.jq:39-43, init.jq:280-284, interp.go:395-425, cli.go:273-280) -/

/-- `_exit_code_*` — data from fq -/
structure Codes where
  args : Nat
  io : Nat
  compile : Nat
  decode : Nat
  expr : Nat
deriving Repr, DecidableEq, Inhabited

/-- failure classes -/
inductive Cls
  | args | io | compile | decode | expr
deriving DecidableEq, Repr, Inhabited

def Codes.of (c : Codes) : Cls → Nat
  | .args => c.args
  | .io => c.io
  | .compile => c.compile
  | .decode => c.decode
  | .expr => c.expr

/-- the `_finally` chain of init.jq:280-284: first non-null memory wins, in this textual order -/
def finallyExit (c : Codes) (io dec expr : Bool) : Nat :=
  if io then c.io else if dec then c.decode else if expr then c.expr else 0

/-- exit status for a set (list) of failure classes that occurred.  `args` is raised by `_fatal_error`
    before anything else runs (init.jq:182-184, options.jq:131,146,170,216, init.jq:174-176),
    `compile` by `_cli_eval_on_compile_error` before any input is read (init.jq:137-141): both halt
    at once; the others are remembered and mapped by the `_finally` chain. -/
def exitCode (c : Codes) (s : List Cls) : Nat :=
  if s.contains .args then c.args
  else if s.contains .compile then c.compile
  else finallyExit c (s.contains .io) (s.contains .decode) (s.contains .expr)

/-! ## the input loop (init.jq:20-115 `input`/`inputs`, :244-277 the non-repl branch of `_main`) -/

/-- what the loop needs to know about the world -/
structure Env (Content V Out : Type) where
  openF : Str → Option Content        -- `open`; none = the try at init.jq:28-41 catches
  decode : Content → Option V         -- `f` (= `decode`) at init.jq:47; none = the catch at :48-59
  eval : V → List Out × Bool          -- outputs of `_cli_eval` for one input; true = the expr raised (:120-131)

inductive ELine
  | io (name : Str)
  | dec (name : Str)
  | expr
deriving DecidableEq, Repr

structure St (Out : Type) where
  out : List Out := []
  errs : List ELine := []             -- stderr lines, in order
  io : Bool := false                  -- `_input_io_errors` non-null
  dec : Bool := false                 -- `_input_decode_errors` non-null
  expr : Bool := false                -- `_cli_last_expr_error` non-null
deriving Repr

/-- `_cli_eval` of one input value with `_cli_eval_on_expr_error` as catch_query (init.jq:120-131, 159) -/
def evalOne {C V Out} (env : Env C V Out) (v : V) (st : St Out) : St Out :=
  let (outs, failed) := env.eval v
  { st with out := st.out ++ outs,
            errs := if failed then st.errs ++ [.expr] else st.errs,
            expr := st.expr || failed }

/-- default mode: `inputs` feeding `_cli_eval` one value at a time, as a fold over the file list with
    the per-class error memory -/
def loop {C V Out} (env : Env C V Out) : List Str → St Out → St Out
  | [], st => st                                                      -- `error("break")` :23
  | h :: t, st =>
    match env.openF h with
    | none => loop env t { st with io := true, errs := st.errs ++ [.io h] }          -- :35-41, :43-45 next input
    | some c =>
      match env.decode c with
      | none => loop env t { st with dec := true, errs := st.errs ++ [.dec h] }      -- :48-59
      | some v => loop env t (evalOne env v st)

def runFiles {C V Out} (env : Env C V Out) (fs : List Str) : St Out := loop env fs {}

def St.classes {Out} (st : St Out) : List Cls :=
  (if st.io then [.io] else []) ++ (if st.dec then [.decode] else []) ++ (if st.expr then [.expr] else [])

def St.exit {Out} (c : Codes) (st : St Out) : Nat := finallyExit c st.io st.dec st.expr

/-- "precedence-max" of the exit statuses of several runs: the status of the highest-precedence class -/
def combineExits (c : Codes) (l : List Nat) : Nat :=
  if l.contains c.io then c.io else if l.contains c.decode then c.decode else if l.contains c.expr then c.expr else 0

/-- the values `inputs` yields (slurp mode collects them: `[inputs]`, init.jq:269), with the error memory -/
def collect {C V Out} (env : Env C V Out) : List Str → St Out → List V → St Out × List V
  | [], st, acc => (st, acc)
  | h :: t, st, acc =>
    match env.openF h with
    | none => collect env t { st with io := true, errs := st.errs ++ [.io h] } acc
    | some c =>
      match env.decode c with
      | none => collect env t { st with dec := true, errs := st.errs ++ [.dec h] } acc
      | some v => collect env t st (acc ++ [v])

/-! ### the error memory with error VALUES (init.jq:120-131 `_cli_eval_on_expr_error`, :262, :283)

  A jq program can raise any JSON value.  `_cli_eval_on_expr_error` first turns the value into a STRING
  (`.error` of an object / `tostring`, then `tojson` for whatever is not a string yet), and only then stores it
  in `_cli_last_expr_error`; the `_finally` chain tests the stored value for jq truthiness.  A string is
  always truthy, so the memory means "some run-time error occurred" — `loopE` keeps the values to make that
  a theorem (`Props.C17.exit_ignores_error_value`) instead of a modelling decision. -/

inductive EVal
  | null | false | true | num | str (s : Str) | arr | obj
deriving DecidableEq, Repr, Inhabited

/-- jq truthiness: everything but `null` and `false` -/
def EVal.truthy : EVal → Bool
  | .null => Bool.false
  | .false => Bool.false
  | _ => Bool.true

structure EnvE (Content V Out : Type) where
  openF : Str → Option Content
  decode : Content → Option V
  evalE : V → List Out × Option EVal     -- outputs, and the value raised (if any)
  render : EVal → Str                    -- the string conversion of init.jq:121-129

/-- forget the error values: only whether the program raised -/
def EnvE.forget {C V Out} (e : EnvE C V Out) : Env C V Out :=
  { openF := e.openF, decode := e.decode, eval := fun v => ((e.evalE v).1, (e.evalE v).2.isSome) }

structure StE (Out : Type) where
  out : List Out := []
  errs : List ELine := []
  io : Bool := Bool.false
  dec : Bool := Bool.false
  last : EVal := .null                   -- `_cli_last_expr_error`, reset to null at init.jq:262

def StE.toSt {Out} (s : StE Out) : St Out :=
  { out := s.out, errs := s.errs, io := s.io, dec := s.dec, expr := s.last.truthy }

/-- `store` = what is written to the memory for a raised value: `fun env e => .str (env.render e)` in the
    code as it is; the seeded variant S2-C17-1 stored the raw value (`fun _ e => e`) -/
def evalOneE {C V Out} (env : EnvE C V Out) (store : EVal → EVal) (v : V) (st : StE Out) : StE Out :=
  match env.evalE v with
  | (outs, none) => { st with out := st.out ++ outs }
  | (outs, some e) => { st with out := st.out ++ outs, errs := st.errs ++ [.expr], last := store e }

def loopE {C V Out} (env : EnvE C V Out) (store : EVal → EVal) : List Str → StE Out → StE Out
  | [], st => st
  | h :: t, st =>
    match env.openF h with
    | none => loopE env store t { st with io := Bool.true, errs := st.errs ++ [.io h] }
    | some c =>
      match env.decode c with
      | none => loopE env store t { st with dec := Bool.true, errs := st.errs ++ [.dec h] }
      | some v => loopE env store t (evalOneE env store v st)

/-- the memory as the code writes it: the rendered string -/
def storeString {C V Out} (env : EnvE C V Out) : EVal → EVal := fun e => .str (env.render e)

def StE.exit {Out} (c : Codes) (s : StE Out) : Nat := finallyExit c s.io s.dec s.last.truthy

/-! ### the loop BEFORE commit 465c459f (documentation; `Props.C17.inputs_independent_old_false`)

  After an io error the catch branch emitted `_input($opts; f)`, i.e. an already DECODED value, which then
  flowed into `try f` of the outer frame: `decode` was applied to a decode value once per preceding failed
  `open` (`re`), and the re-decoded root had lost its file name. `pend` = the files whose `open` failed
  since the last value was produced. -/

def redecodeAll {V} (re : V → V) : List Str → V → V
  | [], v => v
  | _ :: ps, v => redecodeAll re ps (re v)

def loopOld {C V Out} (env : Env C V Out) (re : V → V) : List Str → List Str → St Out → St Out
  | [], _, st => st
  | h :: t, pend, st =>
    match env.openF h with
    | none => loopOld env re t (h :: pend) { st with io := true, errs := st.errs ++ [.io h] }
    | some c =>
      match env.decode c with
      | none => loopOld env re t pend { st with dec := true, errs := st.errs ++ [.dec h] }
      | some v => loopOld env re t [] (evalOne env (redecodeAll re pend v) st)

/-! ## `open` (pkg/interp/binary.go:213-300 `_open`) on what the operating system reports about a path

  The virtual OS of the correspondence run decides by construction which paths open.  On a REAL file system the kinds of
  path are not the harness' to decide: a directory opens fine with os.Open and is even seekable (ext4/overlayfs answer
  `lseek(fd, 0, SEEK_END)` with 2^63-1), /dev/null is a seekable character device, a procfs file is "regular" with stat size
  0 and refuses SEEK_END (read into memory since /repo commit 013f25c7).  `OsFile` is what os.Open / Stat / Seek / ReadAll say about one path — the harness MEASURES these
  with the same calls on the real file — and `openModel` is `_open` on them. -/

structure OsFile where
  opens : Bool              -- `i.OS.FS().Open(path)` succeeds (binary.go:233; cmd/fq: os.Open, cli.go:179)
  regular : Bool            -- `fFI.Mode().IsRegular()` (:257)
  seekable : Bool           -- `f.(io.ReadSeeker)` (:258): true of every *os.File
  statSize : Nat            -- `fFI.Size()` (:260)
  seekEnd : Option Nat      -- what `Seek(0, io.SeekEnd)` answers; none = error (procfs seq files: EINVAL, fifos: ESPIPE)
  readAll : Option Nat      -- number of bytes `io.ReadAll(f)` returns (:265); none = error (a directory: EISDIR)
deriving Repr, DecidableEq, Inhabited

inductive OpenRes
  | err                     -- `open` raises: init.jq:35-41 reports `error: NAME: …` and remembers the io class
  | file (bytes : Nat)      -- a binary of that many bytes
  | ghost                   -- `open` returns a binary every later use of which fails (its reader cannot Seek to the end, or
                            -- its bit length is not a valid int64): converting it to a jq value yields an error, gojq's
                            -- `.opened == null` (init.jq:43) is then TRUE, and `input` moves on to the next file as if
                            -- `open` had failed — but nothing was reported and nothing remembered
deriving Repr, DecidableEq, Inhabited

/-- binary.go:229-301 as of /repo commit 013f25c7.  A regular file of POSITIVE stat size that is a ReadSeeker is used in
    place with the size Stat reports (:258-263); everything else — non-regular files, and regular files that report size
    zero (procfs) — is read into memory (:266-274), which is where a directory fails.  The range of the binary is
    `bEnd * 8` bits (:298) and every read goes through readers that seek to the end first (aheadreadseeker / bitio
    section readers), so a file used in place must answer Seek(0, SeekEnd). -/
def openModel (f : OsFile) : OpenRes :=
  if !f.opens then .err                                               -- :233-241
  else if f.regular && decide (0 < f.statSize) && f.seekable then     -- :258-259
    (if f.seekEnd.isSome then .file f.statSize else .ghost)           -- :260-262 (ghost: no such file is known, `open_never_ghost`)
  else match f.readAll with                                           -- :266-274
    | none => .err
    | some n => .file n

/-- BEFORE commit 013f25c7 (finding `procfs-input-silently-dropped`, fixed): every regular ReadSeeker was used in place, also
    one that reports size zero and refuses SEEK_END — the seq files of procfs -/
def openModelOld (f : OsFile) : OpenRes :=
  if !f.opens then .err
  else if f.regular && f.seekable then
    (if f.seekEnd.isSome then .file f.statSize else .ghost)
  else match f.readAll with
    | none => .err
    | some n => .file n

/-- the seeded variant S5-C17-1: "a seekable non-regular file is asked for its size with Seek(0, SeekEnd)" — for a directory
    on ext4 that is 2^63-1 bytes, whose bit length overflows int64 -/
def openSeeded (f : OsFile) : OpenRes :=
  if !f.opens then .err
  else if f.seekable then
    if f.regular then
      (if 0 < f.statSize then (if f.seekEnd.isSome then .file f.statSize else .ghost)
       else (match f.readAll with | none => .err | some n => .file n))
    else match f.seekEnd with
      | some e =>
        if e > 0 then (if e * 8 < 2 ^ 63 then .file e else .ghost)
        else (match f.readAll with | none => .err | some n => .file n)
      | none => (match f.readAll with | none => .err | some n => .file n)
  else match f.readAll with
    | none => .err
    | some n => .file n

/-- a directory as ext4 / overlayfs present it -/
def osDirExt4 : OsFile := { opens := true, regular := false, seekable := true, statSize := 4096, seekEnd := some (2 ^ 63 - 1), readAll := none }
/-- /dev/null -/
def osDevNull : OsFile := { opens := true, regular := false, seekable := true, statSize := 0, seekEnd := some 0, readAll := some 0 }
/-- /proc/version and the other seq files of procfs -/
def osProcSeq : OsFile := { opens := true, regular := true, seekable := true, statSize := 0, seekEnd := none, readAll := some 123 }
/-- a path that does not exist, is not permitted, loops … -/
def osNoOpen : OsFile := { opens := false, regular := false, seekable := false, statSize := 0, seekEnd := none, readAll := none }

/-! ### the input loop with the three outcomes of `open` (init.jq:20-59) -/

inductive OpenO (C : Type)
  | err
  | ok (c : C)
  | ghost

structure EnvO (Content V Out : Type) where
  openO : Str → OpenO Content
  decode : Content → Option V
  eval : V → List Out × Bool

/-- the environment `loop` sees when no input is a ghost: `open` raises or returns a usable binary -/
def EnvO.toEnv {C V Out} (e : EnvO C V Out) : Env C V Out :=
  { openF := fun n => match e.openO n with | .ok c => some c | _ => none, decode := e.decode, eval := e.eval }

def loopO {C V Out} (env : EnvO C V Out) : List Str → St Out → St Out
  | [], st => st
  | h :: t, st =>
    match env.openO h with
    | .err => loopO env t { st with io := true, errs := st.errs ++ [.io h] }         -- init.jq:35-41, then :43-45
    | .ghost => loopO env t st                                                        -- :43-45 ALONE: `.opened == null` is true
    | .ok c =>
      match env.decode c with
      | none => loopO env t { st with dec := true, errs := st.errs ++ [.dec h] }
      | some v => loopO env t (evalOne env.toEnv v st)

/-! ## raw input (init.jq:63-105 `_input_string`) at the level of strings -/

/-- `rtrimstr("\n")` -/
def rtrimNl (s : Str) : Str :=
  match s.reverse with
  | '\n' :: r => r.reverse
  | _ => s

/-- `split("\n")` of fq's gojq (`"" | split("\n")` is `[""]`) -/
def splitNl : Str → List Str
  | [] => [[]]
  | c :: cs =>
    if c = '\n' then [] :: splitNl cs
    else match splitNl cs with
      | [] => [[c]]
      | l :: ls => (c :: l) :: ls

/-- init.jq:89-99: the readable inputs' texts are concatenated; an empty text has no line (:89); otherwise
    ONE trailing newline is dropped and the rest is split at newlines -/
def rawLines (chunks : List Str) : List Str :=
  if chunks.flatten.isEmpty then [] else splitNl (rtrimNl chunks.flatten)

/-- what `jq -R` does: lines of the concatenation, a final line without newline counts, an empty
    text has no line -/
def jqRawLines (chunks : List Str) : List Str :=
  let s := chunks.flatten
  if s.isEmpty then [] else splitNl (rtrimNl s)

/-- BEFORE commit c7862ea9 the test was `($chunks | length) > 0`: one readable but empty input was ONE empty line -/
def rawLinesOld (chunks : List Str) : List Str :=
  if chunks.isEmpty then [] else splitNl (rtrimNl chunks.flatten)

/-! ### raw input over any alphabet — the correspondence run works on BYTES

  fq's strings are Go strings: `tobytes | tostring` (init.jq:76) keeps every byte of the file, valid UTF-8 or not,
  `join("")` (:80, :92) concatenates bytes, `rtrimstr("\n")` (:93) and `split("\n")` (:94) cut at the byte 0x0a, which in
  UTF-8 never occurs inside another code point.  So the splitter is the same function over bytes as over code points;
  it is written once for an arbitrary alphabet `α` with a distinguished separator `nl`, the `raw` case lines of the
  correspondence run instantiate it with `UInt8` and 10, `rawLines` above is the instance `Char`, `'\n'`
  (`Props.C17.rawLines_eq_generic`).  jq splits on `\n` ONLY: `\r`, `\r\n`, U+2028, U+0085, NUL, invalid UTF-8 are
  ordinary content. -/

/-- `rtrimstr("\n")` (init.jq:93): ONE trailing separator is removed -/
def rtrimSep {α} [DecidableEq α] (nl : α) (s : List α) : List α :=
  match s.reverse with
  | c :: r => if c = nl then r.reverse else s
  | [] => s

/-- `split("\n")` (init.jq:94) -/
def splitSep {α} [DecidableEq α] (nl : α) : List α → List (List α)
  | [] => [[]]
  | c :: cs =>
    if c = nl then [] :: splitSep nl cs
    else match splitSep nl cs with
      | [] => [[c]]
      | l :: ls => (c :: l) :: ls

/-- init.jq:81-99 (`-R` without `-s`): the values `input` yields -/
def rawLinesG {α} [DecidableEq α] (nl : α) (chunks : List (List α)) : List (List α) :=
  if chunks.flatten.isEmpty then [] else splitSep nl (rtrimSep nl chunks.flatten)

/-- init.jq:73-80 (`-Rs`): ONE value, the whole text (also when it is empty) -/
def rawSlurpG {α} (chunks : List (List α)) : List α := chunks.flatten

/-- does the text end with the separator? -/
def endsSep {α} [DecidableEq α] (nl : α) (s : List α) : Bool := decide (s.getLast? = some nl)

/-- what `-R` owes `-Rs` (jq): joining the values with the separator, plus one final separator iff the text ends with
    one, gives the text back -/
def rawJoin {α} [DecidableEq α] (nl : α) (text : List α) (ls : List (List α)) : List α :=
  [nl].intercalate ls ++ (if endsSep nl text then [nl] else [])

/-- the judgement the driver evaluates on the OBSERVED values of a `-R` run against the OBSERVED string of the `-Rs` run
    on the same inputs (nothing of the model's prediction enters): no value contains the separator, the values joined
    reproduce the text, and an empty text (only) has no value.  `Props.C17.raw_judge_iff`: it holds for exactly one list
    of values, jq's. -/
def rawJudge {α} [DecidableEq α] (nl : α) (text : List α) (ls : List (List α)) : Bool :=
  ls.all (fun l => !l.contains nl) && decide (rawJoin nl text ls = text) && (ls.isEmpty == text.isEmpty)

/-- the seeded variant S5-C17-2 (`| map(rtrimstr("\r"))` after the split): "support for \r\n line endings" -/
def rawLinesCRLF {α} [DecidableEq α] (nl cr : α) (chunks : List (List α)) : List (List α) :=
  (rawLinesG nl chunks).map (rtrimSep cr)

/-! ## `_opt_eval` and `_main` at the level the correspondence run observes -/

inductive FKind
  | jobj      -- JSON object, decodable by probe
  | jnum      -- JSON number, decodable by probe
  | bin       -- mp3/png, decodable by probe
  | undec     -- bytes no probed format accepts
  | missing
  | dir       -- `open` (os.Open) succeeds, reading fails (EISDIR): binary.go:262-273 reads a non-regular file into memory
  | unknown   -- the harness does not vouch for it as data
  | empty     -- readable, zero bytes (an empty regular file, /dev/null): no probed format accepts it, `-R` gets no text
  | noopen    -- `open` fails for another reason (EACCES, ELOOP, ENOTDIR …): binary.go:233-241
  | ghost     -- `openModel` = ghost: skipped without a report (before /repo 013f25c7 the procfs seq files; none known now)
deriving DecidableEq, Repr, Inhabited

/-- does the kind the harness states for a path of the real file system agree with `openModel` on the measured `OsFile`? -/
def kindAgrees (fk : FKind) (o : OsFile) : Bool :=
  if fk = .unknown then true else       -- no kind stated (program files): the model never uses it as input data
  match openModel o with
  | .err => fk = .missing || fk = .dir || fk = .noopen
  | .ghost => fk = .ghost
  | .file 0 => fk = .empty
  | .file (_ + 1) => fk = .jobj || fk = .jnum || fk = .bin || fk = .undec

inductive PClass
  | ok        -- compiles, never raises, writes at least one byte per input
  | okq       -- compiles, never raises, may write nothing (`empty`)
  | fnum      -- compiles, raises exactly on number inputs
  | fall      -- compiles, raises on every input
  | nc        -- does not compile
  | unknown
deriving DecidableEq, Repr, Inhabited

inductive FmtKind
  | probe     -- a group name with several formats (`probe`)
  | forced    -- a single format: `decode` always yields a (possibly erroneous) tree
  | invalid   -- no such format or group
deriving DecidableEq, Repr, Inhabited

/-- what the harness states about one string that occurs on the command line -/
structure Tok where
  name : Str
  fk : FKind        -- as a file name
  pc : PClass       -- as a program
  cc : PClass       -- its content as a program (`-f`)
  jsonOk : Bool     -- as JSON text (`--argjson`)
  fmt : FmtKind     -- as a decode group (`-d`)
deriving Repr, Inhabited

structure World where
  toks : List Tok
  stdin : FKind
deriving Repr, Inhabited

def World.tok (w : World) (s : Str) : Option Tok := w.toks.find? (fun t => t.name = s)

/-- input value classes a program can tell apart -/
inductive VClass
  | null | num | obj | str | arr
deriving DecidableEq, Repr

def raises : PClass → VClass → Bool
  | .fall, _ => true
  | .fnum, .num => true
  | _, _ => false

/-- the options `_main` looks at, after `_opt_build_default_fixed + $parsed_args + -o options + _opt_eval($rest)`
    (init.jq:186-193) -/
structure Opts where
  exprFile : Option Str
  exprArg : Option Str              -- `$rest[0]`
  filenames : List (Option Str)     -- none = stdin
  nullInput : Bool
  slurp : Bool
  stringInput : Bool
  repl : Bool
  showHelp : Bool
  showVersion : Bool
  decodeGroup : Str
deriving Repr

inductive Unmodelled
  | mk (why : String)
deriving Repr

/-- options.jq:236-243 `_opt_to_boolean` on the strings the generator uses -/
def optToBool (v : Str) : Except Unmodelled (Option Bool) :=
  if v = "true".toList then .ok (some true)
  else if v = "false".toList then .ok (some false)
  else if !v.isEmpty && v.all Char.isDigit then .ok (some (v.any (· != '0')))      -- `tonumber != 0`
  else if (!v.isEmpty && v.all Char.isAlpha) || v.head? = some '@' then .ok none    -- `tonumber` fails ⇒ null ⇒ dropped
  else .error (.mk "option value")

def isTrue (p : List (Str × PV)) (k : String) : Bool := (getKey k.toList p).isSome

/-- `_opt_options` (options.jq:74-115): key → type name; data from fq -/
abbrev OTypes := List (Str × String)

inductive Fatal
  | args
deriving Repr, DecidableEq

def readable : FKind → Option Bool
  | .jobj | .jnum | .bin | .undec | .empty => some true
  | .missing | .dir | .noopen => some false
  | .unknown | .ghost => none     -- a ghost anywhere but among the input files is outside the model

/-! ### options as JSON values: `_opt_build_default_fixed + $parsed_args + (-o …) | . + _opt_eval($rest)` (init.jq:188-195)

  jq's `+` on objects lets the RIGHT operand win key by key, so the text of init.jq:189-193 fixes the order in
  which the four sources of an option's value override each other:
      `_opt_eval` (derived values)  >  `-o key=value`  >  dedicated flag  >  built-in default
  wherever the flag or the `-o` stands on the command line.  `objAdd`/`mergeOptions` below are that text;
  `Props.C17.merge_lookup` is the law. -/

/-- the JSON values that occur as option values (flat: what the model does not look into is `other`) -/
inductive JV
  | null
  | bool (b : Bool)
  | num (n : Int)
  | str (s : Str)
  | strs (xs : List Str)                -- array of strings (`include_path` from -L, `filenames`)
  | pairs (xs : List (Str × Str))       -- array of [NAME, VALUE] (`arg`, `argjson`, `raw_file`, `argdecode`)
  | obj (kvs : List (Str × Str))        -- `.option` as the parser stored it
  | nullArr                             -- `[null]`: "read stdin" (options.jq:181)
  | other                               -- a value the model does not look into (file content, colour tables …)
deriving DecidableEq, Repr, Inhabited

/-- jq truthiness -/
def JV.truthy : JV → Bool
  | .null => false
  | .bool b => b
  | _ => true

abbrev JObj := List (Str × JV)

/-- jq `a + b` on objects: the entries of `b` are written over `a` from left to right -/
def objAdd (a b : JObj) : JObj := b.foldl (fun m kv => setKey kv.1 (fun _ => kv.2) m) a

/-- `$obj[$k]` with jq's `null` for an absent key -/
def jget (m : JObj) (k : String) : JV := (getKey k.toList m).getD .null

def PV.toJV : PV → JV
  | .flag => .bool true
  | .str s => .str s
  | .arr xs => .strs xs
  | .pairs xs => .pairs xs
  | .obj kvs => .obj kvs

/-- `$parsed_args` as a JSON object -/
def parsedJ (p : List (Str × PV)) : JObj := p.map (fun kv => (kv.1, kv.2.toJV))

/-- canonical decimal integers `0`, `-?[1-9][0-9]*` (the only number syntax the model follows) -/
def canonInt? (v : Str) : Option Int :=
  let digits (ds : Str) : Option Nat :=
    if ds = ['0'] then some 0
    else match ds with
      | d :: _ => if d != '0' && ds.all Char.isDigit then some (ds.foldl (fun n c => 10 * n + (c.toNat - 48)) 0) else none
      | [] => none
  match v with
  | '-' :: ds => match digits ds with | some (n + 1) => some (-(Int.ofNat (n + 1))) | _ => none
  | ds => (digits ds).map Int.ofNat

/-- a JSON string body that needs no escape: `"\(.)" | fromjson` gives the text back (options.jq:252-261) -/
def simpleStr (v : Str) : Bool := v.all (fun c => decide (c.toNat ≥ 0x20) && c != '"' && c != '\\')

/-- letters only, and none of the words a JSON reader might know -/
def plainWord (v : Str) : Bool :=
  !v.isEmpty && v.all Char.isAlpha &&
    !(["true", "false", "null", "nan", "NaN", "Infinity", "infinity", "inf"].map String.toList).contains v

/-- `["a","b"]` with escape-free strings and no white space -/
def parseStrArr (v : Str) : Option (List Str) :=
  let rec items (fuel : Nat) (s : Str) (acc : List Str) : Option (List Str) :=
    match fuel with
    | 0 => none
    | fuel + 1 =>
      match s with
      | '"' :: tl =>
        let body := tl.takeWhile (· != '"')
        if !simpleStr body then none else
        match tl.dropWhile (· != '"') with
        | '"' :: ',' :: more => items fuel more (acc ++ [body])
        | ['"', ']'] => some (acc ++ [body])
        | _ => none
      | _ => none
  match v with
  | ['[', ']'] => some []
  | '[' :: tl => items (tl.length + 1) tl []
  | _ => none

/-- `[["n","v"],["m","w"]]` -/
def parsePairArr (v : Str) : Option (List (Str × Str)) :=
  let rec items (fuel : Nat) (s : Str) (acc : List (Str × Str)) : Option (List (Str × Str)) :=
    match fuel with
    | 0 => none
    | fuel + 1 =>
      match s with
      | '[' :: '"' :: tl =>
        let a := tl.takeWhile (· != '"')
        match tl.dropWhile (· != '"') with
        | '"' :: ',' :: '"' :: tl2 =>
          let b := tl2.takeWhile (· != '"')
          if !(simpleStr a && simpleStr b) then none else
          match tl2.dropWhile (· != '"') with
          | '"' :: ']' :: ',' :: more => items fuel more (acc ++ [(a, b)])
          | ['"', ']', ']'] => some (acc ++ [(a, b)])
          | _ => none
        | _ => none
      | _ => none
  match v with
  | ['[', ']'] => some []
  | '[' :: tl => items (tl.length + 1) tl []
  | _ => none

/-- options.jq:340-350 `_opt_to($type)` (`none` = the key is not in `_opt_options`: "fuzzy"); result `none` = jq `null`
    (the entry is then dropped, options.jq:368) -/
def convOne (ty : Option String) (v : Str) : Except Unmodelled (Option JV) :=
  match ty with
  | some "boolean" => (optToBool v).map (fun b => b.map JV.bool)
  | some "number" =>
    match canonInt? v with
    | some n => .ok (some (.num n))
    | none => if plainWord v || v.head? = some '@' then .ok none else .error (.mk "number option value")
  | some "string" => if simpleStr v then .ok (some (.str v)) else .error (.mk "string option value")
  | some "array_string" =>
    match parseStrArr v with
    | some xs => .ok (some (.strs xs))
    | none => if plainWord v then .ok none else .error (.mk "array option value")
  | some "array_string_pair" =>
    match parsePairArr v with
    | some xs => .ok (some (.pairs xs))
    | none => if plainWord v then .ok none else .error (.mk "pair array option value")
  | some _ => .error (.mk "option type")
  | none =>                                                       -- options.jq:330-338 `_opt_to_fuzzy`
    if v = "true".toList then .ok (some (.bool true))
    else if v = "false".toList then .ok (some (.bool false))
    else if v = "null".toList then .ok none
    else match canonInt? v with
      | some n => .ok (some (.num n))
      | none =>
        if plainWord v || (v.head? = some '@' && simpleStr v && !v.contains ' ') then .ok (some (.str v))
        else .error (.mk "fuzzy option value")

/-- options.jq:363-371 `_opt_cli_arg_to_options`: every `-o` entry converted by its key's type, `null`s dropped -/
def cliArgToOptions (ot : OTypes) : List (Str × Str) → Except Unmodelled JObj
  | [] => .ok []
  | (k, v) :: tl =>
    match convOne (getKey k ot) v, cliArgToOptions ot tl with
    | .error e, _ => .error e
    | _, .error e => .error e
    | .ok none, .ok m => .ok m
    | .ok (some j), .ok m => .ok ((k, j) :: m)

/-- the `.option` object of the parse result -/
def optionKVs (p : List (Str × PV)) : List (Str × Str) :=
  match getKey "option".toList p with
  | some (.obj kvs) => kvs
  | _ => []

/-- init.jq:189-192: `_opt_build_default_fixed + $parsed_args + ($parsed_args.option | if . then _opt_cli_arg_to_options end)` -/
def mergePre (dflt : JObj) (ot : OTypes) (p : List (Str × PV)) : Except Unmodelled JObj :=
  match cliArgToOptions ot (optionKVs p) with
  | .error e => .error e
  | .ok o => .ok (objAdd (objAdd dflt (parsedJ p)) o)

/-- can the file be read (`open | tobytes | tostring`)?  `none` = the harness does not vouch for it -/
def World.readable (w : World) (path : Str) : Option Bool :=
  match w.tok path with
  | none => none
  | some tk => FqModel.Cli.readable tk.fk

/-- options.jq:175-179 / :191-194: the positionals that are input files — all of them when the program comes from a file
    (`-f`, `--from-file`, `-o expr_file=`), all but the first (the program) otherwise -/
def positionalFiles (m : JObj) (rest : List Str) : List Str :=
  if (jget m "expr_file").truthy then rest else rest.drop 1

/-- options.jq:190-199: `--repl` without positional input files means null input -/
def replNullInput (m : JObj) (rest : List Str) : JV :=
  if (positionalFiles m rest).isEmpty && (jget m "repl").truthy then JV.bool true else JV.null

inductive EvalRes
  | fatal                              -- `_fatal_error(_exit_code_args_error)`
  | ok (over : JObj)                   -- the object `_opt_eval` returns (nulls already dropped)
deriving Repr

/-- options.jq:117-233 `_opt_eval($rest)` on the merged object `m` -/
def optEvalJ (w : World) (m : JObj) (rest : List Str) : Except Unmodelled EvalRes := do
  let mut fatal := false
  -- :118-135 every STRING value that starts with `@` is replaced by the file's content; failure is fatal
  for (_, v) in m do
    match v with
    | .str ('@' :: path) =>
      match w.readable path with
      | some false => fatal := true
      | some true => throw (.mk "option value @readable-file")
      | none => throw (.mk "no world entry for @path")
    | _ => pure ()
  -- :136-151 argjson: `fromjson` failure is fatal
  let argjson ← match jget m "argjson" with
    | .pairs xs => do
      for (_, j) in xs do
        match w.tok j with
        | none => throw (.mk "no world entry for argjson value")
        | some tk => if !tk.jsonOk then fatal := true
      pure (JV.pairs xs)
    | .null | .bool false => pure JV.null
    | _ => throw (.mk "argjson option of unmodelled type")
  -- :152-157
  let color := if jget m "monochrome_output" = .bool true then JV.bool false
    else if jget m "color_output" = .bool true then JV.bool true else JV.null
  -- :158-169 expr: -f file content, else `$rest[0] // null`
  let exprFile := jget m "expr_file"
  let expr ← if exprFile.truthy then
      match exprFile with
      | .str f =>
        match w.tok f with
        | none => throw (.mk "no world entry for expr file")
        | some tk =>
          match readable tk.fk with
          | some false => do fatal := true; pure JV.other
          | some true => pure JV.other
          | none => if tk.cc = .unknown then throw (.mk "expr file of unknown kind") else pure JV.other
      | _ => throw (.mk "expr_file option of unmodelled type")
    else pure (match rest.head? with | some e => JV.str e | none => JV.null)
  -- :175-183 filenames
  let files := positionalFiles m rest
  let filenames ← if (jget m "filenames").truthy then
      match jget m "filenames" with
      | .strs xs => pure (if xs.isEmpty then JV.nullArr else JV.strs xs)
      | _ => throw (.mk "filenames option of unmodelled type")
    else pure (if files.isEmpty then JV.nullArr else JV.strs files)
  -- :184-189
  let joinString := if (jget m "join_output").truthy then JV.str []
    else if (jget m "null_output").truthy then JV.str [Char.ofNat 0] else JV.null
  -- :190-199 `--repl` without positional input files means null input (whatever `filenames` says)
  let nullInput := replNullInput m rest
  -- :200-212 raw_file: open failure is fatal
  let rawFile ← match jget m "raw_file" with
    | .pairs xs => do
      for (_, f) in xs do
        match w.readable f with
        | some false => fatal := true
        | some true => pure ()
        | none => throw (.mk "raw-file of unknown kind")
      pure (JV.pairs xs)
    | .null | .bool false => pure JV.null
    | _ => throw (.mk "raw_file option of unmodelled type")
  -- :213-220
  let rawString := if (jget m "raw_string").truthy || (jget m "join_output").truthy || (jget m "null_output").truthy
    then JV.bool true else JV.null
  let unicode := if jget m "unicode_output" = .bool true then JV.bool true else JV.null
  let valueOutput := if jget m "value_output" = .bool true then JV.bool true else JV.null
  if fatal then return .fatal
  let over : JObj := [
    ("argjson".toList, argjson), ("color".toList, color), ("expr".toList, expr),
    ("expr_given".toList, .bool (!rest.isEmpty)), ("expr_eval_path".toList, exprFile),
    ("filenames".toList, filenames), ("join_string".toList, joinString), ("null_input".toList, nullInput),
    ("raw_file".toList, rawFile), ("raw_string".toList, rawString), ("unicode".toList, unicode),
    ("value_output".toList, valueOutput)]
  return .ok (over.filter (fun kv => kv.2 != .null))                      -- :232

inductive Merged
  | fatal
  | ok (m : JObj)
deriving Repr

/-- init.jq:188-195: the options `_main` works with -/
def mergeOptions (dflt : JObj) (ot : OTypes) (w : World) (r : R) : Except Unmodelled Merged :=
  match mergePre dflt ot r.parsed with
  | .error e => .error e
  | .ok m =>
    match optEvalJ w m r.rest with
    | .error e => .error e
    | .ok .fatal => .ok .fatal
    | .ok (.ok over) => .ok (.ok (objAdd m over))

/-! ### named arguments: `$opts.arg + $opts.argjson + $opts.raw_file + ($opts.argdecode | _map_argdecode) | from_entries`
    (init.jq:233-241) -/

inductive Src
  | arg (v : Str)          -- the string
  | json (text : Str)      -- the JSON value of the text
  | raw (path : Str)       -- the file's content as a string
  | dec (path : Str)       -- the decode value of the file
deriving DecidableEq, Repr

def pairsOf (m : JObj) (k : String) : Except Unmodelled (List (Str × Str)) :=
  match jget m k with
  | .pairs xs => .ok xs
  | _ => .error (.mk s!"{k} option is not an array of pairs")

/-- the concatenation of init.jq:234-237, in THAT order whatever the order on the command line -/
def bindList (m : JObj) : Except Unmodelled (List (Str × Src)) :=
  match pairsOf m "arg", pairsOf m "argjson", pairsOf m "raw_file", pairsOf m "argdecode" with
  | .ok a, .ok j, .ok r, .ok d =>
    .ok (a.map (fun p => (p.1, Src.arg p.2)) ++ j.map (fun p => (p.1, Src.json p.2)) ++
         r.map (fun p => (p.1, Src.raw p.2)) ++ d.map (fun p => (p.1, Src.dec p.2)))
  | .error e, _, _, _ | _, .error e, _, _ | _, _, .error e, _ | _, _, _, .error e => .error e

/-- `from_entries`: the LAST entry of a name wins -/
def bindOf (l : List (Str × Src)) (name : Str) : Option Src := (l.reverse.find? (fun p => p.1 = name)).map (·.2)

/-- `_main` reads the options by jq truthiness (init.jq:197-258) -/
def optsOfMerged (m : JObj) (r : R) : Except Unmodelled Opts := do
  let exprFile ← match jget m "expr_file" with
    | .str s => pure (some s)
    | .null | .bool false => pure none
    | _ => throw (.mk "expr_file option of unmodelled type")
  let exprArg ← match jget m "expr" with
    | .str s => pure (some s)
    | .other => pure none                      -- the content of the -f file
    | _ => throw (.mk "expr option of unmodelled type")
  let filenames ← match jget m "filenames" with
    | .strs xs => pure (xs.map some)
    | .nullArr => pure [none]
    | _ => throw (.mk "filenames option of unmodelled type")
  let decodeGroup ← match jget m "decode_group" with
    | .str s => pure s
    | _ => throw (.mk "decode_group option of unmodelled type")
  let _ := r
  return {
    exprFile := exprFile
    exprArg := if exprFile.isSome then none else exprArg
    filenames := filenames
    nullInput := (jget m "null_input").truthy
    slurp := (jget m "slurp").truthy
    stringInput := (jget m "string_input").truthy
    repl := (jget m "repl").truthy
    showHelp := (jget m "show_help").truthy
    showVersion := (jget m "show_version").truthy
    decodeGroup := decodeGroup }

/-- what the run line's observation is compared with -/
structure Pred where
  exit : Nat
  errs : List ELine      -- `expr` runs collapsed to one entry by `showErrs`
  fatal : Bool           -- one `error: …` line of a `_fatal_error`
  defaultMode : Bool     -- inputs are fed one by one to a compiled program: the independence predicate applies
  files : List (Option Str)
  pc : PClass := .unknown  -- the program's class (default mode): `.okq` programs may legitimately print nothing
  repl : Bool := false     -- --repl: inputs are read and the program run as without it, only nothing is displayed
deriving Repr

/-- class-level environment: contents are file kinds, values are value classes -/
def World.kindOf (w : World) (stdin : FKind) (n : Str) : FKind :=
  if n = "<stdin>".toList then stdin else match w.tok n with | some tk => tk.fk | none => .unknown

def classEnv (w : World) (fmt : FmtKind) (pc : PClass) (stdin : FKind) : Env FKind VClass Unit where
  openF := fun n =>
    match w.kindOf stdin n with
    | .missing | .dir | .noopen | .ghost => none     -- (ghosts never get here: `runBody` drops them first)
    | k => some k
  decode := fun k =>
    match fmt with
    | .invalid => none
    | .forced => some .obj
    | .probe => match k with
      | .jobj => some .obj
      | .jnum => some .num
      | .bin => some .obj
      | _ => none
  eval := fun v => ([()], raises pc v)

def nameOf (f : Option Str) : Str := f.getD "<stdin>".toList

/-- init.jq:170-180 `_map_argdecode`: does `open | decode` (with the -d group) fail for one of the `--argdecode` /
    `--decode-file` paths? -/
def argdecodeFails (w : World) (fmt : FmtKind) : List (Str × Src) → Except Unmodelled Bool
  | [] => .ok false
  | (_, .dec f) :: tl =>
    match w.tok f with
    | none => .error (.mk "no world entry for argdecode path")
    | some tk =>
      if tk.fk = .unknown || tk.fk = .ghost then .error (.mk "argdecode of unknown kind")
      else
        let e := classEnv w fmt PClass.ok w.stdin
        match (e.openF f).bind e.decode with
        | none => .ok true
        | some _ => argdecodeFails w fmt tl
  | _ :: tl => argdecodeFails w fmt tl

def fatalPred (c : Codes) : Pred := { exit := c.args, errs := [], fatal := true, defaultMode := false, files := [] }
def quietPred : Pred := { exit := 0, errs := [], fatal := false, defaultMode := false, files := [] }

/-- what `_main` decides before anything is read or run (init.jq:184-216) -/
inductive Decision
  | fatalArgs                       -- `_args_parse` error (:184-185) or a `_fatal_error` inside `_opt_eval` (:193)
  | help                            -- :197-214
  | version                         -- :215-216
  | run (m : JObj) (o : Opts)
deriving Repr

/-- init.jq:184-216.  The order is the code's: argument errors and the file errors of `_opt_eval` (-f, the raw-file
    paths, `--argjson` texts, `-o k=@path`) come BEFORE the help/version test, everything else after it
    (`--argdecode` paths, compiling the program, opening inputs).  The "usage" branch (:217-228) needs stdin AND stdout to
    be terminals: never on the virtual OS. -/
def mainDecide (t : Table) (dflt : JObj) (ot : OTypes) (w : World) (argv : List Str) : Except Unmodelled Decision :=
  match argsParse t argv with
  | .error _ => .ok .fatalArgs
  | .ok r =>
    match mergeOptions dflt ot w r with
    | .error e => .error e
    | .ok .fatal => .ok .fatalArgs
    | .ok (.ok m) =>
      if (jget m "show_help").truthy then .ok .help
      else if (jget m "show_version").truthy then .ok .version
      else match optsOfMerged m r with
        | .error e => .error e
        | .ok o => .ok (.run m o)

/-- the decode group's kind (`-d NAME`, default `probe`) -/
def fmtOf (w : World) (o : Opts) : Except Unmodelled FmtKind :=
  match w.tok o.decodeGroup with
  | some tk => .ok tk.fmt
  | none => if o.decodeGroup = "probe".toList then .ok FmtKind.probe else .error (.mk "no world entry for decode group")

/-- is the concatenated text of the readable inputs non-empty (init.jq:89)?  Every readable kind but `.empty` has bytes -/
def hasText (w : World) (names : List Str) : Bool :=
  names.any (fun n => match w.kindOf w.stdin n with
    | .jobj | .jnum | .bin | .undec => true
    | _ => false)

/-- init.jq:243-288: compile the program, read the inputs, run, map the error memory to the status -/
def runBody (c : Codes) (w : World) (o : Opts) (fmt : FmtKind) : Except Unmodelled Pred := do
      -- program class
      let pc ← match o.exprFile, o.exprArg with
        | some f, _ => match w.tok f with
          | some tk => pure tk.cc
          | none => throw (.mk "no world entry for expr file")
        | none, some e => match w.tok e with
          | some tk => pure tk.pc
          | none => if e = ['.'] then pure PClass.ok                        -- the default expr "." (options.jq:51)
                    else throw (.mk "no world entry for expr")
        | none, none => throw (.mk "no expr")
      if pc = .unknown then throw (.mk "program of unknown class")
      if pc = .nc && !o.repl then                                            -- :137-141 halts before any input
        return { exit := c.compile, errs := [], fatal := true, defaultMode := false, files := [] }
      -- `Props.C17.ghost_input_is_absent`: an input whose `open` is a ghost leaves no trace in any mode — the loop runs
      -- as if the name were not in the list (the LIST: a ghost that is the only file does not make fq read stdin)
      let names := (o.filenames.map nameOf).filter (fun n => w.kindOf w.stdin n != .ghost)
      -- unknown file kinds are outside the model
      for n in names do
        if n ≠ "<stdin>".toList then
          match w.tok n with
          | none => throw (.mk "no world entry for input file")
          | some tk => if tk.fk = .unknown && !o.nullInput then throw (.mk "input file of unknown kind")
      let env := classEnv w fmt pc w.stdin
      if o.repl then
        -- init.jq:246-258: `[_inputs] | map(_cli_eval(…)) | _repl({})`: every input is read FIRST, then the program is
        -- compiled and run on each value; the values become the repl's inputs (nothing is displayed; the virtual
        -- terminal is at EOF).  A program that does not compile halts at the first value — none, if there is no value.
        let rawEnv : Env FKind VClass Unit := { env with decode := fun _ => some .str }
        let (st, vals) : St Unit × List VClass :=
          if o.nullInput then ({}, [.null])
          else if o.stringInput then
            let (st, _) := collect rawEnv names ({} : St Unit) []
            (st, if o.slurp then [.str] else (if hasText w names then [.str] else []))
          else if o.slurp then ((collect env names ({} : St Unit) []).1, [.arr])
          else collect env names ({} : St Unit) []
        if pc = .nc && !vals.isEmpty then
          return { exit := c.compile, errs := st.errs, fatal := true, defaultMode := false, files := [], repl := true }
        let st := vals.foldl (fun st v => evalOne env v st) st
        return { exit := st.exit c, errs := st.errs, fatal := false, defaultMode := false, files := [], repl := true }
      if o.nullInput then                                                    -- :265 `_query_null`
        let st := evalOne env VClass.null ({} : St Unit)
        return { exit := st.exit c, errs := st.errs, fatal := false, defaultMode := false, files := [] }
      else if o.stringInput then                                             -- :268, init.jq:63-105
        -- every file is read raw first (`tobytes | tostring` never fails), then the lines are fed
        let rawEnv : Env FKind VClass Unit := { env with decode := fun _ => some .str }
        let (st, _) := collect rawEnv names ({} : St Unit) []
        -- ≥ 1 line iff the concatenated text is not empty (:89): some readable input has at least one byte
        let ninputs := if o.slurp then 1 else (if hasText w names then 1 else 0)
        let st := if ninputs = 0 then st else evalOne env VClass.str st
        return { exit := st.exit c, errs := st.errs, fatal := false, defaultMode := false, files := [] }
      else if o.slurp then                                                   -- :269 `[inputs]`
        let (st, _) := collect env names ({} : St Unit) []
        let st := evalOne env VClass.arr st
        return { exit := st.exit c, errs := st.errs, fatal := false, defaultMode := false, files := [] }
      else
        let st := loop env names ({} : St Unit)
        return { exit := st.exit c, errs := st.errs, fatal := false, defaultMode := true, files := o.filenames, pc := pc }

/-- init.jq:229-288: the run proper, at class level.  :233-241 `_slurps(… $opts.argdecode | _map_argdecode …)` comes first:
    `open | decode` (with the -d group) of every decode-file path; a failure of either is fatal -/
def runModel (c : Codes) (w : World) (m : JObj) (o : Opts) : Except Unmodelled Pred :=
  match fmtOf w o with
  | .error e => .error e
  | .ok fmt =>
    match bindList m with
    | .error e => .error e
    | .ok bl =>
      match argdecodeFails w fmt bl with
      | .error e => .error e
      | .ok true => .ok (fatalPred c)
      | .ok false => runBody c w o fmt

/-- `_main` (init.jq:169-290) at class level -/
def mainModel (t : Table) (c : Codes) (dflt : JObj) (ot : OTypes) (w : World) (argv : List Str) : Except Unmodelled Pred :=
  match mainDecide t dflt ot w argv with
  | .error e => .error e
  | .ok .fatalArgs => .ok (fatalPred c)
  | .ok .help => .ok quietPred
  | .ok .version => .ok quietPred
  | .ok (.run m o) => runModel c w m o

end FqModel.Cli
