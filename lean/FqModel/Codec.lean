import FqModel.Bits
/-!
  C14 — executable models of fq's text/binary conversion functions (core Lean only).

  A Go `string` is a byte sequence, so every "text" below is `Bytes = List UInt8` (this matters:
  `from_urlencode("%ff")` yields the one-byte, non-UTF-8 Go string "\xff", and the decoders are
  fed arbitrary bytes by the malformed-input cases).  Unicode strings (the domain of the string
  *encoders* `to_iso8859_1`, `to_utf8`, `to_utf16*`) are `List Char`: a Lean `Char` is exactly a
  Unicode scalar value, i.e. what a valid-UTF-8 Go string consists of.

  Errors are one class (`none`): the observation of the correspondence is "value or error",
  never Go's error text.

  Sources mirrored (fq = /repo, Go 1.23 stdlib, golang.org/x/text v0.24.0):
    hex      format/text/encoding.go:23-45       -> encoding/hex  Decode / Encode
    base64   format/text/encoding.go:47-88       -> encoding/base64 (*Encoding).Decode / decodeQuantum
    url      format/text/url.go:11-33            -> net/url escape / unescape / shouldEscape
    latin-1  format/text/encoding.go:197-240     -> x/text/encoding/charmap (ISO8859_1)
    utf-8/16 format/text/encoding.go:197-240     -> x/text/encoding/unicode
    radix    format/math/radix.jq
-/
namespace FqModel.Codec

abbrev Bytes := List UInt8

def bytesOfAscii (s : String) : Bytes := s.toList.map (fun c => UInt8.ofNat c.toNat)

/-! ## hex (encoding/hex) -/

/-- `hextable = "0123456789abcdef"` -/
def hexDig (n : Nat) : UInt8 := if n < 10 then UInt8.ofNat (48 + n) else UInt8.ofNat (87 + n)

/-- `reverseHexTable` (hex.go): both cases accepted -/
def unhex (c : UInt8) : Option Nat :=
  let n := c.toNat
  if 48 ≤ n ∧ n ≤ 57 then some (n - 48)
  else if 97 ≤ n ∧ n ≤ 102 then some (n - 87)
  else if 65 ≤ n ∧ n ≤ 70 then some (n - 55)
  else none

def hexEnc : Bytes → Bytes
  | [] => []
  | b :: bs => hexDig (b.toNat / 16) :: hexDig (b.toNat % 16) :: hexEnc bs

/-- hex.Decode: pairs left to right, first bad byte is an `InvalidByteError`; an odd trailing
    byte is `InvalidByteError` or `ErrLength` — one error class here. -/
def hexDec : Bytes → Option Bytes
  | [] => some []
  | [_] => none
  | p :: q :: rest =>
    match unhex p, unhex q with
    | some a, some b => (hexDec rest).map (UInt8.ofNat (16 * a + b) :: ·)
    | _, _ => none

/-- `to_hex` of a binary: bits are read through `bitio.NewIOReader`, which zero-pads the last
    byte on the right (encoding.go:38-43) -/
def toHex (bits : Bits) : Bytes := hexEnc (bitsToBytesPadR bits)

/-! ## base64 (encoding/base64) -/

structure B64 where
  alpha : Bytes      -- 64 symbols
  padded : Bool      -- padChar = '=' (StdPadding) or NoPadding
deriving Repr

def alphaStd : Bytes := bytesOfAscii "ABCDEFGHIJKLMNOPQRSTUVWXYZabcdefghijklmnopqrstuvwxyz0123456789+/"
def alphaUrl : Bytes := bytesOfAscii "ABCDEFGHIJKLMNOPQRSTUVWXYZabcdefghijklmnopqrstuvwxyz0123456789-_"

/-- encoding.go:48-59 `base64Encoding` : "url" | "rawstd" | "rawurl" | default std -/
def b64Std : B64 := ⟨alphaStd, true⟩
def b64Url : B64 := ⟨alphaUrl, true⟩
def b64RawStd : B64 := ⟨alphaStd, false⟩
def b64RawUrl : B64 := ⟨alphaUrl, false⟩

def B64.sym (e : B64) (v : Nat) : UInt8 := e.alpha.getD v 0

/-- `decodeMap[c]` (0xff = none) -/
def B64.val (e : B64) (c : UInt8) : Option Nat := e.alpha.idxOf? c

def pad : UInt8 := 61

/-- (*Encoding).Encode: 3 bytes -> 4 symbols; 1 or 2 remaining bytes -> 2 or 3 symbols (+ padding) -/
def B64.enc (e : B64) : Bytes → Bytes
  | [] => []
  | [a] =>
    [e.sym (a.toNat / 4), e.sym (a.toNat % 4 * 16)] ++ (if e.padded then [pad, pad] else [])
  | [a, b] =>
    [e.sym (a.toNat / 4), e.sym (a.toNat % 4 * 16 + b.toNat / 16), e.sym (b.toNat % 16 * 4)]
      ++ (if e.padded then [pad] else [])
  | a :: b :: c :: rest =>
    e.sym (a.toNat / 4) :: e.sym (a.toNat % 4 * 16 + b.toNat / 16)
      :: e.sym (b.toNat % 16 * 4 + c.toNat / 64) :: e.sym (c.toNat % 64) :: e.enc rest

def byte0 (v0 v1 : Nat) : UInt8 := UInt8.ofNat (v0 * 4 + v1 / 16)
def byte1 (v1 v2 : Nat) : UInt8 := UInt8.ofNat (v1 % 16 * 16 + v2 / 4)
def byte2 (v2 v3 : Nat) : UInt8 := UInt8.ofNat (v2 % 4 * 64 + v3)

/-- The quantum loop of (*Encoding).Decode / decodeQuantum (base64.go) on input from which '\r' and
    '\n' have been removed (Go skips them at every position: in symbol position `j--; continue`,
    after '=' by the two "skip over newlines" loops).  Non-strict: left-over bits of a short last
    quantum are ignored.  Cases, by position j in the quantum:
      end of input:  j=0 ok; j=1 error; j=2,3 error if padded, else short quantum
      '=' (padded only): j=0,1 error; j=2 needs exactly one more '=' then end; j=3 needs end
      any other non-alphabet byte: error  -/
def B64.decQ (e : B64) : Bytes → Option Bytes
  | [] => some []
  | c0 :: r0 =>
    match e.val c0 with
    | none => none
    | some v0 =>
      match r0 with
      | [] => none
      | c1 :: r1 =>
        match e.val c1 with
        | none => none
        | some v1 =>
          match r1 with
          | [] => if e.padded then none else some [byte0 v0 v1]
          | c2 :: r2 =>
            match e.val c2 with
            | none =>
              if e.padded && c2 == pad then
                (match r2 with
                 | [p] => if p == pad then some [byte0 v0 v1] else none
                 | _ => none)
              else none
            | some v2 =>
              match r2 with
              | [] => if e.padded then none else some [byte0 v0 v1, byte1 v1 v2]
              | c3 :: r3 =>
                match e.val c3 with
                | none =>
                  if e.padded && c3 == pad then
                    (match r3 with
                     | [] => some [byte0 v0 v1, byte1 v1 v2]
                     | _ => none)
                  else none
                | some v3 => (e.decQ r3).map (fun t => byte0 v0 v1 :: byte1 v1 v2 :: byte2 v2 v3 :: t)

def isNL (c : UInt8) : Bool := c == 10 || c == 13

def B64.dec (e : B64) (src : Bytes) : Option Bytes := e.decQ (src.filter (fun c => !isNL c))

def B64.toB64 (e : B64) (bits : Bits) : Bytes := e.enc (bitsToBytesPadR bits)

/-! ## URL escaping (net/url) : mode encodeQueryComponent (`query = true`, to/from_urlencode) and
    encodePathSegment (`query = false`, to/from_urlpath) -/

def isAlnum (n : Nat) : Bool := (97 ≤ n && n ≤ 122) || (65 ≤ n && n ≤ 90) || (48 ≤ n && n ≤ 57)

/-- url.go shouldEscape for the two modes fq uses -/
def shouldEscape (query : Bool) (c : UInt8) : Bool :=
  let n := c.toNat
  if isAlnum n then false
  -- '-', '_', '.', '~'
  else if n == 45 || n == 95 || n == 46 || n == 126 then false
  -- '$', '&', '+', ',', '/', ':', ';', '=', '?', '@'
  else if n == 36 || n == 38 || n == 43 || n == 44 || n == 47 || n == 58 || n == 59 || n == 61 || n == 63 || n == 64 then
    if query then true
    else n == 47 || n == 59 || n == 44 || n == 63
  else true

/-- `upperhex = "0123456789ABCDEF"` -/
def upperhex (n : Nat) : UInt8 := if n < 10 then UInt8.ofNat (48 + n) else UInt8.ofNat (55 + n)

def urlEscape (query : Bool) : Bytes → Bytes
  | [] => []
  | c :: cs =>
    if c == 32 && query then 43 :: urlEscape query cs
    else if shouldEscape query c then 37 :: upperhex (c.toNat / 16) :: upperhex (c.toNat % 16) :: urlEscape query cs
    else c :: urlEscape query cs

/-- url.go unescape: a '%' needs two hex digits (else EscapeError); '+' is a space in query mode -/
def urlUnescape (query : Bool) : Bytes → Option Bytes
  | [] => some []
  | c :: rest =>
    if c == 37 then
      match rest with
      | h1 :: h2 :: rest' =>
        match unhex h1, unhex h2 with
        | some a, some b => (urlUnescape query rest').map (UInt8.ofNat (16 * a + b) :: ·)
        | _, _ => none
      | _ => none
    else if c == 43 && query then (urlUnescape query rest).map ((32 : UInt8) :: ·)
    else (urlUnescape query rest).map (c :: ·)


/-! ## URL query strings: `to_urlquery` / `from_urlquery` (format/text/url.go:35-82) over
    net/url `Values.Encode` and `ParseQuery`.  A `url.Values` is modelled canonically as an
    association list sorted by key (Go string order = bytewise), values in insertion order.
    fq maps a key with one value to a string and a key with several values to an array
    (`fromURLValues`), and back (`toURLValues`). -/

abbrev QueryVals := List (Bytes × List Bytes)

def ltBytes : Bytes → Bytes → Bool
  | [], [] => false
  | [], _ :: _ => true
  | _ :: _, [] => false
  | a :: as, b :: bs => if a.toNat < b.toNat then true else if b.toNat < a.toNat then false else ltBytes as bs

/-- the `key=value` pairs in the order Values.Encode writes them: keys sorted, values in order -/
def queryPairs (q : QueryVals) : List (Bytes × Bytes) := q.flatMap (fun kv => kv.2.map (fun v => (kv.1, v)))

def encodePairs : List (Bytes × Bytes) → Bytes
  | [] => []
  | [(k, v)] => urlEscape true k ++ 61 :: urlEscape true v
  | (k, v) :: rest => urlEscape true k ++ 61 :: urlEscape true v ++ 38 :: encodePairs rest

/-- Values.Encode -/
def encodeQuery (q : QueryVals) : Bytes := encodePairs (queryPairs q)

/-- strings.Cut(s, sep): the text before the first `sep` and the text after it (none if absent) -/
def cutAt (sep : UInt8) : Bytes → Bytes × Option Bytes
  | [] => ([], none)
  | c :: cs =>
    if c == sep then ([], some cs)
    else let (a, b) := cutAt sep cs; (c :: a, b)

/-- `m[key] = append(m[key], value)` on the sorted association list -/
def appendKV (k v : Bytes) : QueryVals → QueryVals
  | [] => [(k, [v])]
  | (k', vs) :: rest =>
    if k == k' then (k', vs ++ [v]) :: rest
    else if ltBytes k k' then (k, [v]) :: (k', vs) :: rest
    else (k', vs) :: appendKV k v rest

/-- parseQuery (url.go): pieces separated by '&'; a piece containing ';' is an error ("invalid
    semicolon separator"), an empty piece is skipped, the rest is cut at the first '=' and both
    halves are query-unescaped (an escape error is an error).  fq returns the error if there is
    any (url.go:49-52), so the first error decides.  Fuel = number of bytes + 1. -/
def parseQueryAux : Nat → Bytes → QueryVals → Option QueryVals
  | 0, _, _ => none
  | fuel + 1, t, m =>
    if t.isEmpty then some m
    else
      let (piece, rest) := cutAt 38 t
      let rest := rest.getD []
      if piece.contains 59 then none
      else if piece.isEmpty then parseQueryAux fuel rest m
      else
        let (k, v) := cutAt 61 piece
        match urlUnescape true k, urlUnescape true (v.getD []) with
        | some k', some v' => parseQueryAux fuel rest (appendKV k' v' m)
        | _, _ => none

def parseQuery (t : Bytes) : Option QueryVals := parseQueryAux (t.length + 1) t []

/-! ## ISO-8859-1 (x/text charmap: encoder fails with RepertoireError on a rune it cannot map,
    the whole `io.Copy` then fails, encoding.go:205-208; the decoder maps every byte) -/

def toLatin1 : List Char → Option Bytes
  | [] => some []
  | c :: cs => if c.toNat < 256 then (toLatin1 cs).map (UInt8.ofNat c.toNat :: ·) else none

def fromLatin1 (bs : Bytes) : List Char := bs.map (fun b => Char.ofNat b.toNat)


/-! ## UTF-8 (x/text/encoding/unicode `UTF8`): the encoder is the identity on valid strings; the
    decoder (utf8Decoder.Transform, whole input, atEOF) copies well-formed sequences and replaces
    every *maximal subpart of an ill-formed subsequence* (W3C/Unicode §3.9 practice) by U+FFFD. -/

def repl : Char := Char.ofNat 0xFFFD

def utf8EncodeChar (c : Char) : Bytes :=
  if c.toNat < 0x80 then [UInt8.ofNat c.toNat]
  else if c.toNat < 0x800 then [UInt8.ofNat (0xC0 + c.toNat / 64), UInt8.ofNat (0x80 + c.toNat % 64)]
  else if c.toNat < 0x10000 then
    [UInt8.ofNat (0xE0 + c.toNat / 4096), UInt8.ofNat (0x80 + c.toNat / 64 % 64), UInt8.ofNat (0x80 + c.toNat % 64)]
  else
    [UInt8.ofNat (0xF0 + c.toNat / 262144), UInt8.ofNat (0x80 + c.toNat / 4096 % 64),
     UInt8.ofNat (0x80 + c.toNat / 64 % 64), UInt8.ofNat (0x80 + c.toNat % 64)]

/-- the bytes of a Go string holding the unicode string `s`; also fq's `to_utf8` -/
def toUtf8 (s : List Char) : Bytes := s.flatMap utf8EncodeChar

/-- utf8internal.First + AcceptRanges for a lead byte ≥ 0x80: (sequence length, lo, hi of the
    SECOND byte); length 0 = invalid starter (80..C1, F5..FF) -/
def utf8First (c : Nat) : Nat × Nat × Nat :=
  if c < 0xC2 then (0, 0, 0)
  else if c ≤ 0xDF then (2, 0x80, 0xBF)
  else if c = 0xE0 then (3, 0xA0, 0xBF)
  else if c = 0xED then (3, 0x80, 0x9F)
  else if c ≤ 0xEF then (3, 0x80, 0xBF)
  else if c = 0xF0 then (4, 0x90, 0xBF)
  else if c ≤ 0xF3 then (4, 0x80, 0xBF)
  else if c = 0xF4 then (4, 0x80, 0x8F)
  else (0, 0, 0)

def isCB (n : Nat) : Bool := 0x80 ≤ n && n ≤ 0xBF

def fromUtf8 : Bytes → List Char
  | [] => []
  | c :: rest =>
    if c.toNat < 0x80 then Char.ofNat c.toNat :: fromUtf8 rest
    else
      match utf8First c.toNat with
      | (0, _, _) => repl :: fromUtf8 rest
      | (size, lo, hi) =>
        match rest with
        | [] => [repl]
        | c1 :: r1 =>
          if c1.toNat < lo || hi < c1.toNat then repl :: fromUtf8 (c1 :: r1)
          else if size == 2 then Char.ofNat ((c.toNat - 0xC0) * 64 + (c1.toNat - 0x80)) :: fromUtf8 r1
          else
            match r1 with
            | [] => [repl]
            | c2 :: r2 =>
              if !isCB c2.toNat then repl :: fromUtf8 (c2 :: r2)
              else if size == 3 then
                Char.ofNat ((c.toNat - 0xE0) * 4096 + (c1.toNat - 0x80) * 64 + (c2.toNat - 0x80)) :: fromUtf8 r2
              else
                match r2 with
                | [] => [repl]
                | c3 :: r3 =>
                  if !isCB c3.toNat then repl :: fromUtf8 (c3 :: r3)
                  else Char.ofNat ((c.toNat - 0xF0) * 262144 + (c1.toNat - 0x80) * 4096
                                    + (c2.toNat - 0x80) * 64 + (c3.toNat - 0x80)) :: fromUtf8 r3
termination_by l => l.length

/-! ## UTF-16 (x/text/encoding/unicode `UTF16(endianness, bomPolicy)`):
    "UTF16" = LittleEndian+UseBOM, "UTF16LE"/"UTF16BE" = IgnoreBOM (encoding.go:93-98) -/

def utf16Units (c : Char) : List Nat :=
  if c.toNat < 0x10000 then [c.toNat]
  else [0xD800 + (c.toNat - 0x10000) / 1024, 0xDC00 + (c.toNat - 0x10000) % 1024]

def unitBytes (le : Bool) (u : Nat) : Bytes :=
  if le then [UInt8.ofNat (u % 256), UInt8.ofNat (u / 256)] else [UInt8.ofNat (u / 256), UInt8.ofNat (u % 256)]

def utf16Body (le : Bool) (s : List Char) : Bytes := (s.flatMap utf16Units).flatMap (unitBytes le)

/-- utf16Encoder.Transform writes the BOM at the start of its first call; QUIRK: fq copies the
    string through `Encoder.Writer` (encoding.go:205), and for the empty string no Write — hence
    no Transform — ever happens, so `"" | to_utf16` is the empty binary, without BOM. -/
def toUtf16 (le bom : Bool) (s : List Char) : Bytes :=
  if bom && !s.isEmpty then unitBytes le 0xFEFF ++ utf16Body le s else utf16Body le s

/-- 16-bit units of a byte string, and whether a single byte is left over -/
def unitsOfBytes (le : Bool) : Bytes → List Nat × Bool
  | [] => ([], false)
  | [_] => ([], true)
  | a :: b :: rest =>
    let (us, t) := unitsOfBytes le rest
    ((if le then b.toNat * 256 + a.toNat else a.toNat * 256 + b.toNat) :: us, t)

def isSurr (x : Nat) : Bool := 0xD800 ≤ x && x ≤ 0xDFFF
def isTrail (x : Nat) : Bool := 0xDC00 ≤ x && x ≤ 0xDFFF

/-- utf16Decoder.Transform (atEOF): a surrogate unit followed by a unit in DC00..DFFF is combined
    by utf16.DecodeRune (U+FFFD, both units consumed, if the first is not a lead surrogate); any
    other surrogate unit is U+FFFD (one unit consumed). -/
def fromUtf16Units : List Nat → List Char
  | [] => []
  | x :: rest =>
    if isSurr x then
      match rest with
      | [] => [repl]
      | y :: rest' =>
        if isTrail y then
          (if x ≤ 0xDBFF then Char.ofNat (0x10000 + (x - 0xD800) * 1024 + (y - 0xDC00)) else repl)
            :: fromUtf16Units rest'
        else repl :: fromUtf16Units (y :: rest')
    else Char.ofNat x :: fromUtf16Units rest
termination_by l => l.length

/-- `acceptBOM`: a leading FE FF / FF FE selects the byte order and is dropped -/
def fromUtf16 (le acceptBom : Bool) (bs : Bytes) : List Char :=
  let (le', body) :=
    if acceptBom then
      match bs with
      | 0xFE :: 0xFF :: rest => (false, rest)
      | 0xFF :: 0xFE :: rest => (true, rest)
      | _ => (le, bs)
    else (le, bs)
  let (us, trailing) := unitsOfBytes le' body
  fromUtf16Units us ++ (if trailing then [repl] else [])


/-! ## integer representation: gojqx.ToGoJQValueFn (internal/gojqx/totype.go:36-67), the rule that
    decides whether a Go integer handed to jq (by Normalize before to_yaml/to_toml/…, by decoders)
    is a Go `int` or a `*big.Int`.  gojq and the third-party encoders treat the two differently:
    a *big.Int is marshalled by yaml.v3 / BurntSushi/toml as a quoted string. -/

def minInt : Int := -(2 ^ 63)
def maxInt : Int := 2 ^ 63 - 1

/-- a Go integer with its static type -/
inductive GoInt where
  | int (v : Int)      -- int (64 bit)
  | int64 (v : Int)
  | uint64 (v : Int)
  | big (v : Int)      -- *big.Int
deriving Repr, DecidableEq

def GoInt.val : GoInt → Int
  | .int v => v | .int64 v => v | .uint64 v => v | .big v => v

/-- the value lies in the range of its static type -/
def GoInt.valid : GoInt → Bool
  | .int v => decide (minInt ≤ v ∧ v ≤ maxInt)
  | .int64 v => decide (minInt ≤ v ∧ v ≤ maxInt)
  | .uint64 v => decide (0 ≤ v ∧ v ≤ 2 ^ 64 - 1)
  | .big _ => true

/-- what jq gets: an `int` or a `*big.Int` -/
inductive JqInt where
  | int (v : Int)
  | big (v : Int)
deriving Repr, DecidableEq

/-- totype.go:44-66, branch for branch -/
def toGoJQInt : GoInt → JqInt
  | .int v => .int v
  | .int64 v => if minInt ≤ v ∧ v ≤ maxInt then .int v else .big v
  | .uint64 v => if v ≤ maxInt then .int v else .big v
  | .big v =>
    -- vv.IsInt64() && vv.Int64() >= math.MinInt && vv.Int64() <= math.MaxInt
    if minInt ≤ v ∧ v ≤ maxInt then (if minInt ≤ v ∧ v ≤ maxInt then .int v else .big v) else .big v

/-- REGRESSION MODEL (documentation): the demotion test `vv.BitLen() < bits.UintSize` (seeded change
    S2-C14-2): |v| < 2^63, which leaves −2^63 a *big.Int -/
def toGoJQIntBitLen : GoInt → JqInt
  | .big v => if v.natAbs < 2 ^ 63 then .int v else .big v
  | g => toGoJQInt g

/-! ## radix (format/math/radix.jq), integers only -/

def radixTable : List Char := "0123456789abcdefghijklmnopqrstuvwxyzABCDEFGHIJKLMNOPQRSTUVWXYZ@_".toList

/-- `[recurse(if . > 0 then _intdiv(.; $base) else empty end) | . % $base]` : n, n/b, … down to and
    including the first 0, each mod b — least significant first, with a trailing 0.
    (fuel-bounded so that the kernel can evaluate it; n+1 steps suffice when b ≥ 2) -/
def radixDigitsLSF (b : Nat) : Nat → Nat → List Nat
  | 0, _ => []
  | fuel + 1, n => if n > 0 then n % b :: radixDigitsLSF b fuel (n / b) else [n % b]

/-- radix.jq `to_radix($base)` for a non-negative integer: `$base < 2` is the error "base too
    small" (since /repo 1a4271bf; before, base 1 never terminated and base 0 divided by zero),
    `$base > 64` is "base too large"; 0 is "0" -/
def toRadix (b n : Nat) : Option (List Char) :=
  if b < 2 then none
  else if n = 0 then some ['0']
  else if b ≤ radixTable.length then
    some (((radixDigitsLSF b (n + 1) n).reverse.drop 1).map (fun d => radixTable.getD d '?'))
  else none

/-- the `$table` object of radix.jq -/
def radixVal (c : Char) : Option Nat := radixTable.idxOf? c

/-- radix.jq `from_radix($base)` as repaired by /repo 1a4271bf: `split("") | reverse | map(…)` where
    every character must be in the table AND its digit must be below `$base` (else error
    "invalid char"), then `reduce .[] as $c ([1,0]; [.[0]*$base, .[1] + .[0]*$c])` -/
def fromRadixLSF (b : Nat) : List Char → Nat → Nat → Option Nat
  | [], _, ans => some ans
  | c :: cs, pow, ans =>
    match radixVal c with
    | none => none
    | some d => if b ≤ d then none else fromRadixLSF b cs (pow * b) (ans + pow * d)

/-- … and the empty string is an error ("cannot from_radix convert empty string") -/
def fromRadix (b : Nat) (s : List Char) : Option Nat :=
  if s.isEmpty then none else fromRadixLSF b s.reverse 1 0

/-! REGRESSION MODEL (documentation only, not used by the driver): from_radix as it was before
    /repo 1a4271bf — digits were never compared with the base ("9" | from_radix(2) = 9) and the
    empty string was 0.  Former known findings radix-digit-not-below-base / radix-empty-string. -/
def fromRadixLegacyLSF (b : Nat) : List Char → Nat → Nat → Option Nat
  | [], _, ans => some ans
  | c :: cs, pow, ans =>
    match radixVal c with
    | none => none
    | some d => fromRadixLegacyLSF b cs (pow * b) (ans + pow * d)

def fromRadixLegacy (b : Nat) (s : List Char) : Option Nat := fromRadixLegacyLSF b s.reverse 1 0

end FqModel.Codec
