import FqModel.Bits
import FqModel.Gen.Crc
/-!
  C15 — container decoders: executable models (core Lean only).

  * `crc32` (reflected polynomial 0xEDB88320, bit by bit) and `adler32` on byte lists: the references
    that gzip / png / zip / zlib checksums are compared with.
  * fq's own table driven CRC, `pkg/checksum/crc.go` (`MakeTable`, `(*CRC).Write`, `(*CRC).Sum`).
  * `uintAssertBytes`: the `valid` / `invalid` description (`pkg/decode/scalar.go:105-141`).
  * structure parsers transliterated from fq's decoders, with the matching writers:
    tar (`format/tar/tar.go`), gzip member (`format/gzip/gzip.go`), png chunks (`format/png/png.go`),
    ogg page (`format/ogg/ogg_page.go`).
  Strings are kept as the bytes of the field; fq decodes them as UTF-8 (BOM stripped, invalid bytes
  replaced), which is the identity on the valid, BOM-less UTF-8 the generators produce.
-/
namespace FqModel.Container

abbrev Bytes := List UInt8

def iter {α} (f : α → α) : Nat → α → α
  | 0, x => x
  | n+1, x => iter f n (f x)

/-! ## integers in byte strings -/

/-- little endian value -/
def leNat : Bytes → Nat
  | [] => 0
  | b :: r => b.toNat + 256 * leNat r

/-- big endian value -/
def beNat (bs : Bytes) : Nat := bs.foldl (fun acc b => 256 * acc + b.toNat) 0

/-- `w` little endian bytes of `n` -/
def toLE : Nat → Nat → Bytes
  | 0, _ => []
  | w+1, n => UInt8.ofNat (n % 256) :: toLE w (n / 256)

/-- `w` big endian bytes of `n` -/
def toBE : Nat → Nat → Bytes
  | 0, _ => []
  | w+1, n => UInt8.ofNat (n / 256 ^ w % 256) :: toBE w n

/-- `n` bytes from the front, or `none` when fewer are left (every fq read fails past the end) -/
def takeN (n : Nat) (bs : Bytes) : Option (Bytes × Bytes) :=
  if bs.length < n then none else some (bs.take n, bs.drop n)

/-! ## CRC-32, reflected (IEEE 802.3: gzip, png, zip) — bit by bit reference -/

def crc32Poly : BitVec 32 := 0xEDB88320#32

/-- one bit: shift right, xor the polynomial when a one fell out -/
def crcBitR (s : BitVec 32) : BitVec 32 :=
  (s >>> 1) ^^^ (if s.getLsbD 0 then crc32Poly else 0#32)

def crc32Step (s : BitVec 32) (b : UInt8) : BitVec 32 :=
  iter crcBitR 8 (s ^^^ BitVec.ofNat 32 b.toNat)

def crc32Update (s : BitVec 32) (bs : Bytes) : BitVec 32 := bs.foldl crc32Step s

def crc32 (bs : Bytes) : BitVec 32 := crc32Update 0xFFFFFFFF#32 bs ^^^ 0xFFFFFFFF#32

/-! ## Adler-32 (zlib) -/

def adlerMod : Nat := 65521

def adlerStep (st : Nat × Nat) (b : UInt8) : Nat × Nat :=
  let a := (st.1 + b.toNat) % adlerMod
  (a, (st.2 + a) % adlerMod)

def adlerState (bs : Bytes) : Nat × Nat := bs.foldl adlerStep (1, 0)

def adler32 (bs : Bytes) : Nat := let s := adlerState bs; s.2 * 65536 + s.1

/-! ## fq's table driven CRC (`pkg/checksum/crc.go`) -/

/-- `MakeTable` (crc.go:11-29), entry `i`: most significant bit first, Go `uint` arithmetic under `mask` -/
def makeTableEntry (poly bits i : Nat) : Nat :=
  let mask := (1 <<< bits) - 1
  iter (fun crc =>
    if crc &&& (1 <<< (bits - 1)) != 0 then ((crc <<< 1) ^^^ poly) &&& mask
    else (crc <<< 1) &&& mask) 8 (i <<< (bits - 8))

inductive CrcOut
  | ok (cur : Nat)
  | panic
deriving Repr, DecidableEq

/-- one byte of `(*CRC).Write` (crc.go:43-62) as a function of the 256 entry table; an index past the
    table is Go's index-out-of-range panic, an unsupported width the explicit panic -/
def crcWriteByte (bits : Nat) (tbl : Array Nat) (cur : Nat) (b : UInt8) : CrcOut :=
  match bits with
  | 8 => match tbl[cur ^^^ b.toNat]? with
    | some t => .ok t
    | none => .panic
  | 16 => match tbl[(cur >>> 8) ^^^ b.toNat]? with
    | some t => .ok (((cur <<< 8) ^^^ t) &&& 0xffff)
    | none => .panic
  | 32 => match tbl[(cur >>> 24) ^^^ b.toNat]? with
    | some t => .ok (((cur <<< 8) ^^^ t) &&& 0xffffffff)
    | none => .panic
  | _ => .panic

def crcWrite (bits : Nat) (tbl : Array Nat) : Nat → Bytes → CrcOut
  | cur, [] => .ok cur
  | cur, b :: r => match crcWriteByte bits tbl cur b with
    | .ok c => crcWrite bits tbl c r
    | .panic => .panic

/-- `(*CRC).Sum(nil)` (crc.go:64-76): big endian, truncated to bytes -/
def crcSum (bits cur : Nat) : Option Bytes :=
  match bits with
  | 8 => some [UInt8.ofNat (cur % 256)]
  | 16 => some [UInt8.ofNat (cur >>> 8 % 256), UInt8.ofNat (cur % 256)]
  | 32 => some [UInt8.ofNat (cur >>> 24 % 256), UInt8.ofNat (cur >>> 16 % 256), UInt8.ofNat (cur >>> 8 % 256), UInt8.ofNat (cur % 256)]
  | _ => none

/-- bit by bit reference of the same CRC family (msb first, no reflection, no final xor) -/
def crcMsbBit (poly bits s : Nat) : Nat :=
  if s.testBit (bits - 1) then ((s <<< 1) ^^^ poly) % 2 ^ bits else (s <<< 1) % 2 ^ bits

def crcMsbStep (poly bits s : Nat) (b : UInt8) : Nat :=
  iter (crcMsbBit poly bits) 8 (s ^^^ (b.toNat <<< (bits - 8)))

def crcMsb (poly bits init : Nat) (bs : Bytes) : Nat := bs.foldl (crcMsbStep poly bits) init

def genTable (name : String) : Option (Array Nat × Nat × Nat) :=
  if name == "ATM8" then some (Gen.Crc.ATM8Table, Gen.Crc.ATM8TablePoly, Gen.Crc.ATM8TableBits)
  else if name == "ANSI16" then some (Gen.Crc.ANSI16Table, Gen.Crc.ANSI16TablePoly, Gen.Crc.ANSI16TableBits)
  else if name == "Poly04c11db7" then some (Gen.Crc.Poly04c11db7Table, Gen.Crc.Poly04c11db7TablePoly, Gen.Crc.Poly04c11db7TableBits)
  else if name == "IEEELE" then some (Gen.Crc.IEEELETable, Gen.Crc.IEEELETablePoly, Gen.Crc.IEEELETableBits)
  else none

/-! ## `valid` / `invalid` (`UintAssertBytes`, scalar.go:105-141; `requireUint`, decode_gen.go:921) -/

/-- `UintAssertBytes(s, false, endian, bs)` with one expected byte string: both endians compare the
    big endian value of `bs` (scalar.go:108-111); lengths other than 1,2,4,8 panic -/
def uintAssertBytes (actual : Nat) (bs : Bytes) : Option String :=
  if bs.length = 1 ∨ bs.length = 2 ∨ bs.length = 4 ∨ bs.length = 8 then
    some (if actual = beNat bs then "valid" else "invalid")
  else none

/-- `requireUint("validate", s, true, false, v)` -/
def uintValidate (actual expected : Nat) : String := if actual = expected then "valid" else "invalid"

/-! ## text fields -/

/-- lead byte of a multi byte UTF-8 sequence: (sequence length, accepted range of the second byte)
    (golang.org/x/text/internal/utf8internal First/AcceptRanges) -/
def utf8Lead (c : UInt8) : Option (Nat × UInt8 × UInt8) :=
  if 0xC2 ≤ c ∧ c ≤ 0xDF then some (2, 0x80, 0xBF)
  else if c = 0xE0 then some (3, 0xA0, 0xBF)
  else if (0xE1 ≤ c ∧ c ≤ 0xEC) ∨ c = 0xEE ∨ c = 0xEF then some (3, 0x80, 0xBF)
  else if c = 0xED then some (3, 0x80, 0x9F)
  else if c = 0xF0 then some (4, 0x90, 0xBF)
  else if 0xF1 ≤ c ∧ c ≤ 0xF3 then some (4, 0x80, 0xBF)
  else if c = 0xF4 then some (4, 0x80, 0x8F)
  else none

def isCB (c : UInt8) : Bool := 0x80 ≤ c && c ≤ 0xBF
def fffd : Bytes := [0xEF, 0xBF, 0xBD]

/-- x/text `utf8Decoder.Transform` (encoding/unicode/unicode.go): every maximal ill-formed subpart
    becomes U+FFFD; well formed input is copied -/
def utf8Replace : Nat → Bytes → Bytes
  | 0, _ => []
  | _, [] => []
  | fuel+1, c :: rest =>
    if c < 0x80 then c :: utf8Replace fuel rest else
    match utf8Lead c with
    | none => fffd ++ utf8Replace fuel rest
    | some (size, lo, hi) =>
      match rest with
      | [] => fffd
      | c1 :: r1 =>
        if c1 < lo ∨ hi < c1 then fffd ++ utf8Replace fuel rest
        else if size = 2 then c :: c1 :: utf8Replace fuel r1
        else match r1 with
          | [] => fffd
          | c2 :: r2 =>
            if !isCB c2 then fffd ++ utf8Replace fuel r1
            else if size = 3 then c :: c1 :: c2 :: utf8Replace fuel r2
            else match r2 with
              | [] => fffd
              | c3 :: r3 =>
                if !isCB c3 then fffd ++ utf8Replace fuel r2
                else c :: c1 :: c2 :: c3 :: utf8Replace fuel r3

/-- `unicode.UTF8BOM.NewDecoder().String` (read.go:127,145): a leading byte order mark is dropped -/
def utf8Text (bs : Bytes) : Bytes :=
  let bs := if bs.take 3 = [0xEF, 0xBB, 0xBF] then bs.drop 3 else bs
  utf8Replace bs.length bs

/-- bytes up to the first NUL (`tryTextNullLen`, read.go:202-221) -/
def cstr (bs : Bytes) : Bytes := bs.takeWhile (· != 0)

def isCut (b : UInt8) : Bool := b == 0x20 || b == 0
/-- `strings.Trim(s, " \x00")` on bytes -/
def trimCut (bs : Bytes) : Bytes := ((bs.dropWhile isCut).reverse.dropWhile isCut).reverse

def isWs (b : UInt8) : Bool := b == 0x20 || (9 ≤ b && b ≤ 13)
/-- `strings.TrimSpace` on ASCII -/
def trimWs (bs : Bytes) : Bytes := ((bs.dropWhile isWs).reverse.dropWhile isWs).reverse

def octAcc : Nat → Bytes → Option Nat
  | acc, [] => some acc
  | acc, b :: r => if 48 ≤ b.toNat ∧ b.toNat ≤ 55 then octAcc (acc * 8 + (b.toNat - 48)) r else none

/-- `TryStrSymParseUint(8)` (scalar.go:104-121): TrimSpace, then `strconv.ParseUint(s, 8, 64)`; `none` = no sym -/
def parseOct (bs : Bytes) : Option Nat :=
  let t := trimWs bs
  if t.isEmpty then none else
  match octAcc 0 t with
  | some v => if v < 2 ^ 64 then some v else none
  | none => none

/-- `k` octal digits of `n`, most significant first -/
def toOct : Nat → Nat → Bytes
  | 0, _ => []
  | k+1, n => UInt8.ofNat (48 + n / 8 ^ k % 8) :: toOct k n

/-- NUL padded text field of width `w` -/
def padNul (w : Nat) (s : Bytes) : Bytes := s ++ List.replicate (w - s.length) 0

/-- zero padded octal number with a terminating NUL in a field of width `w` (what tar writers emit) -/
def octField (w n : Nat) : Bytes := toOct (w - 1) n ++ [0]

/-! ## tar (`format/tar/tar.go`) -/

/-- `fieldNumber` (tar.go, after the base-256 repair): a numeric header field is octal text
    (`TryStrSymParseUint(8)` on the bytes up to the first NUL) unless its first byte has the high bit set; then it is a big
    endian base-256 number (GNU / star extension): high bit cleared, the last eight bytes are the value, which must be at most
    `math.MaxInt64` with all bytes before them zero; otherwise there is no symbolic value -/
def tarNum (f : Bytes) : Option Nat :=
  match f with
  | [] => parseOct (cstr [])
  | b :: r =>
    if b.toNat < 128 then parseOct (cstr f) else
    let bs := UInt8.ofNat (b.toNat % 128) :: r
    let n := beNat (bs.drop (bs.length - 8))
    if n < 2 ^ 63 ∧ (bs.take (bs.length - 8)).all (· == 0) then some n else none

/-- a 12 byte numeric field in base-256 -/
def b256Field (n : Nat) : Bytes := 0x80 :: toBE 11 n

structure TarEntry where
  name : Bytes
  mode : Option Nat
  uid : Option Nat
  gid : Option Nat
  size : Nat
  mtime : Option Nat
  chksum : Option Nat
  typeflag : Bytes
  linkname : Bytes
  magic : Bytes
  version : Option Nat
  uname : Bytes
  gname : Bytes
  devmajor : Option Nat
  devminor : Option Nat
  pfx : Bytes
  hpad : Nat
  data : Bytes
  dpad : Nat
deriving Repr, DecidableEq

def blockPad (pos : Nat) : Nat := (512 - pos % 512) % 512

def ustar : Bytes := [0x75, 0x73, 0x74, 0x61, 0x72]

/-- one `file` struct at byte position `pos`; `none` = the decode fails (read past the end, size
    without octal value, magic assertion) -/
def parseTarEntry (pos : Nat) (bs : Bytes) : Option (TarEntry × Bytes) := do
  let (name, bs) ← takeN 100 bs
  let (mode, bs) ← takeN 8 bs
  let (uid, bs) ← takeN 8 bs
  let (gid, bs) ← takeN 8 bs
  let (size, bs) ← takeN 12 bs
  let size ← tarNum size                      -- `could not decode size`
  let (mtime, bs) ← takeN 12 bs
  let (chksum, bs) ← takeN 8 bs
  let (typeflag, bs) ← takeN 1 bs
  let (linkname, bs) ← takeN 100 bs
  let (magic, bs) ← takeN 6 bs
  if trimCut magic ≠ ustar then none else     -- tar.go:73 StrAssert("ustar")
  let (version, bs) ← takeN 2 bs
  let (uname, bs) ← takeN 32 bs
  let (gname, bs) ← takeN 32 bs
  let (devmajor, bs) ← takeN 8 bs
  let (devminor, bs) ← takeN 8 bs
  let (pfx, bs) ← takeN 155 bs
  let hp := blockPad (pos + 500)
  let (_, bs) ← takeN hp bs
  let (data, bs) ← takeN size bs
  let dp := blockPad (pos + 500 + hp + size)
  let (_, bs) ← takeN dp bs
  pure ({ name := trimCut name, mode := tarNum mode, uid := tarNum uid, gid := tarNum gid,
          size := size, mtime := tarNum mtime, chksum := parseOct (cstr chksum), typeflag := trimCut typeflag,
          linkname := trimCut linkname, magic := trimCut magic, version := parseOct (cstr version),
          uname := trimCut uname, gname := trimCut gname, devmajor := tarNum devmajor,
          devminor := tarNum devminor, pfx := trimCut pfx, hpad := hp, data := data, dpad := dp }, bs)

def allZero (bs : Bytes) : Bool := bs.all (· == 0)

/-- number of further whole zero blocks (tar.go:92-94) -/
def zeroBlocks : Nat → Bytes → Nat
  | 0, _ => 0
  | fuel+1, bs => if bs.length ≥ 512 ∧ allZero (bs.take 512) then 1 + zeroBlocks fuel (bs.drop 512) else 0

structure TarResult where
  files : List TarEntry
  endMarker : Option Nat      -- bytes of the end marker field, when present
  err : Bool
deriving Repr, DecidableEq

/-- the `files` loop (tar.go:46-99); `fuel` bounds the number of entries (each consumes >= 500 bytes) -/
def parseTarLoop : Nat → Nat → Bytes → List TarEntry → TarResult
  | 0, _, _, acc => ⟨acc.reverse, none, true⟩
  | fuel+1, pos, bs, acc =>
    if bs.isEmpty then ⟨acc.reverse, none, false⟩ else      -- for !d.End()
    match parseTarEntry pos bs with
    | none => ⟨acc.reverse, none, true⟩
    | some (e, rest) =>
      if rest.length ≥ 1024 ∧ allZero (rest.take 1024) then
        ⟨(e :: acc).reverse, some (1024 + 512 * zeroBlocks (rest.length / 512) (rest.drop 1024)), false⟩
      else parseTarLoop fuel (pos + (bs.length - rest.length)) rest (e :: acc)

def parseTar (bs : Bytes) : TarResult :=
  let r := parseTarLoop (bs.length / 500 + 1) 0 bs []
  if r.files.isEmpty then { r with err := true } else r      -- tar.go:104 `no files found`

/-- what goes into a header, in the writer's terms -/
structure TarMember where
  name : Bytes
  mode : Nat
  uid : Nat
  gid : Nat
  mtime : Nat
  chksum : Nat
  typeflag : UInt8
  linkname : Bytes
  version : Nat
  uname : Bytes
  gname : Bytes
  devmajor : Nat
  devminor : Nat
  pfx : Bytes
  data : Bytes
  b256 : Bool := false      -- the writer stores the size in base-256 (it must, from 8 GiB on)
deriving Repr, DecidableEq

def tarSizeField (m : TarMember) : Bytes := if m.b256 then b256Field m.data.length else octField 12 m.data.length

def writeTarHeader (m : TarMember) : Bytes :=
  padNul 100 m.name ++ octField 8 m.mode ++ octField 8 m.uid ++ octField 8 m.gid ++ tarSizeField m ++
  octField 12 m.mtime ++ octField 8 m.chksum ++ [m.typeflag] ++ padNul 100 m.linkname ++ padNul 6 ustar ++
  octField 2 m.version ++ padNul 32 m.uname ++ padNul 32 m.gname ++ octField 8 m.devmajor ++ octField 8 m.devminor ++
  padNul 155 m.pfx ++ List.replicate 12 0

def writeTarMember (m : TarMember) : Bytes :=
  writeTarHeader m ++ m.data ++ List.replicate (blockPad m.data.length) 0

def writeTar (ms : List TarMember) : Bytes :=
  (ms.flatMap writeTarMember) ++ List.replicate 1024 0

/-- the entry fq must report for a member -/
def TarMember.entry (m : TarMember) : TarEntry :=
  { name := m.name, mode := some m.mode, uid := some m.uid, gid := some m.gid, size := m.data.length,
    mtime := some m.mtime, chksum := some m.chksum, typeflag := trimCut [m.typeflag], linkname := m.linkname,
    magic := ustar, version := some m.version, uname := m.uname, gname := m.gname,
    devmajor := some m.devmajor, devminor := some m.devminor, pfx := m.pfx, hpad := 12, data := m.data,
    dpad := blockPad m.data.length }

/-- header checksum as tar defines it: sum of the 512 header bytes with the chksum field read as spaces -/
def tarHeaderSum (hdr : Bytes) : Nat :=
  ((hdr.take 148).foldl (fun a b => a + b.toNat) 0) + 8 * 32 + (((hdr.drop 156).take 356).foldl (fun a b => a + b.toNat) 0)

/-! ## gzip member (`format/gzip/gzip.go:63-130`) -/

structure GzHeader where
  cm : Nat
  text : Bool
  hcrc : Bool
  extra : Bool
  name : Bool
  comment : Bool
  reserved : Nat
  mtime : Nat
  xfl : Nat
  os : Nat
  xlen : Option Nat
  extraBytes : Option Bytes
  nameStr : Option Bytes
  commentStr : Option Bytes
  hcrcBytes : Option Bytes
deriving Repr, DecidableEq

/-- `FieldUTF8Null`: bytes up to a NUL, consuming it; fails when there is no NUL (read.go:183-200) -/
def takeCStr : Bytes → Option (Bytes × Bytes)
  | [] => none
  | b :: r => if b == 0 then some ([], r) else
    match takeCStr r with
    | some (s, rest) => some (b :: s, rest)
    | none => none

/-- gzip.go:84-88 `if hasExtra { xlen; extra_fields }` -/
def gzOptExtra (flag : Bool) (bs : Bytes) : Option (Option Nat × Option Bytes × Bytes) :=
  if flag then
    match takeN 2 bs with
    | none => none
    | some (xl, bs) =>
      match takeN (leNat xl) bs with
      | none => none
      | some (e, bs) => some (some (leNat xl), some e, bs)
  else some (none, none, bs)

/-- gzip.go:89-94 `if hasName { FieldUTF8Null }` -/
def gzOptStr (flag : Bool) (bs : Bytes) : Option (Option Bytes × Bytes) :=
  if flag then
    match takeCStr bs with
    | none => none
    | some (s, bs) => some (some s, bs)
  else some (none, bs)

/-- gzip.go:95-98 `if hasHeaderCRC { FieldRawLen 16 }` (not validated by fq) -/
def gzOptRaw2 (flag : Bool) (bs : Bytes) : Option (Option Bytes × Bytes) :=
  if flag then
    match takeN 2 bs with
    | none => none
    | some (h, bs) => some (some h, bs)
  else some (none, bs)

/-- gzip.go:64-100. The FLG byte is read most significant bit first as
    text, header_crc, extra, name, comment, reserved(3) — the order the code has (RFC 1952 numbers
    the flags from the least significant bit: known finding `gzip-flags-bit-order`). -/
def parseGzHeader (bs : Bytes) : Option (GzHeader × Bytes) := do
  let (id, bs) ← takeN 2 bs
  if id ≠ [0x1f, 0x8b] then none else        -- AssertBitBuf
  let (cm, bs) ← takeN 1 bs
  let (flg, bs) ← takeN 1 bs
  let f := leNat flg
  let text := f.testBit 7
  let hcrc := f.testBit 6
  let extra := f.testBit 5
  let name := f.testBit 4
  let comment := f.testBit 3
  let reserved := f % 8
  let (mtime, bs) ← takeN 4 bs
  let (xfl, bs) ← takeN 1 bs
  let (os, bs) ← takeN 1 bs
  let (xlen, extraBytes, bs) ← gzOptExtra extra bs
  let (nameStr, bs) ← gzOptStr name bs
  let (commentStr, bs) ← gzOptStr comment bs
  let (hcrcBytes, bs) ← gzOptRaw2 hcrc bs
  pure ({ cm := leNat cm, text, hcrc, extra, name, comment, reserved, mtime := leNat mtime, xfl := leNat xfl, os := leNat os,
          xlen, extraBytes, nameStr, commentStr, hcrcBytes }, bs)

/-- what a gzip writer is given (RFC 1952 terms) -/
structure GzFields where
  text : Bool
  mtime : Nat
  xfl : Nat
  os : Nat
  extra : Option Bytes
  name : Option Bytes
  comment : Option Bytes
  hcrc : Option Bytes      -- the two CRC16 bytes, when the writer emits FHCRC
deriving Repr, DecidableEq

def b2n (b : Bool) : Nat := if b then 1 else 0

def encExtra : Option Bytes → Bytes
  | some e => toLE 2 e.length ++ e
  | none => []
def encCStr : Option Bytes → Bytes
  | some s => s ++ [0]
  | none => []
def encRaw : Option Bytes → Bytes
  | some c => c
  | none => []

def gzTail (h : GzFields) : Bytes := encExtra h.extra ++ encCStr h.name ++ encCStr h.comment ++ encRaw h.hcrc

/-- header as RFC 1952 lays it out: FTEXT=bit 0, FHCRC=1, FEXTRA=2, FNAME=3, FCOMMENT=4 -/
def writeGzHeaderRFC (h : GzFields) : Bytes :=
  [0x1f, 0x8b, 8,
   UInt8.ofNat (b2n h.text + 2 * b2n h.hcrc.isSome + 4 * b2n h.extra.isSome + 8 * b2n h.name.isSome + 16 * b2n h.comment.isSome)] ++
  toLE 4 h.mtime ++ [UInt8.ofNat h.xfl, UInt8.ofNat h.os] ++ gzTail h

/-- header in the bit order fq's decoder has (the writer that matches the decoder as it is) -/
def writeGzHeaderAsIs (h : GzFields) : Bytes :=
  [0x1f, 0x8b, 8,
   UInt8.ofNat (128 * b2n h.text + 64 * b2n h.hcrc.isSome + 32 * b2n h.extra.isSome + 16 * b2n h.name.isSome + 8 * b2n h.comment.isSome)] ++
  toLE 4 h.mtime ++ [UInt8.ofNat h.xfl, UInt8.ofNat h.os] ++ gzTail h

/-- the header fq must report for these fields -/
def GzFields.header (h : GzFields) : GzHeader :=
  { cm := 8, text := h.text, hcrc := h.hcrc.isSome, extra := h.extra.isSome, name := h.name.isSome, comment := h.comment.isSome,
    reserved := 0, mtime := h.mtime, xfl := h.xfl, os := h.os, xlen := h.extra.map (·.length), extraBytes := h.extra,
    nameStr := h.name, commentStr := h.comment, hcrcBytes := h.hcrc }

structure GzBody where
  clen : Nat
  crc : Nat
  crcDesc : String
  isize : Nat
  data : Bytes
deriving Repr, DecidableEq

/-- gzip.go:102-127 after the header. `inflate` stands for `flate.NewReader` behind
    `FieldReaderRange`: given the bytes from the current position it yields the number of bytes the
    deflate stream occupies and the decompressed bytes (library code, not modelled). -/
def parseGzBody (inflate : Bytes → Option (Nat × Bytes)) (cm : Nat) (bs : Bytes) : Option (GzBody × Bytes) := do
  if cm ≠ 8 then none else
  let (clen, data) ← inflate bs
  let (_, bs) ← takeN clen bs
  let (crc, bs) ← takeN 4 bs
  let desc ← uintAssertBytes (leNat crc) (toBE 4 (crc32 data).toNat)
  let (isize, bs) ← takeN 4 bs
  pure ({ clen, crc := leNat crc, crcDesc := desc, isize := leNat isize, data }, bs)

def writeGzTrailer (data : Bytes) : Bytes := toLE 4 (crc32 data).toNat ++ toLE 4 (data.length % 2 ^ 32)

/-! ## png (`format/png/png.go:84-238`) -/

structure Ihdr where
  width : Nat
  height : Nat
  bitDepth : Nat
  colorType : Nat
  compression : Nat
  filter : Nat
  interlace : Nat
deriving Repr, DecidableEq

structure PngChunk where
  length : Nat
  typ : Bytes
  ancillary : Bool
  priv : Bool
  reserved : Bool
  safeToCopy : Bool
  data : Bytes
  crc : Nat
  crcDesc : String
  ihdr : Option Ihdr
deriving Repr, DecidableEq

def pngSig : Bytes := [0x89, 0x50, 0x4e, 0x47, 0x0d, 0x0a, 0x1a, 0x0a]
def tIHDR : Bytes := [0x49, 0x48, 0x44, 0x52]
def tIEND : Bytes := [0x49, 0x45, 0x4e, 0x44]

def bit5 (b : UInt8) : Bool := b.toNat.testBit 5

def parseIHDR (d : Bytes) : Option Ihdr := do
  let (w, d) ← takeN 4 d
  let (h, d) ← takeN 4 d
  let (bd, d) ← takeN 1 d
  let (ct, d) ← takeN 1 d
  let (cm, d) ← takeN 1 d
  let (fm, d) ← takeN 1 d
  let (im, _) ← takeN 1 d
  pure ⟨beNat w, beNat h, beNat bd, beNat ct, beNat cm, beNat fm, beNat im⟩

/-- the IHDR fields are decoded inside the framed chunk data (png.go:104-118); too short = decode error -/
def pngIhdr (typ data : Bytes) : Option (Option Ihdr) :=
  if typ = tIHDR then
    match parseIHDR data with
    | some i => some (some i)
    | none => none
  else some none

/-- one chunk (png.go:88-234): length, type (+ the four case flags), framed data, crc over type+data -/
def parsePngChunk (bs : Bytes) : Option (PngChunk × Bytes) := do
  let (len, bs) ← takeN 4 bs
  let (typ, bs) ← takeN 4 bs
  let (data, bs) ← takeN (beNat len) bs
  let ihdr ← pngIhdr typ data
  let (crc, bs) ← takeN 4 bs
  let desc ← uintAssertBytes (beNat crc) (toBE 4 (crc32 (typ ++ data)).toNat)
  match typ with
  | [a, b, c, d] =>
    pure ({ length := beNat len, typ, ancillary := bit5 a, priv := bit5 b, reserved := bit5 c, safeToCopy := bit5 d,
            data, crc := beNat crc, crcDesc := desc, ihdr }, bs)
  | _ => none

structure PngResult where
  chunks : List PngChunk
  err : Bool
deriving Repr, DecidableEq

/-- `FieldStructArrayLoop("chunks", …, d.NotEnd() && !iEndFound, …)` -/
def parsePngLoop : Nat → Bytes → List PngChunk → PngResult
  | 0, _, acc => ⟨acc.reverse, true⟩
  | fuel+1, bs, acc =>
    if bs.isEmpty then ⟨acc.reverse, false⟩ else
    match parsePngChunk bs with
    | none => ⟨acc.reverse, true⟩
    | some (c, rest) => if c.typ = tIEND then ⟨(c :: acc).reverse, false⟩ else parsePngLoop fuel rest (c :: acc)

def parsePng (bs : Bytes) : Option PngResult :=
  match takeN 8 bs with
  | some (sig, rest) => if sig = pngSig then some (parsePngLoop (bs.length / 12 + 1) rest []) else none
  | none => none

def writePngChunk (typ data : Bytes) : Bytes :=
  toBE 4 data.length ++ typ ++ data ++ toBE 4 (crc32 (typ ++ data)).toNat

def writePng (cs : List (Bytes × Bytes)) : Bytes := pngSig ++ cs.flatMap (fun c => writePngChunk c.1 c.2)

/-- the chunk fq must report for (type, data) written with a correct crc -/
def pngChunkOf (typ data : Bytes) : PngChunk :=
  { length := data.length, typ, ancillary := bit5 (typ.getD 0 0), priv := bit5 (typ.getD 1 0), reserved := bit5 (typ.getD 2 0),
    safeToCopy := bit5 (typ.getD 3 0), data, crc := (crc32 (typ ++ data)).toNat, crcDesc := "valid",
    ihdr := if typ = tIHDR then parseIHDR data else none }

/-! ## ogg page (`format/ogg/ogg_page.go:24-63`) -/

structure OggPage where
  version : Nat
  unused : Nat
  last : Bool
  first : Bool
  continued : Bool
  granule : Nat
  serial : Nat
  seqNo : Nat
  crc : Nat
  crcDesc : String
  nseg : Nat
  segs : List Bytes
deriving Repr

def oggS : Bytes := [0x4f, 0x67, 0x67, 0x53]

def takeSegs : List Nat → Bytes → Option (List Bytes × Bytes)
  | [], bs => some ([], bs)
  | n :: ns, bs => do
    let (s, bs) ← takeN n bs
    let (ss, bs) ← takeSegs ns bs
    pure (s :: ss, bs)

def parseOggPage (bs : Bytes) : Option (OggPage × Bytes) := do
  let all := bs
  let (cp, bs) ← takeN 4 bs
  if cp ≠ oggS then none else
  let (ver, bs) ← takeN 1 bs
  if leNat ver ≠ 0 then none else          -- UintAssert(0)
  let (fl, bs) ← takeN 1 bs
  let f := leNat fl
  let (gp, bs) ← takeN 8 bs
  let (sn, bs) ← takeN 4 bs
  let (sq, bs) ← takeN 4 bs
  let (crc, bs) ← takeN 4 bs
  let (ns, bs) ← takeN 1 bs
  let (tab, bs) ← takeN (leNat ns) bs
  let (segs, rest) ← takeSegs (tab.map (·.toNat)) bs
  let plen := all.length - rest.length
  let page := all.take plen
  -- header before the checksum, four zero bytes, rest of the page (ogg_page.go:55-58)
  let covered := page.take 22 ++ [0, 0, 0, 0] ++ page.drop 26
  match crcWrite 32 Gen.Crc.Poly04c11db7Table 0 covered with
  | .panic => none
  | .ok cur =>
    let sum ← crcSum 32 cur
    let desc ← uintAssertBytes (leNat crc) sum
    pure ({ version := leNat ver, unused := f / 8, last := f.testBit 2, first := f.testBit 1, continued := f.testBit 0,
            granule := leNat gp, serial := leNat sn, seqNo := leNat sq, crc := leNat crc, crcDesc := desc,
            nseg := leNat ns, segs }, rest)

end FqModel.Container
