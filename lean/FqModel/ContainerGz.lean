import FqModel.Container
/-!
  C15 — the gzip member loop (`format/gzip/gzip.go:132-160` gzipDecode) over the member parser of `Container.lean`,
  a multi-member writer, and the FHCRC value RFC 1952 defines (fq shows the two bytes raw, gzip.go:95-98 `TODO: validate`).
-/
namespace FqModel.Container

/-- `for !d.End() { member }` (gzip.go:136-144): `none` = a member failed to decode (the whole decode is an error).
    Every member takes at least 18 bytes, `fuel` bounds their number. -/
def parseGzMembers (inflate : Bytes → Option (Nat × Bytes)) : Nat → Bytes → List (GzHeader × GzBody) → Option (List (GzHeader × GzBody))
  | 0, _, _ => none
  | fuel+1, bs, acc =>
    if bs.isEmpty then some acc.reverse else
    match parseGzHeader bs with
    | none => none
    | some (h, rest) =>
      match parseGzBody inflate h.cm rest with
      | none => none
      | some (b, rest') => parseGzMembers inflate fuel rest' ((h, b) :: acc)

/-- gzipDecode: the members and the root `uncompressed` = `bitio.NewMultiReader` over the members' payloads in order
    (gzip.go:150-157); no member at all is `no members found` (gzip.go:146-148) -/
def parseGzip (inflate : Bytes → Option (Nat × Bytes)) (bs : Bytes) : Option (List (GzHeader × GzBody) × Bytes) :=
  match parseGzMembers inflate (bs.length / 18 + 1) bs [] with
  | none => none
  | some ms => if ms.isEmpty then none else some (ms, ms.flatMap (·.2.data))

/-- what a writer puts into one member: header fields, the deflate bytes `z` it produced for `data` -/
structure GzMemberW where
  h : GzFields
  z : Bytes
  data : Bytes
deriving Repr, DecidableEq

def writeGzMember (m : GzMemberW) : Bytes := writeGzHeaderAsIs m.h ++ (m.z ++ writeGzTrailer m.data)

def writeGzip (ms : List GzMemberW) : Bytes := ms.flatMap writeGzMember

/-- the member fq must report -/
def GzMemberW.view (m : GzMemberW) : GzHeader × GzBody :=
  (m.h.header, { clen := m.z.length, crc := (crc32 m.data).toNat, crcDesc := "valid", isize := m.data.length % 2 ^ 32, data := m.data })

/-- the assumption about library code: at the start of every member's deflate stream, `flate.NewReader` on the rest of the
    file consumes exactly `z` and yields `data` -/
def InflOk (inflate : Bytes → Option (Nat × Bytes)) : List GzMemberW → Prop
  | [] => True
  | m :: ms => inflate (m.z ++ (writeGzTrailer m.data ++ writeGzip ms)) = some (m.z.length, m.data) ∧ InflOk inflate ms

/-- RFC 1952 2.3.1: CRC16 = the two least significant bytes of the CRC-32 of all header bytes before it -/
def gzHcrc16 (hdr : Bytes) : Bytes := toLE 2 ((crc32 hdr).toNat % 65536)

/-- the fields with FHCRC computed as the RFC says (the flag byte already has the FHCRC bit: `some []` adds no bytes) -/
def gzWithHcrc (h : GzFields) : GzFields := { h with hcrc := some (gzHcrc16 (writeGzHeaderAsIs { h with hcrc := some [] })) }

end FqModel.Container
