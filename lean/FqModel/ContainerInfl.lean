import FqModel.Zip
import FqModel.ContainerGz
import FqModel.ContainerPng
/-!
  C15 — what the decoders do with the OUTPUT of the inflater, whatever its size.

  `pkg/decode/decode.go:1186-1249` (`TryFieldReaderRangeFormat` / `FieldReaderRange` / `FieldFormatReaderLen`): the compressed
  range is wrapped in `fn` (`flate.NewReader`, `zlib.NewReader`), `io.ReadAll`-ed (`bitio.CopyBuffer` into a `bytes.Buffer`) and
  the whole output becomes the nested buffer shown as `uncompressed`; the consumed length is the position of the range reader
  afterwards.  Neither these functions nor their callers `format/gzip/gzip.go:102-127`, `format/zip/zip.go:453-490`,
  `format/png/png.go:120-151` put a bound on the output length or on output length / input length.  The inflater is a parameter
  of the models (`parseGzBody`, `zipBody`, `parseZlib`); this file adds the reader wrapper a "deflate bomb guard" would be
  (`io.LimitReader`) so that the theorems can say that NO such wrapper is between the inflater and the `uncompressed` field, and
  the expected report of the `swp` correspondence lines.
-/
namespace FqModel.Container

/-- `io.ReadAll(io.LimitReader(r, n))`: the first `n` bytes of what `r` yields, end of stream afterwards, never an error -/
def limitRead (n : Nat) (out : Bytes) : Bytes := out.take n

/-- an inflater behind `io.LimitReader(flate.NewReader(r), ratio * len(range))`.  How many input bytes the flate reader has
    consumed when the limit cuts it short is not determined by the output (`used'`: any function). -/
def limitInflate (ratio : Nat) (used' : Nat → Nat) (inflate : Bytes → Option (Nat × Bytes)) : Bytes → Option (Nat × Bytes) :=
  fun win => (inflate win).map (fun p =>
    if p.2.length ≤ ratio * win.length then p else (used' p.1, limitRead (ratio * win.length) p.2))

/-- the assumption about DEFLATE the witness theorems rest on (RFC 1951: a match copies up to 258 bytes and can cost 2 bits — a
    1-bit length code and a 1-bit distance code — so 258 * 8 / 2 = 1032 output bytes per input byte are approached by a long run
    of one byte value): some stream `z` inflates to more than 1000 times its length.  Not proved (inflate is not modelled);
    observed on every run by the `swp` lines (compress/flate level 6 on 2 MiB of one byte value: 2 053 bytes, ratio 1021). -/
def DeflateRatioExceeds (ratio : Nat) (inflate : Bytes → Option (Nat × Bytes)) : Prop :=
  ∃ z data, z ≠ [] ∧ inflate z = some (z.length, data) ∧ ratio * z.length < data.length

/-! ## expected report of a `swp` line (harness/cmd/c15/sweep.go) -/

/-- ground truth of one member: variant (`h` sizes in the header, `d` streamed with data descriptor, `s` stored, `g` gzip,
    `z` zlib in a png zTXt chunk), payload length, CRC-32 and MD5 of the payload, length of the compressed stream -/
structure SwpM where
  v : String
  len : Nat
  crc : Nat
  md5 : String
  clen : Nat
deriving Repr, DecidableEq

/-- gzip member as `GzMemberW.view` renders: compressed length, crc32 (valid), ISIZE = length mod 2^32, payload -/
def swpGz (m : SwpM) : List String :=
  ["M", toString m.clen, toString m.crc, "valid", toString (m.len % 2 ^ 32), toString m.len, m.md5]

/-- zip local file as `zipLocal` / `zipBody` render it: header fields as the writer laid them out (streamed: zeros in the header,
    the values in the data descriptor), `uncompressed` = the payload, `compressed` = the stream -/
def swpZipL (m : SwpM) : List String :=
  if m.v == "h" then ["L", "8", "0", toString m.crc, toString m.clen, toString m.len, toString m.len, m.md5, toString m.clen, "~", "~", "~"]
  else if m.v == "d" then ["L", "8", "1", "0", "0", "0", toString m.len, m.md5, toString m.clen, toString m.crc, toString m.clen, toString m.len]
  else ["L", "0", "0", toString m.crc, toString m.len, toString m.len, toString m.len, m.md5, "~", "~", "~", "~"]

def swpZipD (m : SwpM) : List String :=
  ["D", toString m.crc, toString (if m.v == "s" then m.len else m.clen), toString m.len]

/-- png zTXt chunk: chunk crc valid, `compressed` = the whole zlib stream, `uncompressed` = the payload (`ZlibOk.data`) -/
def swpPngZ (m : SwpM) : List String := ["Z", "valid", toString m.clen, toString m.len, m.md5]

def swpExpect (kind : String) (ms : List SwpM) (ulen : Nat) (umd5 : String) : Option (List String) :=
  if kind == "gzip" then some (["ok", toString ms.length] ++ ms.flatMap swpGz ++ ["U", toString ulen, umd5])
  else if kind == "zip" then some (["ok", toString ms.length] ++ ms.flatMap swpZipL ++ ms.flatMap swpZipD)
  else if kind == "png" then some (["ok"] ++ ms.flatMap swpPngZ)
  else none

/-- first position where the report differs from the expectation -/
def swpDiff : Nat → List String → List String → Option (Nat × String × String)
  | _, [], [] => none
  | i, [], g :: _ => some (i, "(nothing)", g)
  | i, w :: _, [] => some (i, w, "(nothing)")
  | i, w :: ws, g :: gs => if w == g then swpDiff (i+1) ws gs else some (i, w, g)

end FqModel.Container
